(** C12 — what IS rendered: exact text of comment / math nodes per option value,
    discarded constructs, and the positions of a tree through which the text of
    a node reaches the output unchanged ([covered]). *)
From Coq Require Import NArith ZArith List Bool Arith Lia.
From PLV Require Import Base.PyStr Tok.Tokenizer Parse.Nodes Parse.Parser L2T.L2T.
From PLV Require Import Proofs.L2TUnfold Proofs.L2TFilters Proofs.L2TFiltersFmt.
Import ListNotations.

(** * Contiguous substring *)
Definition infix (a b : str) : Prop := exists u v, b = u ++ a ++ v.

Lemma infix_refl : forall a, infix a a.
Proof. intros a. exists [], []. now rewrite app_nil_r. Qed.
Lemma infix_app_l : forall a b c, infix a b -> infix a (c ++ b).
Proof. intros a b c (u & v & ->). exists (c ++ u), v. now rewrite <- app_assoc. Qed.
Lemma infix_app_r : forall a b c, infix a b -> infix a (b ++ c).
Proof. intros a b c (u & v & ->). exists u, (v ++ c). now rewrite <- !app_assoc. Qed.
Lemma infix_cons : forall a b x, infix a b -> infix a (x :: b).
Proof. intros a b x H. exact (infix_app_l a b [x] H). Qed.
Lemma infix_prefix : forall a b, infix a (a ++ b).
Proof. intros a b. exists [], b. reflexivity. Qed.
Lemma infix_trans : forall a b c, infix a b -> infix b c -> infix a c.
Proof.
  intros a b c (u & v & ->) (u' & v' & ->). exists (u' ++ u), (v ++ v'). repeat rewrite <- app_assoc. reflexivity.
Qed.
Lemma infix_concat : forall a t l, In t l -> infix a t -> infix a (concat l).
Proof.
  intros a t l. induction l as [|x r IH]; intros Hin Ha; [contradiction|]. cbn [concat].
  destruct Hin as [->|Hin]; [now apply infix_app_r | apply infix_app_l; now apply IH].
Qed.

Lemma replace_nl_nil : forall x, replace_nl x [] = x.
Proof. induction x as [|c r IH]; cbn; [reflexivity|]. destruct (N.eqb_spec c 10) as [->|Hne]; cbn; now rewrite IH. Qed.
Lemma indented_block_nil : forall x, indented_block x [] = 10%N :: x ++ [10%N].
Proof. intros x. unfold indented_block. cbn [app]. now rewrite replace_nl_nil. Qed.

(** ** [strip()] and the indented block keep a substring that has no blank at
    its ends and no newline inside *)
Definition solid (w : str) : bool :=
  match w with a :: _ => negb (is_space a) | [] => false end
  && match rev w with b :: _ => negb (is_space b) | [] => false end
  && negb (mem_c 10 w).

Lemma strip_left_app : forall f u a r, f a = false ->
  strip_left f (u ++ a :: r) = strip_left f u ++ a :: r.
Proof.
  intros f u a r Ha. induction u as [|c u IH]; cbn [app strip_left]; [now rewrite Ha|].
  destruct (f c); [exact IH | reflexivity].
Qed.

Lemma infix_strip_left : forall f w x, match w with a :: _ => f a = false | [] => False end ->
  infix w x -> infix w (strip_left f x).
Proof.
  intros f w x Hw (u & v & ->). destruct w as [|a w']; [contradiction|].
  cbn [app]. rewrite strip_left_app by exact Hw. exists (strip_left f u), v. reflexivity.
Qed.

Lemma infix_rev : forall w x, infix w x -> infix (rev w) (rev x).
Proof.
  intros w x (u & v & ->). exists (rev v), (rev u). now rewrite !rev_app_distr, <- app_assoc.
Qed.

Lemma infix_strip : forall w x, solid w = true -> infix w x -> infix w (py_strip x).
Proof.
  intros w x Hs Hi. unfold solid in Hs. apply andb_prop in Hs. destruct Hs as [Hs _].
  apply andb_prop in Hs. destruct Hs as [Hf Hl].
  unfold py_strip, strip, strip_right.
  rewrite <- (rev_involutive w). apply infix_rev. apply infix_strip_left.
  - destruct (rev w) as [|b r]; [discriminate|]. now apply negb_true_iff in Hl.
  - apply infix_rev. apply infix_strip_left; [|exact Hi].
    destruct w as [|a r]; [discriminate|]. now apply negb_true_iff in Hf.
Qed.

Lemma replace_nl_app : forall a b ind, replace_nl (a ++ b) ind = replace_nl a ind ++ replace_nl b ind.
Proof.
  intros a b ind. induction a as [|c a IH]; [reflexivity|]. cbn [app replace_nl].
  destruct (N.eqb c 10); cbn [app]; rewrite IH; [|reflexivity]. now rewrite <- app_assoc.
Qed.
Lemma replace_nl_no_nl : forall w ind, mem_c 10 w = false -> replace_nl w ind = w.
Proof.
  intros w ind. unfold mem_c. induction w as [|c w IH]; [reflexivity|]. cbn [existsb replace_nl].
  intros H. apply orb_false_iff in H. destruct H as [Hc Hw]. rewrite N.eqb_sym in Hc. rewrite Hc.
  now rewrite IH.
Qed.
Lemma infix_replace_nl : forall w x ind, mem_c 10 w = false -> infix w x -> infix w (replace_nl x ind).
Proof.
  intros w x ind Hw (u & v & ->). rewrite !replace_nl_app, (replace_nl_no_nl w ind Hw).
  now exists (replace_nl u ind), (replace_nl v ind).
Qed.
Lemma infix_indented_block : forall w x ind, solid w = true -> infix w x -> infix w (indented_block x ind).
Proof.
  intros w x ind Hs Hi. unfold indented_block. apply infix_cons, infix_app_l, infix_app_r.
  apply infix_replace_nl; [|exact Hi]. unfold solid in Hs. apply andb_prop in Hs. destruct Hs as [_ Hn].
  now apply negb_true_iff in Hn.
Qed.

(** ** positional %-formatting: when the template has exactly as many [%s] as
    there are values (and no [%(key)s]) it succeeds and every value is in the result *)
Definition not_fkey (i : fmtitem) : bool := match i with FKey _ => false | _ => true end.
Definition tuple_ok (items : list fmtitem) (n : nat) : bool :=
  forallb not_fkey items && Nat.eqb (length (filter is_fpos items)) n.

Lemma fmt_tuple_total : forall items ts, tuple_ok items (length ts) = true ->
  exists r, fmt_tuple items ts = Some r /\ forall t, In t ts -> infix t r.
Proof.
  unfold tuple_ok. induction items as [|it items IH]; intros ts H.
  - apply andb_prop in H. destruct H as [_ H]. apply Nat.eqb_eq in H. cbn in H.
    destruct ts; [|discriminate]. exists []. split; [reflexivity | intros t []].
  - apply andb_prop in H. destruct H as [Hk Hn]. cbn [forallb] in Hk. apply andb_prop in Hk.
    destruct Hk as [Hk1 Hk]. destruct it as [c| |k]; [| |discriminate].
    + cbn [filter is_fpos] in Hn. destruct (IH ts) as (r & Hr & Hin); [now rewrite Hk, Hn|].
      exists (c :: r). cbn [fmt_tuple]. rewrite Hr. split; [reflexivity|].
      intros t Ht. now apply infix_cons, Hin.
    + cbn [filter is_fpos length] in Hn. destruct ts as [|a ts]; [discriminate|]. cbn [length] in Hn.
      destruct (IH ts) as (r & Hr & Hin); [now rewrite Hk; exact Hn|].
      exists (a ++ r). cbn [fmt_tuple]. rewrite Hr. split; [reflexivity|].
      intros t [<-|Ht]; [apply infix_prefix | now apply infix_app_l, Hin].
Qed.

Lemma tuple_ok_pos : forall items n, tuple_ok items (S n) = true -> existsb is_fpos items = true.
Proof.
  unfold tuple_ok. intros items n H. apply andb_prop in H. destruct H as [_ H]. apply Nat.eqb_eq in H.
  induction items as [|it items IH] in n, H |- *; [discriminate|]. cbn [filter existsb] in *.
  destruct (is_fpos it); [reflexivity|]. now apply (IH n).
Qed.

(** a replacement string goes through %-formatting when it contains ['%'] and is not just ["%"] *)
Definition tmpl_active (tmpl : str) : bool := mem_c 37 tmpl && negb (Nat.eqb (length tmpl) 1).

(** * Exact text of the filtered node classes *)
Section Exact.
  Variable src : str.
  Variable lt : l2tctx.
  Variable cx : context.
  Variable o : opts.
  Let nt := node_text src lt cx o.

  Lemma comment_text_kept : o_keep_comments o = true -> forall sl st p e m c ps,
    nt sl st (NComment p e m c ps)
    = (37%N :: c ++ (if s_ac sl then match ps with [] => [] | _ => [10%N] end else ps), st).
  Proof.
    intros Hk sl st p e m c ps. unfold nt. rewrite node_text_step. cbn [node_step]. rewrite Hk.
    destruct (s_ac sl); reflexivity.
  Qed.

  Lemma comment_text_dropped : o_keep_comments o = false -> forall sl st p e m c ps,
    nt sl st (NComment p e m c ps) = (if s_ac sl then [] else ps, st).
  Proof.
    intros Hk sl st p e m c ps. unfold nt. rewrite node_text_step. cbn [node_step]. now rewrite Hk.
  Qed.

  Lemma math_text_remove : o_math o = MMRemove -> forall sl st p e m d dl dr b,
    nt sl st (NMath p e m d dl dr b) = ([], st).
  Proof.
    intros Hm sl st p e m d dl dr b. unfold nt. rewrite node_text_step. cbn [node_step].
    unfold math_text_g. now rewrite Hm.
  Qed.

  Lemma math_text_verbatim : o_math o = MMVerbatim -> forall sl st p e m d dl dr b,
    nt sl st (NMath p e m d dl dr b)
    = (if d then 10%N :: slice src p e ++ [10%N] else slice src p e, st).
  Proof.
    intros Hm sl st p e m d dl dr b. unfold nt. rewrite node_text_step. cbn [node_step].
    unfold math_text_g. rewrite Hm. cbn [orb]. now rewrite indented_block_nil.
  Qed.

  Lemma math_text_with_delims : o_math o = MMWithDelims -> forall sl st p e m d dl dr b,
    nt sl st (NMath p e m d dl dr b)
    = (let c := py_strip (fst (body_text src lt cx o (push_eq sl) st b)) in
       dl ++ (if d then 10%N :: c ++ [10%N] else c) ++ dr,
       snd (body_text src lt cx o (push_eq sl) st b)).
  Proof.
    intros Hm sl st p e m d dl dr b. unfold nt. rewrite node_text_step. cbn [node_step].
    unfold math_text_g. rewrite Hm. cbn [orb]. unfold body_text.
    destruct (body_text_g (node_text src lt cx o) (push_eq sl) st b) as [c st1]. cbn [fst snd].
    destruct d; [now rewrite indented_block_nil | reflexivity].
  Qed.

  Lemma math_text_text : o_math o = MMText -> forall sl st p e m d dl dr b,
    nt sl st (NMath p e m d dl dr b)
    = (let c := py_strip (fst (body_text src lt cx o (push_eq sl) st b)) in
       if d then indented_block c indent4 else c,
       snd (body_text src lt cx o (push_eq sl) st b)).
  Proof.
    intros Hm sl st p e m d dl dr b. unfold nt. rewrite node_text_step. cbn [node_step].
    unfold math_text_g. rewrite Hm. cbn [orb]. unfold body_text.
    destruct (body_text_g (node_text src lt cx o) (push_eq sl) st b) as [c st1]. reflexivity.
  Qed.

  (** environments rendered by [fmt_equation_environment] *)
  Definition begin_of (nm : str) : str := [92;98;101;103;105;110;123]%N ++ nm ++ [125%N].
  Definition end_of (nm : str) : str := [92;101;110;100;123]%N ++ nm ++ [125%N].

  Lemma eqenv_step : forall nm, is_eqenv lt nm = true -> forall sl st p e m a b,
    nt sl st (NEnv p e m nm a b)
    = math_text_g src o nt sl st true false p e (begin_of nm) (end_of nm) b.
  Proof.
    intros nm Hq sl st p e m a b. unfold nt. rewrite node_text_step. cbn [node_step].
    unfold is_eqenv in Hq. unfold generic_g.
    destruct (assoc (lt_envs lt) nm) as [t|]; [|discriminate].
    destruct (t_repl t) as [| |c]; try discriminate. destruct c; try discriminate.
    unfold call_repl_g. destruct (legacy_idx a) as [oi off]. reflexivity.
  Qed.

  Lemma eqenv_text_remove : o_math o = MMRemove -> forall nm, is_eqenv lt nm = true ->
    forall sl st p e m a b, nt sl st (NEnv p e m nm a b) = ([], st).
  Proof.
    intros Hm nm Hq sl st p e m a b. rewrite (eqenv_step nm Hq). unfold math_text_g. now rewrite Hm.
  Qed.

  Lemma eqenv_text_verbatim : o_math o = MMVerbatim -> forall nm, is_eqenv lt nm = true ->
    forall sl st p e m a b, nt sl st (NEnv p e m nm a b) = (10%N :: slice src p e ++ [10%N], st).
  Proof.
    intros Hm nm Hq sl st p e m a b. rewrite (eqenv_step nm Hq). unfold math_text_g. rewrite Hm.
    cbn [orb]. now rewrite indented_block_nil.
  Qed.

  Lemma eqenv_text_with_delims : o_math o = MMWithDelims -> forall nm, is_eqenv lt nm = true ->
    forall sl st p e m a b,
    nt sl st (NEnv p e m nm a b)
    = (begin_of nm ++ (10%N :: py_strip (fst (body_text src lt cx o (push_eq sl) st b)) ++ [10%N]) ++ end_of nm,
       snd (body_text src lt cx o (push_eq sl) st b)).
  Proof.
    intros Hm nm Hq sl st p e m a b. rewrite (eqenv_step nm Hq). unfold math_text_g. rewrite Hm.
    cbn [orb]. unfold body_text. fold nt.
    destruct (body_text_g nt (push_eq sl) st b) as [c st1]. cbn [fst snd].
    now rewrite indented_block_nil.
  Qed.

  (** ** discarded constructs *)
  Definition no_repl (r : repl) : bool :=
    match r with RNone | RStr [] => true | _ => false end.

  (** a macro with no text spec at all, or with no replacement and [discard = True] *)
  Definition macro_discarded (nm : str) : bool :=
    match assoc (lt_macros lt) nm with
    | None => true
    | Some t => no_repl (t_repl t) && t_discard t
    end.
  (** an environment with a text spec that has no replacement and [discard = True]
      (an environment WITHOUT a text spec renders its body) *)
  Definition env_discarded (nm : str) : bool :=
    match assoc (lt_envs lt) nm with
    | None => false
    | Some t => no_repl (t_repl t) && t_discard t
    end.
  Definition specials_discarded (ch : str) : bool :=
    match assoc (lt_specials lt) ch with
    | None => false
    | Some t => no_repl (t_repl t) && t_discard t
    end.

  Lemma generic_discard : forall ts dd,
    match ts with None => dd | Some t => no_repl (t_repl t) && t_discard t end = true ->
    forall sl st nn a k eb, generic_g src lt o nt sl st ts dd nn a k eb = ([], st).
  Proof.
    intros ts dd H sl st nn a k eb. unfold generic_g. destruct ts as [t|].
    - apply andb_prop in H. destruct H as [Hr Hd]. rewrite Hd.
      destruct (t_repl t) as [|[|c0 tl]|c]; try discriminate; reflexivity.
    - now rewrite H.
  Qed.

  Lemma macro_discard : forall nm, macro_discarded nm = true -> forall sl st p e m ps a,
    nt sl st (NMacro p e m nm ps a) = ([], st).
  Proof.
    intros nm H sl st p e m ps a. unfold nt. rewrite node_text_step. cbn [node_step].
    apply generic_discard. unfold macro_discarded in H. now destruct (assoc (lt_macros lt) nm).
  Qed.

  Lemma env_discard : forall nm, env_discarded nm = true -> forall sl st p e m a b,
    nt sl st (NEnv p e m nm a b) = ([], st).
  Proof.
    intros nm H sl st p e m a b. unfold nt. rewrite node_text_step. cbn [node_step].
    apply generic_discard. unfold env_discarded in H. now destruct (assoc (lt_envs lt) nm).
  Qed.

  Lemma specials_discard : forall ch, specials_discarded ch = true -> forall sl st p e m a,
    nt sl st (NSpecials p e m ch a) = ([], st).
  Proof.
    intros ch H sl st p e m a. unfold nt. rewrite node_text_step. cbn [node_step].
    unfold specials_discarded in H. destruct (assoc (lt_specials lt) ch) as [t|]; [|discriminate].
    now apply generic_discard.
  Qed.

  (** * Positions through which a node's text reaches the output unchanged *)

  (** environment whose rendering is the rendering of its body *)
  Definition env_transparent (nm : str) : bool :=
    match assoc (lt_envs lt) nm with
    | None => true
    | Some t => no_repl (t_repl t) && negb (t_discard t)
    end.
  (** macro / specials whose rendering is the concatenation of its argument texts *)
  Definition macro_concat (nm : str) : bool :=
    match assoc (lt_macros lt) nm with
    | None => false
    | Some t => no_repl (t_repl t) && negb (t_discard t)
    end.
  Definition specials_concat (ch : str) : bool :=
    match assoc (lt_specials lt) ch with
    | None => false
    | Some t => no_repl (t_repl t) && negb (t_discard t)
    end.

  (** macro / specials / environment rendered through a positional template that
      has exactly one [%s] per argument slot (per body, for an environment) *)
  Definition tmpl_pos_ok (ts : option tspec) (n : nat) : bool :=
    match ts with
    | Some t => match t_repl t with
                | RStr tmpl => tmpl_active tmpl
                               && match parse_fmt (S (length tmpl)) tmpl with
                                  | Some items => tuple_ok items n
                                  | None => false end
                | _ => false end
    | None => false
    end.
  Definition macro_tmpl_pos (nm : str) (nargs : nat) : bool :=
    tmpl_pos_ok (assoc (lt_macros lt) nm) (Nat.max nargs (nslots_of (get_macro_spec cx nm))).
  Definition specials_tmpl_pos (ch : str) (nargs : nat) : bool :=
    tmpl_pos_ok (assoc (lt_specials lt) ch) (Nat.max nargs (nslots_of (get_specials_spec cx ch))).
  Definition env_tmpl_pos (nm : str) : bool := tmpl_pos_ok (assoc (lt_envs lt) nm) 1.

  Lemma args_texts_length : forall l sl st, length (fst (args_texts_g nt sl st l)) = length l.
  Proof.
    induction l as [|a r IH]; intros sl st; [reflexivity|]. rewrite args_texts_cons.
    destruct (arg_text_g nt sl st a) as [t0 st1]. specialize (IH sl st1).
    destruct (args_texts_g nt sl st1 r) as [ts st2]. cbn [fst length] in *. now rewrite IH.
  Qed.

  Lemma generic_tmpl_pos_args : forall ts dd nn a k sl st,
    tmpl_pos_ok ts (Nat.max (length (argn_of a)) k) = true -> 1 <= length (argn_of a) ->
    exists r, fst (generic_g src lt o nt sl st ts dd nn a k None) = r
              /\ forall tx, In tx (fst (atexts_g nt sl st a)) -> infix tx r.
  Proof.
    intros ts dd nn a k sl st Hok Hlen. unfold tmpl_pos_ok in Hok.
    destruct ts as [t0|]; [|discriminate]. unfold generic_g.
    destruct (t_repl t0) as [|tmpl|c]; try discriminate.
    apply andb_prop in Hok. destruct Hok as [Hact Hok].
    destruct (parse_fmt (S (length tmpl)) tmpl) as [items|] eqn:Ep; [|discriminate].
    destruct tmpl as [|c0 tl]; [discriminate|].
    unfold str_repl_g. unfold tmpl_active in Hact. rewrite Hact, Ep.
    assert (Hpos : existsb (fun i => match i with FPos => true | _ => false end) items = true).
    { destruct (Nat.max (length (argn_of a)) k) as [|n] eqn:En; [lia|]. exact (tuple_ok_pos items n Hok). }
    rewrite Hpos.
    assert (Hl : length (fst (atexts_g nt sl st a)) = length (argn_of a)).
    { destruct a as [[sp l]|]; [apply args_texts_length | reflexivity]. }
    destruct (atexts_g nt sl st a) as [ts0 st1]. cbn [fst] in *.
    set (ts1 := ts0 ++ repeat [] (k - length ts0)).
    assert (Hl1 : length ts1 = Nat.max (length (argn_of a)) k).
    { unfold ts1. rewrite app_length, repeat_length. lia. }
    rewrite <- Hl1 in Hok. destruct (fmt_tuple_total items ts1 Hok) as (r & Hr & Hin).
    exists r. rewrite Hr. split; [reflexivity|]. intros tx Htx. apply Hin. unfold ts1. apply in_or_app. now left.
  Qed.

  Lemma generic_tmpl_pos_body : forall ts dd nn a k b sl st,
    tmpl_pos_ok ts 1 = true ->
    infix (fst (body_text_g nt sl st b)) (fst (generic_g src lt o nt sl st ts dd nn a k (Some b))).
  Proof.
    intros ts dd nn a k b sl st Hok. unfold tmpl_pos_ok in Hok.
    destruct ts as [t0|]; [|discriminate]. unfold generic_g.
    destruct (t_repl t0) as [|tmpl|c]; try discriminate.
    apply andb_prop in Hok. destruct Hok as [Hact Hok].
    destruct (parse_fmt (S (length tmpl)) tmpl) as [items|] eqn:Ep; [|discriminate].
    destruct tmpl as [|c0 tl]; [discriminate|].
    unfold str_repl_g. unfold tmpl_active in Hact. rewrite Hact, Ep.
    assert (Hpos : existsb (fun i => match i with FPos => true | _ => false end) items = true)
      by exact (tuple_ok_pos items 0 Hok).
    rewrite Hpos.
    destruct (body_text_g nt sl st b) as [bt st1]. cbn [fst].
    destruct (fmt_tuple_total items [bt] Hok) as (r & Hr & Hin). rewrite Hr. cbn [fst].
    apply Hin. now left.
  Qed.

  (** macro / specials rendered through a template with [%(n)s] keys, all of them
      within the available slots, one of them the key of argument [i] *)
  Definition tmpl_key_ok (ts : option tspec) (n i : nat) : bool :=
    match ts with
    | Some t => match t_repl t with
                | RStr tmpl => tmpl_active tmpl
                               && match parse_fmt (S (length tmpl)) tmpl with
                                  | Some items => dict_ok items n && existsb (is_key (key_of_nat (S i))) items
                                  | None => false end
                | _ => false end
    | None => false
    end.
  Definition macro_tmpl_key (nm : str) (nargs i : nat) : bool :=
    tmpl_key_ok (assoc (lt_macros lt) nm) (Nat.max nargs (nslots_of (get_macro_spec cx nm))) i.
  Definition specials_tmpl_key (ch : str) (nargs i : nat) : bool :=
    tmpl_key_ok (assoc (lt_specials lt) ch) (Nat.max nargs (nslots_of (get_specials_spec cx ch))) i.

  Lemma generic_tmpl_key_args : forall ts dd nn a k i sl st,
    tmpl_key_ok ts (Nat.max (length (argn_of a)) k) i = true -> i < length (argn_of a) ->
    infix (nth i (fst (atexts_g nt sl st a)) []) (fst (generic_g src lt o nt sl st ts dd nn a k None)).
  Proof.
    intros ts dd nn a k i sl st Hok Hi. unfold tmpl_key_ok in Hok.
    destruct ts as [t0|]; [|discriminate]. unfold generic_g.
    destruct (t_repl t0) as [|tmpl|c]; try discriminate.
    apply andb_prop in Hok. destruct Hok as [Hact Hok].
    destruct (parse_fmt (S (length tmpl)) tmpl) as [items|] eqn:Ep; [|discriminate].
    apply andb_prop in Hok. destruct Hok as [Hd Hk].
    destruct tmpl as [|c0 tl]; [discriminate|].
    unfold str_repl_g. unfold tmpl_active in Hact. rewrite Hact, Ep.
    rewrite (dict_ok_nopos items _ Hd).
    assert (Hl : length (fst (atexts_g nt sl st a)) = length (argn_of a)).
    { destruct a as [[sp l]|]; [apply args_texts_length | reflexivity]. }
    destruct (atexts_g nt sl st a) as [ts0 st1]. cbn [fst] in *.
    set (ts1 := ts0 ++ repeat [] (k - length ts0)).
    assert (Hl1 : length ts1 = Nat.max (length (argn_of a)) k).
    { unfold ts1. rewrite app_length, repeat_length. lia. }
    rewrite <- Hl1 in Hd. destruct (fmt_dict_total items ts1 Hd) as (r & Hr & Hin).
    change (combine (map (fun i0 => key_of_nat (S i0)) (seq 0 (length ts1))) ts1)
      with (combine (fmt_keys 0 (length ts1)) ts1).
    rewrite Hr. cbn [fst].
    replace (nth i ts0 []) with (nth i ts1 []) by (unfold ts1; apply app_nth1; lia).
    apply Hin; [lia|]. now apply existsb_is_key.
  Qed.

  Section Covered.
    Variable thru_math : bool.       (* also follow bodies of formulas in the modes that render them *)
    Variable leaf : node -> Prop.

    Inductive covered : node -> Prop :=
    | cov_leaf : forall n, leaf n -> covered n
    | cov_list : forall p e l x, In (Some x) l -> covered x -> covered (NList p e l)
    | cov_group : forall p e m dl dr bp be l x,
        In (Some x) l -> covered x -> covered (NGroup p e m dl dr (Some (NList bp be l)))
    | cov_env : forall p e m nm a bp be l x, env_transparent nm = true ->
        In (Some x) l -> covered x -> covered (NEnv p e m nm a (Some (NList bp be l)))
    | cov_macro : forall p e m nm ps sp l x, macro_concat nm = true ->
        In (Some x) l -> covered x -> covered (NMacro p e m nm ps (Some (sp, l)))
    | cov_specials : forall p e m ch sp l x, specials_concat ch = true ->
        In (Some x) l -> covered x -> covered (NSpecials p e m ch (Some (sp, l)))
    | cov_macro_tmpl : forall p e m nm ps sp l x, macro_tmpl_pos nm (length l) = true ->
        In (Some x) l -> covered x -> covered (NMacro p e m nm ps (Some (sp, l)))
    | cov_specials_tmpl : forall p e m ch sp l x, specials_tmpl_pos ch (length l) = true ->
        In (Some x) l -> covered x -> covered (NSpecials p e m ch (Some (sp, l)))
    | cov_macro_key : forall p e m nm ps sp l i x, macro_tmpl_key nm (length l) i = true ->
        nth_error l i = Some (Some x) -> covered x -> covered (NMacro p e m nm ps (Some (sp, l)))
    | cov_specials_key : forall p e m ch sp l i x, specials_tmpl_key ch (length l) i = true ->
        nth_error l i = Some (Some x) -> covered x -> covered (NSpecials p e m ch (Some (sp, l)))
    | cov_env_tmpl : forall p e m nm a bp be l x, env_tmpl_pos nm = true ->
        In (Some x) l -> covered x -> covered (NEnv p e m nm a (Some (NList bp be l)))
    | cov_math : forall p e m d dl dr bp be l x, thru_math = true -> math_blind o = false ->
        In (Some x) l -> covered x -> covered (NMath p e m d dl dr (Some (NList bp be l)))
    | cov_eqenv : forall p e m nm a bp be l x, thru_math = true -> math_blind o = false ->
        is_eqenv lt nm = true ->
        In (Some x) l -> covered x -> covered (NEnv p e m nm a (Some (NList bp be l))).

    Variable w : str.
    Hypothesis Hsolid : thru_math = true -> solid w = true.
    Hypothesis Hleaf : forall x, leaf x -> forall sl st,
      infix w (fst (nt sl st x)) /\ infix w (fst (arg_text_g nt sl st (Some x))).

    Lemma items_infix : forall l x, In (Some x) l -> (forall sl st, infix w (fst (nt sl st x))) ->
      forall sl st prev, infix w (fst (items_text_g nt sl st prev l)).
    Proof.
      induction l as [|y r IH]; intros x Hin Hx sl st prev; [contradiction|].
      rewrite items_text_cons. destruct Hin as [->|Hin].
      - cbn [single_text_g]. specialize (Hx sl st). destruct (nt sl st x) as [t1 st1].
        destruct (items_text_g nt sl st1 (Some x) r) as [t2 st2]. cbn [fst] in *.
        apply infix_app_l. now apply infix_app_r.
      - destruct (single_text_g nt sl st y) as [t1 st1].
        specialize (IH x Hin Hx sl st1 y). destruct (items_text_g nt sl st1 y r) as [t2 st2]. cbn [fst] in *.
        apply infix_app_l. now apply infix_app_l.
    Qed.

    Lemma args_infix : forall l x, In (Some x) l ->
      (forall sl st, infix w (fst (arg_text_g nt sl st (Some x)))) ->
      forall sl st, infix w (concat (fst (args_texts_g nt sl st l))).
    Proof.
      induction l as [|y r IH]; intros x Hin Hx sl st; [contradiction|].
      rewrite args_texts_cons. destruct Hin as [->|Hin].
      - specialize (Hx sl st). destruct (arg_text_g nt sl st (Some x)) as [t st1].
        destruct (args_texts_g nt sl st1 r) as [ts st2]. cbn [fst concat] in *. now apply infix_app_r.
      - destruct (arg_text_g nt sl st y) as [t st1]. specialize (IH x Hin Hx sl st1).
        destruct (args_texts_g nt sl st1 r) as [ts st2]. cbn [fst concat] in *. now apply infix_app_l.
    Qed.

    Lemma args_in : forall l x, In (Some x) l ->
      (forall sl st, infix w (fst (arg_text_g nt sl st (Some x)))) ->
      forall sl st, exists t, In t (fst (args_texts_g nt sl st l)) /\ infix w t.
    Proof.
      induction l as [|y r IH]; intros x Hin Hx sl st; [contradiction|].
      rewrite args_texts_cons. destruct Hin as [->|Hin].
      - specialize (Hx sl st). destruct (arg_text_g nt sl st (Some x)) as [t st1].
        destruct (args_texts_g nt sl st1 r) as [ts st2]. cbn [fst] in *. exists t. split; [now left | exact Hx].
      - destruct (arg_text_g nt sl st y) as [t st1]. destruct (IH x Hin Hx sl st1) as (t' & Hin' & Hw).
        destruct (args_texts_g nt sl st1 r) as [ts st2]. cbn [fst] in *. exists t'. split; [now right | exact Hw].
    Qed.

    Lemma args_nth : forall l i x, nth_error l i = Some (Some x) ->
      (forall sl st, infix w (fst (arg_text_g nt sl st (Some x)))) ->
      forall sl st, infix w (nth i (fst (args_texts_g nt sl st l)) []).
    Proof.
      induction l as [|y r IH]; intros i x Hn Hx sl st; [destruct i; discriminate|].
      rewrite args_texts_cons. destruct i as [|i]; cbn [nth_error] in Hn.
      - injection Hn as ->. specialize (Hx sl st). destruct (arg_text_g nt sl st (Some x)) as [t st1].
        destruct (args_texts_g nt sl st1 r) as [ts st2]. exact Hx.
      - destruct (arg_text_g nt sl st y) as [t st1]. specialize (IH i x Hn Hx sl st1).
        destruct (args_texts_g nt sl st1 r) as [ts st2]. exact IH.
    Qed.

    Lemma generic_concat_infix : forall ts dd,
      match ts with None => negb dd | Some t => no_repl (t_repl t) && negb (t_discard t) end = true ->
      forall sl st nn a k eb,
      generic_g src lt o nt sl st ts dd nn a k eb
      = match eb with
        | Some b => body_text_g nt sl st b
        | None => let '(ts', st1) := atexts_g nt sl st a in (concat ts', st1)
        end.
    Proof.
      intros ts dd H sl st nn a k eb. unfold generic_g. destruct ts as [t|].
      - apply andb_prop in H. destruct H as [Hr Hd]. apply negb_true_iff in Hd. rewrite Hd.
        destruct (t_repl t) as [|[|c0 tl]|c]; try discriminate; reflexivity.
      - apply negb_true_iff in H. now rewrite H.
    Qed.

    Lemma math_text_infix : forall b, thru_math = true -> math_blind o = false ->
      (forall sl st, infix w (fst (body_text_g nt sl st b))) ->
      forall sl st ie d p e dl dr, infix w (fst (math_text_g src o nt sl st ie d p e dl dr b)).
    Proof.
      intros b Htm Hnb Hb sl st ie d p e dl dr. specialize (Hsolid Htm). unfold math_text_g.
      specialize (Hb (push_eq sl) st). destruct (body_text_g nt (push_eq sl) st b) as [c st1]. cbn [fst] in Hb.
      apply (infix_strip w c Hsolid) in Hb. unfold math_blind in Hnb.
      destruct (o_math o); try discriminate; cbn [fst]; destruct (ie || d).
      - now apply infix_indented_block.
      - exact Hb.
      - apply infix_app_l, infix_app_r. now apply infix_indented_block.
      - apply infix_app_l, infix_app_r. exact Hb.
    Qed.

    Theorem covered_infix : forall n, covered n ->
      (forall sl st, infix w (fst (nt sl st n)))
      /\ (forall sl st, infix w (fst (arg_text_g nt sl st (Some n)))).
    Proof.
      induction 1 as [n Hl | p e l x Hin Hc [IH1 IH2] | p e m dl dr bp be l x Hin Hc [IH1 IH2]
                     | p e m nm a bp be l x Ht Hin Hc [IH1 IH2] | p e m nm ps sp l x Ht Hin Hc [IH1 IH2]
                     | p e m ch sp l x Ht Hin Hc [IH1 IH2]
                     | p e m nm ps sp l x Ht Hin Hc [IH1 IH2]
                     | p e m ch sp l x Ht Hin Hc [IH1 IH2]
                     | p e m nm ps sp l i x Ht Hin Hc [IH1 IH2]
                     | p e m ch sp l i x Ht Hin Hc [IH1 IH2]
                     | p e m nm a bp be l x Ht Hin Hc [IH1 IH2]
                     | p e m d dl dr bp be l x Htm Hnb Hin Hc [IH1 IH2]
                     | p e m nm a bp be l x Htm Hnb Hq Hin Hc [IH1 IH2]].
      - split; intros sl st; now apply Hleaf.
      - assert (Hn : forall sl st, infix w (fst (nt sl st (NList p e l)))).
        { intros sl st. unfold nt. rewrite node_text_step. cbn [node_step]. fold nt.
          now apply (items_infix l x). }
        split; [exact Hn|]. intros sl st. cbn [arg_text_g]. now apply (items_infix l x).
      - assert (Hb : forall sl st, infix w (fst (body_text_g nt sl st (Some (NList bp be l))))).
        { intros sl st. cbn [body_text_g]. now apply (items_infix l x). }
        split; intros sl st.
        + unfold nt. rewrite node_text_step. cbn [node_step]. fold nt. specialize (Hb sl st).
          destruct (body_text_g nt sl st (Some (NList bp be l))) as [c st1]. cbn [fst] in *.
          destruct (o_kbg o && Nat.leb (o_kbg_minlen o) (length c)); [|exact Hb].
          apply infix_app_l. now apply infix_app_r.
        + cbn [arg_text_g]. apply Hb.
      - assert (Hn : forall sl st, infix w (fst (nt sl st (NEnv p e m nm a (Some (NList bp be l)))))).
        { intros sl st. unfold nt. rewrite node_text_step. cbn [node_step]. fold nt.
          rewrite generic_concat_infix.
          - cbn [body_text_g]. now apply (items_infix l x).
          - unfold env_transparent in Ht. now destruct (assoc (lt_envs lt) nm). }
        split; [exact Hn|]. intros sl st. exact (Hn sl st).
      - assert (Hn : forall sl st, infix w (fst (nt sl st (NMacro p e m nm ps (Some (sp, l)))))).
        { intros sl st. unfold nt. rewrite node_text_step. cbn [node_step]. fold nt.
          rewrite generic_concat_infix.
          - cbn [atexts_g]. assert (Ha := args_infix l x Hin IH2 sl st).
            destruct (args_texts_g nt sl st l) as [ts st1]. exact Ha.
          - unfold macro_concat in Ht. now destruct (assoc (lt_macros lt) nm). }
        split; [exact Hn|]. intros sl st. exact (Hn sl st).
      - assert (Hn : forall sl st, infix w (fst (nt sl st (NSpecials p e m ch (Some (sp, l)))))).
        { intros sl st. unfold nt. rewrite node_text_step. cbn [node_step]. fold nt.
          unfold specials_concat in Ht. destruct (assoc (lt_specials lt) ch) as [t|]; [|discriminate].
          rewrite generic_concat_infix; [|exact Ht].
          cbn [atexts_g]. assert (Ha := args_infix l x Hin IH2 sl st).
          destruct (args_texts_g nt sl st l) as [ts st1]. exact Ha. }
        split; [exact Hn|]. intros sl st. exact (Hn sl st).
      - (* macro, positional template *)
        assert (Hn : forall sl st, infix w (fst (nt sl st (NMacro p e m nm ps (Some (sp, l)))))).
        { intros sl st. unfold nt. rewrite node_text_step. cbn [node_step]. fold nt.
          assert (Hlen : 1 <= length l) by (destruct l; [contradiction | cbn; lia]).
          destruct (generic_tmpl_pos_args (assoc (lt_macros lt) nm) true (NMacro p e m nm ps (Some (sp, l)))
                      (Some (sp, l)) (nslots_of (get_macro_spec cx nm)) sl st Ht Hlen) as (r & Hr & Hall).
          rewrite Hr. destruct (args_in l x Hin IH2 sl st) as (t & Hint & Hwt).
          eapply infix_trans; [exact Hwt|]. apply Hall. exact Hint. }
        split; [exact Hn|]. intros sl st. exact (Hn sl st).
      - (* specials, positional template *)
        assert (Hn : forall sl st, infix w (fst (nt sl st (NSpecials p e m ch (Some (sp, l)))))).
        { intros sl st. unfold nt. rewrite node_text_step. cbn [node_step]. fold nt.
          unfold specials_tmpl_pos in Ht.
          destruct (assoc (lt_specials lt) ch) as [t0|] eqn:Ea; [|discriminate].
          assert (Hlen : 1 <= length l) by (destruct l; [contradiction | cbn; lia]).
          destruct (generic_tmpl_pos_args (Some t0) true (NSpecials p e m ch (Some (sp, l)))
                      (Some (sp, l)) (nslots_of (get_specials_spec cx ch)) sl st Ht Hlen) as (r & Hr & Hall).
          rewrite Hr. destruct (args_in l x Hin IH2 sl st) as (t & Hint & Hwt).
          eapply infix_trans; [exact Hwt|]. apply Hall. exact Hint. }
        split; [exact Hn|]. intros sl st. exact (Hn sl st).
      - (* macro, keyed template *)
        assert (Hn : forall sl st, infix w (fst (nt sl st (NMacro p e m nm ps (Some (sp, l)))))).
        { intros sl st. unfold nt. rewrite node_text_step. cbn [node_step]. fold nt.
          assert (Hlen : i < length l) by (apply nth_error_Some; congruence).
          eapply infix_trans; [|apply generic_tmpl_key_args; [exact Ht | exact Hlen]].
          cbn [atexts_g]. now apply (args_nth l i x). }
        split; [exact Hn|]. intros sl st. exact (Hn sl st).
      - (* specials, keyed template *)
        assert (Hn : forall sl st, infix w (fst (nt sl st (NSpecials p e m ch (Some (sp, l)))))).
        { intros sl st. unfold nt. rewrite node_text_step. cbn [node_step]. fold nt.
          unfold specials_tmpl_key in Ht.
          destruct (assoc (lt_specials lt) ch) as [t0|] eqn:Ea; [|discriminate].
          assert (Hlen : i < length l) by (apply nth_error_Some; congruence).
          eapply infix_trans; [|apply generic_tmpl_key_args; [exact Ht | exact Hlen]].
          cbn [atexts_g]. now apply (args_nth l i x). }
        split; [exact Hn|]. intros sl st. exact (Hn sl st).
      - (* environment, positional template *)
        assert (Hn : forall sl st, infix w (fst (nt sl st (NEnv p e m nm a (Some (NList bp be l)))))).
        { intros sl st. unfold nt. rewrite node_text_step. cbn [node_step]. fold nt.
          eapply infix_trans; [|apply generic_tmpl_pos_body; exact Ht].
          cbn [body_text_g]. now apply (items_infix l x). }
        split; [exact Hn|]. intros sl st. exact (Hn sl st).
      - assert (Hn : forall sl st, infix w (fst (nt sl st (NMath p e m d dl dr (Some (NList bp be l)))))).
        { intros sl st. unfold nt. rewrite node_text_step. cbn [node_step]. fold nt.
          apply math_text_infix; [exact Htm | exact Hnb |].
          intros sl' st'. cbn [body_text_g]. now apply (items_infix l x). }
        split; [exact Hn|]. intros sl st. exact (Hn sl st).
      - assert (Hn : forall sl st, infix w (fst (nt sl st (NEnv p e m nm a (Some (NList bp be l)))))).
        { intros sl st. rewrite (eqenv_step nm Hq).
          apply math_text_infix; [exact Htm | exact Hnb |].
          intros sl' st'. cbn [body_text_g]. now apply (items_infix l x). }
        split; [exact Hn|]. intros sl st. exact (Hn sl st).
    Qed.
  End Covered.

  (** ** instances *)
  Definition is_comment_with (c : str) (n : node) : Prop :=
    exists p e m ps, n = NComment p e m c ps.

  Theorem kept_comment_covered : o_keep_comments o = true -> forall tm c n,
    (tm = true -> solid (37%N :: c) = true) ->
    covered tm (is_comment_with c) n -> forall sl st, infix (37%N :: c) (fst (nt sl st n)).
  Proof.
    intros Hk tm c n Hs Hc. apply (covered_infix tm (is_comment_with c) (37%N :: c) Hs); [|exact Hc].
    intros x (p & e & m & ps & ->) sl st.
    assert (H : infix (37%N :: c) (fst (nt sl st (NComment p e m c ps)))).
    { rewrite (comment_text_kept Hk). cbn [fst].
      change (37%N :: c ++ ?z) with ((37%N :: c) ++ z). apply infix_prefix. }
    split; exact H.
  Qed.

  Theorem kept_comment_item : o_keep_comments o = true -> forall p e l p' e' m c ps,
    In (Some (NComment p' e' m c ps)) l ->
    forall sl st, infix (37%N :: c) (fst (nt sl st (NList p e l))).
  Proof.
    intros Hk p e l p' e' m c ps Hin. apply (kept_comment_covered Hk false); [discriminate|].
    eapply cov_list; [exact Hin|]. apply cov_leaf. now exists p', e', m, ps.
  Qed.

  Definition is_math_at (p e : nat) (n : node) : Prop :=
    exists m d dl dr b, n = NMath p e m d dl dr b.

  (** with [math_mode='verbatim'] the source slice of every covered math node is in the output *)
  Theorem verbatim_math_covered : o_math o = MMVerbatim -> forall p e n,
    covered false (is_math_at p e) n -> forall sl st, infix (slice src p e) (fst (nt sl st n)).
  Proof.
    intros Hm p e n Hc. apply (covered_infix false (is_math_at p e) (slice src p e)); [discriminate| |exact Hc].
    intros x (m & d & dl & dr & b & ->) sl st.
    assert (H : infix (slice src p e) (fst (nt sl st (NMath p e m d dl dr b)))).
    { rewrite (math_text_verbatim Hm). cbn [fst]. destruct d; [|apply infix_refl].
      apply infix_cons, infix_prefix. }
    split; exact H.
  Qed.
End Exact.
