(** C12: the source-level theorems over the THIRD grammar subsume those over the extended
    grammar: two documents of the extended grammar related by [sbc_doc2 vb eqn] (in
    particular by [same_but_comments2] / [same_but_comments_outside_math2 lt]) are, embedded
    by [up2_doc], related by [sbc_doc3 vb eqn]. *)
From Coq Require Import NArith ZArith List Bool Arith Lia.
From PLV Require Import Base.PyStr Tok.PState Tok.Tokenizer Parse.Nodes Parse.Parser
                        Doc.DocGrammar Doc.DocGrammar2 Doc.DocGrammar3 Proofs.RoundTrip2 Proofs.RoundTrip3
                        L2T.L2T Proofs.Compose2Comments Proofs.Compose3Comments.
Import ListNotations.

Section Embed.
  Variable vb : bool.
  Variable eqn : str -> bool.

  Lemma sbc_up2_all n :
    (forall i i', isize2 i <= n -> sbc2 vb eqn i i' -> sbc3 vb eqn (up2_item i) (up2_item i'))
    /\ (forall l l', lsize2 l <= n -> sbc_items2 vb eqn l l' -> sbc_items3 vb eqn (map up2_item l) (map up2_item l')).
  Proof.
    induction n as [|n [IN IL]].
    - split; [intros i i' H; pose proof (isize_pos2 i); lia|].
      intros [|i l] [|i' l'] H W; cbn in W |- *; try tauto. rewrite lsize_cons2 in H. pose proof (isize_pos2 i). lia.
    - assert (IN' : forall i i', isize2 i <= S n -> sbc2 vb eqn i i' -> sbc3 vb eqn (up2_item i) (up2_item i')).
      { intros i i' H W. destruct i, i'; cbn [sbc2] in W; try contradiction; cbn [up2_item sbc3]; cbn [isize2] in H;
          try exact W.
        - destruct W as (A & B & C). fold (sbc_items2 vb eqn body body0) in C. fold (lsize2 body) in H.
          repeat split; try assumption. apply IL; [lia|exact C].
        - destruct W as (A & B & C & D). fold (sbc_items2 vb eqn args args0) in D. fold (lsize2 args) in H.
          repeat split; try assumption. apply IL; [lia|exact D].
        - destruct W as (A & B & C & D & E). fold (sbc_items2 vb eqn body body0) in D. fold (lsize2 body) in H.
          repeat split; try assumption; [apply IL; [lia|exact D]|]. intros V. now rewrite (E V).
        - destruct W as (A & B & C & D & E & F & G & K).
          fold (sbc_items2 vb eqn args args0) in F. fold (sbc_items2 vb eqn body body0) in G.
          fold (lsize2 args) in H. fold (lsize2 body) in H.
          repeat split; try assumption; try (apply IL; [lia|assumption]);
            match goal with Hv : vb = true, Hq : eqn _ = true |- _ => destruct (K Hv Hq) as [-> ->]; reflexivity end.
        - destruct W as (A & B & C). fold (sbc_items2 vb eqn args args0) in C. fold (lsize2 args) in H.
          repeat split; try assumption. apply IL; [lia|exact C].
        - destruct W as (A & B & C & D & E & F). fold (sbc_items2 vb eqn oarg oarg0) in E. fold (lsize2 oarg) in H.
          repeat split; try assumption; [apply IL; [lia|exact E]|]. intros V Q. now rewrite (F V Q).
        - destruct W as (A & B & C & D & E). fold (sbc_items2 vb eqn body body0) in E. fold (lsize2 body) in H.
          repeat split; try assumption. apply IL; [lia|exact E].
        - destruct W as (A & B & C). repeat split; try assumption. apply IN; [lia|exact C]. }
      split; [exact IN'|]. intros [|i l] [|i' l'] H W; cbn in W |- *; try tauto.
      rewrite lsize_cons2 in H. pose proof (isize_pos2 i). destruct W as [W1 W2].
      split; [apply IN'; [lia|exact W1] | apply IL; [lia|exact W2]].
  Qed.

  Theorem sbc_doc_up2 d d' : sbc_doc2 vb eqn d d' -> sbc_doc3 vb eqn (up2_doc d) (up2_doc d').
  Proof.
    intros [WI WT]. split; [|exact WT]. cbn [up2_doc d_items3].
    exact (proj2 (sbc_up2_all (lsize2 (d_items2 d))) _ _ (le_n _) WI).
  Qed.
End Embed.

Theorem same_but_comments2_up d d' : same_but_comments2 d d' -> same_but_comments3 (up2_doc d) (up2_doc d').
Proof. apply sbc_doc_up2. Qed.

Theorem same_but_comments_outside_math2_up lt d d' :
  same_but_comments_outside_math2 lt d d' -> same_but_comments_outside_math3 lt (up2_doc d) (up2_doc d').
Proof. apply sbc_doc_up2. Qed.
