(** Proofs about [Tok/PState.v] (property C17): a state derived through any
    chain of [sub_context] calls IS the state built directly from its fields. *)
From Coq Require Import NArith List Bool Arith Lia.
From PLV Require Import Base.PyStr Tok.PState.
Import ListNotations.

Definition normalized (f : fields) : Prop := normalize f = f.

Lemma normalize_idem f : normalize (normalize f) = normalize f.
Proof.
  unfold normalize. destruct (negb (f_in_math f) && truthy_ostr (f_math_delim f)) eqn:E.
  - cbn. rewrite andb_false_r. reflexivity.
  - rewrite E. reflexivity.
Qed.

Lemma normalize_group f : f_group_delims (normalize f) = f_group_delims f.
Proof. unfold normalize. destruct (_ && _); reflexivity. Qed.
Lemma normalize_inline f : f_inline_delims (normalize f) = f_inline_delims f.
Proof. unfold normalize. destruct (_ && _); reflexivity. Qed.
Lemma normalize_display f : f_display_delims (normalize f) = f_display_delims f.
Proof. unfold normalize. destruct (_ && _); reflexivity. Qed.

(** updates that do not carry a key leave the corresponding field alone *)
Section Preserve.
  Variable K : ukey.
  Variable A : Type.
  Variable g : fields -> A.
  Hypothesis g_step : forall f u, ukey_eqb (key_of u) K = false -> g (apply_update f u) = g f.

  Lemma fold_preserves l : forall f,
    existsb (fun u => ukey_eqb (key_of u) K) l = false ->
    g (fold_left apply_update l f) = g f.
  Proof.
    induction l as [|u l IH]; intros f H; cbn [fold_left]; [reflexivity|].
    cbn [existsb] in H. apply orb_false_iff in H. destruct H as [H1 H2].
    rewrite IH by exact H2. apply g_step. exact H1.
  Qed.
End Preserve.

Lemma step_group f u : ukey_eqb (key_of u) KGroup = false ->
  f_group_delims (apply_update f u) = f_group_delims f.
Proof. destruct u; cbn; intros H; try reflexivity; discriminate. Qed.
Lemma step_inline f u : ukey_eqb (key_of u) KInline = false ->
  f_inline_delims (apply_update f u) = f_inline_delims f.
Proof. destruct u; cbn; intros H; try reflexivity; discriminate. Qed.
Lemma step_display f u : ukey_eqb (key_of u) KDisplay = false ->
  f_display_delims (apply_update f u) = f_display_delims f.
Proof. destruct u; cbn; intros H; try reflexivity; discriminate. Qed.
Lemma step_inmath f u : ukey_eqb (key_of u) KInMath = false ->
  f_in_math (apply_update f u) = f_in_math f.
Proof. destruct u; cbn; intros H; try reflexivity; discriminate. Qed.
Lemma step_mathdelim f u : ukey_eqb (key_of u) KMathDelim = false ->
  f_math_delim (apply_update f u) = f_math_delim f.
Proof. destruct u; cbn; intros H; try reflexivity; discriminate. Qed.

Lemma compute_expect_ext f g bo :
  f_in_math f = f_in_math g -> f_math_delim f = f_math_delim g ->
  compute_expect f bo = compute_expect g bo.
Proof. unfold compute_expect. intros -> ->. reflexivity. Qed.

Lemma normalize_id_of_same f g :
  normalized g -> f_in_math f = f_in_math g -> f_math_delim f = f_math_delim g ->
  normalize f = f.
Proof.
  unfold normalized, normalize. intros Hg E1 E2. rewrite E1, E2.
  destruct (negb (f_in_math g) && truthy_ostr (f_math_delim g)) eqn:E; [|reflexivity].
  (* g would have been changed by normalize: its delimiter would be None, not truthy *)
  exfalso. apply andb_true_iff in E. destruct E as [Ea Eb].
  assert (f_math_delim (set_math g (f_in_math g) None) = f_math_delim g) by (rewrite Hg; reflexivity).
  cbn in H. rewrite <- H in Eb. discriminate.
Qed.

Definition Inv (p : pstate) : Prop :=
  ps_c p = compute_caches (ps_f p) /\ normalized (ps_f p).

Lemma inv_fresh f : Inv (fresh f).
Proof. split; cbn; [reflexivity | apply normalize_idem]. Qed.

Lemma inv_sub_context p kw : Inv p -> Inv (sub_context p kw).
Proof.
  intros [Hc Hn]. unfold sub_context.
  set (f0 := ps_f p) in *. set (kw2 := filter (changes f0) kw).
  set (fm := fold_left apply_update kw2 f0). set (f1 := normalize fm).
  set (has := fun k => existsb (fun u => ukey_eqb (key_of u) k) kw2).
  split; cbn [ps_f ps_c]; [| apply normalize_idem].
  rewrite Hc. fold f0. unfold compute_caches. cbn [c_group_open c_group_close c_math_startchars
    c_math_by_len c_math_by_open c_math_close c_expect_close].
  fold (has KGroup) (has KInline) (has KDisplay) (has KInMath) (has KMathDelim).
  (* group delimiters *)
  assert (G : has KGroup = false -> f_group_delims f1 = f_group_delims f0).
  { intros H. unfold f1. rewrite normalize_group. apply (fold_preserves KGroup _ _ step_group). exact H. }
  assert (I : has KInline = false -> f_inline_delims f1 = f_inline_delims f0).
  { intros H. unfold f1. rewrite normalize_inline. apply (fold_preserves KInline _ _ step_inline). exact H. }
  assert (Dd : has KDisplay = false -> f_display_delims f1 = f_display_delims f0).
  { intros H. unfold f1. rewrite normalize_display. apply (fold_preserves KDisplay _ _ step_display). exact H. }
  assert (BO : (if has KInline || has KDisplay then compute_by_open f1 else compute_by_open f0)
               = compute_by_open f1).
  { destruct (has KInline) eqn:E1; [reflexivity|]. destruct (has KDisplay) eqn:E2; [reflexivity|].
    cbn [orb]. unfold compute_by_open. rewrite (I eq_refl), (Dd eq_refl). reflexivity. }
  rewrite BO.
  f_equal.
  - destruct (has KGroup) eqn:E; [reflexivity|]. unfold compute_group_open. rewrite (G eq_refl). reflexivity.
  - destruct (has KGroup) eqn:E; [reflexivity|]. unfold compute_group_close. rewrite (G eq_refl). reflexivity.
  - destruct (has KInline) eqn:E1; [reflexivity|]. destruct (has KDisplay) eqn:E2; [reflexivity|].
    cbn [orb]. unfold compute_startchars. rewrite (I eq_refl), (Dd eq_refl). reflexivity.
  - destruct (has KInline) eqn:E1; [reflexivity|]. destruct (has KDisplay) eqn:E2; [reflexivity|].
    cbn [orb]. unfold compute_by_len. rewrite (I eq_refl), (Dd eq_refl). reflexivity.
  - destruct (has KInline) eqn:E1; [reflexivity|]. destruct (has KDisplay) eqn:E2; [reflexivity|].
    cbn [orb]. unfold compute_by_open. rewrite (I eq_refl), (Dd eq_refl). reflexivity.
  - destruct (has KInMath) eqn:E1; [reflexivity|]. destruct (has KMathDelim) eqn:E2; [reflexivity|].
    destruct (has KInline) eqn:E3; [reflexivity|]. destruct (has KDisplay) eqn:E4; [reflexivity|].
    cbn [orb].
    assert (M1 : f_in_math fm = f_in_math f0)
      by (apply (fold_preserves KInMath _ _ step_inmath); exact E1).
    assert (M2 : f_math_delim fm = f_math_delim f0)
      by (apply (fold_preserves KMathDelim _ _ step_mathdelim); exact E2).
    assert (N1 : f1 = fm) by (apply (normalize_id_of_same fm f0 Hn M1 M2)).
    rewrite N1.
    assert (compute_by_open fm = compute_by_open f0) as ->.
    { unfold compute_by_open. rewrite <- N1, (I eq_refl), (Dd eq_refl). reflexivity. }
    symmetry. apply compute_expect_ext; assumption.
Qed.

Theorem derived_inv f0 chain : Inv (fold_left sub_context chain (fresh f0)).
Proof.
  assert (G : forall p, Inv p -> Inv (fold_left sub_context chain p)).
  { induction chain as [|kw chain IH]; intros p Hp; cbn [fold_left]; [exact Hp|].
    apply IH. apply inv_sub_context. exact Hp. }
  apply G. apply inv_fresh.
Qed.

Theorem derived_caches_fresh f0 chain :
  let d := fold_left sub_context chain (fresh f0) in
  ps_c d = compute_caches (ps_f d).
Proof. exact (proj1 (derived_inv f0 chain)). Qed.

(** the derived state IS the freshly built one (as a value: every function of
    a parsing state, tokenizer and parsers included, behaves identically) *)
Theorem derived_is_fresh f0 chain :
  let d := fold_left sub_context chain (fresh f0) in
  d = fresh (ps_f d).
Proof.
  cbn zeta. destruct (derived_inv f0 chain) as [Hc Hn].
  set (d := fold_left sub_context chain (fresh f0)) in *.
  unfold fresh. rewrite Hn. destruct d as [f c]. cbn in *. rewrite Hc. reflexivity.
Qed.

(** [sub_context] is a function of the parent VALUE: the parent cannot be
    altered by it (immutability is by construction in the model; on the real
    objects it is checked by the correspondence). *)
Theorem sub_context_keeps_unlisted_fields p kw :
  existsb (fun u => ukey_eqb (key_of u) KGroup) kw = false ->
  f_group_delims (ps_f (sub_context p kw)) = f_group_delims (ps_f p).
Proof.
  intros H. unfold sub_context. cbn [ps_f]. rewrite normalize_group.
  apply (fold_preserves KGroup _ _ step_group).
  induction kw as [|u kw IH]; [reflexivity|].
  cbn [existsb] in H. apply orb_false_iff in H. destruct H as [H1 H2].
  cbn [filter]. destruct (changes (ps_f p) u); cbn [existsb]; [rewrite H1|]; auto.
Qed.
