(** C01 — definitions: spans, ordered children, tiling, the well-formedness
    predicate [wf_node] over the nested [node] type, [verbatim]; and the list
    lemmas about them.  No parser here. *)
From Coq Require Import NArith List Bool Arith Lia.
From PLV Require Import Base.PyStr Parse.Nodes Proofs.PyStrFacts.
Import ListNotations.

(** * Spans *)
Definition nspan (n : node) : option (nat * nat) :=
  match node_pos n, node_end n with
  | Some a, Some b => Some (a, b)
  | _, _ => None
  end.

Definition prefix (d x : str) : Prop := exists r, x = d ++ r.
Definition suffix (d x : str) : Prop := exists r, x = r ++ d.

(** the items of a node list standing as a body; a lone node is its own item *)
Definition body_items (b : option node) : list (option node) :=
  match b with
  | None => []
  | Some (NList _ _ items) => items
  | Some n => [Some n]
  end.
Definition arg_items (a : option pargs) : list (option node) :=
  match a with Some (_, l) => l | None => [] end.

(** children in document order: arguments ([None] slots kept, skipped by
    [chain]), then body items *)
Definition children (n : node) : list (option node) :=
  match n with
  | NChars _ _ _ _ | NComment _ _ _ _ _ => []
  | NGroup _ _ _ _ _ b | NMath _ _ _ _ _ _ b => body_items b
  | NMacro _ _ _ _ _ a | NSpecials _ _ _ _ a => arg_items a
  | NEnv _ _ _ _ a b => arg_items a ++ body_items b
  | NList _ _ items => items
  end.

(** [chain lo hi l]: the present nodes of [l] all have a nspan, lie inside
    [lo, hi], in increasing order, pairwise non-overlapping *)
Fixpoint chain (lo hi : nat) (l : list (option node)) : Prop :=
  match l with
  | [] => lo <= hi
  | None :: r => chain lo hi r
  | Some n :: r =>
      match nspan n with
      | Some (a, b) => lo <= a /\ a <= b /\ chain b hi r
      | None => False
      end
  end.

(** [tiles x y l]: every item is a node, the spans are consecutive from [x] to
    [y]: no gap, no overlap *)
Fixpoint tiles (x y : nat) (l : list (option node)) : Prop :=
  match l with
  | [] => x = y
  | Some n :: r =>
      match nspan n with
      | Some (a, b) => a = x /\ a <= b /\ tiles b y r
      | None => False
      end
  | None :: _ => False
  end.

(** the nspan of a body (if it has one) lies inside the parent's *)
Definition body_in (p e : nat) (b : option node) : Prop :=
  match b with
  | Some x => match nspan x with Some (a, c) => p <= a /\ c <= e | None => True end
  | None => True
  end.

(** * Well-formed nodes (strict mode) *)
Section WF.
Variable tx : bool.   (* with the text clause of chars nodes? *)
Variable s : str.
Fixpoint wf_node (n : node) {struct n} : Prop :=
  let wf_items := fix wi (l : list (option node)) : Prop :=
      match l with
      | [] => True
      | None :: r => wi r
      | Some x :: r => wf_node x /\ wi r
      end in
  match n with
  | NChars p e _ c => p <= e /\ e <= length s /\ (tx = true -> c = slice s p e)
  | NComment p e _ c post => p <= e /\ e <= length s /\ 37%N :: c ++ post = slice s p e
  | NGroup p e _ dl dr b =>
      p <= e /\ e <= length s /\ chain p e (body_items b) /\ body_in p e b /\
      match b with
      | None => True
      | Some x => wf_node x /\ prefix dl (slice s p e) /\ suffix dr (slice s p e)
      end
  | NMath p e _ _ dl dr b =>
      p <= e /\ e <= length s /\ chain p e (body_items b) /\ body_in p e b /\
      match b with
      | None => True
      | Some x => wf_node x /\ prefix dl (slice s p e) /\ suffix dr (slice s p e)
      end
  | NMacro p e _ _ _ a =>
      p <= e /\ e <= length s /\
      match a with None => True | Some (_, l) => chain p e l /\ wf_items l end
  | NSpecials p e _ _ a =>
      p <= e /\ e <= length s /\
      match a with None => True | Some (_, l) => chain p e l /\ wf_items l end
  | NEnv p e _ _ a b =>
      p <= e /\ e <= length s /\ chain p e (arg_items a ++ body_items b) /\ body_in p e b /\
      match a with None => True | Some (_, l) => wf_items l end /\
      match b with None => True | Some x => wf_node x end
  | NList a b items =>
      match a, b with
      | Some x, Some y => x <= y /\ y <= length s /\ chain x y items
      | None, None => items = []
      | _, _ => False
      end /\ wf_items items
  end.

Fixpoint wf_items (l : list (option node)) : Prop :=
  match l with
  | [] => True
  | None :: r => wf_items r
  | Some x :: r => wf_node x /\ wf_items r
  end.
End WF.

(** unfolding equations with the named [wf_items] *)
Lemma wf_macro tx s p e m nm po a :
  wf_node tx s (NMacro p e m nm po a) =
  (p <= e /\ e <= length s /\ match a with None => True | Some (_, l) => chain p e l /\ wf_items tx s l end).
Proof. reflexivity. Qed.
Lemma wf_specials tx s p e m c a :
  wf_node tx s (NSpecials p e m c a) =
  (p <= e /\ e <= length s /\ match a with None => True | Some (_, l) => chain p e l /\ wf_items tx s l end).
Proof. reflexivity. Qed.
Lemma wf_env tx s p e m nm a b :
  wf_node tx s (NEnv p e m nm a b) =
  (p <= e /\ e <= length s /\ chain p e (arg_items a ++ body_items b) /\ body_in p e b /\
   match a with None => True | Some (_, l) => wf_items tx s l end /\
   match b with None => True | Some x => wf_node tx s x end).
Proof. reflexivity. Qed.
Lemma wf_list tx s a b items :
  wf_node tx s (NList a b items) =
  (match a, b with
   | Some x, Some y => x <= y /\ y <= length s /\ chain x y items
   | None, None => items = []
   | _, _ => False
   end /\ wf_items tx s items).
Proof. reflexivity. Qed.
Lemma wf_group tx s p e m dl dr b :
  wf_node tx s (NGroup p e m dl dr b) =
  (p <= e /\ e <= length s /\ chain p e (body_items b) /\ body_in p e b /\
   match b with
   | None => True
   | Some x => wf_node tx s x /\ prefix dl (slice s p e) /\ suffix dr (slice s p e)
   end).
Proof. reflexivity. Qed.
Lemma wf_math tx s p e m d dl dr b :
  wf_node tx s (NMath p e m d dl dr b) =
  (p <= e /\ e <= length s /\ chain p e (body_items b) /\ body_in p e b /\
   match b with
   | None => True
   | Some x => wf_node tx s x /\ prefix dl (slice s p e) /\ suffix dr (slice s p e)
   end).
Proof. reflexivity. Qed.

(** [latex_verbatim] of a positioned node: the source slice *)
Definition verbatim (s : str) (n : node) : str :=
  match nspan n with Some (a, b) => slice s a b | None => [] end.
Definition verbatim_o (s : str) (o : option node) : str :=
  match o with Some n => verbatim s n | None => [] end.

(** * Lemmas *)
Lemma wf_items_app tx s l1 l2 : wf_items tx s (l1 ++ l2) <-> wf_items tx s l1 /\ wf_items tx s l2.
Proof.
  induction l1 as [|[x|] l1 IH]; cbn [app wf_items]; tauto.
Qed.

Lemma wf_items_snoc tx s l n : wf_items tx s l -> wf_node tx s n -> wf_items tx s (l ++ [Some n]).
Proof. intros A B. apply wf_items_app. cbn [wf_items]. tauto. Qed.

Lemma wf_items_snoc_o tx s l o : wf_items tx s l -> match o with Some n => wf_node tx s n | None => True end ->
  wf_items tx s (l ++ [o]).
Proof. intros A B. apply wf_items_app. destruct o; cbn [wf_items]; tauto. Qed.

Lemma wf_span_le tx s n a b : wf_node tx s n -> nspan n = Some (a, b) -> a <= b /\ b <= length s.
Proof.
  destruct n; unfold nspan; cbn [node_pos node_end].
  - intros H E; injection E as <- <-. cbn [wf_node] in H. lia.
  - intros H E; injection E as <- <-. cbn [wf_node] in H. lia.
  - intros H E; injection E as <- <-. rewrite wf_group in H. lia.
  - intros H E; injection E as <- <-. rewrite wf_macro in H. lia.
  - intros H E; injection E as <- <-. rewrite wf_env in H. lia.
  - intros H E; injection E as <- <-. rewrite wf_specials in H. lia.
  - intros H E; injection E as <- <-. rewrite wf_math in H. lia.
  - rewrite wf_list. destruct p as [x|], e as [y|]; intros [H _] E; try discriminate.
    injection E as <- <-. lia.
Qed.

Lemma chain_le lo hi l : chain lo hi l -> lo <= hi.
Proof.
  revert lo. induction l as [|[n|] l IH]; intros lo; cbn [chain]; auto.
  destruct (nspan n) as [[a b]|]; [|tauto]. intros (A & B & C). apply IH in C. lia.
Qed.

Lemma chain_weaken lo hi lo' hi' l : chain lo hi l -> lo' <= lo -> hi <= hi' -> chain lo' hi' l.
Proof.
  revert lo lo'. induction l as [|[n|] l IH]; intros lo lo'; cbn [chain].
  - lia.
  - destruct (nspan n) as [[a b]|]; [|tauto]. intros (A & B & C) H1 H2.
    repeat split; try lia. eapply IH; eauto.
  - intros. eapply IH; eauto.
Qed.

Lemma chain_app lo mid hi l1 l2 : chain lo mid l1 -> chain mid hi l2 -> chain lo hi (l1 ++ l2).
Proof.
  revert lo. induction l1 as [|[n|] l1 IH]; intros lo; cbn [chain app].
  - intros A B. eapply chain_weaken; eauto.
  - destruct (nspan n) as [[a b]|]; [|tauto]. intros (A & B & C) D. repeat split; auto.
  - auto.
Qed.

Lemma chain_snoc lo mid hi l n a b :
  chain lo mid l -> nspan n = Some (a, b) -> mid <= a -> a <= b -> b <= hi ->
  chain lo hi (l ++ [Some n]).
Proof.
  intros A B C D E. eapply chain_app; [exact A|]. cbn [chain]. rewrite B. repeat split; lia.
Qed.

Lemma chain_snoc_none lo hi l : chain lo hi l -> chain lo hi (l ++ [None]).
Proof.
  intros A. eapply chain_app; [exact A|]. cbn [chain]. lia.
Qed.

Lemma tiles_le x y l : tiles x y l -> x <= y.
Proof.
  revert x. induction l as [|[n|] l IH]; intros x; cbn [tiles]; [lia| |tauto].
  destruct (nspan n) as [[a b]|]; [|tauto]. intros (A & B & C). apply IH in C. lia.
Qed.

Lemma tiles_chain x y l : tiles x y l -> chain x y l.
Proof.
  revert x. induction l as [|[n|] l IH]; intros x; cbn [tiles chain]; [lia| |tauto].
  destruct (nspan n) as [[a b]|]; [|tauto]. intros (A & B & C). repeat split; try lia. auto.
Qed.

Lemma tiles_snoc x q e l n : tiles x q l -> nspan n = Some (q, e) -> q <= e -> tiles x e (l ++ [Some n]).
Proof.
  revert x. induction l as [|[m|] l IH]; intros x; cbn [tiles app].
  - intros <- E H. rewrite E. auto.
  - destruct (nspan m) as [[a b]|]; [|tauto]. intros (A & B & C) E H. repeat split; auto.
  - tauto.
Qed.

Lemma first_end_app_some a b y : first_end a = Some y -> first_end (a ++ b) = Some y.
Proof.
  induction a as [|[n|] a IH]; cbn [first_end app]; auto. discriminate.
Qed.

Lemma tiles_ends x y l : tiles x y l -> l <> [] -> first_pos l = Some x /\ last_end l = Some y.
Proof.
  revert x. induction l as [|[n|] l IH]; intros x; cbn [tiles]; [congruence| |tauto].
  unfold nspan. destruct (node_pos n) as [a|] eqn:Ea; [|tauto]. destruct (node_end n) as [b|] eqn:Eb; [|tauto].
  intros (A & B & C) _. subst a. split; [cbn [first_pos]; exact Ea|].
  unfold last_end. cbn [rev].
  destruct l as [|o l'].
  - cbn [tiles] in C. subst. cbn [rev app first_end]. exact Eb.
  - destruct (IH b C) as [_ LE]; [discriminate|]. unfold last_end in LE.
    apply first_end_app_some. exact LE.
Qed.

(** the node list built from tiling items *)
Lemma mk_nodelist_tiles x y l : tiles x y l ->
  match mk_nodelist None None l with
  | NList a b it => it = l /\ (match a with Some _ => a | None => Some x end) = Some x
                   /\ (match b with Some _ => b | None => Some x end) = Some y
  | _ => False
  end.
Proof.
  intros T. unfold mk_nodelist. split; [reflexivity|].
  destruct l as [|o l].
  - cbn [tiles] in T. subst. cbn. auto.
  - destruct (tiles_ends _ _ _ T) as [A B]; [discriminate|]. rewrite A, B. auto.
Qed.

(** concatenating the slices of a tiling gives the slice of the whole *)
Lemma tiles_concat s x y l : tiles x y l -> y <= length s ->
  concat (map (verbatim_o s) l) = slice s x y.
Proof.
  revert x. induction l as [|[n|] l IH]; intros x; cbn [tiles map concat]; [| |tauto].
  - intros <- _. symmetry. apply slice_nil.
  - unfold verbatim_o at 1, verbatim. destruct (nspan n) as [[a b]|]; [|tauto].
    intros (A & B & C) H. subst a. rewrite (IH b C H).
    apply slice_app3; [exact B|]. apply tiles_le in C. exact C.
Qed.

Lemma slice_all (s : str) : slice s 0 (length s) = s.
Proof. rewrite slice_to_end. reflexivity. Qed.

Lemma slice_length (s : str) a b : b <= length s -> length (slice s a b) = b - a.
Proof. intros H. unfold slice. rewrite firstn_length, skipn_length. lia. Qed.

Lemma prefix_slice (s : str) a b c d : a <= b -> b <= c -> d = slice s a b -> prefix d (slice s a c).
Proof. intros H1 H2 ->. exists (slice s b c). symmetry. apply slice_app3; assumption. Qed.

Lemma suffix_slice (s : str) a b c d : a <= b -> b <= c -> d = slice s b c -> suffix d (slice s a c).
Proof. intros H1 H2 ->. exists (slice s a b). symmetry. apply slice_app3; assumption. Qed.

Lemma slice_one (s : str) p c : nth_error s p = Some c -> slice s p (S p) = [c].
Proof.
  unfold slice. replace (S p - p) with 1 by lia. revert s.
  induction p as [|p IH]; intros [|x s] H; try discriminate.
  - cbn in H. injection H as ->. reflexivity.
  - cbn [nth_error] in H. cbn [skipn]. apply IH. exact H.
Qed.

Lemma nth_error_skipn (s : str) p c r : skipn p s = c :: r -> nth_error s p = Some c.
Proof.
  revert s. induction p as [|p IH]; intros [|x s] H; try discriminate.
  - cbn in H. injection H as -> _. reflexivity.
  - cbn [skipn] in H. cbn [nth_error]. apply IH. exact H.
Qed.

(** * "Every node of the tree" *)
(** the objects directly below a node: argument slots, the body (a node list
    object when there is one), list items *)
Definition kids (n : node) : list (option node) :=
  match n with
  | NChars _ _ _ _ | NComment _ _ _ _ _ => []
  | NGroup _ _ _ _ _ b | NMath _ _ _ _ _ _ b => [b]
  | NMacro _ _ _ _ _ a | NSpecials _ _ _ _ a => arg_items a
  | NEnv _ _ _ _ a b => arg_items a ++ [b]
  | NList _ _ items => items
  end.

Inductive in_tree : node -> node -> Prop :=
| it_here n : in_tree n n
| it_below m k n : In (Some k) (kids n) -> in_tree m k -> in_tree m n.

Lemma wf_items_in tx s l k : wf_items tx s l -> In (Some k) l -> wf_node tx s k.
Proof.
  induction l as [|[x|] l IH]; cbn [wf_items In]; [tauto| |].
  - intros [A B] [E|E]; [injection E as <-; exact A | auto].
  - intros A [E|E]; [discriminate | auto].
Qed.

Lemma wf_kids tx s n k : wf_node tx s n -> In (Some k) (kids n) -> wf_node tx s k.
Proof.
  destruct n; cbn [kids In].
  - tauto.
  - tauto.
  - rewrite wf_group. intros (_ & _ & _ & _ & H) [E|[]]. subst body. tauto.
  - rewrite wf_macro. intros (_ & _ & H). destruct args as [[sp l]|]; cbn [arg_items]; [|intros []].
    intros I. eapply wf_items_in; [apply H | exact I].
  - rewrite wf_env. intros (_ & _ & _ & _ & H1 & H2) I. apply in_app_or in I. destruct I as [I|[E|[]]].
    + destruct args as [[sp l]|]; cbn [arg_items] in I; [|destruct I]. eapply wf_items_in; eauto.
    + subst body. exact H2.
  - rewrite wf_specials. intros (_ & _ & H). destruct args as [[sp l]|]; cbn [arg_items]; [|intros []].
    intros I. eapply wf_items_in; [apply H | exact I].
  - rewrite wf_math. intros (_ & _ & _ & _ & H) [E|[]]. subst body. tauto.
  - rewrite wf_list. intros [_ H] I. eapply wf_items_in; eauto.
Qed.

(** [wf_node] of the root is [wf_node] of every node of the tree *)
Theorem wf_in_tree tx s m n : in_tree m n -> wf_node tx s n -> wf_node tx s m.
Proof.
  induction 1 as [n|m k n I _ IH]; intros W; [exact W|]. apply IH. eapply wf_kids; eauto.
Qed.

(** ** A hand-written induction principle for the nested [node] type *)
Section NodeInd.
  Variable P : node -> Prop.
  Definition Pl (l : list (option node)) : Prop := forall k, In (Some k) l -> P k.
  Definition Po (o : option node) : Prop := match o with Some k => P k | None => True end.
  Hypothesis Hchars : forall p e m c, P (NChars p e m c).
  Hypothesis Hcomment : forall p e m c po, P (NComment p e m c po).
  Hypothesis Hgroup : forall p e m dl dr b, Po b -> P (NGroup p e m dl dr b).
  Hypothesis Hmacro : forall p e m nm po a, Pl (arg_items a) -> P (NMacro p e m nm po a).
  Hypothesis Henv : forall p e m nm a b, Pl (arg_items a) -> Po b -> P (NEnv p e m nm a b).
  Hypothesis Hspecials : forall p e m c a, Pl (arg_items a) -> P (NSpecials p e m c a).
  Hypothesis Hmath : forall p e m d dl dr b, Po b -> P (NMath p e m d dl dr b).
  Hypothesis Hlist : forall a b items, Pl items -> P (NList a b items).

  Fixpoint node_ind' (n : node) : P n :=
    let list_ind := fix li (l : list (option node)) : Pl l :=
        match l return Pl l with
        | [] => fun k (H : In (Some k) []) => match H with end
        | o :: r =>
            fun k (H : In (Some k) (o :: r)) =>
              match H with
              | or_introl E =>
                  match o return o = Some k -> P k with
                  | Some x => fun E' : Some x = Some k =>
                      match E' in _ = y return match y with Some z => P z | None => True end with
                      | eq_refl => node_ind' x end
                  | None => fun E' : None = Some k =>
                      match E' in _ = y return match y with Some z => P z | None => True end with
                      | eq_refl => I end
                  end E
              | or_intror H' => li r k H'
              end
        end in
    let opt_ind := fun (o : option node) =>
        match o return Po o with Some k => node_ind' k | None => I end in
    let args_ind := fun (a : option pargs) =>
        match a return Pl (arg_items a) with
        | Some (_, l) => list_ind l
        | None => fun k (H : In (Some k) []) => match H with end
        end in
    match n with
    | NChars p e m c => Hchars p e m c
    | NComment p e m c po => Hcomment p e m c po
    | NGroup p e m dl dr b => Hgroup p e m dl dr b (opt_ind b)
    | NMacro p e m nm po a => Hmacro p e m nm po a (args_ind a)
    | NEnv p e m nm a b => Henv p e m nm a b (args_ind a) (opt_ind b)
    | NSpecials p e m c a => Hspecials p e m c a (args_ind a)
    | NMath p e m d dl dr b => Hmath p e m d dl dr b (opt_ind b)
    | NList a b items => Hlist a b items (list_ind items)
    end.
End NodeInd.
