(** C02 (extended grammar) — tokenizer facts beyond [RoundTripTok.v]: what
    [impl_peek] returns on [\begin{name}] / [\end{name}]. *)
From Coq Require Import NArith List Bool Arith Lia.
From PLV Require Import Base.PyStr Tok.PState Tok.Tokenizer Parse.Nodes Parse.Parser Parse.ParseWire
                        Proofs.PyStrFacts Proofs.TokProofs Proofs.PStateProofs Proofs.ParserErrorsBase
                        Doc.DocGrammar Doc.DocGrammar2 Proofs.RoundTripTok.
Import ListNotations.

Lemma space_123' : is_space 123 = false. Proof. vm_compute. reflexivity. Qed.
Lemma alpha_123 : is_alpha 123 = false. Proof. vm_compute. reflexivity. Qed.
Lemma envname_125 : envname_char 125 = false. Proof. vm_compute. reflexivity. Qed.

(** * Environment names *)
Lemma match_envname_ok bws name rest :
  forallb is_space bws = true -> envname_ok name = true ->
  match_envname (bws ++ 123%N :: name ++ 125%N :: rest) = Some (name, length bws + 1 + length name + 1).
Proof.
  intros W NM. unfold match_envname.
  rewrite (span_app is_space bws (123%N :: name ++ 125%N :: rest) W space_123').
  cbn [N.eqb Pos.eqb]. change (N.eqb 123 123) with true. cbv iota.
  unfold envname_ok in NM. destruct name as [|c nm]; [discriminate|].
  rewrite (span_app envname_char (c :: nm) (125%N :: rest) NM envname_125).
  reflexivity.
Qed.

Lemma startswith_app (a y : str) : startswith (a ++ y) a = true.
Proof.
  induction a as [|x a IH]; [destruct y; reflexivity|].
  cbn [app startswith]. rewrite N.eqb_refl. exact IH.
Qed.

Definition env_kw (b : bool) : str := if b then kw_begin else kw_end.
Definition env_tok (b : bool) : tokkind := if b then TkBeginEnv else TkEndEnv.

Section Envs.
  Variables (cx : context) (ps : pstate).
  Hypothesis V : std_view cx ps.

  Lemma dispatch_env s p pre (b : bool) bws name rest :
    skipn p s = 92%N :: env_kw b ++ bws ++ 123%N :: name ++ 125%N :: rest ->
    f_en_envs (ps_f ps) = true -> forallb is_space bws = true -> envname_ok name = true ->
    dispatch ps s (92%N :: env_kw b ++ bws ++ 123%N :: name ++ 125%N :: rest) p pre 92%N
    = TokOk (mk (env_tok b) name p (p + 1 + length (env_kw b) + (length bws + 1 + length name + 1)) pre []).
  Proof.
    intros SK EN W NM. unfold dispatch.
    assert (SM : stage_math ps (92%N :: env_kw b ++ bws ++ 123%N :: name ++ 125%N :: rest) p pre 92%N = None).
    { destruct b; cbn [env_kw kw_begin kw_end app]; apply (stage_math_escape cx ps V); reflexivity. }
    rewrite SM. cbn [orelse].
    assert (SKt : skipn (p + (1 + length (env_kw b))) s = bws ++ 123%N :: name ++ 125%N :: rest).
    { change (92%N :: env_kw b ++ bws ++ 123%N :: name ++ 125%N :: rest)
        with ((92%N :: env_kw b) ++ bws ++ 123%N :: name ++ 125%N :: rest) in SK.
      apply skipn_shift in SK. exact SK. }
    assert (CA : exists d, char_at s (p + 1 + length (env_kw b)) = Some d /\ is_alpha d = false).
    { replace (p + 1 + length (env_kw b)) with (p + (1 + length (env_kw b))) by lia.
      destruct bws as [|w bws].
      - exists 123%N. split; [|exact alpha_123]. unfold char_at. eapply nth_error_of_skipn. exact SKt.
      - exists w. split.
        + unfold char_at. eapply nth_error_of_skipn. exact SKt.
        + cbn [forallb] in W. apply andb_true_iff in W. apply space_not_alpha. tauto. }
    destruct CA as (d & CA1 & CA2).
    assert (SE : stage_escape ps s p pre 92%N = Some (read_environment ps s p b pre)).
    { unfold stage_escape. rewrite (sv_escape _ _ V), EN, (sv_alpha _ _ V).
      change (str_eqb [92%N] [92%N]) with true. cbv iota.
      rewrite (skipn_S_of _ _ _ _ SK).
      destruct b; cbn [env_kw] in *.
      - rewrite startswith_app.
        change (length kw_begin) with 5 in CA1. rewrite CA1.
        change (mem_c d default_alpha) with (is_alpha d). rewrite CA2. reflexivity.
      - change (startswith (kw_end ++ bws ++ 123%N :: name ++ 125%N :: rest) kw_begin) with false.
        rewrite startswith_app.
        change (length kw_end) with 3 in CA1. rewrite CA1.
        change (mem_c d default_alpha) with (is_alpha d). rewrite CA2. reflexivity. }
    rewrite SE. cbn [orelse]. unfold read_environment.
    destruct b; cbn [env_kw env_tok] in *.
    - change [98; 101; 103; 105; 110]%N with kw_begin.
      replace (p + 1 + length kw_begin) with (p + (1 + length kw_begin)) by lia.
      rewrite SKt, (match_envname_ok bws name rest W NM). f_equal; unfold mk; f_equal; lia.
    - change [101; 110; 100]%N with kw_end.
      replace (p + 1 + length kw_end) with (p + (1 + length kw_end)) by lia.
      rewrite SKt, (match_envname_ok bws name rest W NM). f_equal; unfold mk; f_equal; lia.
  Qed.
End Envs.

(** * Specials *)
Lemma plain_start_facts c : plain_start c = true ->
  is_space c = false /\ N.eqb c 92 = false /\ N.eqb c 36 = false /\ N.eqb c 37 = false /\
  N.eqb c 123 = false /\ N.eqb c 125 = false.
Proof.
  unfold plain_start. intros H. apply andb_true_iff in H. destruct H as [H1 H2].
  apply negb_true_iff in H1. apply negb_true_iff in H2. cbn [mem_c existsb] in H2.
  repeat (apply orb_false_iff in H2; destruct H2 as [? H2]). tauto.
Qed.

Section Specials.
  Variables (cx : context) (ps : pstate).
  Hypothesis V : std_view cx ps.

  Lemma dispatch_specials s p pre c cr rest :
    plain_start c = true ->
    test_specials (map fst (cx_specials cx)) ((c :: cr) ++ rest) None = Some (c :: cr) ->
    dispatch ps s ((c :: cr) ++ rest) p pre c
    = TokOk (mk TkSpecials (c :: cr) p (p + length (c :: cr)) pre []).
  Proof.
    intros PS TS. destruct (plain_start_facts c PS) as (_ & E92 & E36 & E37 & E123 & E125).
    unfold dispatch. cbn [app].
    rewrite (stage_math_none cx ps V), (stage_escape_none cx ps V), (stage_comment_none cx ps V),
      (stage_group_none cx ps V) by assumption.
    cbn [orelse]. unfold stage_specials. rewrite (sv_specials _ _ V), (sv_enspecials _ _ V).
    cbn [app] in TS. rewrite TS. reflexivity.
  Qed.
End Specials.

(** * The state a delimited argument [[ … ]] is read in: [ps_add_group] *)
Definition brk_state (ps : pstate) (oc cc : N) : pstate := ps_add_group ps [oc] [cc].

Definition brk_delims (oc cc : N) : delims := default_group_delims ++ [([oc], [cc])].

Definition brk_caches (c : caches) (oc cc : N) : caches :=
  {| c_group_open := [[123%N]; [oc]]; c_group_close := [[125%N]; [cc]];
     c_math_startchars := c_math_startchars c; c_math_by_len := c_math_by_len c;
     c_math_by_open := c_math_by_open c; c_math_close := c_math_close c;
     c_expect_close := c_expect_close c |}.

Lemma delim_ok_facts oc cc : delim_ok oc cc = true ->
  plain_start oc = true /\ plain_start cc = true /\ N.eqb oc cc = false.
Proof.
  unfold delim_ok. intros H. apply andb_true_iff in H. destruct H as [H H3].
  apply andb_true_iff in H. destruct H as [H1 H2]. apply negb_true_iff in H3. tauto.
Qed.

Lemma brk_state_eq cx ps oc cc : Std cx ps -> delim_ok oc cc = true ->
  brk_state ps oc cc
  = {| ps_f := apply_update (ps_f ps) (UGroupDelims (brk_delims oc cc)); ps_c := brk_caches (ps_c ps) oc cc |}.
Proof.
  intros SD D. pose proof (std_view_of cx ps SD) as V. destruct (delim_ok_facts oc cc D) as (PO & PC & NE).
  destruct (plain_start_facts oc PO) as (_ & _ & _ & _ & O123 & _).
  destruct SD as [[[Hc Hn] _] _].
  unfold brk_state, ps_add_group. rewrite (sv_gdelims _ _ V).
  assert (PI : pair_in [oc] [cc] default_group_delims = false).
  { unfold pair_in, default_group_delims. cbn [existsb fst snd str_eqb]. rewrite (N.eqb_sym 123 oc), O123. reflexivity. }
  rewrite PI. unfold sub_context.
  match goal with |- context [filter ?f ?l] =>
    assert (FL : filter f l = l) by (cbn [filter]; unfold changes; rewrite (sv_gdelims _ _ V); reflexivity);
    rewrite FL
  end.
  cbn [fold_left existsb key_of ukey_eqb orb].
  match goal with |- context [normalize ?f] =>
    assert (NZ : normalize f = f) by (apply (normalize_id_of_same _ (ps_f ps) Hn); reflexivity)
  end.
  rewrite NZ. reflexivity.
Qed.

Section Brk.
  Variables (cx : context) (ps : pstate) (oc cc : N).
  Hypothesis SD : Std cx ps.
  Hypothesis D : delim_ok oc cc = true.

  Lemma brk_mode : ps_mode (brk_state ps oc cc) = ps_mode ps.
  Proof. rewrite (brk_state_eq cx ps oc cc SD D). reflexivity. Qed.

  Lemma brk_en_envs : f_en_envs (ps_f (brk_state ps oc cc)) = f_en_envs (ps_f ps).
  Proof. rewrite (brk_state_eq cx ps oc cc SD D). reflexivity. Qed.

  Lemma brk_good : Good (brk_state ps oc cc).
  Proof. apply good_add_group. exact (proj1 SD). Qed.

  Lemma stage_group_brk p pre c : N.eqb c oc = false -> N.eqb c cc = false ->
    stage_group (brk_state ps oc cc) p pre c = stage_group ps p pre c.
  Proof.
    intros E1 E2. pose proof (std_view_of cx ps SD) as V.
    rewrite (brk_state_eq cx ps oc cc SD D). unfold stage_group.
    rewrite (sv_gopen _ _ V), (sv_gclose _ _ V).
    cbn [ps_f ps_c brk_caches c_group_open c_group_close existsb str_eqb].
    rewrite E1, E2. cbn [andb orb]. rewrite !orb_false_r. reflexivity.
  Qed.

  Lemma dispatch_brk s rest p pre c : N.eqb c oc = false -> N.eqb c cc = false ->
    dispatch (brk_state ps oc cc) s rest p pre c = dispatch ps s rest p pre c.
  Proof.
    intros E1 E2. unfold dispatch. rewrite (stage_group_brk p pre c E1 E2).
    rewrite (brk_state_eq cx ps oc cc SD D). destruct ps as [f c0]. reflexivity.
  Qed.

  (** reading in the delimited argument's state is reading in [ps], unless
      the first non-blank character is one of the two delimiters *)
  Lemma impl_peek_brk s pos w rest :
    skipn pos s = w ++ rest -> forallb is_space w = true -> hd_not is_space rest ->
    (Nat.leb 2 (count_c 10 w) = true \/ hd_not (fun c => N.eqb c oc || N.eqb c cc) rest) ->
    impl_peek (brk_state ps oc cc) s pos = impl_peek ps s pos.
  Proof.
    intros SK W HS C. unfold impl_peek. rewrite (peek_space_at s pos w rest SK W HS).
    rewrite (skipn_shift _ _ _ _ SK).
    assert (DNP : f_en_dnp (ps_f (brk_state ps oc cc)) = f_en_dnp (ps_f ps))
      by (rewrite (brk_state_eq cx ps oc cc SD D); reflexivity).
    assert (PT : par_token (brk_state ps oc cc) s pos w = par_token ps s pos w)
      by (rewrite (brk_state_eq cx ps oc cc SD D); reflexivity).
    rewrite DNP, PT. pose proof (std_view_of cx ps SD) as V. rewrite (sv_dnp _ _ V). cbn [andb].
    destruct (Nat.leb 2 (count_c 10 w)) eqn:CN; [reflexivity|].
    destruct C as [C|C]; [discriminate|].
    destruct rest as [|c r]; [reflexivity|]. cbn [hd_not] in C. apply orb_false_iff in C.
    apply dispatch_brk; tauto.
  Qed.

  (** the two delimiters themselves *)
  Lemma dispatch_brk_open s p pre r :
    dispatch (brk_state ps oc cc) s (oc :: r) p pre oc = TokOk (mk TkBraceOpen [oc] p (S p) pre []).
  Proof.
    pose proof (std_view_of cx ps SD) as V. destruct (delim_ok_facts oc cc D) as (PO & PC & NE).
    destruct (plain_start_facts oc PO) as (_ & E92 & E36 & E37 & E123 & E125).
    assert (M : stage_math (brk_state ps oc cc) (oc :: r) p pre oc = None).
    { rewrite <- (stage_math_none cx ps V (oc :: r) p pre oc E36 E92).
      rewrite (brk_state_eq cx ps oc cc SD D). destruct ps; reflexivity. }
    assert (E : stage_escape (brk_state ps oc cc) s p pre oc = None).
    { rewrite <- (stage_escape_none cx ps V s p pre oc E92).
      rewrite (brk_state_eq cx ps oc cc SD D). destruct ps; reflexivity. }
    assert (C : stage_comment (brk_state ps oc cc) s (oc :: r) p pre oc = None).
    { rewrite <- (stage_comment_none cx ps V s (oc :: r) p pre oc E37).
      rewrite (brk_state_eq cx ps oc cc SD D). destruct ps; reflexivity. }
    unfold dispatch. rewrite M, E, C. cbn [orelse].
    rewrite (brk_state_eq cx ps oc cc SD D). unfold stage_group.
    cbn [ps_f ps_c brk_caches c_group_open c_group_close existsb str_eqb apply_update f_en_groups].
    rewrite (sv_groups _ _ V), N.eqb_refl. cbn [andb orb]. rewrite orb_true_r. reflexivity.
  Qed.

  Lemma dispatch_brk_close s p pre r :
    dispatch (brk_state ps oc cc) s (cc :: r) p pre cc = TokOk (mk TkBraceClose [cc] p (S p) pre []).
  Proof.
    pose proof (std_view_of cx ps SD) as V. destruct (delim_ok_facts oc cc D) as (PO & PC & NE).
    destruct (plain_start_facts cc PC) as (_ & E92 & E36 & E37 & E123 & E125).
    assert (M : stage_math (brk_state ps oc cc) (cc :: r) p pre cc = None).
    { rewrite <- (stage_math_none cx ps V (cc :: r) p pre cc E36 E92).
      rewrite (brk_state_eq cx ps oc cc SD D). destruct ps; reflexivity. }
    assert (E : stage_escape (brk_state ps oc cc) s p pre cc = None).
    { rewrite <- (stage_escape_none cx ps V s p pre cc E92).
      rewrite (brk_state_eq cx ps oc cc SD D). destruct ps; reflexivity. }
    assert (C : stage_comment (brk_state ps oc cc) s (cc :: r) p pre cc = None).
    { rewrite <- (stage_comment_none cx ps V s (cc :: r) p pre cc E37).
      rewrite (brk_state_eq cx ps oc cc SD D). destruct ps; reflexivity. }
    unfold dispatch. rewrite M, E, C. cbn [orelse].
    rewrite (brk_state_eq cx ps oc cc SD D). unfold stage_group.
    cbn [ps_f ps_c brk_caches c_group_open c_group_close existsb str_eqb apply_update f_en_groups].
    rewrite (sv_groups _ _ V), N.eqb_refl, E123. rewrite (N.eqb_sym cc oc), NE. cbn [andb orb].
    rewrite orb_true_r. reflexivity.
  Qed.
End Brk.

(** * What the tokenizer returns where an optional argument is absent *)
Lemma nth_error_skipn' {A} (s : list A) p k : nth_error s (p + k) = nth_error (skipn p s) k.
Proof.
  revert s. induction p as [|p IH]; intros s; [reflexivity|].
  destruct s as [|x s]; [destruct k; reflexivity|]. cbn [Nat.add nth_error skipn]. apply IH.
Qed.

(** the token kinds that carry the first character *)
Definition hd_kind (k : tokkind) : bool :=
  match k with TkBraceOpen | TkChar | TkSpecials => true | _ => false end.

Definition hd_prop (c : N) (r : tokres) : Prop :=
  match r with
  | TokOk t => hd_kind (tk t) = true -> hd_error (targ t) = Some c
  | _ => True
  end.

Lemma dispatch_hd ps s r pos pre c : math_kinds ps = true -> hd_prop c (dispatch ps s (c :: r) pos pre c).
Proof.
  intros MK. unfold dispatch, orelse.
  destruct (stage_math ps (c :: r) pos pre c) as [x|] eqn:E1.
  { unfold stage_math in E1. destruct (_ && _); [|discriminate].
    destruct (read_math ps (c :: r) pos pre) as [t|] eqn:R; [|discriminate]. injection E1 as <-.
    apply (read_math_kind _ _ _ _ _ MK) in R. cbn. intros K. destruct (tk t); discriminate. }
  destruct (stage_escape ps s pos pre c) as [x|] eqn:E2.
  { assert (RM : hd_prop c (read_macro ps s pos pre)).
    { unfold read_macro. destruct (skipn (S pos) s) as [|c' r']; [exact I|].
      destruct (mem_c c' _); [destruct (post_space_at _ _)|]; cbn; discriminate. }
    assert (RE : forall b, hd_prop c (read_environment ps s pos b pre)).
    { intros b. unfold read_environment. destruct (match_envname _) as [[nm len]|]; [|exact I].
      destruct b; cbn; discriminate. }
    unfold stage_escape in E2. destruct (str_eqb [c] _); [|discriminate].
    destruct (f_en_envs (ps_f ps)).
    - destruct (startswith _ kw_begin).
      + destruct (char_at s _) as [d|].
        * destruct (mem_c d _).
          -- destruct (f_en_macros _); [|discriminate]. injection E2 as <-. exact RM.
          -- injection E2 as <-. apply RE.
        * injection E2 as <-. apply RE.
      + destruct (startswith _ kw_end).
        * destruct (char_at s _) as [d|].
          -- destruct (mem_c d _).
             ++ destruct (f_en_macros _); [|discriminate]. injection E2 as <-. exact RM.
             ++ injection E2 as <-. apply RE.
          -- injection E2 as <-. apply RE.
        * destruct (f_en_macros _); [|discriminate]. injection E2 as <-. exact RM.
    - destruct (f_en_macros _); [|discriminate]. injection E2 as <-. exact RM. }
  destruct (stage_comment ps s (c :: r) pos pre c) as [x|] eqn:E3.
  { unfold stage_comment in E3. destruct (f_comment _); [discriminate|].
    destruct (_ && _); [|discriminate]. injection E3 as <-. unfold read_comment.
    destruct (find_from _ _ _); [destruct (post_space_at _ _)|]; cbn; discriminate. }
  destruct (stage_group ps pos pre c) as [x|] eqn:E4.
  { unfold stage_group in E4. destruct (f_en_groups _); [|discriminate].
    destruct (existsb _ (c_group_open _)).
    - injection E4 as <-. cbn. reflexivity.
    - destruct (existsb _ (c_group_close _)); [|discriminate]. injection E4 as <-. cbn. discriminate. }
  destruct (stage_specials ps (c :: r) pos pre) as [x|] eqn:E5.
  { unfold stage_specials in E5. destruct (f_ctx_specials _); [|discriminate].
    destruct (f_en_specials _); [|discriminate]. destruct (test_specials _ _ _) as [sc|] eqn:TS; [|discriminate].
    injection E5 as <-. cbn. intros _.
    apply test_specials_spec in TS. destruct TS as [TS|[TS1 TS2]]; [discriminate|].
    destruct sc as [|c' sc]; [cbn in TS2; lia|]. cbn [startswith] in TS1.
    apply andb_true_iff in TS1. destruct TS1 as [TS1 _]. apply N.eqb_eq in TS1. subst c'. reflexivity. }
  unfold char_token. destruct (mem_c c _); cbn; [exact I | reflexivity].
Qed.

Section Absent.
  Variables (cx : context) (ps : pstate).
  Hypothesis V : std_view cx ps.

  Lemma stage_escape_ok s p pre r :
    skipn p s = 92%N :: r -> esc_ok (f_en_envs (ps_f ps)) r = true ->
    exists t, stage_escape ps s p pre 92%N = Some (TokOk t).
  Proof.
    intros SK E. pose proof (skipn_S_of _ _ _ _ SK) as SK1.
    assert (RM : exists t, read_macro ps s p pre = TokOk t).
    { unfold read_macro. rewrite SK1. destruct r as [|c r']; [discriminate|].
      destruct (mem_c c _); [destruct (post_space_at _ _)|]; eexists; reflexivity. }
    assert (RE : forall b, (match match_envname (skipn (length (env_kw b)) r) with Some _ => true | None => false end) = true ->
                 exists t, read_environment ps s p b pre = TokOk t).
    { intros b M. unfold read_environment.
      assert (X : forall k, skipn (p + 1 + k) s = skipn k r).
      { intros k. rewrite <- SK1, skipn_skipn'. f_equal. lia. }
      destruct b; cbv iota; cbn [length env_kw kw_begin kw_end] in M |- *; rewrite X;
        (destruct (match_envname _) as [[nm len]|]; [eexists; reflexivity|discriminate]). }
    assert (CA : forall k, char_at s (p + 1 + k) = nth_error r k).
    { intros k. unfold char_at. replace (p + 1 + k) with (S p + k) by lia. rewrite nth_error_skipn', SK1. reflexivity. }
    unfold stage_escape. rewrite (sv_escape _ _ V), (sv_macros _ _ V), (sv_alpha _ _ V), SK1.
    change (str_eqb [92%N] [92%N]) with true. cbv iota.
    unfold esc_ok in E. destruct r as [|c0 r0] eqn:ER; [discriminate|]. rewrite <- ER in *.
    destruct (f_en_envs (ps_f ps)); [|destruct RM as [t RM]; exists t; rewrite RM; reflexivity].
    cbn [negb orb] in E. apply andb_true_iff in E. destruct E as [EB EE].
    destruct (startswith r kw_begin) eqn:SB.
    - rewrite (CA 5). cbn [negb orb] in EB. change (length kw_begin) with 5 in EB.
      destruct (nth_error r 5) as [d|].
      + cbn [otest] in EB. change (mem_c d default_alpha) with (is_alpha d).
        destruct (is_alpha d).
        * destruct RM as [t RM]. exists t. rewrite RM. reflexivity.
        * cbn [orb] in EB. destruct (RE true EB) as [t RT]. exists t. rewrite RT. reflexivity.
      + cbn [otest orb] in EB. destruct (RE true EB) as [t RT]. exists t. rewrite RT. reflexivity.
    - cbn [orb] in EE. destruct (startswith r kw_end) eqn:SE.
      + rewrite (CA 3). cbn [negb orb] in EE. change (length kw_end) with 3 in EE.
        destruct (nth_error r 3) as [d|].
        * cbn [otest] in EE. change (mem_c d default_alpha) with (is_alpha d).
          destruct (is_alpha d).
          -- destruct RM as [t RM]. exists t. rewrite RM. reflexivity.
          -- cbn [orb] in EE. destruct (RE false EE) as [t RT]. exists t. rewrite RT. reflexivity.
        * cbn [otest orb] in EE. destruct (RE false EE) as [t RT]. exists t. rewrite RT. reflexivity.
      + destruct RM as [t RM]. exists t. rewrite RM. reflexivity.
  Qed.

  Lemma dispatch_no_err s p pre c r :
    skipn p s = c :: r -> (N.eqb c 92 = true -> esc_ok (f_en_envs (ps_f ps)) r = true) ->
    exists t, dispatch ps s (c :: r) p pre c = TokOk t.
  Proof.
    intros SK E. unfold dispatch, orelse.
    destruct (stage_math ps (c :: r) p pre c) as [x|] eqn:E1.
    { unfold stage_math in E1. destruct (_ && _); [|discriminate].
      destruct (read_math ps (c :: r) p pre) as [t|]; [|discriminate]. injection E1 as <-. eexists; reflexivity. }
    destruct (N.eqb c 92) eqn:C92.
    { apply N.eqb_eq in C92. subst c. destruct (stage_escape_ok s p pre r SK (E eq_refl)) as [t ST].
      rewrite ST. exists t. reflexivity. }
    rewrite (stage_escape_none cx ps V s p pre c C92).
    destruct (stage_comment ps s (c :: r) p pre c) as [x|] eqn:E3.
    { unfold stage_comment in E3. destruct (f_comment _); [discriminate|].
      destruct (_ && _); [|discriminate]. injection E3 as <-. eexists; reflexivity. }
    destruct (stage_group ps p pre c) as [x|] eqn:E4.
    { unfold stage_group in E4. destruct (f_en_groups _); [|discriminate].
      destruct (existsb _ (c_group_open _)).
      - injection E4 as <-. eexists; reflexivity.
      - destruct (existsb _ (c_group_close _)); [|discriminate]. injection E4 as <-. eexists; reflexivity. }
    destruct (stage_specials ps (c :: r) p pre) as [x|] eqn:E5.
    { unfold stage_specials in E5. destruct (f_ctx_specials _); [|discriminate].
      destruct (f_en_specials _); [|discriminate]. destruct (test_specials _ _ _) as [sc|]; [|discriminate].
      injection E5 as <-. eexists; reflexivity. }
    unfold char_token. rewrite (sv_forbidden _ _ V). eexists; reflexivity.
  Qed.
End Absent.

(** what a token read where an optional argument (opening character [ch]) is
    absent looks like: the end of the input, or a token that starts where the
    reader is and is not a brace / character / specials token spelled [ch] *)
Definition absent_tok (pos : nat) (ch : N) (r : tokres) : Prop :=
  match r with
  | TokEOS _ => True
  | TokOk t => tpos t - length (tpre t) = pos /\ (hd_kind (tk t) = true -> str_eqb (targ t) [ch] = false)
  | TokErr _ => False
  end.

Lemma str_eqb_hd (a : str) c ch : hd_error a = Some c -> N.eqb c ch = false -> str_eqb a [ch] = false.
Proof. destruct a as [|x a]; [discriminate|]. cbn. intros H E. injection H as ->. rewrite E. reflexivity. Qed.

Lemma peek_absent cx ps s pos fol ch : Std cx ps -> skipn pos s = fol ->
  is_space ch = false -> absent_ok (f_en_envs (ps_f ps)) ch fol = true ->
  absent_tok pos ch (impl_peek ps s pos).
Proof.
  intros SD SK CH A. pose proof (std_view_of cx ps SD) as V.
  destruct fol as [|f0 fol'] eqn:EF.
  { unfold impl_peek. unfold peek_space. rewrite SK. cbn [span fst length]. rewrite Nat.add_0_r, SK.
    rewrite andb_false_r. exact I. }
  assert (PL : pos <= length s) by (pose proof (skipn_cons_lt _ _ _ _ SK) as [PL _]; lia).
  rewrite <- EF in *. clear EF f0 fol'.
  pose proof (impl_peek_ok ps s pos (good_wf ps (proj1 SD)) PL) as OK.
  unfold absent_ok in A. destruct (span is_space fol) as [w rest] eqn:SP. cbn [snd] in A.
  destruct (span_spec _ _ _ _ SP) as [FE W].
  assert (HS : hd_not is_space rest).
  { clear -SP. revert w rest SP. induction fol as [|c fol IH]; intros w rest SP; cbn [span] in SP.
    - injection SP as <- <-. exact I.
    - destruct (is_space c) eqn:E.
      + destruct (span is_space fol) as [a b] eqn:S2. injection SP as <- <-. apply (IH a b eq_refl).
      + injection SP as <- <-. cbn. exact E. }
  rewrite FE in SK.
  revert OK. unfold impl_peek. rewrite (peek_space_at s pos w rest SK W HS), (sv_dnp _ _ V).
  rewrite (skipn_shift _ _ _ _ SK). cbn [andb].
  destruct (Nat.leb 2 (count_c 10 w)) eqn:CN.
  - (* a paragraph token: its text starts with a newline *)
    intros OK. cbn [peek_ok] in OK. split; [destruct OK as [OK _]; lia|].
    intros _. apply Nat.leb_le in CN. assert (G1 : 1 <= count_c 10 w) by lia.
    pose proof (find_nl_lt w G1) as F1. pose proof (rfind_nl_bounds w G1) as [F2 F3].
    pose proof (find_nl_split w G1) as Sp.
    apply (str_eqb_hd _ 10%N); [|destruct (N.eqb 10 ch) eqn:E; [apply N.eqb_eq in E; subst ch; discriminate|reflexivity]].
    unfold par_token. destruct (match f_ctx_specials (ps_f ps) with Some l => _ | None => false end); cbn [mk targ]; [reflexivity|].
    unfold slice. rewrite <- skipn_skipn', SK.
    set (k := find_nl w) in *.
    replace (w ++ rest) with ((firstn k w ++ 10%N :: skipn (S k) w) ++ rest) by (rewrite <- Sp; reflexivity).
    rewrite <- app_assoc.
    assert (LF : length (firstn k w) = k) by (rewrite firstn_length; lia).
    replace (pos + S (rfind_nl w) - (pos + k)) with (S (rfind_nl w - k)) by lia.
    assert (X : forall (a b : str) n, length a = n -> skipn n (a ++ b) = b)
      by (intros a b n <-; apply skipn_len_app).
    rewrite (X _ _ _ LF). reflexivity.
  - destruct rest as [|c0 r]; [intros _; exact I|].
    assert (SKr : skipn (pos + length w) s = c0 :: r) by (apply skipn_shift in SK; exact SK).
    apply andb_true_iff in A. destruct A as [A1 A2]. apply negb_true_iff in A1.
    destruct (dispatch_no_err cx ps V s (pos + length w) w c0 r SKr) as [t DT].
    { intros C. rewrite C in A2. exact A2. }
    pose proof (dispatch_hd ps s r (pos + length w) w c0 (good_math_kinds ps (proj1 SD))) as HD.
    rewrite DT in HD |- *. cbn [hd_prop] in HD. intros OK. cbn [peek_ok] in OK.
    split; [destruct OK as [OK _]; lia|].
    intros K. apply (str_eqb_hd _ c0); [apply HD; exact K|exact A1].
Qed.

Lemma span_split f (x w rest : str) : span f x = (w, rest) ->
  x = w ++ rest /\ forallb f w = true /\ hd_not f rest.
Proof.
  intros SP. destruct (span_spec _ _ _ _ SP) as [FE W]. split; [exact FE|]. split; [exact W|].
  clear FE W. revert w rest SP. induction x as [|c x IH]; intros w rest SP; cbn [span] in SP.
  - injection SP as <- <-. exact I.
  - destruct (f c) eqn:E.
    + destruct (span f x) as [a b] eqn:S2. injection SP as <- <-. apply (IH a b eq_refl).
    + injection SP as <- <-. cbn. exact E.
Qed.

Lemma peek_absent_brk cx ps oc cc s pos fol : Std cx ps -> delim_ok oc cc = true -> skipn pos s = fol ->
  absent_ok (f_en_envs (ps_f ps)) oc fol = true ->
  absent_tok pos oc (impl_peek (brk_state ps oc cc) s pos).
Proof.
  intros SD D SK A. destruct (delim_ok_facts oc cc D) as (PO & PC & NE).
  destruct (plain_start_facts oc PO) as (SPO & _).
  pose proof (peek_absent cx ps s pos fol oc SD SK SPO A) as PA.
  unfold absent_ok in A. destruct (span is_space fol) as [w rest] eqn:SP. cbn [snd] in A.
  destruct (span_split _ _ _ _ SP) as (FE & W & HS). rewrite FE in SK.
  destruct rest as [|c0 r].
  { rewrite (impl_peek_brk cx ps oc cc SD D s pos w [] SK W I (or_intror I)). exact PA. }
  apply andb_true_iff in A. destruct A as [A1 _]. apply negb_true_iff in A1.
  destruct (Nat.leb 2 (count_c 10 w)) eqn:CN.
  { rewrite (impl_peek_brk cx ps oc cc SD D s pos w _ SK W HS (or_introl CN)). exact PA. }
  destruct (N.eqb c0 cc) eqn:C.
  - apply N.eqb_eq in C. subst c0.
    unfold impl_peek. rewrite (peek_space_at s pos w _ SK W HS), CN, andb_false_r, (skipn_shift _ _ _ _ SK).
    rewrite (dispatch_brk_close cx ps oc cc SD D). cbn [absent_tok mk tpos tpre tk hd_kind]. split; [lia|discriminate].
  - rewrite (impl_peek_brk cx ps oc cc SD D s pos w _ SK W HS). { exact PA. }
    right. cbn [hd_not]. rewrite A1, C. reflexivity.
Qed.

(** * A comment that ends with the input *)
Lemma find_sub_no_nl text : mem_c 10 text = false -> find_sub text [10%N] = None.
Proof.
  induction text as [|c text IH]; intros H; [reflexivity|].
  cbn [mem_c existsb] in H. apply orb_false_iff in H. destruct H as [H1 H2].
  cbn [find_sub startswith]. rewrite H1. cbn [andb].
  change (existsb (N.eqb 10) text) with (mem_c 10 text) in H2. rewrite (IH H2). reflexivity.
Qed.

Section CommentsEof.
  Variables (cx : context) (ps : pstate).
  Hypothesis V : std_view cx ps.

  Lemma dispatch_comment_eof s p pre text :
    skipn p s = 37%N :: text -> mem_c 10 text = false ->
    dispatch ps s (37%N :: text) p pre 37%N = TokOk (mk TkComment text p (p + 1 + length text) pre []).
  Proof.
    intros SK NT.
    unfold dispatch. rewrite (stage_math_none cx ps V), (stage_escape_none cx ps V) by reflexivity.
    cbn [orelse]. unfold stage_comment. rewrite (sv_comment _ _ V), (sv_comments _ _ V).
    assert (S1 : startswith (37%N :: text) [37%N] = true).
    { cbn [startswith]. rewrite N.eqb_refl. destruct text; reflexivity. }
    rewrite S1. cbn [N.eqb Pos.eqb andb orelse]. f_equal.
    unfold read_comment. rewrite (sv_comment _ _ V). cbn [length].
    pose proof (skipn_cons_lt _ _ _ _ SK) as [PL SK1].
    replace (p + 1) with (S p) by lia.
    assert (LS : length s = S p + length text).
    { pose proof (f_equal (@length N) SK1) as E. rewrite skipn_length in E. lia. }
    assert (F : find_from s [10%N] (S p) = None).
    { unfold find_from. assert (L : Nat.ltb (length s) (S p) = false) by (apply Nat.ltb_ge; lia).
      rewrite L, SK1, (find_sub_no_nl text NT). reflexivity. }
    rewrite F. unfold slice. rewrite SK1, LS.
    replace (S p + length text - S p) with (length text) by lia.
    rewrite firstn_all. unfold mk. f_equal; lia.
  Qed.
End CommentsEof.

(** * A paragraph break followed by indentation *)
Lemma rfind_nl_ind x ind : mem_c 10 ind = false -> rfind_nl (x ++ 10%N :: ind) = length x.
Proof.
  intros H. unfold rfind_nl. rewrite rev_app_distr. cbn [rev]. rewrite <- app_assoc. cbn [app].
  assert (R : mem_c 10 (rev ind) = false).
  { unfold mem_c in *. destruct (existsb (N.eqb 10) (rev ind)) eqn:E; [|reflexivity].
    apply existsb_exists in E. destruct E as (c & I & C). apply in_rev in I.
    assert (X : existsb (N.eqb 10) ind = true) by (apply existsb_exists; exists c; tauto). congruence. }
  rewrite (find_nl_app (rev ind) (rev x) R). rewrite app_length, rev_length. cbn [length]. lia.
Qed.

Lemma impl_peek_par_ind cx ps s pos ws mid ind rest sp : std_view cx ps ->
  skipn pos s = ws ++ 10%N :: mid ++ 10%N :: ind ++ rest ->
  forallb is_space ws = true -> mem_c 10 ws = false -> forallb is_space mid = true ->
  forallb is_space ind = true -> mem_c 10 ind = false ->
  hd_not is_space rest -> get_specials_spec cx [10;10]%N = Some sp ->
  impl_peek ps s pos
  = TokOk (mk TkSpecials [10;10]%N (pos + length ws) (pos + length ws + 1 + length mid + 1) ws []).
Proof.
  intros V SK W NW WM WI NI HF SP.
  set (pre0 := ws ++ 10%N :: mid ++ 10%N :: ind).
  assert (SK' : skipn pos s = pre0 ++ rest).
  { unfold pre0. rewrite <- app_assoc. cbn [app]. rewrite <- app_assoc. cbn [app]. exact SK. }
  assert (W0 : forallb is_space pre0 = true).
  { unfold pre0. rewrite forallb_app. cbn [forallb]. rewrite forallb_app. cbn [forallb].
    rewrite W, WM, WI, space_10. reflexivity. }
  unfold impl_peek. rewrite (peek_space_at s pos pre0 rest SK' W0 HF), (sv_dnp _ _ V).
  assert (C : Nat.leb 2 (count_c 10 pre0) = true).
  { apply Nat.leb_le. unfold pre0. rewrite count_c_app. cbn [count_c]. rewrite count_c_app. cbn [count_c].
    rewrite N.eqb_refl. lia. }
  rewrite C. cbn [andb]. unfold par_token.
  assert (F1 : find_nl pre0 = length ws) by (apply find_nl_app; exact NW).
  assert (F2 : rfind_nl pre0 = length (ws ++ 10%N :: mid)).
  { unfold pre0. change (ws ++ 10%N :: mid ++ 10%N :: ind) with (ws ++ (10%N :: mid) ++ 10%N :: ind).
    rewrite app_assoc. apply rfind_nl_ind. exact NI. }
  rewrite F1, F2. unfold pre0 at 1. rewrite firstn_len_app, (sv_specials _ _ V).
  unfold get_specials_spec in SP. rewrite (assoc_existsb _ _ _ SP).
  rewrite app_length. cbn [length].
  replace (pos + S (length ws + S (length mid))) with (pos + length ws + 1 + length mid + 1) by lia. reflexivity.
Qed.

(** * Verbatim *)
Lemma find_sub_char dc text r : mem_c dc text = false -> find_sub (text ++ dc :: r) [dc] = Some (length text).
Proof.
  induction text as [|c text IH]; intros H.
  - cbn [app find_sub startswith length]. rewrite N.eqb_refl. destruct r; reflexivity.
  - cbn [mem_c existsb] in H. apply orb_false_iff in H. destruct H as [H1 H2].
    cbn [app find_sub startswith length]. rewrite H1. cbn [andb].
    change (existsb (N.eqb dc) text) with (mem_c dc text) in H2. rewrite (IH H2). reflexivity.
Qed.

(** * A paragraph break directly after a control word / a comment: the
    post-space is cut at the first newline *)
Lemma alpha_10 : is_alpha 10 = false. Proof. vm_compute. reflexivity. Qed.

Lemma par_follows_split F : par_follows F = true ->
  exists w' rest, F = (10%N :: w') ++ rest /\ forallb is_space (10%N :: w') = true /\ hd_not is_space rest /\
                  Nat.leb 2 (count_c 10 (10%N :: w')) = true.
Proof.
  unfold par_follows. destruct F as [|c F']; [discriminate|].
  destruct (N.eqb c 10) eqn:E; [|destruct c as [|q]; try discriminate; repeat (destruct q as [q|q|]; try discriminate)].
  apply N.eqb_eq in E. subst c. intros H.
  destruct (span is_space (10%N :: F')) as [w rest] eqn:SP. cbn [fst] in H.
  destruct (span_split _ _ _ _ SP) as (FE & W & HS).
  destruct w as [|c0 w']; [cbn in H; discriminate|].
  cbn [app] in FE. injection FE as <- FE. exists w', rest. rewrite FE. repeat split; assumption.
Qed.

Section MacrosPar.
  Variables (cx : context) (ps : pstate).
  Hypothesis V : std_view cx ps.

  Lemma dispatch_macro_word_par s p pre c nm post w' rest :
    skipn p s = 92%N :: c :: nm ++ post ++ (10%N :: w') ++ rest ->
    is_alpha c = true -> forallb is_alpha nm = true -> forallb is_space post = true -> mem_c 10 post = false ->
    forallb is_space (10%N :: w') = true -> hd_not is_space rest -> Nat.leb 2 (count_c 10 (10%N :: w')) = true ->
    str_eqb (c :: nm) kw_begin = false -> str_eqb (c :: nm) kw_end = false ->
    dispatch ps s (92%N :: c :: nm ++ post ++ (10%N :: w') ++ rest) p pre 92%N
    = TokOk (mk TkMacro (c :: nm) p (p + 2 + length nm + length post) pre post).
  Proof.
    intros H Hc Hnm Wp NP Ww HS CN NB NE. set (w := 10%N :: w') in *.
    assert (HA : post = [] -> hd_not is_alpha (w ++ rest)) by (intros _; exact alpha_10).
    unfold dispatch.
    rewrite (stage_math_escape cx ps V) by (apply alpha_neq; [exact Hc | reflexivity]).
    rewrite (stage_escape_word cx ps V s p pre c nm post (w ++ rest) H Hc Hnm Wp HA NB NE).
    cbn [orelse].
    unfold read_macro. rewrite (skipn_S_of _ _ _ _ H), (sv_alpha _ _ V).
    change (mem_c c default_alpha) with (is_alpha c). rewrite Hc.
    assert (T : hd_not is_alpha (post ++ w ++ rest)).
    { destruct post as [|c0 post]; [exact alpha_10|]. cbn [app hd_not].
      cbn [forallb] in Wp. apply andb_true_iff in Wp. destruct Wp as [W1 _]. apply space_not_alpha. exact W1. }
    change (fun x : N => mem_c x default_alpha) with is_alpha.
    rewrite (span_app is_alpha nm (post ++ w ++ rest) Hnm T). cbn [fst].
    assert (SK : skipn (p + 2 + length nm) s = (post ++ w) ++ rest).
    { change (92%N :: c :: nm ++ post ++ w ++ rest) with ([92%N; c] ++ nm ++ post ++ w ++ rest) in H.
      apply skipn_shift in H. apply skipn_shift in H. rewrite <- app_assoc. exact H. }
    assert (WW : forallb is_space (post ++ w) = true) by (rewrite forallb_app, Wp, Ww; reflexivity).
    unfold post_space_at. rewrite (peek_space_at s _ (post ++ w) rest SK WW HS).
    assert (C2 : Nat.leb 2 (count_c 10 (post ++ w)) = true).
    { apply Nat.leb_le. rewrite count_c_app. apply Nat.leb_le in CN. lia. }
    rewrite C2. unfold w. rewrite (find_nl_app post w' NP), firstn_len_app. reflexivity.
  Qed.

  Lemma dispatch_comment_par s p pre text w' rest :
    skipn p s = 37%N :: text ++ (10%N :: w') ++ rest ->
    mem_c 10 text = false -> forallb is_space (10%N :: w') = true -> hd_not is_space rest ->
    Nat.leb 2 (count_c 10 (10%N :: w')) = true ->
    dispatch ps s (37%N :: text ++ (10%N :: w') ++ rest) p pre 37%N
    = TokOk (mk TkComment text p (p + 1 + length text) pre []).
  Proof.
    intros SK NT Ww HS CN.
    unfold dispatch. rewrite (stage_math_none cx ps V), (stage_escape_none cx ps V) by reflexivity.
    cbn [orelse]. unfold stage_comment. rewrite (sv_comment _ _ V), (sv_comments _ _ V).
    assert (S1 : startswith (37%N :: text ++ (10%N :: w') ++ rest) [37%N] = true).
    { cbn [startswith]. rewrite N.eqb_refl. destruct (text ++ (10%N :: w') ++ rest); reflexivity. }
    rewrite S1. cbn [N.eqb Pos.eqb andb orelse]. f_equal.
    unfold read_comment. rewrite (sv_comment _ _ V). cbn [length].
    pose proof (skipn_cons_lt _ _ _ _ SK) as [PL SK1].
    replace (p + 1) with (S p) by lia.
    assert (F : find_from s [10%N] (S p) = Some (S p + length text)).
    { unfold find_from. assert (L : Nat.ltb (length s) (S p) = false) by (apply Nat.ltb_ge; lia).
      rewrite L, SK1. cbn [app]. rewrite (find_sub_nl text _ NT). reflexivity. }
    rewrite F.
    assert (SK2 : skipn (S p + length text) s = (10%N :: w') ++ rest) by (apply skipn_shift in SK1; exact SK1).
    unfold post_space_at. rewrite (peek_space_at s _ (10%N :: w') rest SK2 Ww HS), CN.
    cbn [find_nl N.eqb Pos.eqb firstn]. change (N.eqb 10 10) with true. cbv iota. cbn [firstn].
    unfold slice. rewrite SK1. replace (S p + length text - S p) with (length text) by lia.
    rewrite firstn_len_app. unfold mk. f_equal. lia.
  Qed.
End MacrosPar.

(** * Text characters: no specials sequence matches at the character *)
Lemma char_ok_facts cx ex c rest : char_ok cx ex c rest = true ->
  plain_start c = true /\ mem_c c ex = false /\ test_specials (map fst (cx_specials cx)) (c :: rest) None = None.
Proof.
  unfold char_ok. intros H. apply andb_true_iff in H. destruct H as [H TS].
  apply andb_true_iff in H. destruct H as [PS EX]. apply negb_true_iff in EX.
  destruct (test_specials _ _ _); [discriminate|]. tauto.
Qed.

Lemma inert_char_ok cx c rest : inert cx c = true -> char_ok cx [] c rest = true.
Proof.
  intros H. destruct (inert_facts cx c H) as (SP & E92 & E36 & E37 & E123 & E125 & TS).
  unfold char_ok, plain_start. rewrite SP. cbn [negb mem_c existsb].
  rewrite E92, E36, E37, E123, E125. cbn [orb negb andb]. rewrite (test_specials_none _ c rest TS). reflexivity.
Qed.

Section TextChars.
  Variables (cx : context) (ps : pstate).
  Hypothesis V : std_view cx ps.

  Lemma dispatch_char2 s p pre c r : plain_start c = true ->
    test_specials (map fst (cx_specials cx)) (c :: r) None = None ->
    dispatch ps s (c :: r) p pre c = TokOk (mk TkChar [c] p (S p) pre []).
  Proof.
    intros PS TS. destruct (plain_start_facts c PS) as (_ & E92 & E36 & E37 & E123 & E125).
    unfold dispatch.
    rewrite (stage_math_none cx ps V), (stage_escape_none cx ps V), (stage_comment_none cx ps V),
      (stage_group_none cx ps V) by assumption.
    cbn [orelse]. unfold stage_specials. rewrite (sv_specials _ _ V), (sv_enspecials _ _ V), TS.
    cbn [orelse]. unfold char_token. rewrite (sv_forbidden _ _ V). reflexivity.
  Qed.
End TextChars.
