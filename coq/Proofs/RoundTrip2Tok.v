(** C02 (extended grammar) — tokenizer facts beyond [RoundTripTok.v]: what
    [impl_peek] returns on [\begin{name}] / [\end{name}]. *)
From Coq Require Import NArith List Bool Arith Lia.
From PLV Require Import Base.PyStr Tok.PState Tok.Tokenizer Parse.Nodes Parse.Parser Parse.ParseWire
                        Proofs.PyStrFacts Proofs.TokProofs Proofs.PStateProofs Proofs.ParserErrorsBase
                        Doc.DocGrammar Doc.DocGrammar2 Proofs.RoundTripTok.
Import ListNotations.

Lemma space_123' : is_space 123 = false. Proof. vm_compute. reflexivity. Qed.
Lemma alpha_123 : is_alpha 123 = false. Proof. vm_compute. reflexivity. Qed.
Lemma envname_125 : envname_char 125 = false. Proof. vm_compute. reflexivity. Qed.

(** * Environment names *)
Lemma match_envname_ok bws name rest :
  forallb is_space bws = true -> envname_ok name = true ->
  match_envname (bws ++ 123%N :: name ++ 125%N :: rest) = Some (name, length bws + 1 + length name + 1).
Proof.
  intros W NM. unfold match_envname.
  rewrite (span_app is_space bws (123%N :: name ++ 125%N :: rest) W space_123').
  cbn [N.eqb Pos.eqb]. change (N.eqb 123 123) with true. cbv iota.
  unfold envname_ok in NM. destruct name as [|c nm]; [discriminate|].
  rewrite (span_app envname_char (c :: nm) (125%N :: rest) NM envname_125).
  reflexivity.
Qed.

Lemma startswith_app (a y : str) : startswith (a ++ y) a = true.
Proof.
  induction a as [|x a IH]; [destruct y; reflexivity|].
  cbn [app startswith]. rewrite N.eqb_refl. exact IH.
Qed.

Definition env_kw (b : bool) : str := if b then kw_begin else kw_end.
Definition env_tok (b : bool) : tokkind := if b then TkBeginEnv else TkEndEnv.

Section Envs.
  Variables (cx : context) (ps : pstate).
  Hypothesis V : std_view cx ps.

  Lemma dispatch_env s p pre (b : bool) bws name rest :
    skipn p s = 92%N :: env_kw b ++ bws ++ 123%N :: name ++ 125%N :: rest ->
    f_en_envs (ps_f ps) = true -> forallb is_space bws = true -> envname_ok name = true ->
    dispatch ps s (92%N :: env_kw b ++ bws ++ 123%N :: name ++ 125%N :: rest) p pre 92%N
    = TokOk (mk (env_tok b) name p (p + 1 + length (env_kw b) + (length bws + 1 + length name + 1)) pre []).
  Proof.
    intros SK EN W NM. unfold dispatch.
    assert (SM : stage_math ps (92%N :: env_kw b ++ bws ++ 123%N :: name ++ 125%N :: rest) p pre 92%N = None).
    { destruct b; cbn [env_kw kw_begin kw_end app]; apply (stage_math_escape cx ps V); reflexivity. }
    rewrite SM. cbn [orelse].
    assert (SKt : skipn (p + (1 + length (env_kw b))) s = bws ++ 123%N :: name ++ 125%N :: rest).
    { change (92%N :: env_kw b ++ bws ++ 123%N :: name ++ 125%N :: rest)
        with ((92%N :: env_kw b) ++ bws ++ 123%N :: name ++ 125%N :: rest) in SK.
      apply skipn_shift in SK. exact SK. }
    assert (CA : exists d, char_at s (p + 1 + length (env_kw b)) = Some d /\ is_alpha d = false).
    { replace (p + 1 + length (env_kw b)) with (p + (1 + length (env_kw b))) by lia.
      destruct bws as [|w bws].
      - exists 123%N. split; [|exact alpha_123]. unfold char_at. eapply nth_error_of_skipn. exact SKt.
      - exists w. split.
        + unfold char_at. eapply nth_error_of_skipn. exact SKt.
        + cbn [forallb] in W. apply andb_true_iff in W. apply space_not_alpha. tauto. }
    destruct CA as (d & CA1 & CA2).
    assert (SE : stage_escape ps s p pre 92%N = Some (read_environment ps s p b pre)).
    { unfold stage_escape. rewrite (sv_escape _ _ V), EN, (sv_alpha _ _ V).
      change (str_eqb [92%N] [92%N]) with true. cbv iota.
      rewrite (skipn_S_of _ _ _ _ SK).
      destruct b; cbn [env_kw] in *.
      - rewrite startswith_app.
        change (length kw_begin) with 5 in CA1. rewrite CA1.
        change (mem_c d default_alpha) with (is_alpha d). rewrite CA2. reflexivity.
      - change (startswith (kw_end ++ bws ++ 123%N :: name ++ 125%N :: rest) kw_begin) with false.
        rewrite startswith_app.
        change (length kw_end) with 3 in CA1. rewrite CA1.
        change (mem_c d default_alpha) with (is_alpha d). rewrite CA2. reflexivity. }
    rewrite SE. cbn [orelse]. unfold read_environment.
    destruct b; cbn [env_kw env_tok] in *.
    - change [98; 101; 103; 105; 110]%N with kw_begin.
      replace (p + 1 + length kw_begin) with (p + (1 + length kw_begin)) by lia.
      rewrite SKt, (match_envname_ok bws name rest W NM). f_equal; unfold mk; f_equal; lia.
    - change [101; 110; 100]%N with kw_end.
      replace (p + 1 + length kw_end) with (p + (1 + length kw_end)) by lia.
      rewrite SKt, (match_envname_ok bws name rest W NM). f_equal; unfold mk; f_equal; lia.
  Qed.
End Envs.

(** * Specials *)
Lemma plain_start_facts c : plain_start c = true ->
  is_space c = false /\ N.eqb c 92 = false /\ N.eqb c 36 = false /\ N.eqb c 37 = false /\
  N.eqb c 123 = false /\ N.eqb c 125 = false.
Proof.
  unfold plain_start. intros H. apply andb_true_iff in H. destruct H as [H1 H2].
  apply negb_true_iff in H1. apply negb_true_iff in H2. cbn [mem_c existsb] in H2.
  repeat (apply orb_false_iff in H2; destruct H2 as [? H2]). tauto.
Qed.

Section Specials.
  Variables (cx : context) (ps : pstate).
  Hypothesis V : std_view cx ps.

  Lemma dispatch_specials s p pre c cr rest :
    plain_start c = true ->
    test_specials (map fst (cx_specials cx)) ((c :: cr) ++ rest) None = Some (c :: cr) ->
    dispatch ps s ((c :: cr) ++ rest) p pre c
    = TokOk (mk TkSpecials (c :: cr) p (p + length (c :: cr)) pre []).
  Proof.
    intros PS TS. destruct (plain_start_facts c PS) as (_ & E92 & E36 & E37 & E123 & E125).
    unfold dispatch. cbn [app].
    rewrite (stage_math_none cx ps V), (stage_escape_none cx ps V), (stage_comment_none cx ps V),
      (stage_group_none cx ps V) by assumption.
    cbn [orelse]. unfold stage_specials. rewrite (sv_specials _ _ V), (sv_enspecials _ _ V).
    cbn [app] in TS. rewrite TS. reflexivity.
  Qed.
End Specials.
