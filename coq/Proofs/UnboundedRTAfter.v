(** C08, unbounded composition — sweep for protection scheme [PBracesAfterMacro] over the
    alphabet of the property ([c08_alphabet], regenerated), both whitespace
    policies: every character satisfies [cover_ok2] (its chunk is read as atoms
    whose written form is the chunk, that pass C13's per-chunk check, have a safe
    shape, and whose text — [L2T.node_text] of the nodes of its structured items —
    is the character).  Finite sweeps by [vm_compute]; an offending character is
    named in the error message.  One file per scheme so that [make -j] runs them
    in parallel. *)
From Coq Require Import NArith List Bool.
From PLV Require Import Base.PyStr L2T.L2T Enc.Encoder Enc.RoundTrip Proofs.RoundTripDefs Proofs.UnboundedRoundTrip2.
Import ListNotations.

Lemma macros : uncovered PBracesAfterMacro sls_macros = [].
Proof. vm_compute. reflexivity. Qed.

Lemma alltrue : uncovered PBracesAfterMacro sls_alltrue = [].
Proof. vm_compute. reflexivity. Qed.
