(** C07 — the latex2text model never reaches a Python [TypeError]/[AttributeError]
    on a tree whose bodies are [None] or node lists ([wf], the shape every parser
    result has), whatever the options, provided the text-spec database attaches
    [fmt_equation_environment] to environments only.

    Totality and termination of the conversion itself hold by construction:
    [node_text] is a structural [Fixpoint] accepted by Coq's guard checker, so it
    returns a (string, state) pair for every tree, every option record and every
    database. What is proved here is that the explicit failure flag [d_err]
    (the only place where the model records "Python would raise") is never set. *)
From Coq Require Import NArith ZArith List Bool Arith Lia.
From PLV Require Import Base.PyStr Tok.Tokenizer Parse.Nodes Parse.Parser L2T.L2T.
From PLV Require Import Tree.Visitor Proofs.VisitorProofs Proofs.L2TUnfold Proofs.L2TFilters.
Import ListNotations.

Definition is_ceqenv (r : repl) : bool := match r with RCall CEqEnv => true | _ => false end.

(** no macro / specials text spec uses [fmt_equation_environment] (it reads
    [node.environmentname]: an [AttributeError] on any other node class) *)
Definition no_eqenv_outside_envs (lt : l2tctx) : bool :=
  forallb (fun kv : str * tspec => negb (is_ceqenv (t_repl (snd kv)))) (lt_macros lt)
  && forallb (fun kv : str * tspec => negb (is_ceqenv (t_repl (snd kv)))) (lt_specials lt).

Lemma assoc_forallb : forall {A} (f : A -> bool) (l : list (str * A)) k v,
  forallb (fun kv => f (snd kv)) l = true -> assoc l k = Some v -> f v = true.
Proof.
  intros A f l k v. induction l as [|[k' v'] r IH]; cbn [forallb assoc snd]; intros Hf Ha; [discriminate|].
  apply andb_prop in Hf. destruct Hf as [Hv Hr].
  destruct (str_eqb k' k); [now injection Ha as <- | now apply IH].
Qed.

Lemma set_err_keeps_some : forall st k, d_err st <> None -> d_err (set_err st k) = d_err st.
Proof. intros st k H. unfold set_err. cbn [d_err]. destruct (d_err st); [reflexivity | contradiction]. Qed.

Section NoError.
  Variable src : str.
  Variable lt : l2tctx.
  Variable cx : context.
  Variable o : opts.
  Hypothesis Hlt : no_eqenv_outside_envs lt = true.

  Let nt := node_text src lt cx o.

  Definition Pe (n : node) : Prop :=
    wf n = true ->
    (forall sl st, d_err (snd (nt sl st n)) = d_err st)
    /\ (forall sl st, d_err (snd (arg_text_g nt sl st (Some n))) = d_err st).

  Lemma single_err : forall x, Pslot Pe x -> wf_slot wf x = true -> forall sl st,
    d_err (snd (single_text_g nt sl st x)) = d_err st.
  Proof. intros [c|] H Hw sl st; [|reflexivity]. cbn. now apply H. Qed.

  Lemma argt_err : forall x, Pslot Pe x -> wf_slot wf x = true -> forall sl st,
    d_err (snd (arg_text_g nt sl st x)) = d_err st.
  Proof. intros [c|] H Hw sl st; [|reflexivity]. now apply H. Qed.

  Lemma items_err : forall l, Forall (Pslot Pe) l -> forallb (wf_slot wf) l = true ->
    forall sl st prev, d_err (snd (items_text_g nt sl st prev l)) = d_err st.
  Proof.
    induction 1 as [|x r Hx Hr IH]; intros Hw sl st prev; [reflexivity|].
    cbn [forallb] in Hw. apply andb_prop in Hw. destruct Hw as [Hwx Hwr].
    rewrite items_text_cons. assert (H1 := single_err x Hx Hwx sl st).
    destruct (single_text_g nt sl st x) as [t1 st1]. cbn [snd] in H1.
    assert (H2 := IH Hwr sl st1 x). destruct (items_text_g nt sl st1 x r) as [t2 st2].
    cbn [snd] in *. congruence.
  Qed.

  Lemma body_err : forall b, Pbody Pe b -> wf_body wf b = true -> forall sl st,
    d_err (snd (body_text_g nt sl st b)) = d_err st.
  Proof.
    intros [c|] Hb Hw sl st; [|reflexivity]. destruct Hb as [_ Hi].
    destruct c; try discriminate. cbn [body_text_g]. now apply items_err.
  Qed.

  Lemma args_texts_err : forall l, Forall (Pslot Pe) l -> forallb (wf_slot wf) l = true ->
    forall sl st, d_err (snd (args_texts_g nt sl st l)) = d_err st.
  Proof.
    induction 1 as [|x r Hx Hr IH]; intros Hw sl st; [reflexivity|].
    cbn [forallb] in Hw. apply andb_prop in Hw. destruct Hw as [Hwx Hwr].
    rewrite args_texts_cons. assert (H1 := argt_err x Hx Hwx sl st).
    destruct (arg_text_g nt sl st x) as [t1 st1]. cbn [snd] in H1.
    assert (H2 := IH Hwr sl st1). destruct (args_texts_g nt sl st1 r) as [t2 st2].
    cbn [snd] in *. congruence.
  Qed.

  Lemma args_singles_err : forall l, Forall (Pslot Pe) l -> forallb (wf_slot wf) l = true ->
    forall sl st, d_err (snd (args_singles_g nt sl st l)) = d_err st.
  Proof.
    induction 1 as [|x r Hx Hr IH]; intros Hw sl st; [reflexivity|].
    cbn [forallb] in Hw. apply andb_prop in Hw. destruct Hw as [Hwx Hwr].
    rewrite args_singles_cons. assert (H1 := single_err x Hx Hwx sl st).
    destruct (single_text_g nt sl st x) as [t1 st1]. cbn [snd] in H1.
    assert (H2 := IH Hwr sl st1). destruct (args_singles_g nt sl st1 r) as [t2 st2].
    cbn [snd] in *. congruence.
  Qed.

  Lemma atexts_err : forall a, Pargs Pe a -> wf_args wf a = true -> forall sl st,
    d_err (snd (atexts_g nt sl st a)) = d_err st.
  Proof. intros [[sp l]|] Ha Hw sl st; [|reflexivity]. now apply args_texts_err. Qed.
  Lemma asingles_err : forall a, Pargs Pe a -> wf_args wf a = true -> forall sl st,
    d_err (snd (asingles_g nt sl st a)) = d_err st.
  Proof. intros [[sp l]|] Ha Hw sl st; [|reflexivity]. now apply args_singles_err. Qed.

  Lemma matrix_err : forall sl l, Forall (Pslot Pe) l -> forallb (wf_slot wf) l = true ->
    forall st cur prev cols rows, d_err (snd (matrix_go_g nt sl st l cur prev cols rows)) = d_err st.
  Proof.
    intros sl. induction 1 as [|x r Hx Hr IH]; intros Hw st cur prev cols rows; [reflexivity|].
    cbn [forallb] in Hw. apply andb_prop in Hw. destruct Hw as [Hwx Hwr].
    destruct x as [c|].
    - rewrite matrix_go_some. destruct (is_amp c); [now apply IH|]. destruct (is_rowsep c); [now apply IH|].
      destruct (Hx Hwx) as [H1 _]. specialize (H1 sl st). destruct (nt sl st c) as [t1 st1].
      cbn [snd] in H1. rewrite IH by exact Hwr. exact H1.
    - rewrite matrix_go_none. now apply IH.
  Qed.

  Definition body_keeps (b : option node) : Prop :=
    forall sl st, d_err (snd (body_text_g nt sl st b)) = d_err st.

  Lemma math_text_err : forall b, body_keeps b -> forall sl st ie d p e dl dr,
    d_err (snd (math_text_g src o nt sl st ie d p e dl dr b)) = d_err st.
  Proof.
    intros b Hb sl st ie d p e dl dr. unfold math_text_g.
    assert (H := Hb (push_eq sl) st). destruct (body_text_g nt (push_eq sl) st b) as [c st1].
    destruct (o_math o); cbn [snd] in *; congruence.
  Qed.

  Definition eqenv_ok (nn : node) : Prop :=
    match nn with NEnv _ _ _ _ _ b => body_keeps b | _ => False end.

  Lemma call_repl_err : forall c nn a body sl st,
    Pargs Pe a -> wf_args wf a = true ->
    match body with Some (NList _ _ l) => Forall (Pslot Pe) l /\ forallb (wf_slot wf) l = true | _ => True end ->
    (c = CEqEnv -> eqenv_ok nn) ->
    d_err (snd (call_repl_g src lt o nt sl st c nn a body)) = d_err st.
  Proof.
    intros c nn a body sl st Ha Hwa Hbody Heq. unfold call_repl_g.
    assert (Hs := asingles_err a Ha Hwa sl st). assert (Ht := atexts_err a Ha Hwa sl st).
    destruct (asingles_g nt sl st a) as [ss st1]. destruct (atexts_g nt sl st a) as [ts st2].
    cbn [snd] in Hs, Ht.
    destruct (legacy_idx a) as [optidx off].
    destruct c; cbn [snd d_err]; try assumption; try reflexivity.
    - (* CAccent *) destruct (Nat.ltb off (length (argn_of a))); cbn [snd]; [assumption | reflexivity].
    - (* CItem *)
      destruct optidx as [i|]; [|reflexivity].
      destruct (nth_error (argn_of a) i) as [[x|]|]; cbn [snd]; [assumption | reflexivity | reflexivity].
    - (* CUebung *)
      destruct (nth_error (argn_of a) 1) as [[x|]|]; cbn [snd]; assumption.
    - (* CEqEnv *)
      specialize (Heq eq_refl). destruct nn; try contradiction. now apply math_text_err.
    - (* CMatrix *)
      destruct body as [[]|]; try reflexivity. destruct Hbody as [Hf Hw].
      assert (Hm := matrix_err sl items Hf Hw st None None [] []).
      destruct (matrix_go_g nt sl st items None None [] []) as [rows st3]. exact Hm.
  Qed.

  Lemma str_repl_err : forall tmpl a k eb sl st,
    Pargs Pe a -> wf_args wf a = true ->
    match eb with Some b => body_keeps b | None => True end ->
    d_err (snd (str_repl_g nt sl st tmpl a k eb)) = d_err st.
  Proof.
    intros tmpl a k eb sl st Ha Hwa Hb. unfold str_repl_g.
    destruct (mem_c 37 tmpl && negb (Nat.eqb (length tmpl) 1)); [|reflexivity].
    destruct (parse_fmt (S (length tmpl)) tmpl) as [items|]; [|reflexivity].
    assert (Ht := atexts_err a Ha Hwa sl st). destruct (atexts_g nt sl st a) as [ts0 st1]. cbn [snd] in Ht.
    destruct eb as [b|].
    - destruct (existsb _ items).
      + assert (H := Hb sl st). destruct (body_text_g nt sl st b) as [bt st2]. exact H.
      + assert (H := Hb sl st1). destruct (body_text_g nt sl st1 b) as [bt st2]. cbn [snd] in *. congruence.
    - destruct (existsb _ items); exact Ht.
  Qed.

  Lemma generic_err : forall ts dd nn a k eb sl st,
    Pargs Pe a -> wf_args wf a = true ->
    match eb with Some b => Pbody Pe b /\ wf_body wf b = true | None => True end ->
    (match ts with Some t => is_ceqenv (t_repl t) | None => false end = true -> eqenv_ok nn) ->
    d_err (snd (generic_g src lt o nt sl st ts dd nn a k eb)) = d_err st.
  Proof.
    intros ts dd nn a k eb sl st Ha Hwa Hb Heq. unfold generic_g.
    assert (Hbk : match eb with Some b => body_keeps b | None => True end).
    { destruct eb as [b|]; [|exact I]. destruct Hb as [Hb Hw]. intros sl' st'. now apply body_err. }
    assert (Hplain : d_err (snd (if match ts with Some t => t_discard t | None => dd end then ([], st)
                                 else match eb with
                                      | Some b => body_text_g nt sl st b
                                      | None => let '(ts', st1) := atexts_g nt sl st a in (concat ts', st1)
                                      end)) = d_err st).
    { destruct (match ts with Some t => t_discard t | None => dd end); [reflexivity|].
      destruct eb as [b|]; [apply Hbk|].
      assert (Ht := atexts_err a Ha Hwa sl st). destruct (atexts_g nt sl st a) as [ts0 st1]. exact Ht. }
    destruct (match ts with Some t => t_repl t | None => RNone end) as [|tmpl|c] eqn:Er.
    - exact Hplain.
    - destruct tmpl as [|c0 tl]; [exact Hplain|]. now apply str_repl_err.
    - apply call_repl_err; [exact Ha | exact Hwa | |].
      + destruct eb as [[b|]|]; try exact I. destruct b; try exact I.
        destruct Hb as [[_ Hi] Hw]. split; [exact Hi | exact Hw].
      + intros ->. apply Heq. destruct ts as [t|]; [|discriminate]. now rewrite Er.
  Qed.

  Theorem no_error_all : forall n, Pe n.
  Proof.
    induction n using node_ind'; intros Hw.
    - split; intros; reflexivity.
    - assert (Hn : forall sl st, d_err (snd (nt sl st (NComment p e m c ps))) = d_err st).
      { intros sl st. unfold nt. rewrite node_text_step. cbn [node_step].
        destruct (o_keep_comments o), (s_ac sl); reflexivity. }
      split; [exact Hn|]. intros sl st. exact (Hn sl st).
    - (* group *)
      rename H into Hb. cbn [wf] in Hw. split; intros sl st.
      + unfold nt. rewrite node_text_step. cbn [node_step]. fold nt.
        assert (H := body_err b Hb Hw sl st). destruct (body_text_g nt sl st b) as [c st1]. exact H.
      + cbn [arg_text_g]. now apply body_err.
    - (* macro *)
      rename H into Ha. cbn [wf] in Hw.
      assert (Hn : forall sl st, d_err (snd (nt sl st (NMacro p e m nm ps a))) = d_err st).
      { intros sl st. unfold nt. rewrite node_text_step. cbn [node_step]. fold nt.
        apply generic_err; [exact Ha | exact Hw | exact I |].
        intros Hc. exfalso. destruct (assoc (lt_macros lt) nm) as [t|] eqn:Ea; [|discriminate].
        unfold no_eqenv_outside_envs in Hlt. apply andb_prop in Hlt. destruct Hlt as [Hm _].
        assert (H := assoc_forallb (fun t => negb (is_ceqenv (t_repl t))) _ _ _ Hm Ea).
        cbn beta in H. now rewrite Hc in H. }
      split; [exact Hn|]. intros sl st. exact (Hn sl st).
    - (* environment *)
      rename H into Ha. rename H0 into Hb. cbn [wf] in Hw. apply andb_prop in Hw. destruct Hw as [Hwa Hwb].
      assert (Hn : forall sl st, d_err (snd (nt sl st (NEnv p e m nm a b))) = d_err st).
      { intros sl st. unfold nt. rewrite node_text_step. cbn [node_step]. fold nt.
        apply generic_err; [exact Ha | exact Hwa | split; [exact Hb | exact Hwb] |].
        intros _. cbn [eqenv_ok]. intros sl' st'. now apply body_err. }
      split; [exact Hn|]. intros sl st. exact (Hn sl st).
    - (* specials *)
      rename H into Ha. cbn [wf] in Hw.
      assert (Hn : forall sl st, d_err (snd (nt sl st (NSpecials p e m c a))) = d_err st).
      { intros sl st. unfold nt. rewrite node_text_step. cbn [node_step]. fold nt.
        destruct (assoc (lt_specials lt) c) as [t|] eqn:Ea; [|reflexivity].
        apply generic_err; [exact Ha | exact Hw | exact I |].
        intros Hc. exfalso.
        unfold no_eqenv_outside_envs in Hlt. apply andb_prop in Hlt. destruct Hlt as [_ Hs].
        assert (H := assoc_forallb (fun t => negb (is_ceqenv (t_repl t))) _ _ _ Hs Ea).
        cbn beta in H. now rewrite Hc in H. }
      split; [exact Hn|]. intros sl st. exact (Hn sl st).
    - (* math *)
      rename H into Hb. cbn [wf] in Hw.
      assert (Hn : forall sl st, d_err (snd (nt sl st (NMath p e m d dl dr b))) = d_err st).
      { intros sl st. unfold nt. rewrite node_text_step. cbn [node_step]. fold nt.
        apply math_text_err. intros sl' st'. now apply body_err. }
      split; [exact Hn|]. intros sl st. exact (Hn sl st).
    - (* list *)
      rename H into Hl. cbn [wf] in Hw. split; intros sl st.
      + unfold nt. rewrite node_text_step. cbn [node_step]. fold nt. now apply items_err.
      + cbn [arg_text_g]. now apply items_err.
  Qed.

  Theorem tree_no_error : forall n, wf n = true -> forall sl st,
    d_err (snd (nt sl st n)) = d_err st.
  Proof. intros n Hw. exact (proj1 (no_error_all n Hw)). Qed.
End NoError.
