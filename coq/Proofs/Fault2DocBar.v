(** C05 over the extended grammar — FOLLOW-INSENSITIVITY BEHIND A BARRIER.

    The side conditions [ok_item2] of the extended grammar are evaluated against
    the follow string.  Which item kinds consult it, and how far they look:
    - [Text2], [Spc2], single-character / specials arguments: the longest-match
      test [test_specials] on the characters written from there on (as far as the
      longest specials sequence of the context reaches);
    - [Mac2] and control-sequence arguments: the first character ([mac_follow_ok]),
      and a whole whitespace run ([par_follows]);
    - [Cmt2]: the first character / a whitespace run; [Par2]: a whitespace run;
    - absent optional arguments ([Abs2], also of verbatim environments): a
      whitespace run, the character after it and — after a backslash — the
      [\begin] / [\end] keyword with its [{name}] ([esc_ok]);
    - verbatim arguments / verbatim environments: the text up to the closing
      delimiter / [\end{name}] they find ([verb_scan], [find_sub]);
    - [Vrb2] not at all; [Grp2], [Math2], [Env2], [Brk2], [VEnv2] only through
      what their bodies / arguments see, BEHIND their closing delimiter.
    A BARRIER is a character [b] at which every one of these lookaheads stops: not
    whitespace, not an environment-name character, not the backslash, not the
    opening brace, not a letter of [begin] / [end], and in no specials sequence of
    the context.  [}] is one ([barrier_125]) when no specials sequence contains it.
    Theorem [ok_items2_barrier]: behind a barrier the follow string is irrelevant,
      [ok_items2 cx ps ex l (A ++ b :: F) = true -> ok_items2 cx ps ex l (A ++ b :: F') = true]. *)
From Coq Require Import NArith List Bool Arith Lia.
From PLV Require Import Base.PyStr Tok.PState Tok.Tokenizer Parse.Nodes Parse.Parser Parse.ParseWire
                        Proofs.PyStrFacts
                        Doc.DocGrammar Proofs.FaultTok Proofs.FaultClose
                        Doc.DocGrammar2 Proofs.RoundTripTok Proofs.RoundTrip2Tok Proofs.RoundTrip2
                        Proofs.Prefix2 Proofs.Prefix2Follow.
Import ListNotations.

(** * Prefix-determined scans *)
Lemma verb_scan_ge od cd l : forall depth n k, verb_scan od cd l depth n = Some k -> n <= k.
Proof.
  induction l as [|c l IH]; intros depth n k H; cbn [verb_scan] in H; [discriminate|].
  destruct (N.eqb c cd).
  - destruct depth as [|[|d']]; try (injection H as <-; lia). apply IH in H. lia.
  - destruct (N.eqb c od); apply IH in H; lia.
Qed.

Lemma verb_scan_pre od cd u v v' : forall depth n k,
  verb_scan od cd (u ++ v) depth n = Some k -> k < n + length u ->
  verb_scan od cd (u ++ v') depth n = Some k.
Proof.
  induction u as [|c u IH]; intros depth n k H L.
  - cbn [app length] in *. apply verb_scan_ge in H. lia.
  - cbn [app verb_scan length] in *. destruct (N.eqb c cd).
    + destruct depth as [|[|d']]; try exact H. apply IH; [exact H|lia].
    + destruct (N.eqb c od); (apply IH; [exact H|lia]).
Qed.

Lemma find_sub_trunc (p : str) : forall u v k, find_sub (u ++ v) p = Some k -> k + length p <= length u ->
  find_sub u p = Some k.
Proof.
  induction u as [|a u IH]; intros v k H L.
  - cbn [length] in L. assert (k = 0) by lia. assert (p = []) by (destruct p; [reflexivity|cbn in L; lia]).
    subst. reflexivity.
  - change ((a :: u) ++ v) with (a :: (u ++ v)) in H. cbn [find_sub] in H |- *.
    change (a :: (u ++ v)) with ((a :: u) ++ v) in H.
    assert (LP : length p <= length (a :: u)) by lia.
    rewrite (startswith_app_long (a :: u) p v LP) in H.
    destruct (startswith (a :: u) p); [exact H|].
    destruct (find_sub (u ++ v) p) as [k'|] eqn:E; [|discriminate]. injection H as <-.
    rewrite (IH v k' E); [reflexivity|]. cbn [length] in L. lia.
Qed.

Lemma find_sub_pre (p u v v' : str) k : find_sub (u ++ v) p = Some k -> k + length p <= length u ->
  find_sub (u ++ v') p = Some k.
Proof. intros H L. apply find_sub_ext. eapply find_sub_trunc; eassumption. Qed.

Lemma span_stop (f : N -> bool) (b : N) (F : str) : f b = false -> forall x,
  span f (x ++ b :: F) = (fst (span f x), snd (span f x) ++ b :: F).
Proof.
  intros Hb. induction x as [|c x IH]; cbn [app span].
  - rewrite Hb. reflexivity.
  - destruct (f c); [|reflexivity]. rewrite IH. destruct (span f x). reflexivity.
Qed.

(** * The lookaheads stop at a barrier *)
Section Barrier.
  Variable cx : context.
  Variable b : N.
  Hypothesis Hsp : is_space b = false.
  Hypothesis Hen : envname_char b = false.
  Hypothesis Hkw : mem_c b kw_begin = false /\ mem_c b kw_end = false.
  Hypothesis H92 : N.eqb b 92 = false.
  Hypothesis H123 : N.eqb b 123 = false.
  Hypothesis Hspec : forallb (fun sc => negb (mem_c b sc)) (map fst (cx_specials cx)) = true.

  Lemma specials_bar u F F' :
    test_specials (map fst (cx_specials cx)) (u ++ b :: F) None
    = test_specials (map fst (cx_specials cx)) (u ++ b :: F') None.
  Proof. rewrite !(test_specials_ext b _ _ Hspec). reflexivity. Qed.

  Lemma char_ok_bar ex c rest A F F' : char_ok cx ex c (rest ++ A ++ b :: F) = char_ok cx ex c (rest ++ A ++ b :: F').
  Proof.
    unfold char_ok. rewrite !app_assoc.
    change (c :: (rest ++ A) ++ b :: F) with ((c :: rest ++ A) ++ b :: F).
    change (c :: (rest ++ A) ++ b :: F') with ((c :: rest ++ A) ++ b :: F').
    rewrite (specials_bar _ F F'). reflexivity.
  Qed.

  Lemma text_ok_bar ex cs A F F' : text_ok cx ex cs (A ++ b :: F) = text_ok cx ex cs (A ++ b :: F').
  Proof.
    induction cs as [|c cs IH]; [reflexivity|]. cbn [text_ok]. rewrite IH, (char_ok_bar ex c cs A F F'). reflexivity.
  Qed.

  Lemma hd_bar (A F F' : str) : hd_error (A ++ b :: F) = hd_error (A ++ b :: F').
  Proof. destruct A; reflexivity. Qed.

  Lemma par_follows_bar A F F' : par_follows (A ++ b :: F) = par_follows (A ++ b :: F').
  Proof. rewrite !(par_follows_ext b _ Hsp). reflexivity. Qed.

  Lemma mac_follow_bar name post A F F' :
    mac_follow_ok2 name post (A ++ b :: F) = mac_follow_ok2 name post (A ++ b :: F').
  Proof. unfold mac_follow_ok2. rewrite (hd_bar A F F'), (par_follows_bar A F F'). reflexivity. Qed.

  Lemma span_space_bar A F : span is_space (A ++ b :: F) = (fst (span is_space A), snd (span is_space A) ++ b :: F).
  Proof. apply span_stop. exact Hsp. Qed.

  Lemma match_envname_bar x F F' : match_envname (x ++ b :: F) = match_envname (x ++ b :: F').
  Proof.
    unfold match_envname. rewrite !span_space_bar.
    destruct (snd (span is_space x)) as [|c r1]; cbn [app].
    - rewrite H123. reflexivity.
    - destruct (N.eqb c 123); [|reflexivity].
      rewrite !(span_stop envname_char b _ Hen).
      destruct (fst (span envname_char r1)) as [|n0 nm]; [reflexivity|].
      destruct (snd (span envname_char r1)) as [|d r2]; reflexivity.
  Qed.

  Lemma esc_chk_bar kw r0 F F' : mem_c b kw = false ->
    (negb (startswith (r0 ++ b :: F) kw) || otest is_alpha (nth_error (r0 ++ b :: F) (length kw))
     || match match_envname (skipn (length kw) (r0 ++ b :: F)) with Some _ => true | None => false end)
    = (negb (startswith (r0 ++ b :: F') kw) || otest is_alpha (nth_error (r0 ++ b :: F') (length kw))
       || match match_envname (skipn (length kw) (r0 ++ b :: F')) with Some _ => true | None => false end).
  Proof.
    intros M. rewrite !(startswith_ext b _ kw M r0).
    destruct (startswith r0 kw) eqn:SW; [|reflexivity]. cbn [negb orb].
    pose proof (startswith_length _ _ SW) as LE.
    rewrite !(skipn_ext r0 _ _ LE), (match_envname_bar _ F F').
    f_equal. f_equal.
    destruct (Nat.eq_dec (length kw) (length r0)) as [E|NE].
    - rewrite E, !nth_error_app2 by lia. rewrite Nat.sub_diag. reflexivity.
    - rewrite !nth_error_app1 by lia. reflexivity.
  Qed.

  Lemma esc_ok_bar envs r0 F F' : esc_ok envs (r0 ++ b :: F) = esc_ok envs (r0 ++ b :: F').
  Proof.
    unfold esc_ok.
    destruct (r0 ++ b :: F) as [|x1 y1] eqn:E1; [destruct r0; discriminate|]. rewrite <- E1. clear E1.
    destruct (r0 ++ b :: F') as [|x2 y2] eqn:E2; [destruct r0; discriminate|]. rewrite <- E2. clear E2.
    destruct (negb envs); [reflexivity|]. cbn [orb].
    destruct Hkw as [K1 K2].
    rewrite (esc_chk_bar kw_begin r0 F F' K1), (esc_chk_bar kw_end r0 F F' K2), !(startswith_ext b _ kw_begin K1 r0).
    reflexivity.
  Qed.

  Lemma absent_ok_bar envs oc A F F' : absent_ok envs oc (A ++ b :: F) = absent_ok envs oc (A ++ b :: F').
  Proof.
    unfold absent_ok. rewrite !span_space_bar. cbn [snd].
    destruct (snd (span is_space A)) as [|c0 r0]; cbn [app].
    - rewrite H92. reflexivity.
    - rewrite (esc_ok_bar envs r0 F F'). reflexivity.
  Qed.
End Barrier.

(** * The side conditions of the extended grammar behind a barrier *)
Section BarrierItems.
  Variable cx : context.
  Variable b : N.
  Hypothesis Hsp : is_space b = false.
  Hypothesis Hen : envname_char b = false.
  Hypothesis Hkw : mem_c b kw_begin = false /\ mem_c b kw_end = false.
  Hypothesis H92 : N.eqb b 92 = false.
  Hypothesis H123 : N.eqb b 123 = false.
  Hypothesis Hspec : forallb (fun sc => negb (mem_c b sc)) (map fst (cx_specials cx)) = true.

  Definition BI (n : nat) : Prop := forall i, isize2 i <= n -> forall ps ex A F F',
    ok_item2 cx ps ex i (A ++ b :: F) = true -> ok_item2 cx ps ex i (A ++ b :: F') = true.
  Definition BL (n : nat) : Prop := forall l, lsize2 l <= n -> forall ps ex A F F',
    ok_items2 cx ps ex l (A ++ b :: F) = true -> ok_items2 cx ps ex l (A ++ b :: F') = true.
  Definition BE (n : nat) : Prop := forall a, isize2 a <= n -> forall sp aps A F F',
    ok_expr2 cx sp aps a (A ++ b :: F) = true -> ok_expr2 cx sp aps a (A ++ b :: F') = true.
  Definition BA (n : nat) : Prop := forall a, isize2 a <= n -> forall ps spc A F F',
    ok_arg2 cx ps spc a (A ++ b :: F) = true -> ok_arg2 cx ps spc a (A ++ b :: F') = true.
  Definition BAs (n : nat) : Prop := forall al, lsize2 al <= n -> forall ps specs A F F',
    ok_args2 cx ps al specs (A ++ b :: F) = true -> ok_args2 cx ps al specs (A ++ b :: F') = true.

  Ltac reassoc := repeat (first [rewrite <- app_assoc | rewrite <- app_comm_cons]); reflexivity.

  Lemma b_items_of_item n : BI n -> BL n.
  Proof.
    intros HI l. induction l as [|j l IH]; intros SZ ps ex A F F' H; [reflexivity|].
    rewrite lsize_cons2 in SZ. rewrite ok_items_cons2 in H |- *.
    apply andb_true_iff in H. destruct H as [H1 H2]. apply andb_true_iff. split.
    - rewrite app_assoc in H1 |- *. eapply HI; [lia | exact H1].
    - eapply IH; [lia | exact H2].
  Qed.

  Lemma b_args_of_arg n : BA n -> BAs n.
  Proof.
    intros HA al. induction al as [|a al IH]; intros SZ ps [|spc specs] A F F' H; try discriminate H; [reflexivity|].
    rewrite lsize_cons2 in SZ. cbn [ok_args2] in H |- *.
    apply andb_true_iff in H. destruct H as [H1 H2]. apply andb_true_iff. split.
    - change (flat_map unparse_item2 al) with (unparse_items2 al) in *.
      rewrite app_assoc in H1 |- *. eapply HA; [lia | exact H1].
    - eapply IH; [lia | exact H2].
  Qed.

  Lemma b_item_step n : BL n -> BAs n -> BI (S n).
  Proof.
    intros HL HAs i SZ ps ex A F F' H.
    destruct i as [ws cs|ws bd tr|ws name post args|ws mk bd tr|ws text post|ws mid|ws bws name args bd tr ews
                   |ws chars args|ws name post dc text|ws bws name oarg text|ws oc cc bd tr| |vw od cd vt|pw ptx ppost pa'];
      try discriminate H.
    - (* text *) cbn [ok_item2] in H |- *. rewrite (text_ok_bar cx b Hspec ex cs A F' F). exact H.
    - (* group *)
      cbn [isize2] in SZ. fold (lsize2 bd) in SZ. rewrite ok_item_grp2 in H |- *.
      apply andb_true_iff in H. destruct H as [H1 H2]. rewrite H1. cbn [andb].
      replace (tr ++ 125%N :: A ++ b :: F) with ((tr ++ 125%N :: A) ++ b :: F) in H2 by reassoc.
      replace (tr ++ 125%N :: A ++ b :: F') with ((tr ++ 125%N :: A) ++ b :: F') by reassoc.
      eapply HL; [lia | exact H2].
    - (* macro *)
      cbn [isize2] in SZ. fold (lsize2 args) in SZ.
      destruct (get_macro_spec cx name) as [sp|] eqn:GS;
        [|cbn [ok_item2] in H; rewrite GS, andb_false_r in H; discriminate].
      destruct (sp_args sp) as [l|lk] eqn:SA;
        [|cbn [ok_item2] in H; rewrite GS, SA, andb_false_r in H; discriminate].
      rewrite (ok_item_mac2 cx ps ex ws name post args _ sp l GS SA) in H.
      rewrite (ok_item_mac2 cx ps ex ws name post args _ sp l GS SA).
      apply andb_true_iff in H. destruct H as [H1 H2]. rewrite H1. cbn [andb].
      apply andb_true_iff in H2. destruct H2 as [OKA FO].
      apply andb_true_iff. split.
      + eapply HAs; [lia | exact OKA].
      + rewrite app_assoc in FO |- *. rewrite (mac_follow_bar b Hsp name post _ F' F). exact FO.
    - (* math *)
      cbn [isize2] in SZ. fold (lsize2 bd) in SZ. rewrite ok_item_math2 in H |- *.
      apply andb_true_iff in H. destruct H as [H1 DL]. rewrite DL, andb_true_r.
      apply andb_true_iff in H1. destruct H1 as [H1 H2]. rewrite H1. cbn [andb].
      replace (tr ++ m_close mk ++ A ++ b :: F) with ((tr ++ m_close mk ++ A) ++ b :: F) in H2 by reassoc.
      replace (tr ++ m_close mk ++ A ++ b :: F') with ((tr ++ m_close mk ++ A) ++ b :: F') by reassoc.
      eapply HL; [lia | exact H2].
    - (* comment *)
      cbn [ok_item2] in H |- *. destruct post as [|c0 w0].
      + apply andb_true_iff in H. destruct H as [H1 H2]. rewrite H1. cbn [andb].
        rewrite (par_follows_bar b Hsp A F' F).
        destruct A; cbn [app is_nil] in H2 |- *; exact H2.
      + rewrite (hd_bar b A F' F). exact H.
    - (* paragraph break *)
      cbn [ok_item2] in H |- *. rewrite (span_space_bar b Hsp) in H |- *. exact H.
    - (* environment *)
      cbn [isize2] in SZ. fold (lsize2 args) in SZ. fold (lsize2 bd) in SZ.
      destruct (get_env_spec cx name) as [sp|] eqn:GS;
        [|cbn [ok_item2] in H; rewrite GS, andb_false_r in H; discriminate].
      destruct (sp_args sp) as [l|lk] eqn:SA;
        [|cbn [ok_item2] in H; rewrite GS, SA, andb_false_r in H; discriminate].
      rewrite (ok_item_env2 cx ps ex ws bws name args bd tr ews _ sp l GS SA) in H.
      rewrite (ok_item_env2 cx ps ex ws bws name args bd tr ews _ sp l GS SA).
      apply andb_true_iff in H. destruct H as [H1 H2]. rewrite H1. cbn [andb].
      apply andb_true_iff in H2. destruct H2 as [OKA OKB].
      apply andb_true_iff. split.
      + replace (unparse_items2 bd ++ tr ++ end_str ews name ++ A ++ b :: F)
          with ((unparse_items2 bd ++ tr ++ end_str ews name ++ A) ++ b :: F) in OKA by reassoc.
        replace (unparse_items2 bd ++ tr ++ end_str ews name ++ A ++ b :: F')
          with ((unparse_items2 bd ++ tr ++ end_str ews name ++ A) ++ b :: F') by reassoc.
        eapply HAs; [lia | exact OKA].
      + replace (tr ++ end_str ews name ++ A ++ b :: F) with ((tr ++ end_str ews name ++ A) ++ b :: F) in OKB by reassoc.
        replace (tr ++ end_str ews name ++ A ++ b :: F') with ((tr ++ end_str ews name ++ A) ++ b :: F') by reassoc.
        eapply HL; [lia | exact OKB].
    - (* specials *)
      cbn [isize2] in SZ. fold (lsize2 args) in SZ.
      destruct (get_specials_spec cx chars) as [sp|] eqn:GS;
        [|cbn [ok_item2] in H; rewrite GS, andb_false_r in H; discriminate].
      destruct (sp_args sp) as [l|lk] eqn:SA;
        [|cbn [ok_item2] in H; rewrite GS, SA, andb_false_r in H; discriminate].
      rewrite (ok_item_spc2 cx ps ex ws chars args _ sp l GS SA) in H.
      rewrite (ok_item_spc2 cx ps ex ws chars args _ sp l GS SA).
      apply andb_true_iff in H. destruct H as [H1 H2].
      replace (chars ++ unparse_items2 args ++ A ++ b :: F) with ((chars ++ unparse_items2 args ++ A) ++ b :: F) in H1 by reassoc.
      replace (chars ++ unparse_items2 args ++ A ++ b :: F') with ((chars ++ unparse_items2 args ++ A) ++ b :: F') by reassoc.
      rewrite (specials_bar cx b Hspec _ F' F), H1. cbn [andb].
      eapply HAs; [lia | exact H2].
    - (* the verbatim macro: the follow string is not consulted *) exact H.
    - (* a verbatim environment *)
      cbn [isize2] in SZ. fold (lsize2 oarg) in SZ.
      destruct (get_env_spec cx name) as [sp|] eqn:GS;
        [|cbn [ok_item2] in H; rewrite GS, andb_false_r in H; discriminate].
      destruct (sp_args sp) as [l|[|vn optarg]] eqn:SA;
        try (cbn [ok_item2] in H; rewrite GS, SA, andb_false_r in H; discriminate).
      rewrite (ok_item_venv2 cx ps ex ws bws name oarg text _ sp vn optarg GS SA) in H.
      rewrite (ok_item_venv2 cx ps ex ws bws name oarg text _ sp vn optarg GS SA).
      apply andb_true_iff in H. destruct H as [H1 H2]. rewrite H1. cbn [andb]. cbv zeta in H2 |- *.
      apply andb_true_iff in H2. destruct H2 as [H2 OA]. apply andb_true_iff in H2. destruct H2 as [VN FS].
      rewrite VN. cbn [andb].
      set (endc := end_str [] name) in *.
      assert (FS' : match find_sub (text ++ endc ++ A ++ b :: F') endc with
                    | Some k => Nat.eqb k (length text) | None => false end = true).
      { destruct (find_sub (text ++ endc ++ A ++ b :: F) endc) as [k|] eqn:FE; [|discriminate].
        apply Nat.eqb_eq in FS. subst k.
        replace (text ++ endc ++ A ++ b :: F) with ((text ++ endc) ++ A ++ b :: F) in FE by reassoc.
        replace (text ++ endc ++ A ++ b :: F') with ((text ++ endc) ++ A ++ b :: F') by reassoc.
        rewrite (find_sub_pre endc (text ++ endc) _ (A ++ b :: F') _ FE) by (rewrite app_length; lia).
        apply Nat.eqb_refl. }
      rewrite FS'. cbn [andb].
      destruct oarg as [|[| | | | | | | | | |bw oc cc bd tr| | |] [|? ?]]; try discriminate OA; try exact OA.
      + (* a delimited optional argument *)
        destruct bw; [|discriminate OA].
        apply andb_true_iff in OA. destruct OA as [OA OKB]. rewrite OA. cbn [andb].
        replace (tr ++ 93%N :: text ++ endc ++ A ++ b :: F)
          with ((tr ++ 93%N :: text ++ endc ++ A) ++ b :: F) in OKB by reassoc.
        replace (tr ++ 93%N :: text ++ endc ++ A ++ b :: F')
          with ((tr ++ 93%N :: text ++ endc ++ A) ++ b :: F') by reassoc.
        cbn [lsize2 fold_right isize2] in SZ. fold (lsize2 bd) in SZ.
        eapply HL; [lia | exact OKB].
      + (* an absent optional argument *)
        apply andb_true_iff in OA. destruct OA as [OA AB]. rewrite OA. cbn [andb].
        apply orb_true_iff in AB. apply orb_true_iff. destruct AB as [AB|AB]; [left; exact AB|right].
        replace (text ++ endc ++ A ++ b :: F) with ((text ++ endc ++ A) ++ b :: F) in AB by reassoc.
        replace (text ++ endc ++ A ++ b :: F') with ((text ++ endc ++ A) ++ b :: F') by reassoc.
        rewrite (absent_ok_bar b Hsp Hen Hkw H92 H123 _ 91%N _ F' F). exact AB.
  Qed.

  Lemma b_expr_step n : BI (S n) -> BE n -> BE (S n).
  Proof.
    intros HI HE a SZ sp aps A F F' H.
    destruct a as [ws cs|ws bd tr|ws name post args| | | | |ws chars args| | | | | |pw ptx ppost a'];
      try discriminate H.
    - (* a single character *)
      cbn [ok_expr2] in H |- *. destruct cs as [|c [|? ?]]; try discriminate H.
      pose proof (char_ok_bar cx b Hspec [] c [] A F' F) as E. cbn [app] in E. rewrite E. exact H.
    - (* a braced group *)
      cbn [ok_expr2] in H |- *. apply andb_true_iff in H. destruct H as [H1 H2]. rewrite H1. cbn [andb].
      eapply HI; [exact SZ | exact H2].
    - (* a control sequence *)
      cbn [ok_expr2] in H |- *. destruct args; [|discriminate H].
      rewrite (mac_follow_bar b Hsp name post A F' F). exact H.
    - (* a specials sequence *)
      cbn [ok_expr2] in H |- *. destruct chars as [|c cr]; [discriminate H|]. destruct args; [|discriminate H].
      rewrite app_assoc in H |- *. rewrite (specials_bar cx b Hspec _ F' F). exact H.
    - (* a comment in front of the argument *)
      cbn [ok_expr2] in H |- *. apply andb_true_iff in H. destruct H as [H1 H2].
      apply andb_true_iff in H1. destruct H1 as [H1 HD].
      rewrite H1. cbn [andb]. apply andb_true_iff. split.
      + rewrite app_assoc in HD |- *. rewrite (hd_bar b _ F' F). exact HD.
      + cbn [isize2] in SZ. eapply HE; [lia | exact H2].
  Qed.

  Lemma b_arg_step n : BE (S n) -> BL n -> BA (S n).
  Proof.
    intros HE HL a SZ ps spc A F F' H. unfold ok_arg2 in H |- *.
    destruct (a_kind spc) as [sp|o c opt sp|ch sp full|d].
    - (* a mandatory argument *) eapply HE; [exact SZ | exact H].
    - (* a delimited argument *)
      destruct o as [|oc' [|? ?]], c as [|cc' [|? ?]], a as [| | | | | | | | | |ws oc cc bd tr| | |];
        try discriminate H; try (destruct opt; discriminate H).
      + assert (H' : (N.eqb oc oc' && N.eqb cc cc' && delim_ok oc cc && (sp || is_nil ws) && ws_ok ws && ws_ok tr
                      && ok_items2 cx (apply_adelta ps (a_delta spc)) [oc; cc] bd (tr ++ cc :: A ++ b :: F)) = true)
          by (destruct opt; exact H).
        clear H. rename H' into H.
        assert (GOAL : (N.eqb oc oc' && N.eqb cc cc' && delim_ok oc cc && (sp || is_nil ws) && ws_ok ws && ws_ok tr
                        && ok_items2 cx (apply_adelta ps (a_delta spc)) [oc; cc] bd (tr ++ cc :: A ++ b :: F')) = true);
          [|destruct opt; exact GOAL].
        apply andb_true_iff in H. destruct H as [H1 H2]. rewrite H1. cbn [andb].
        replace (tr ++ cc :: A ++ b :: F) with ((tr ++ cc :: A) ++ b :: F) in H2 by reassoc.
        replace (tr ++ cc :: A ++ b :: F') with ((tr ++ cc :: A) ++ b :: F') by reassoc.
        cbn [isize2] in SZ. fold (lsize2 bd) in SZ.
        eapply HL; [lia | exact H2].
      + destruct opt; [|discriminate H].
        rewrite (absent_ok_bar b Hsp Hen Hkw H92 H123 _ oc' A F' F). exact H.
    - (* an optional marker character *)
      destruct ch as [|ch0 [|? ?]], a as [ws cs| | | | | | | | | | | | |]; try discriminate H.
      + destruct cs as [|c [|? ?]]; try discriminate H.
        pose proof (char_ok_bar cx b Hspec [] c [] A F' F) as E. cbn [app] in E. rewrite E. exact H.
      + rewrite (absent_ok_bar b Hsp Hen Hkw H92 H123 _ ch0 A F' F). exact H.
    - (* a verbatim argument *)
      destruct a as [| | | | | | | | | | | |vw od cd vt|]; try discriminate H.
      apply andb_true_iff in H. destruct H as [H1 VS]. rewrite H1. cbn [andb].
      destruct (verb_scan od cd (vt ++ cd :: A ++ b :: F) 1 0) as [k|] eqn:E; [|discriminate VS].
      apply Nat.eqb_eq in VS. subst k.
      replace (vt ++ cd :: A ++ b :: F) with ((vt ++ [cd]) ++ A ++ b :: F) in E by reassoc.
      replace (vt ++ cd :: A ++ b :: F') with ((vt ++ [cd]) ++ A ++ b :: F') by reassoc.
      rewrite (verb_scan_pre od cd (vt ++ [cd]) _ (A ++ b :: F') _ _ _ E) by (rewrite app_length; cbn [length]; lia).
      apply Nat.eqb_refl.
  Qed.

  Theorem barrier_all : forall n, BI n /\ BE n /\ BA n.
  Proof.
    induction n as [|n (HI & HE & HA)].
    - repeat split; intros i SZ; pose proof (isize_pos2 i); lia.
    - pose proof (b_items_of_item n HI) as HL. pose proof (b_args_of_arg n HA) as HAs.
      pose proof (b_item_step n HL HAs) as HI'. pose proof (b_expr_step n HI' HE) as HE'.
      pose proof (b_arg_step n HE' HL) as HA'. auto.
  Qed.

  Corollary ok_items2_barrier ps ex l (A F F' : str) :
    ok_items2 cx ps ex l (A ++ b :: F) = true -> ok_items2 cx ps ex l (A ++ b :: F') = true.
  Proof.
    intros H. destruct (barrier_all (lsize2 l)) as (HI & _).
    exact (b_items_of_item _ HI l (le_n _) ps ex A F F' H).
  Qed.

  Corollary ok_args2_barrier ps al specs (A F F' : str) :
    ok_args2 cx ps al specs (A ++ b :: F) = true -> ok_args2 cx ps al specs (A ++ b :: F') = true.
  Proof.
    intros H. destruct (barrier_all (lsize2 al)) as (_ & _ & HA).
    exact (b_args_of_arg _ HA al (le_n _) ps specs A F F' H).
  Qed.
End BarrierItems.
