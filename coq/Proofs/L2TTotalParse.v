(** C07 — every tree produced by the parser model has list bodies ([wf]):
    a postcondition of [Parser.run] for every task, every fuel, every input
    string, both parsing modes and every context, proved by induction on the
    fuel.  Bodies of groups / math nodes come from [TGeneral] (always an
    [NList], also as recovery nodes of its errors), bodies of environments from
    [TEnvBody] (likewise), the synthetic groups of [TExpr] / [TVerbDelim] carry
    an [NList] built on the spot.  Recovery nodes that are NOT lists (the chars
    node of an unterminated delimited-verbatim argument, the chars / macro node
    of [TExpr]'s errors) only ever become ARGUMENTS or list ITEMS, never bodies. *)
From Coq Require Import NArith ZArith List Bool Arith Lia.
From PLV Require Import Base.PyStr Tok.PState Tok.Tokenizer Parse.Nodes Parse.Parser Parse.ParseWire.
From PLV Require Import Tree.Visitor.
Import ListNotations.

Notation wfs l := (forallb (wf_slot wf) l).

Lemma wfs_app : forall a b, wfs (a ++ b) = wfs a && wfs b.
Proof. intros. apply forallb_app. Qed.

Lemma wfs_rev_head : forall l x r, wfs l = true -> rev l = x :: r -> wf_slot wf x = true.
Proof.
  intros l x r Hl Hr. rewrite forallb_forall in Hl. apply Hl.
  apply in_rev. rewrite Hr. now left.
Qed.

(** what a result may carry *)
Definition gslot (r : res out) : bool :=
  match r with
  | Ok (ONode n) _ => wf_slot wf n
  | Ok (OColl st _ _ _) _ => wfs (cs_acc st)
  | Ok (OArgs a) _ => wf_args wf a
  | PErr e _ => wf_slot wf (pe_nodes e)
  | _ => true
  end.
(** the same, with node results / recovery nodes that are [None] or node lists *)
Definition gbody (r : res out) : bool :=
  match r with
  | Ok (ONode n) _ => wf_body wf n
  | Ok (OColl st _ _ _) _ => wfs (cs_acc st)
  | Ok (OArgs a) _ => wf_args wf a
  | PErr e _ => wf_body wf (pe_nodes e)
  | _ => true
  end.

Lemma wf_body_slot : forall b, wf_body wf b = true -> wf_slot wf b = true.
Proof. intros [c|] H; [|reflexivity]. destruct c; try discriminate. exact H. Qed.

Lemma gbody_gslot : forall r, gbody r = true -> gslot r = true.
Proof.
  intros [[n|st s0 a b|a] p|e p|p|k|] H; cbn in *; auto using wf_body_slot.
Qed.

Definition listy (t : task) : bool :=
  match t with TGeneral _ _ _ | TEnvBody _ _ _ => true | _ => false end.
Definition pre (t : task) : bool :=
  match t with
  | TCollect _ _ st _ => wfs (cs_acc st)
  | TExpr _ _ _ _ _ acc _ => wfs acc
  | TArgs _ _ acc _ => wfs acc
  | _ => true
  end.
Definition post (t : task) (r : res out) : bool := if listy t then gbody r else gslot r.

Section WF.
  Variable s : str.
  Variable tol : bool.
  Variable cx : context.

  Lemma parse_content_gslot : forall r, gslot r = true -> gslot (parse_content tol r) = true.
  Proof.
    intros [[n|st s0 a b|a] p|e p|p|k|] H; cbn in *; auto. destruct tol; cbn; auto.
  Qed.
  Lemma parse_content_gbody : forall r, gbody r = true -> gbody (parse_content tol r) = true.
  Proof.
    intros [[n|st s0 a b|a] p|e p|p|k|] H; cbn in *; auto. destruct tol; cbn; auto.
  Qed.
  Lemma parse_content_args_gslot : forall r, gslot r = true -> gslot (parse_content_args tol r) = true.
  Proof.
    intros r H. unfold parse_content_args. apply parse_content_gslot in H.
    destruct (parse_content tol r) as [[[n|]|st s0 a b|a] p|e p|p|k|]; cbn in *; auto.
  Qed.

  Lemma flush_ok : forall ps st, wfs (cs_acc st) = true -> wfs (cs_acc (flush ps st)) = true.
  Proof.
    intros ps st H. unfold flush. destruct (cs_pend st); [exact H|]. cbn [cs_acc].
    rewrite wfs_app, H. reflexivity.
  Qed.
  Lemma push_node_ok : forall st n, wfs (cs_acc st) = true -> wf_slot wf n = true ->
    wfs (cs_acc (push_node st n)) = true.
  Proof. intros st n H Hn. cbn [push_node cs_acc]. rewrite wfs_app, H. cbn. now rewrite Hn. Qed.
  Lemma wfs_snoc : forall acc n, wfs acc = true -> wf_slot wf n = true -> wfs (acc ++ [n]) = true.
  Proof. intros acc n H Hn. rewrite wfs_app, H. cbn. now rewrite Hn. Qed.
  Lemma wfs_app_intro : forall a b, wfs a = true -> wfs b = true -> wfs (a ++ b) = true.
  Proof. intros a b Ha Hb. now rewrite wfs_app, Ha, Hb. Qed.
  Ltac head_scrut r :=
    lazymatch r with
    | match ?x with _ => _ end => head_scrut x
    | fst ?x => head_scrut x
    | snd ?x => head_scrut x
    | _ => r
    end.

  Ltac red1 :=
    cbn [gslot gbody post listy pre pe_nodes mkerr wf_slot wf_body wf_args wf cs_acc push_pending push_node
         cs_empty mk_nodelist mk_chars forallb andb fst snd parse_content_args] in *.

  Ltac destr h :=
    let E := fresh "E" in
    destruct h eqn:E;
    repeat match goal with
           | H : context [h] |- _ => tryif constr_eq H E then fail else rewrite E in H
           end;
    red1.

  Ltac solve_wf :=
    red1;
    repeat match goal with
           | |- context [match ?x with _ => _ end] => destr x
           end;
    try reflexivity;
    auto 6 using flush_ok, push_node_ok, wfs_snoc, wfs_app_intro, wf_body_slot;
    try (eapply wfs_rev_head; [|eassumption]; auto 6 using flush_ok, push_node_ok, wfs_snoc, wfs_app_intro);
    try (cbn [app forallb];
         repeat match goal with H : _ = true |- _ => rewrite H end; reflexivity);
    try match goal with
        | E : ?x = ?o :: ?l |- wf_slot wf ?o && wfs ?l = true =>
            change (wfs (o :: l) = true); rewrite <- E;
            auto 6 using flush_ok, push_node_ok, wfs_snoc, wfs_app_intro
        end.

  Ltac step IH :=
    first [ reflexivity | congruence |
    lazymatch goal with
    | |- match ?x with _ => _ end = true => let h := head_scrut x in destr h
    | |- ?G ?r = true =>
      lazymatch r with
      | match ?x with _ => _ end =>
          let h := head_scrut x in
          lazymatch h with
          | parse_content _ (run _ _ _ _ ?X) =>
              let H := fresh "HR" in
              assert (H : post X h = true)
                by (cbn [post listy]; first [apply parse_content_gslot | apply parse_content_gbody];
                    apply (IH X); solve_wf);
              revert H; destruct h as [[?n|?st ?stopped ?nlmet ?eos|?a] ?p|?e ?p|?p|?k|]; intros H; red1
          | parse_content_args _ (run _ _ _ _ ?X) =>
              let H := fresh "HR" in
              assert (H : gslot h = true)
                by (apply parse_content_args_gslot; apply (IH X); solve_wf);
              revert H; destruct h as [[?n|?st ?stopped ?nlmet ?eos|?a] ?p|?e ?p|?p|?k|]; intros H; red1
          | run _ _ _ _ ?X =>
              let H := fresh "HR" in
              assert (H : post X h = true) by (apply (IH X); solve_wf);
              revert H; destruct h as [[?n|?st ?stopped ?nlmet ?eos|?a] ?p|?e ?p|?p|?k|]; intros H; red1
          | _ => destr h
          end
      | run _ _ _ _ ?X => apply (IH X); solve [solve_wf]
      | _ => solve [solve_wf]
      end
    end ].

  Theorem run_wf : forall fuel t, pre t = true -> post t (run s tol cx fuel t) = true.
  Proof.
    induction fuel as [|fuel' IH]; intros t Hpre; [destruct t; reflexivity|].
    destruct t; cbn [run]; cbn [post listy]; cbn [pre] in Hpre.
    - (* TCollect *) repeat step IH.
    - (* TGeneral *) repeat step IH.
    - (* TGroup *) repeat step IH.
    - (* TMath *) repeat step IH.
    - (* TEnvBody *) repeat step IH.
    - (* TExpr *) repeat step IH.
    - (* TChars *) repeat step IH.
    - (* TVerbDelim *) repeat step IH.
    - (* TStdArg *)
      apply parse_content_gslot.
      destruct k; match goal with |- _ (run _ _ _ _ ?X) = true => apply (IH X); reflexivity end.
    - repeat step IH.
    - repeat step IH.
    - repeat step IH.
  Qed.

  (** every node result / recovery node of every task is well formed *)
  Corollary run_node_wf : forall fuel t n p, pre t = true ->
    run s tol cx fuel t = Ok (ONode (Some n)) p -> wf n = true.
  Proof.
    intros fuel t n p Hpre Hr. assert (H := run_wf fuel t Hpre). rewrite Hr in H.
    unfold post in H. destruct (listy t); cbn [gbody gslot] in H; [apply wf_body_slot in H|]; exact H.
  Qed.

  (** the object returned by [LatexWalker.parse_content(LatexGeneralNodesParser())]:
      [None] or a node list all of whose bodies are [None] or node lists — in strict
      AND in tolerant mode (recovery nodes included) *)
  Theorem parse_top_wf : forall ps n p,
    parse_top s tol cx ps = Ok (ONode n) p -> wf_body wf n = true.
  Proof.
    intros ps n p H. unfold parse_top in H.
    assert (Hg := run_wf (parse_fuel s cx) (TGeneral ps top_opts 0) eq_refl).
    cbn [post listy] in Hg. apply parse_content_gbody in Hg. rewrite H in Hg. exact Hg.
  Qed.

  Theorem parser_results_wf : forall ps nl p,
    parse_top s tol cx ps = Ok (ONode (Some nl)) p -> wf nl = true.
  Proof. intros ps nl p H. apply parse_top_wf in H. now apply wf_body_slot in H. Qed.

End WF.
