From Coq Require Import NArith List Bool Arith Lia.
From PLV Require Import Base.PyStr Tok.PState Tok.Tokenizer Parse.Nodes Parse.Parser Parse.ParseWire
     Proofs.PyStrFacts Proofs.TokProofs Proofs.PStateProofs Proofs.ParserTok Proofs.ParserInv
     Proofs.ParserMono Proofs.ParserTermDefs.
Import ListNotations.

(** Termination of the parser model, part 2 (property C06): one lemma per task
    kind ([run (S f) t] satisfies [Q] when every [run f y] does), then the
    induction on the fuel. *)

Ltac good_tac :=
  eauto 6 using good_add_group, good_enter_math, good_leave_math, good_apply_adelta, good_no_envs,
    child_good, good_group_gps.

Ltac needs :=
  unfold need; cbn [task_pos cst length];
  lazymatch goal with
  | |- W ?s ?A ?b + _ + 1 <= W ?s ?A ?a + _ =>
      pose proof (W_le s A a b); pose proof (W_lt s A a b); lia
  end.

Ltac leaf :=
  split; [ cbn [bounded lo_of task_pos epos mkerr pe_at pe_past tokerr_perr tend tpos tpre mk]; try lia
         | split; [ cbn [shaped kind_of mkerr pe_nodes]; try exact I; try congruence
                  | intros _; discriminate ] ].

Ltac ok_tac := split; [cbn [task_pos]; try lia | split; [cbn [task_ps]; good_tac | try exact I; try assumption]].

Section Main.
  Variables (s : str) (cx : context) (A : nat).
  Hypothesis A4 : 4 <= A.
  Hypothesis AM : max_args cx + 6 <= 2 * A.

  Definition IHT tol f := forall t, task_ok s cx t -> Q s A tol f t (run s tol cx f t).

  (** a call [parse_content (run f y0)] at the head of the result: prove the
      task invariant and the fuel inequality, get the facts about the result,
      and keep the two live cases (a node, an error) *)
  Ltac call_pc IH y0 :=
    lazymatch goal with
    | |- Q _ _ ?tol (S ?f) ?T _ =>
        let y := fresh "y" in set (y := y0);
        let Hy := fresh "Hy" in
        assert (Hy : task_ok s cx y);
        [ unfold y
        | let Nn := fresh "Nn" in
          assert (Nn : need s A y + 1 <= need s A T);
          [ unfold y
          | let B := fresh "B" in let Sh := fresh "Sh" in let F := fresh "F" in let Lo := fresh "Lo" in
            destruct (Q_pc s A tol f y _ (IH y Hy) ltac:(first [left; reflexivity | right; reflexivity]))
              as (B & Sh & F);
            pose proof (lo_ge s cx tol y Hy) as Lo; unfold y in Lo; cbn [task_pos] in Lo; fold y in Lo;
            destruct (parse_content tol (run s tol cx f y)) as [[?n|?c1 ?c2 ?c3 ?c4|?a] ?p|?e ?p|?p|?k|];
            cbn [shaped] in Sh; try contradiction; cbn [bounded] in B;
            [ | | eapply Q_oof; eassumption ] ] ]
    end.

  Definition group_parsed (gps : pstate) (d : gdelims) (t : token) : option (str * str) :=
    match d with
    | GDPair o c => Some (o, c)
    | GDStr o => match group_close_of gps o with Some c => Some (o, c) | None => None end
    | GDNone => match group_close_of gps (targ t) with Some c => Some (targ t, c) | None => None end
    end.
  Definition group_opts (gps ps : pstate) (od cd : str) : genopts :=
    {| g_stop := SBraceClose cd; g_nl := NLNone; g_require := true;
       g_child := CPGroup gps ps od; g_incl_pre := true; g_handle_stop := true |}.

  Lemma run_group_eq tol f ps d opt aps pos :
    run s tol cx (S f) (TGroup ps d opt aps pos) =
    match next_tok s tol (group_gps ps d) pos with
    | TokEOS _ => REOS pos
    | TokErr e => PErr (tokerr_perr e) pos
    | TokOk t =>
        if negb (group_ok d aps t) then
          if opt then Ok (ONode None) (tpos t - length (tpre t))
          else PErr (mkerr (Some (tpos t)) 7
                           (Some (NList (Some (tpos t - length (tpre t))) (Some (tpos t - length (tpre t))) []))
                           true (Some t) None)
                    (tend t)
        else
        match group_parsed (group_gps ps d) d t with
        | None => RExn 2
        | Some (od, cd) =>
            match parse_content tol (run s tol cx f (TGeneral (group_gps ps d) (group_opts (group_gps ps d) ps od cd) (tend t))) with
            | Ok (ONode body) p => Ok (ONode (Some (NGroup (tpos t) p (ps_mode (group_gps ps d)) od cd body))) p
            | Ok _ p => RExn 9
            | PErr e p => PErr e p | REOS p => REOS p | RExn k => RExn k | OutOfFuel => OutOfFuel
            end
        end
    end.
  Proof. reflexivity. Qed.

  Lemma group_parsed_ok tol ps d aps pos t : good ps ->
    next_tok s tol (group_gps ps d) pos = TokOk t -> group_ok d aps t = true ->
    exists od cd, group_parsed (group_gps ps d) d t = Some (od, cd) /\ grp_ext ps (group_gps ps d) od.
  Proof.
    intros G N OK. unfold group_ok in OK. apply andb_true_iff in OK. destruct OK as [_ OK].
    apply andb_true_iff in OK. destruct OK as [K OK]. apply tokkind_eqb_eq in K.
    pose proof (next_tok_brace_open s tol _ pos t (good_group_gps ps d G) N K) as X.
    destruct d as [|o|o c]; cbn [group_parsed group_gps] in *.
    - destruct (group_close_of ps (targ t)) as [c|]; [|congruence]. exists (targ t), c. split; [reflexivity|left; reflexivity].
    - apply seqb_eq in OK. subst o.
      destruct (group_close_of ps (targ t)) as [c|]; [|congruence]. exists (targ t), c. split; [reflexivity|left; reflexivity].
    - exists o, c. split; [reflexivity|]. apply add_group_ext. exact G.
  Qed.

  Lemma step_group tol f ps d opt aps pos : IHT tol f -> task_ok s cx (TGroup ps d opt aps pos) ->
    Q s A tol (S f) (TGroup ps d opt aps pos) (run s tol cx (S f) (TGroup ps d opt aps pos)).
  Proof.
    intros IH (Hp & G & _). cbn [task_pos task_ps] in *. rewrite run_group_eq.
    pose proof (good_group_gps ps d G) as Gg.
    pose proof (next_tok_spec s tol _ pos Gg Hp) as NT.
    unfold Q. cbn [lo_of kind_of].
    destruct (next_tok s tol (group_gps ps d) pos) as [t|fin|e] eqn:N.
    - destruct NT as (T1 & T2 & T3 & T4).
      destruct (group_ok d aps t) eqn:OK; cbn [negb].
      + destruct (group_parsed_ok tol ps d aps pos t G N OK) as (od & cd & GP & X). rewrite GP.
        set (y := TGeneral (group_gps ps d) (group_opts (group_gps ps d) ps od cd) (tend t)).
        assert (Hy : task_ok s cx y).
        { split; [cbn; lia | split; [exact Gg|]]. cbn. unfold child_ok. cbn. auto. }
        assert (Nn : need s A y + 1 <= need s A (TGroup ps d opt aps pos)) by (unfold y; needs).
        destruct (Q_pc s A tol f y _ (IH y Hy) (or_intror eq_refl)) as (B & Sh & F).
        cbn [lo_of task_pos y] in B.
        destruct (parse_content tol (run s tol cx f y)) as [[n|c1 c2 c3 c4|a] p|e p|p|k|];
          cbn [shaped] in Sh; try contradiction; cbn [bounded] in B.
        * repeat split; cbn [bounded shaped]; try lia; try exact I. discriminate.
        * repeat split; cbn [bounded shaped]; try lia; try exact I. discriminate.
        * repeat split; try exact I. intros H. apply F. lia.
      + destruct opt; repeat split;
          cbn [bounded shaped epos mkerr pe_at pe_past]; try lia; try exact I; discriminate.
    - repeat split; cbn [bounded shaped]; try lia; try exact I; discriminate.
    - repeat split; cbn [bounded shaped epos tokerr_perr mkerr pe_at pe_past]; try lia; try exact I; discriminate.
  Qed.

  (** ** math *)
  Definition math_opts (k : tokkind) (cd : str) : genopts :=
    {| g_stop := SMathClose k cd; g_nl := NLNone; g_require := true;
       g_child := CPSelf; g_incl_pre := true; g_handle_stop := true |}.

  Lemma run_math_eq tol f ps d pos :
    run s tol cx (S f) (TMath ps d pos) =
    match next_tok s tol ps pos with
    | TokEOS _ => REOS pos
    | TokErr e => PErr (tokerr_perr e) pos
    | TokOk t =>
        if negb (math_ok d t) then
          PErr (mkerr (Some (tpos t)) 8 (Some (NList (Some (tpos t)) (Some (tpos t)) [])) true (Some t) None) (tend t)
        else
        match c_expect_close (ps_c (ps_enter_math ps (Some (targ t)))) with
        | None => RExn 3
        | Some (cd, _) =>
            match parse_content tol (run s tol cx f (TGeneral (ps_enter_math ps (Some (targ t)))
                                                        (math_opts (tk t) cd) (tend t))) with
            | Ok (ONode body) p =>
                Ok (ONode (Some (NMath (tpos t) p (ps_mode ps) (tokkind_eqb (tk t) TkMathDisplay)
                                       (targ t) cd body))) p
            | Ok _ p => RExn 9
            | PErr e p => PErr e p | REOS p => REOS p | RExn k => RExn k | OutOfFuel => OutOfFuel
            end
        end
    end.
  Proof. reflexivity. Qed.

  Lemma step_math tol f ps d pos : IHT tol f -> task_ok s cx (TMath ps d pos) ->
    Q s A tol (S f) (TMath ps d pos) (run s tol cx (S f) (TMath ps d pos)).
  Proof.
    intros IH (Hp & G & BO). cbn [task_pos task_ps] in *. rewrite run_math_eq.
    pose proof (next_tok_spec s tol _ pos G Hp) as NT.
    unfold Q. cbn [lo_of kind_of].
    destruct (next_tok s tol ps pos) as [t|fin|e] eqn:N.
    - destruct NT as (T1 & T2 & T3 & T4).
      destruct (math_ok d t) eqn:OK; cbn [negb].
      + assert (E : targ t = d).
        { unfold math_ok in OK. apply andb_true_iff in OK. destruct OK as [_ OK]. apply seqb_eq. exact OK. }
        rewrite (enter_math_expect ps (targ t) G). rewrite E.
        unfold by_open_has in BO. destruct (dict_get (c_math_by_open (ps_c ps)) d) as [[cd k0]|]; [|discriminate].
        set (y := TGeneral (ps_enter_math ps (Some d)) (math_opts (tk t) cd) (tend t)).
        assert (Hy : task_ok s cx y).
        { split; [cbn; lia | split; [cbn; apply good_enter_math; exact G|]]. exact I. }
        assert (Nn : need s A y + 1 <= need s A (TMath ps d pos)) by (unfold y; needs).
        destruct (Q_pc s A tol f y _ (IH y Hy) (or_intror eq_refl)) as (B & Sh & F).
        cbn [lo_of task_pos y] in B.
        destruct (parse_content tol (run s tol cx f y)) as [[n|c1 c2 c3 c4|a] p|e p|p|k|];
          cbn [shaped] in Sh; try contradiction; cbn [bounded] in B.
        * repeat split; cbn [bounded shaped]; try lia; try exact I. discriminate.
        * repeat split; cbn [bounded shaped]; try lia; try exact I. discriminate.
        * repeat split; try exact I. intros H. apply F. lia.
      + repeat split; cbn [bounded shaped epos mkerr pe_at pe_past]; try lia; try exact I; discriminate.
    - repeat split; cbn [bounded shaped]; try lia; try exact I; discriminate.
    - repeat split; cbn [bounded shaped epos tokerr_perr mkerr pe_at pe_past]; try lia; try exact I; discriminate.
  Qed.

  (** ** general nodes parser, environment body *)
  Lemma step_general tol f ps o pos : IHT tol f -> task_ok s cx (TGeneral ps o pos) ->
    Q s A tol (S f) (TGeneral ps o pos) (run s tol cx (S f) (TGeneral ps o pos)).
  Proof.
    intros IH (Hp & G & C). cbn [task_pos task_ps] in *. cbn [run].
    assert (Hy : task_ok s cx (TCollect ps o cs_empty pos)) by (split; [|split]; assumption).
    destruct (IH _ Hy) as (B & Sh & F).
    assert (N : need s A (TCollect ps o cs_empty pos) + 1 <= need s A (TGeneral ps o pos)) by needs.
    destruct (run s tol cx f (TCollect ps o cs_empty pos)) as [[n|st stopped nlmet eos|a] p|e p|p|k|];
      cbn [shaped kind_of] in Sh; try contradiction.
    - cbn [bounded lo_of task_pos] in B. destruct B as (B1 & B2 & B3).
      destruct (negb _).
      + leaf.
      + destruct stopped as [t|]; [destruct (g_handle_stop o)|]; leaf.
    - cbn [bounded lo_of task_pos] in B. leaf.
    - eapply Q_oof; eassumption.
  Qed.

  Lemma step_envbody tol f ps name pos : IHT tol f -> task_ok s cx (TEnvBody ps name pos) ->
    Q s A tol (S f) (TEnvBody ps name pos) (run s tol cx (S f) (TEnvBody ps name pos)).
  Proof.
    intros IH (Hp & G & _). cbn [task_pos task_ps] in *. cbn [run].
    match goal with |- context [run s tol cx f ?y0] => set (y := y0) end.
    assert (Hy : task_ok s cx y) by (split; [exact Hp | split; [exact G | exact I]]).
    assert (Nn : need s A y + 1 <= need s A (TEnvBody ps name pos)) by (unfold y; needs).
    destruct (Q_pc s A tol f y _ (IH y Hy) (or_intror eq_refl)) as (B & Sh & F).
    cbn [lo_of task_pos y] in B.
    destruct (parse_content tol (run s tol cx f y)) as [[[n|]|c1 c2 c3 c4|a] p|e p|p|k|];
      cbn [shaped] in Sh; try contradiction; cbn [bounded] in B.
    - leaf.
    - leaf.
    - leaf.
    - eapply Q_oof; eassumption.
  Qed.

  (** ** leaf parsers *)
  Lemma step_chars tol f ps ch aps full pos : IHT tol f -> task_ok s cx (TChars ps ch aps full pos) ->
    Q s A tol (S f) (TChars ps ch aps full pos) (run s tol cx (S f) (TChars ps ch aps full pos)).
  Proof.
    intros IH (Hp & G & _). cbn [task_pos task_ps] in *. cbn [run].
    pose proof (peek_tok_spec s tol ps pos G Hp) as NT.
    destruct (peek_tok s tol ps pos) as [t|fin|e].
    - destruct NT as (T1 & T2 & T3 & T4).
      destruct (_ && negb aps); [leaf|].
      destruct (tk t); try leaf; (destruct (targ t) as [|a0 l0]; [leaf|]; destruct (str_eqb _ ch); leaf).
    - leaf.
    - leaf.
  Qed.

  Section VScan.
    Variables cd od : N.
    Fixpoint vscan (l : str) (depth n : nat) : option nat :=
      match l with
      | [] => None
      | c :: r =>
          if N.eqb c cd then
            match depth with
            | S (S d') => vscan r (S d') (S n)
            | _ => Some n
            end
          else if N.eqb c od then vscan r (S depth) (S n)
          else vscan r depth (S n)
      end.
    Lemma vscan_bound l : forall depth n m, vscan l depth n = Some m -> n <= m /\ m < n + length l.
    Proof.
      induction l as [|c r IH]; intros depth n m H; cbn [vscan] in H; [discriminate|]. cbn [length].
      destruct (N.eqb c cd).
      - destruct depth as [|[|d']].
        + injection H as <-. lia.
        + injection H as <-. lia.
        + apply IH in H. lia.
      - destruct (N.eqb c od); apply IH in H; lia.
    Qed.
  End VScan.

  Definition verb_delims (d : option (str * str)) (c0 : N) : option (N * N) :=
    match d with
    | None => Some (c0, if N.eqb c0 123 then 125%N else if N.eqb c0 91 then 93%N
                        else if N.eqb c0 60 then 62%N else if N.eqb c0 40 then 41%N else c0)
    | Some ([o], [c]) => if N.eqb c0 o then Some (o, c) else None
    | Some _ => None
    end.

  Lemma run_verb_eq tol f ps d pos :
    run s tol cx (S f) (TVerbDelim ps d pos) =
    let p0 := snd (peek_space s pos) in
    match nth_error s p0 with
    | None => REOS p0
    | Some c0 =>
        match verb_delims d c0 with
        | None => PErr (mkerr (Some p0) 17 None false None None) (S p0)
        | Some (od, cd) =>
            match vscan cd od (skipn (S p0) s) 1 0 with
            | Some n =>
                let cstart := S p0 in let cend := S p0 + n in
                let vn := mk_chars ps cstart cend (slice s cstart cend) in
                Ok (ONode (Some (NGroup p0 (S cend) (ps_mode ps) [od] [cd]
                                        (Some (mk_nodelist None None [Some vn]))))) (S cend)
            | None =>
                let vn := mk_chars ps (S p0) (length s) (slice s (S p0) (length s)) in
                PErr (mkerr (Some (length s)) 18 (Some vn) true None None) (length s)
            end
        end
    end.
  Proof. reflexivity. Qed.

  Lemma step_verb tol f ps d pos : IHT tol f -> task_ok s cx (TVerbDelim ps d pos) ->
    Q s A tol (S f) (TVerbDelim ps d pos) (run s tol cx (S f) (TVerbDelim ps d pos)).
  Proof.
    intros IH (Hp & G & _). cbn [task_pos task_ps] in *. rewrite run_verb_eq. cbn zeta.
    destruct (peek_space_spec s pos Hp) as (P1 & _ & P3).
    set (p0 := snd (peek_space s pos)) in *.
    destruct (nth_error s p0) as [c0|] eqn:NE; [|leaf].
    assert (P4 : p0 < length s) by (apply nth_error_Some; congruence).
    destruct (verb_delims d c0) as [[od cd]|]; [|leaf].
    destruct (vscan cd od (skipn (S p0) s) 1 0) as [n|] eqn:SC; [|leaf].
    apply vscan_bound in SC. rewrite skipn_length in SC. leaf.
  Qed.

  (** ** standard argument, arguments list *)
  Lemma shaped_C_node r : shaped KNodeC r -> shaped KNode r.
  Proof. destruct r as [[n|c1 c2 c3 c4|a] p|e p|p|k|]; cbn; tauto. Qed.

  Lemma step_stdarg tol f ps k pos : IHT tol f -> task_ok s cx (TStdArg ps k pos) ->
    Q s A tol (S f) (TStdArg ps k pos) (run s tol cx (S f) (TStdArg ps k pos)).
  Proof.
    intros IH (Hp & G & _). cbn [task_pos task_ps] in *. cbn [run].
    assert (X : forall y, task_ok s cx y -> task_pos y = pos -> kind_of y = KNode ->
                need s A y + 1 <= need s A (TStdArg ps k pos) ->
                Q s A tol (S f) (TStdArg ps k pos) (parse_content tol (run s tol cx f y))).
    { intros y Hy Py Ky Ny. destruct (Q_pc s A tol f y _ (IH y Hy) (or_introl Ky)) as (B & Sh & F).
      pose proof (lo_ge s cx tol y Hy) as Lo. split; [|split].
      - eapply bounded_weaken; [|exact B]. cbn [lo_of task_pos]. lia.
      - apply shaped_C_node. exact Sh.
      - intros H. apply F. lia. }
    destruct k; apply X; try reflexivity; try (split; [exact Hp | split; [exact G | exact I]]); needs.
  Qed.

  Lemma step_args tol f ps specs acc pos : IHT tol f -> task_ok s cx (TArgs ps specs acc pos) ->
    Q s A tol (S f) (TArgs ps specs acc pos) (run s tol cx (S f) (TArgs ps specs acc pos)).
  Proof.
    intros IH (Hp & G & _). cbn [task_pos task_ps] in *. cbn [run].
    destruct specs as [|a rest]; [leaf|].
    pose proof (peek_tok_spec s tol ps pos G Hp) as NT.
    assert (X : Q s A tol (S f) (TArgs ps (a :: rest) acc pos)
      match parse_content tol (run s tol cx f (TStdArg (apply_adelta ps (a_delta a)) (a_kind a) pos)) with
      | Ok (ONode n) p => run s tol cx f (TArgs ps rest (acc ++ [n]) p)
      | Ok _ p => RExn 9
      | PErr e p => PErr e p | REOS p => REOS p | RExn k => RExn k | OutOfFuel => OutOfFuel
      end).
    { call_pc IH (TStdArg (apply_adelta ps (a_delta a)) (a_kind a) pos).
      - split; [exact Hp | split; [cbn; good_tac | exact I]].
      - needs.
      - eapply Q_tail; [apply IH | | reflexivity | needs].
        + split; [cbn; lia | split; [exact G | exact I]].
        + cbn [lo_of task_pos]. lia.
      - leaf. }
    destruct (peek_tok s tol ps pos) as [t|fin|e]; [exact X | exact X | leaf].
  Qed.

  (** ** legacy verbatim arguments *)
  Lemma step_legacy tol f ps k pos : IHT tol f -> task_ok s cx (TLegacyArgs ps k pos) ->
    Q s A tol (S f) (TLegacyArgs ps k pos) (run s tol cx (S f) (TLegacyArgs ps k pos)).
  Proof.
    intros IH (Hp & G & _). cbn [task_pos task_ps] in *. cbn [run].
    destruct k as [|name optarg].
    - destruct (peek_space_spec s pos Hp) as (P1 & _ & P3).
      set (p1 := snd (peek_space s pos)) in *.
      destruct (nth_error s p1) as [dc|] eqn:NE; [|leaf].
      unfold sfind. destruct (find_from s [dc] (S p1)) as [e|] eqn:FF; [|leaf].
      apply find_from_bound in FF. cbn [length] in FF. leaf.
    - set (endcode := _ ++ name ++ _).
      assert (FIN : forall sp al p, pos <= p -> p <= length s ->
        Q s A tol (S f) (TLegacyArgs ps (LVerbEnv name optarg) pos)
          match sfind s endcode p with
          | None => PErr (mkerr (Some p) 21 None false None None) pos
          | Some e => Ok (OArgs (Some (sp ++ [[123%N]], al ++ [Some (mk_chars ps p e (slice s p e))]))) e
          end).
      { intros sp al p L1 L2. unfold sfind. destruct (find_from s endcode p) as [e|] eqn:FF; [|leaf].
        apply find_from_bound in FF. leaf. }
      assert (GRP : Q s A tol (S f) (TLegacyArgs ps (LVerbEnv name optarg) pos)
        match
          match parse_content tol (run s tol cx f (TGroup ps (GDPair [91%N] [93%N]) true false pos)) with
          | Ok (ONode n) p => Ok ([[91%N]], [n], p) p
          | Ok _ p => RExn 9
          | PErr e p => PErr e p | REOS p => REOS p | RExn k2 => RExn k2
          | OutOfFuel => OutOfFuel end
        with
        | Ok (sp, al, p) _ =>
            match sfind s endcode p with
            | None => PErr (mkerr (Some p) 21 None false None None) pos
            | Some e => Ok (OArgs (Some (sp ++ [[123%N]], al ++ [Some (mk_chars ps p e (slice s p e))]))) e
            end
        | PErr e p => PErr e p | REOS p => REOS p | RExn k2 => RExn k2 | OutOfFuel => OutOfFuel
        end).
      { call_pc IH (TGroup ps (GDPair [91%N] [93%N]) true false pos).
        - split; [exact Hp | split; [exact G | exact I]].
        - needs.
        - apply FIN; lia.
        - leaf. }
      destruct optarg.
      + destruct (nth_error s pos) as [c|]; [destruct (is_space c)|]; try exact GRP. apply FIN; lia.
      + apply FIN; lia.
  Qed.

  (** ** macro / environment / specials call *)
  Lemma step_call tol f ps t sp pos : IHT tol f -> task_ok s cx (TCall ps t sp pos) ->
    Q s A tol (S f) (TCall ps t sp pos) (run s tol cx (S f) (TCall ps t sp pos)).
  Proof.
    intros IH (Hp & G & NA). cbn [task_pos task_ps] in *. cbn [run].
    assert (REST : forall a p, pos <= p -> p <= length s ->
      Q s A tol (S f) (TCall ps t sp pos)
        match tk t with
        | TkBeginEnv =>
            match parse_content tol (run s tol cx f (TEnvBody (if sp_body_math sp then ps_enter_math ps None else ps) (targ t) p)) with
            | Ok (ONode body) p2 => Ok (ONode (Some (NEnv (tpos t) p2 (ps_mode ps) (targ t) a body))) p2
            | Ok _ p2 => RExn 9
            | PErr e p2 => PErr e p2 | REOS p2 => REOS p2 | RExn k => RExn k | OutOfFuel => OutOfFuel
            end
        | TkSpecials => Ok (ONode (Some (NSpecials (tpos t) p (ps_mode ps) (targ t) a))) p
        | _ => Ok (ONode (Some (NMacro (tpos t) p (ps_mode ps) (targ t) (tpost t) a))) p
        end).
    { intros a p L1 L2. destruct (tk t); try leaf.
      call_pc IH (TEnvBody (if sp_body_math sp then ps_enter_math ps None else ps) (targ t) p).
      - split; [cbn; lia | split; [cbn; destruct (sp_body_math sp); good_tac | exact I]].
      - needs.
      - leaf.
      - leaf. }
    destruct (sp_args sp) as [l|k] eqn:SA.
    - set (y := TArgs ps l [] pos).
      assert (Hy : task_ok s cx y) by (split; [exact Hp | split; [exact G | exact I]]).
      assert (Nn : need s A y + 1 <= need s A (TCall ps t sp pos)).
      { unfold y, need. cbn [task_pos cst]. unfold nargs. rewrite SA. lia. }
      destruct (Q_pca s A tol f y _ (IH y Hy) eq_refl) as (B & Sh & F).
      cbn [lo_of task_pos y] in B.
      destruct (parse_content_args tol (run s tol cx f y)) as [[n|c1 c2 c3 c4|a] p|e p|p|k|];
        cbn [shaped] in Sh; try contradiction; cbn [bounded] in B.
      + apply REST; lia.
      + leaf.
      + eapply Q_oof; eassumption.
    - set (y := TLegacyArgs ps k pos).
      assert (Hy : task_ok s cx y) by (split; [exact Hp | split; [exact G | exact I]]).
      assert (Nn : need s A y + 1 <= need s A (TCall ps t sp pos)).
      { unfold y, need. cbn [task_pos cst]. lia. }
      destruct (Q_pca s A tol f y _ (IH y Hy) eq_refl) as (B & Sh & F).
      cbn [lo_of task_pos y] in B.
      destruct (parse_content_args tol (run s tol cx f y)) as [[n|c1 c2 c3 c4|a] p|e p|p|k0|];
        cbn [shaped] in Sh; try contradiction; cbn [bounded] in B.
      + apply REST; lia.
      + leaf.
      + eapply Q_oof; eassumption.
  Qed.

  (** ** expression parser *)
  (** the exit path [finish] of the expression parser, whatever was collected *)
  Ltac fin :=
    unfold mk_nodelist;
    repeat (lazymatch goal with
            | |- Q _ _ _ _ _ (match ?x0 with _ => _ end) =>
                let x := head_scrut x0 in destruct x; cbv beta iota
            end);
    leaf.

  Lemma step_expr tol f ps aps apc full sterr acc pos : IHT tol f ->
    task_ok s cx (TExpr ps aps apc full sterr acc pos) ->
    Q s A tol (S f) (TExpr ps aps apc full sterr acc pos)
      (run s tol cx (S f) (TExpr ps aps apc full sterr acc pos)).
  Proof.
    intros IH (Hp & G & _). cbn [task_pos task_ps] in *. cbn [run].
    pose proof (good_no_envs ps G) as Ge.
    pose proof (next_tok_spec s tol _ pos Ge Hp) as NT.
    assert (TAIL : forall acc' p, pos < p -> p <= length s ->
      Q s A tol (S f) (TExpr ps aps apc full sterr acc pos)
        (run s tol cx f (TExpr ps aps apc full sterr acc' p))).
    { intros acc' p L1 L2. eapply Q_tail; [apply IH | | reflexivity | needs].
      - split; [cbn [task_pos]; lia | split; [exact G | exact I]].
      - cbn [lo_of task_pos]. lia. }
    destruct (next_tok s tol (sub_context ps [UEnEnvs false]) pos) as [t|fin|e] eqn:N.
    2: { apply if_tol; intros _; [fin | leaf]. }
    2: { leaf. }
    destruct NT as (T1 & T2 & T3 & T4).
    destruct (tk t) eqn:K.
    10: { fin. }
    2: { destruct (sterr && _).
         - apply if_tol; intros _; [fin | leaf].
         - destruct (get_macro_spec cx (targ t)); [fin|]. apply if_tol; intros _; [fin | leaf]. }
    all: destruct (tpre t) as [|c0 l0] eqn:TP;
      pose proof (f_equal (@length _) TP) as TL; cbn [length] in *;
      [ | destruct aps; [apply TAIL; lia | apply if_tol; intros _; [apply TAIL; lia | leaf]] ].
    - (* char *) fin.
    - (* begin *) leaf.
    - (* end *) leaf.
    - (* comment *) destruct apc; [apply TAIL; lia | apply if_tol; intros _; [apply TAIL; lia | leaf]].
    - (* brace open *)
      call_pc IH (TGroup ps (GDStr (targ t)) false false (tpos t)).
      + split; [cbn; lia | split; [exact G | exact I]].
      + needs.
      + fin.
      + leaf.
    - (* brace close *) leaf.
    - (* math *) leaf.
    - leaf.
  Qed.

  (** ** the nodes collector *)
  (** the group / math parser a collector starts on a token reads that token
      again (in the child state), hence gets past it *)
  Lemma lo_child_group tol ps o pos t : good ps -> child_ok ps o ->
    next_tok s tol ps pos = TokOk t -> tk t = TkBraceOpen ->
    lo_of s tol (TGroup (child_state o ps t) (GDStr (targ t)) false false (tpos t)) = tend t.
  Proof.
    intros G C N K. cbn [lo_of group_gps].
    rewrite (child_reread s tol ps o pos t G C N (or_introl K)).
    unfold group_ok. cbn [tok_set_pre mk tpre tk targ tend orb andb]. rewrite K, seqb_refl. reflexivity.
  Qed.

  Lemma lo_child_math tol ps o pos t : good ps -> child_ok ps o ->
    next_tok s tol ps pos = TokOk t -> is_math_kind (tk t) = true ->
    lo_of s tol (TMath (child_state o ps t) (targ t) (tpos t)) = tend t.
  Proof.
    intros G C N K. cbn [lo_of].
    rewrite (child_reread s tol ps o pos t G C N (or_intror K)).
    unfold math_ok, mode_of_tok. cbn [tok_set_pre mk tpre tk targ tend andb]. rewrite seqb_refl.
    destruct (tk t); try discriminate; reflexivity.
  Qed.

  Lemma step_collect tol f ps o st pos : IHT tol f -> task_ok s cx (TCollect ps o st pos) ->
    Q s A tol (S f) (TCollect ps o st pos) (run s tol cx (S f) (TCollect ps o st pos)).
  Proof.
    intros IH (Hp & G & C). cbn [task_pos task_ps] in *. cbn [run].
    pose proof (next_tok_spec s tol ps pos G Hp) as NT.
    assert (TAIL : forall st' p, pos < p -> p <= length s ->
      Q s A tol (S f) (TCollect ps o st pos) (run s tol cx f (TCollect ps o st' p))).
    { intros st' p L1 L2. eapply Q_tail; [apply IH | | reflexivity | needs].
      - split; [cbn [task_pos]; lia | split; [exact G | exact C]].
      - cbn [lo_of task_pos]. lia. }
    destruct (next_tok s tol ps pos) as [t|fin|e] eqn:N.
    3: { leaf. }
    2: { destruct fin as [|c0 fin]; [leaf|].
         apply (f_equal (@length _)) in NT. rewrite skipn_length in NT. cbn [length] in *.
         apply TAIL; lia. }
    destruct NT as (T1 & T2 & T3 & T4).
    destruct (stop_matches (g_stop o) t).
    { destruct (g_incl_pre o); leaf. }
    match goal with |- context [snd ?p] => set (pr := p) end. clearbody pr.
    (* push a node, check the node-list stop condition, go on *)
    assert (PUSH : forall st' n p, pos < p -> p <= length s ->
      Q s A tol (S f) (TCollect ps o st pos)
        (if nl_stop_met (g_nl o) (cs_acc (push_node st' n))
         then Ok (OColl (push_node st' n) None true false) p
         else run s tol cx f (TCollect ps o (push_node st' n) p))).
    { intros st' n p L1 L2. destruct (nl_stop_met _ _); [leaf | apply TAIL; lia]. }
    pose proof (child_good ps o t G C) as Gc.
    destruct (tk t) eqn:K.
    - (* char *) apply TAIL; lia.
    - (* macro *)
      destruct (snd pr); [leaf|].
      destruct (get_macro_spec cx (targ t)) as [sp|] eqn:SP.
      + call_pc IH (TCall (child_state o ps t) (mk TkMacro (targ t) (tpos t) (tend t) [] (tpost t)) sp (tend t)).
        * split; [cbn; lia | split; [exact Gc | apply (macro_spec_le _ _ _ SP)]].
        * pose proof (macro_spec_le _ _ _ SP). needs.
        * destruct n as [n|]; [apply PUSH; lia | apply TAIL; lia].
        * leaf.
      + apply if_tol; intros _; [apply TAIL; lia | leaf].
    - (* begin *)
      destruct (snd pr); [leaf|].
      destruct (get_env_spec cx (targ t)) as [sp|] eqn:SP.
      + call_pc IH (TCall (child_state o ps t) (mk TkBeginEnv (targ t) (tpos t) (tend t) [] (tpost t)) sp (tend t)).
        * split; [cbn; lia | split; [exact Gc | apply (env_spec_le _ _ _ SP)]].
        * pose proof (env_spec_le _ _ _ SP). needs.
        * destruct n as [n|]; [apply PUSH; lia | apply TAIL; lia].
        * leaf.
      + apply if_tol; intros _; [apply TAIL; lia | leaf].
    - (* end *) destruct (snd pr); leaf.
    - (* comment *) destruct (snd pr); [leaf|]. apply PUSH; lia.
    - (* brace open *)
      destruct (snd pr); [leaf|].
      pose proof (lo_child_group tol ps o pos t G C N K) as L.
      call_pc IH (TGroup (child_state o ps t) (GDStr (targ t)) false false (tpos t)).
      + split; [cbn; lia | split; [exact Gc | exact I]].
      + needs.
      + fold y in L. rewrite L in B. apply PUSH; lia.
      + fold y in L. rewrite L in B. leaf.
    - (* brace close *) destruct (snd pr); leaf.
    - (* math inline *)
      destruct (snd pr); [leaf|].
      destruct (by_open_has ps (targ t)) eqn:BO; cbn [negb]; [|leaf].
      assert (KM : is_math_kind (tk t) = true) by (rewrite K; reflexivity).
      pose proof (lo_child_math tol ps o pos t G C N KM) as L.
      call_pc IH (TMath (child_state o ps t) (targ t) (tpos t)).
      + split; [cbn; lia | split; [exact Gc|]]. unfold by_open_has in *.
        rewrite (child_by_open ps o t C). exact BO.
      + needs.
      + fold y in L. rewrite L in B. destruct n as [n|]; [apply PUSH; lia | apply TAIL; lia].
      + fold y in L. rewrite L in B. leaf.
    - (* math display *)
      destruct (snd pr); [leaf|].
      destruct (by_open_has ps (targ t)) eqn:BO; cbn [negb]; [|leaf].
      assert (KM : is_math_kind (tk t) = true) by (rewrite K; reflexivity).
      pose proof (lo_child_math tol ps o pos t G C N KM) as L.
      call_pc IH (TMath (child_state o ps t) (targ t) (tpos t)).
      + split; [cbn; lia | split; [exact Gc|]]. unfold by_open_has in *.
        rewrite (child_by_open ps o t C). exact BO.
      + needs.
      + fold y in L. rewrite L in B. destruct n as [n|]; [apply PUSH; lia | apply TAIL; lia].
      + fold y in L. rewrite L in B. leaf.
    - (* specials *)
      destruct (snd pr); [leaf|].
      destruct (get_specials_spec cx (targ t)) as [sp|] eqn:SP.
      + call_pc IH (TCall (child_state o ps t) (mk TkSpecials (targ t) (tpos t) (tend t) [] (tpost t)) sp (tend t)).
        * split; [cbn; lia | split; [exact Gc | apply (specials_spec_le _ _ _ SP)]].
        * pose proof (specials_spec_le _ _ _ SP). needs.
        * destruct n as [n|]; [apply PUSH; lia | apply TAIL; lia].
        * leaf.
      + apply if_tol; intros _; [apply TAIL; lia | leaf].
  Qed.

  (** * The induction on the fuel *)
  Lemma need_pos t : 1 <= need s A t.
  Proof. unfold need. destruct t; cbn [cst]; lia. Qed.

  Theorem run_Q tol : forall f, IHT tol f.
  Proof.
    induction f as [|f IH]; intros t Ht.
    - cbn [run]. split; [exact I | split; [exact I|]]. intros H. pose proof (need_pos t). lia.
    - destruct t.
      + apply step_collect; assumption.
      + apply step_general; assumption.
      + apply step_group; assumption.
      + apply step_math; assumption.
      + apply step_envbody; assumption.
      + apply step_expr; assumption.
      + apply step_chars; assumption.
      + apply step_verb; assumption.
      + apply step_stdarg; assumption.
      + apply step_args; assumption.
      + apply step_legacy; assumption.
      + apply step_call; assumption.
  Qed.
End Main.

(** * The theorems *)

(** Fuel sufficiency: with [A] units of fuel per remaining input character
    ([A >= 4] and [2 A >= max_args cx + 6]) plus the constant [cst] of the task
    kind, a task reachable from a top-level parse does not run out of fuel. *)
Theorem run_fuel_enough s tol cx A f t :
  4 <= A -> max_args cx + 6 <= 2 * A -> task_ok s cx t -> need s A t <= f ->
  run s tol cx f t <> OutOfFuel.
Proof. intros A4 AM Ht H. destruct (run_Q s cx A A4 AM tol f t Ht) as (_ & _ & F). apply F. exact H. Qed.

(** No task reachable from a top-level parse raises an exception other than
    the parse errors, and the results have the shape the callers expect. *)
Theorem run_shaped s tol cx f t : task_ok s cx t -> shaped (kind_of t) (run s tol cx f t).
Proof.
  intros Ht.
  assert (A4 : 4 <= max_args cx + 4) by lia.
  assert (AM : max_args cx + 6 <= 2 * (max_args cx + 4)) by lia.
  destruct (run_Q s cx _ A4 AM tol f t Ht) as (_ & Sh & _). exact Sh.
Qed.

Corollary run_no_exn s tol cx f t k : task_ok s cx t -> run s tol cx f t <> RExn k.
Proof. intros Ht E. pose proof (run_shaped s tol cx f t Ht) as Sh. rewrite E in Sh. exact Sh. Qed.

(** Results stay inside the input and never move the reader backwards. *)
Theorem run_bounded s tol cx f t : task_ok s cx t -> bounded s (lo_of s tol t) (run s tol cx f t).
Proof.
  intros Ht.
  assert (A4 : 4 <= max_args cx + 4) by lia.
  assert (AM : max_args cx + 6 <= 2 * (max_args cx + 4)) by lia.
  destruct (run_Q s cx _ A4 AM tol f t Ht) as (B & _ & _). exact B.
Qed.

(** ** top level *)
Lemma top_task_ok s cx : task_ok s cx (TGeneral (walker_state cx) top_opts 0).
Proof. split; [cbn; lia | split; [apply good_walker_state | exact I]]. Qed.

(** [fuel_unit cx = 8 + max_args cx] satisfies the two constraints of
    [run_fuel_enough] for EVERY context *)
Lemma fuel_unit_ok cx : 4 <= fuel_unit cx /\ max_args cx + 6 <= 2 * fuel_unit cx.
Proof. unfold fuel_unit. lia. Qed.

(** what the model's own fuel pays for: a task at position [p] whose constant
    is at most [fuel_base cx = 40 + max_args cx] *)
Lemma parse_fuel_need s cx t :
  cst (fuel_unit cx) t <= fuel_base cx -> need s (fuel_unit cx) t <= parse_fuel s cx.
Proof.
  intros H. unfold need, W, parse_fuel. rewrite (Nat.mul_comm (length s)).
  assert (fuel_unit cx * (length s - task_pos t) <= fuel_unit cx * length s) by (apply Nat.mul_le_mono_l; lia).
  lia.
Qed.

(** a task reachable from a top-level parse, started with the model's own fuel,
    does not run out of it *)
Theorem parse_fuel_enough s tol cx t :
  task_ok s cx t -> cst (fuel_unit cx) t <= fuel_base cx ->
  run s tol cx (parse_fuel s cx) t <> OutOfFuel.
Proof.
  intros Ht H. destruct (fuel_unit_ok cx) as [A4 AM].
  apply (run_fuel_enough s tol cx (fuel_unit cx)); [exact A4 | exact AM | exact Ht|].
  apply parse_fuel_need. exact H.
Qed.

(** The fuel [parse_fuel s cx = length s * (8 + max_args cx) + 40 + max_args cx]
    of the model is enough for every string and EVERY context. *)
Theorem parse_top_terminates s tol cx : parse_top s tol cx (walker_state cx) <> OutOfFuel.
Proof.
  unfold parse_top. rewrite parse_content_oof.
  apply parse_fuel_enough; [apply top_task_ok|].
  cbn [cst]. unfold fuel_unit, fuel_base. lia.
Qed.

(** Tolerant parsing of any string returns a node list: it does not run out of
    fuel, raises nothing, does not return [None]. *)
Theorem C06_total_proof s cx :
  exists nl p, parse_top s true cx (walker_state cx) = Ok (ONode (Some nl)) p.
Proof.
  pose proof (parse_top_terminates s true cx) as T. unfold parse_top in *.
  rewrite parse_content_oof in T.
  pose proof (run_shaped s true cx (parse_fuel s cx) _ (top_task_ok s cx)) as Sh. cbn [kind_of] in Sh.
  destruct (run s true cx (parse_fuel s cx) (TGeneral (walker_state cx) top_opts 0))
    as [[[n|]|c1 c2 c3 c4|a] p|e p|p|k|]; cbn [shaped] in Sh; try contradiction; try congruence.
  - exists n, p. reflexivity.
  - cbn [parse_content]. destruct (pe_nodes e) as [n|]; [|congruence]. eexists _, _. reflexivity.
Qed.

(** Strict parsing of any string returns a node list or a parse error that
    carries the nodes read so far. *)
Theorem parse_top_strict_proof s cx :
  (exists nl p, parse_top s false cx (walker_state cx) = Ok (ONode (Some nl)) p) \/
  (exists e p nl, parse_top s false cx (walker_state cx) = PErr e p /\ pe_nodes e = Some nl).
Proof.
  pose proof (parse_top_terminates s false cx) as T. unfold parse_top in *.
  rewrite parse_content_oof in T.
  pose proof (run_shaped s false cx (parse_fuel s cx) _ (top_task_ok s cx)) as Sh. cbn [kind_of] in Sh.
  destruct (run s false cx (parse_fuel s cx) (TGeneral (walker_state cx) top_opts 0))
    as [[[n|]|c1 c2 c3 c4|a] p|e p|p|k|]; cbn [shaped] in Sh; try contradiction; try congruence.
  - left. exists n, p. reflexivity.
  - right. cbn [parse_content]. destruct (pe_nodes e) as [n|] eqn:E; [|congruence]. exists e, p, n. auto.
Qed.

(** The reader position a top-level parse reports lies inside the input. *)
Theorem parse_top_pos_proof s tol cx v p :
  parse_top s tol cx (walker_state cx) = Ok v p -> p <= length s.
Proof.
  intros E. pose proof (run_bounded s tol cx (parse_fuel s cx) _ (top_task_ok s cx)) as B.
  apply (pc_bounded s tol) in B. unfold parse_top in E. rewrite E in B. cbn [bounded] in B. tauto.
Qed.
