(** The representation relation between a database object in the heap and its
    abstract meaning, and the refinement of every query (property C14).

    [Rep hp d s]: in heap [hp], database object [d] coherently represents the
    abstract database [s] — its [category_list] and [d] give the categories of
    [s], and each of its three chain maps lists exactly the dicts of those
    categories in the same order, followed by one empty dict. *)
From Coq Require Import NArith List Bool Arith Lia.
From PLV Require Import Base.PyStr Ctx.CtxSpec Ctx.CtxHeap Proofs.CtxFacts.
Import ListNotations.

Record centry := mkce {
  ce_cat : cat; ce_cd : loc;
  ce_lm : loc; ce_le : loc; ce_ls : loc;
  ce_m : dict; ce_e : dict; ce_s : dict }.

Definition ce_l (k : kind) (e : centry) : loc := match k with KM => ce_lm e | KE => ce_le e | KS => ce_ls e end.
Definition ce_d (k : kind) (e : centry) : dict := match k with KM => ce_m e | KE => ce_e e | KS => ce_s e end.
Definition scat_of (e : centry) : scat := mkscat (ce_cat e) (ce_m e) (ce_e e) (ce_s e).

Definition centry_ok (hp : heap) (ddl : list (cat * loc)) (e : centry) : Prop :=
  d_get ddl (ce_cat e) = Some (ce_cd e) /\
  get_catd hp (ce_cd e) = Some (ce_lm e, ce_le e, ce_ls e) /\
  forall k, get_dict hp (ce_l k e) = Some (ce_d k e).

Definition Rep (hp : heap) (d : db) (s : sdb) : Prop :=
  exists (ddl : list (cat * loc)) (es : list centry),
    get_list hp (cl d) = Some (map ce_cat es) /\
    NoDup (map ce_cat es) /\
    get_d hp (dd d) = Some ddl /\
    Forall (centry_ok hp ddl) es /\
    (forall k, exists z, get_chain hp (chain_of k d) = Some (map (ce_l k) es ++ [z]) /\
                         get_dict hp z = Some []) /\
    s = mksdb (map scat_of es) (unk_m d) (unk_e d) (unk_s d) (frozen d).

Lemma sel_scat_of k e : sel k (scat_of e) = ce_d k e.
Proof. destruct k; reflexivity. Qed.

Lemma cat_dict_ok hp ddl e k : centry_ok hp ddl e -> cat_dict hp ddl k (ce_cat e) = Some (ce_d k e).
Proof.
  intros (H1 & H2 & H3). unfold cat_dict. rewrite H1, H2. specialize (H3 k). destruct k; exact H3.
Qed.

(** * abs *)

Lemma abs_cats_ok hp ddl es : Forall (centry_ok hp ddl) es ->
  abs_cats hp ddl (map ce_cat es) = Some (map scat_of es).
Proof.
  induction 1 as [|e r He Hr IH]; cbn [map abs_cats]; [reflexivity|].
  rewrite !(cat_dict_ok _ _ _ _ He), IH. reflexivity.
Qed.

Lemma Rep_abs hp d s : Rep hp d s -> abs_db hp d = Some s.
Proof.
  intros (ddl & es & H1 & _ & H3 & H4 & _ & ->). unfold abs_db. rewrite H1, H3, (abs_cats_ok _ _ _ H4).
  reflexivity.
Qed.

(** * lookups through the chain maps *)

Definition first_def (k : kind) (n : str) (l : list scat) : option spec :=
  match find (defines k n) l with Some c => dict_get (sel k c) n | None => None end.

Lemma chain_get_ok hp ddl k n z es :
  Forall (centry_ok hp ddl) es -> get_dict hp z = Some [] ->
  chain_get hp (map (ce_l k) es ++ [z]) n = Some (first_def k n (map scat_of es)).
Proof.
  intros H Hz. unfold first_def. induction H as [|e r He Hr IH]; cbn [map app chain_get find].
  - rewrite Hz. reflexivity.
  - destruct He as (_ & _ & H3). rewrite (H3 k). unfold defines at 1. rewrite sel_scat_of.
    destruct (dict_get (ce_d k e) n) eqn:E; [rewrite sel_scat_of, E; reflexivity | exact IH].
Qed.

Lemma find_defines k n l c : find (defines k n) l = Some c -> exists v, dict_get (sel k c) n = Some v.
Proof.
  intros H. apply find_some in H. destruct H as [_ H]. unfold defines in H.
  destruct (dict_get (sel k c) n) as [v|]; [exists v; reflexivity | discriminate].
Qed.

(** * test_for_specials *)

Definition better (acc : nat * option spec) (o : option (str * spec)) : nat * option spec :=
  match o with
  | Some y => if Nat.ltb (fst acc) (length (fst y)) then (length (fst y), Some (snd y)) else acc
  | None => acc
  end.

Lemma test_keys_app txt pos a : forall b acc,
  test_keys txt pos (a ++ b) acc = test_keys txt pos b (test_keys txt pos a acc).
Proof. induction a as [|[k v] r IH]; intros b acc; cbn [app test_keys]; [reflexivity | apply IH]. Qed.

Lemma test_keys_spec txt pos l : forall acc,
  test_keys txt pos l acc = better acc (first_longest (filter (matches_at txt pos) l)).
Proof.
  induction l as [|[k v] r IH]; intros [bl bv]; cbn [test_keys filter first_longest better]; [reflexivity|].
  rewrite IH. unfold matches_at at 2. cbn [fst snd].
  destruct (startswith_at txt k pos) eqn:Es; rewrite ?andb_true_r, ?andb_false_r; cbn [first_longest].
  2:{ reflexivity. }
  destruct (Nat.ltb_spec 0 (length k)) as [Hk|Hk]; cbn [first_longest].
  2:{ assert (length k = 0) by lia. destruct (Nat.ltb_spec bl (length k)); [lia | reflexivity]. }
  destruct (first_longest (filter (matches_at txt pos) r)) as [[ky vy]|]; cbn [better fst snd].
  - destruct (Nat.ltb_spec bl (length k)), (Nat.ltb_spec (length k) (length ky));
      cbn [better fst snd];
      repeat match goal with |- context [Nat.ltb ?a ?b] => destruct (Nat.ltb_spec a b) end;
      try reflexivity; try lia.
  - destruct (Nat.ltb_spec bl (length k)); reflexivity.
Qed.

Lemma first_longest_In l y : first_longest l = Some y -> In y l.
Proof.
  revert y. induction l as [|x r IH]; intros y H; cbn [first_longest] in H; [discriminate|].
  destruct (first_longest r) as [z|].
  - destruct (Nat.ltb (length (fst x)) (length (fst z))); inversion H; subst; [right; apply IH; reflexivity | left; reflexivity].
  - inversion H. left. reflexivity.
Qed.

Lemma test_cats_ok hp ddl txt pos es : Forall (centry_ok hp ddl) es -> forall acc,
  test_cats hp ddl txt pos (map ce_cat es) acc =
  Some (test_keys txt pos (concat (map sc_s (map scat_of es))) acc).
Proof.
  induction 1 as [|e r He Hr IH]; intros acc; cbn [map test_cats concat]; [reflexivity|].
  rewrite (cat_dict_ok _ _ _ KS He), IH, test_keys_app. reflexivity.
Qed.

(** * iter_*_specs *)

Lemma find_cat_entry c es :
  match find (fun sc => cat_eqb c (sc_name sc)) (map scat_of es) with
  | Some sc => exists e, In e es /\ ce_cat e = c /\ sc = scat_of e
  | None => ~ In c (map ce_cat es)
  end.
Proof.
  induction es as [|e r IH]; cbn [map find]; [intros H; exact H|].
  change (sc_name (scat_of e)) with (ce_cat e). destruct (cat_eqb c (ce_cat e)) eqn:E.
  - apply cat_eqb_eq in E. exists e. cbn [In]. auto.
  - destruct (find _ (map scat_of r)) as [sc|].
    + destruct IH as (e' & H1 & H2 & H3). exists e'. cbn [In]. auto.
    + cbn [In]. intros [H|H]; [|contradiction]. subst. rewrite cat_eqb_refl in E. discriminate.
Qed.

Lemma iter_cats_ok hp ddl es k cs : Forall (centry_ok hp ddl) es ->
  iter_cats hp ddl (map ce_cat es) k cs = Some (s_iter (map scat_of es) k cs).
Proof.
  intros H. induction cs as [|c r IH]; cbn [iter_cats s_iter]; [reflexivity|].
  pose proof (find_cat_entry c es) as F.
  destruct (find _ (map scat_of es)) as [sc|].
  - destruct F as (e & He & Hc & ->).
    assert (M : mem_cat c (map ce_cat es) = true) by (apply mem_cat_In; subst; apply in_map; exact He).
    rewrite M. rewrite Forall_forall in H. subst c. rewrite (cat_dict_ok _ _ _ k (H _ He)), IH, sel_scat_of.
    destruct (s_iter (map scat_of es) k r). reflexivity.
  - apply mem_cat_false in F. rewrite F. reflexivity.
Qed.

Lemma s_iter_all k es' : forall es, incl es' es -> NoDup (map ce_cat es) ->
  s_iter (map scat_of es) k (map ce_cat es') =
  (concat (map (fun c => dict_values (sel k c)) (map scat_of es')), false).
Proof.
  induction es' as [|e r IH]; intros es Hi Hn; cbn [map s_iter concat]; [reflexivity|].
  pose proof (find_cat_entry (ce_cat e) es) as F.
  destruct (find _ (map scat_of es)) as [sc|].
  - destruct F as (e' & He' & Hc & ->).
    assert (e' = e).
    { assert (He : In e es) by (apply Hi; left; reflexivity).
      clear - He He' Hc Hn. induction es as [|x es IH]; [contradiction|].
      cbn [map] in Hn. inversion Hn as [|? ? Hx Hn']; subst.
      destruct He as [->|He], He' as [->|He']; auto.
      - exfalso. apply Hx. rewrite <- Hc. apply in_map. exact He'.
      - exfalso. apply Hx. rewrite Hc. apply in_map. exact He. }
    subst e'. rewrite IH; [reflexivity | | exact Hn]. intros x Hx. apply Hi. right. exact Hx.
  - exfalso. apply F. apply in_map. apply Hi. left. reflexivity.
Qed.

(** * Every query is answered as the specification says *)

Theorem Rep_query hp d s q : Rep hp d s -> db_query hp d q = Some (spec_query s q).
Proof.
  intros (ddl & es & H1 & Hnd & H3 & H4 & H5 & ->). destruct q as [| |k n|txt pos|k cs]; cbn [db_query spec_query s_frozen s_cats].
  - reflexivity.
  - rewrite H1. rewrite map_map. reflexivity.
  - destruct (H5 k) as (z & Hc & Hz). rewrite Hc, (chain_get_ok _ _ _ _ _ _ H4 Hz).
    unfold first_def, s_lookup. cbn [s_cats].
    destruct (find (defines k n) (map scat_of es)) as [c|] eqn:E.
    + destruct (find_defines _ _ _ _ E) as [v Hv]. rewrite Hv. reflexivity.
    + destruct k; reflexivity.
  - rewrite H1, H3, (test_cats_ok _ _ _ _ _ H4), test_keys_spec. unfold s_test. cbn [s_cats].
    destruct (first_longest _) as [[ky vy]|] eqn:E; cbn [better fst snd]; [|reflexivity].
    apply first_longest_In in E. apply filter_In in E. destruct E as [_ E]. unfold matches_at in E.
    cbn [fst] in E. apply andb_true_iff in E. destruct E as [E _]. rewrite E. reflexivity.
  - rewrite H1, H3. destruct cs as [cs|].
    + rewrite (iter_cats_ok _ _ _ _ _ H4). destruct (s_iter (map scat_of es) k cs). reflexivity.
    + rewrite (iter_cats_ok _ _ _ _ _ H4), (s_iter_all k es es (incl_refl _) Hnd). reflexivity.
Qed.

(** * What the specification's answers mean *)

(** lookup: the answer comes from a category that defines the name, and no
    earlier category defines it; when no category defines it, the unknown-spec *)
Lemma s_lookup_first s k n :
  (exists pre c post v, s_cats s = pre ++ c :: post /\ dict_get (sel k c) n = Some v /\
                        (forall c', In c' pre -> dict_get (sel k c') n = None) /\
                        s_lookup s k n = ALookup true (Some v))
  \/ ((forall c, In c (s_cats s) -> dict_get (sel k c) n = None) /\ s_lookup s k n = ALookup false (s_unk k s)).
Proof.
  unfold s_lookup. induction (s_cats s) as [|c r IH]; cbn [find].
  - right. split; [intros c [] | reflexivity].
  - destruct (dict_get (sel k c) n) as [v|] eqn:E;
      [assert (D : defines k n c = true) by (unfold defines; rewrite E; reflexivity)
      |assert (D : defines k n c = false) by (unfold defines; rewrite E; reflexivity)]; rewrite D.
    + left. exists [], c, r, v. cbn [app]. repeat split; auto; [intros c' [] | rewrite E; reflexivity].
    + destruct IH as [(pre & c0 & post & v & H1 & H2 & H3 & H4) | [H1 H2]].
      * left. exists (c :: pre), c0, post, v. cbn [app]. split; [rewrite H1; reflexivity|]. repeat split; auto.
        intros c' [<-|H]; auto.
      * right. split; [|exact H2]. intros c' [<-|H]; auto.
Qed.

(** first_longest: a member, of maximal key length, and every earlier
    candidate is strictly shorter *)
Lemma first_longest_spec l :
  match first_longest l with
  | None => l = []
  | Some y => exists pre post, l = pre ++ y :: post /\
                (forall x, In x pre -> length (fst x) < length (fst y)) /\
                (forall x, In x post -> length (fst x) <= length (fst y))
  end.
Proof.
  induction l as [|x r IH]; cbn [first_longest]; [reflexivity|].
  destruct (first_longest r) as [y|].
  - destruct IH as (pre & post & -> & H1 & H2).
    destruct (Nat.ltb_spec (length (fst x)) (length (fst y))) as [H|H].
    + exists (x :: pre), post. cbn [app]. repeat split; auto. intros x' [<-|Hx]; auto.
    + exists [], (pre ++ y :: post). cbn [app]. repeat split; auto; [intros x' []|].
      intros x' Hx. apply in_app_iff in Hx. destruct Hx as [Hx|[<-|Hx]]; auto.
      * specialize (H1 _ Hx). lia.
      * specialize (H2 _ Hx). lia.
  - subst r. exists [], []. cbn [app]. repeat split; auto; intros x' [].
Qed.
