(** C12 — non-interference of [node_text]: a structural tree rewrite [xform]
    (new text in every comment node; new bodies for math nodes and for selected
    environments) leaves the rendering unchanged whenever the options say that
    the rewritten parts are filtered out. *)
From Coq Require Import NArith ZArith List Bool Arith Lia.
From PLV Require Import Base.PyStr Tok.Tokenizer Parse.Nodes Parse.Parser L2T.L2T.
From PLV Require Import Tree.Visitor Proofs.VisitorProofs Proofs.L2TUnfold.
Import ListNotations.

(** * The rewrite *)
Section Xform.
  Variable fc : str -> str.                      (* new text of a comment *)
  Variable rb : str -> bool.                     (* environments (by name) whose body is replaced *)
  Variable rm : bool.                            (* replace the bodies of math nodes *)
  Variable g : option node -> option node.       (* the new body *)

  Fixpoint xform (n : node) : node :=
    match n with
    | NChars p e m c => NChars p e m c
    | NComment p e m c ps => NComment p e m (fc c) ps
    | NGroup p e m dl dr b =>
        NGroup p e m dl dr (match b with Some c => Some (xform c) | None => None end)
    | NMacro p e m nm ps a =>
        NMacro p e m nm ps
          (match a with
           | Some (sp, l) => Some (sp, map (fun x => match x with Some c => Some (xform c) | None => None end) l)
           | None => None end)
    | NEnv p e m nm a b =>
        NEnv p e m nm
          (match a with
           | Some (sp, l) => Some (sp, map (fun x => match x with Some c => Some (xform c) | None => None end) l)
           | None => None end)
          (if rb nm then g b else match b with Some c => Some (xform c) | None => None end)
    | NSpecials p e m ch a =>
        NSpecials p e m ch
          (match a with
           | Some (sp, l) => Some (sp, map (fun x => match x with Some c => Some (xform c) | None => None end) l)
           | None => None end)
    | NMath p e m d dl dr b =>
        NMath p e m d dl dr (if rm then g b else match b with Some c => Some (xform c) | None => None end)
    | NList p e l =>
        NList p e (map (fun x => match x with Some c => Some (xform c) | None => None end) l)
    end.

  Definition xo (x : option node) : option node :=
    match x with Some c => Some (xform c) | None => None end.
  Definition xa (a : option pargs) : option pargs :=
    match a with Some (sp, l) => Some (sp, map xo l) | None => None end.

  Lemma xform_chars : forall p e m c, xform (NChars p e m c) = NChars p e m c.
  Proof. reflexivity. Qed.
  Lemma xform_comment : forall p e m c ps, xform (NComment p e m c ps) = NComment p e m (fc c) ps.
  Proof. reflexivity. Qed.
  Lemma xform_group : forall p e m dl dr b, xform (NGroup p e m dl dr b) = NGroup p e m dl dr (xo b).
  Proof. reflexivity. Qed.
  Lemma xform_macro : forall p e m nm ps a, xform (NMacro p e m nm ps a) = NMacro p e m nm ps (xa a).
  Proof. intros. destruct a as [[sp l]|]; reflexivity. Qed.
  Lemma xform_env : forall p e m nm a b,
    xform (NEnv p e m nm a b) = NEnv p e m nm (xa a) (if rb nm then g b else xo b).
  Proof. intros. destruct a as [[sp l]|]; reflexivity. Qed.
  Lemma xform_specials : forall p e m ch a, xform (NSpecials p e m ch a) = NSpecials p e m ch (xa a).
  Proof. intros. destruct a as [[sp l]|]; reflexivity. Qed.
  Lemma xform_math : forall p e m d dl dr b,
    xform (NMath p e m d dl dr b) = NMath p e m d dl dr (if rm then g b else xo b).
  Proof. reflexivity. Qed.
  Lemma xform_list : forall p e l, xform (NList p e l) = NList p e (map xo l).
  Proof. reflexivity. Qed.

  (** ** what the rewrite preserves: every shape test of the renderer *)
  Lemma is_chars_xo : forall x, is_chars (xo x) = is_chars x.
  Proof. intros [[]|]; reflexivity. Qed.

  Lemma argn_of_xa : forall a, argn_of (xa a) = map xo (argn_of a).
  Proof. intros [[sp l]|]; reflexivity. Qed.
  Lemma legacy_idx_xa : forall a, legacy_idx (xa a) = legacy_idx a.
  Proof. intros [[sp l]|]; reflexivity. Qed.

  Lemma nth_error_xo : forall l i, nth_error (map xo l) i = option_map xo (nth_error l i).
  Proof. intros l i. apply nth_error_map. Qed.

  Lemma skipn_map : forall {A B} (f : A -> B) k l, skipn k (map f l) = map f (skipn k l).
  Proof. intros A B f k. induction k as [|k IH]; intros [|x l]; cbn; auto. Qed.

  Lemma legacy_view_xa : forall a,
    legacy_view (xa a) = (xo (fst (legacy_view a)), map xo (snd (legacy_view a))).
  Proof.
    intros a. unfold legacy_view. rewrite legacy_idx_xa, argn_of_xa.
    destruct (legacy_idx a) as [[i|] off]; cbn [fst snd]; rewrite skipn_map; [|reflexivity].
    rewrite nth_error_xo. destruct (nth_error (argn_of a) i) as [[c|]|]; reflexivity.
  Qed.

  Lemma is_bare_macro_xo : forall x, is_bare_macro (xo x) = is_bare_macro x.
  Proof.
    intros [c|]; [|reflexivity]. destruct c; try reflexivity.
    cbn [xo]. rewrite xform_macro. cbn [is_bare_macro]. rewrite legacy_view_xa.
    destruct (legacy_view args) as [[c|] [|y r]]; reflexivity.
  Qed.

  Lemma pre_space_xo : forall sl prev prev' x,
    is_bare_macro prev' = is_bare_macro prev -> pre_space sl prev' (xo x) = pre_space sl prev x.
  Proof. intros sl prev prev' x H. unfold pre_space. now rewrite H, is_chars_xo. Qed.
End Xform.

(** * Matrix cells: the two separator tests as booleans *)
Definition is_amp (x : node) : bool :=
  match x with NSpecials _ _ _ [38%N] _ => true | _ => false end.
Definition is_rowsep (x : node) : bool :=
  match x with NMacro _ _ _ [92%N] _ _ => true | _ => false end.

Section MatrixEqn.
  Variable nt : sls -> dstate -> node -> str * dstate.

  Lemma matrix_go_nil : forall sl st cur prev cols rows,
    matrix_go_g nt sl st [] cur prev cols rows = (rows ++ [flush_col cur cols], st).
  Proof. reflexivity. Qed.
  Lemma matrix_go_none : forall sl st r cur prev cols rows,
    matrix_go_g nt sl st (None :: r) cur prev cols rows = matrix_go_g nt sl st r cur prev cols rows.
  Proof. reflexivity. Qed.

  Lemma matrix_go_some : forall sl st x r cur prev cols rows,
    matrix_go_g nt sl st (Some x :: r) cur prev cols rows
    = if is_amp x then matrix_go_g nt sl st r None None (flush_col cur cols) rows
      else if is_rowsep x then matrix_go_g nt sl st r None None [] (rows ++ [flush_col cur cols])
      else let '(t1, st1) := nt sl st x in
           matrix_go_g nt sl st1 r
             (Some ((match cur with Some c0 => c0 | None => [] end) ++ pre_space sl prev (Some x) ++ t1))
             (Some x) cols rows.
  Proof.
    intros. destruct x; try reflexivity.
    - (* macro *)
      destruct name as [|c tl]; [reflexivity|].
      destruct c as [|q]; [destruct tl; reflexivity|].
      do 7 (destruct q as [q|q|]; try reflexivity; try (destruct tl; reflexivity)).
    - (* specials *)
      destruct chars as [|c tl]; [reflexivity|].
      destruct c as [|q]; [destruct tl; reflexivity|].
      do 6 (destruct q as [q|q|]; try reflexivity; try (destruct tl; reflexivity)).
  Qed.
End MatrixEqn.

(** * The non-interference theorem *)
Definition math_blind (o : opts) : bool :=
  match o_math o with MMRemove | MMVerbatim => true | _ => false end.

(** the environment [nm] is rendered by [fmt_equation_environment] *)
Definition is_eqenv (lt : l2tctx) (nm : str) : bool :=
  match assoc (lt_envs lt) nm with
  | Some t => match t_repl t with RCall CEqEnv => true | _ => false end
  | None => false
  end.

Section NonInterference.
  Variable src : str.
  Variable lt : l2tctx.
  Variable cx : context.
  Variable o : opts.
  Variable fc : str -> str.
  Variable rb : str -> bool.
  Variable rm : bool.
  Variable g : option node -> option node.

  Hypothesis Hcomments : o_keep_comments o = false \/ (forall c, fc c = c).
  Hypothesis Hmath : rm = true -> math_blind o = true.
  Hypothesis Henv : forall nm, rb nm = true -> is_eqenv lt nm = true /\ math_blind o = true.

  Let nt := node_text src lt cx o.
  Let X := xform fc rb rm g.
  Let Xo := xo fc rb rm g.
  Let Xa := xa fc rb rm g.

  Definition Pn (n : node) : Prop :=
    (forall sl st, nt sl st (X n) = nt sl st n)
    /\ (forall sl st, arg_text_g nt sl st (Some (X n)) = arg_text_g nt sl st (Some n)).

  Lemma single_xo : forall x, Pslot Pn x -> forall sl st,
    single_text_g nt sl st (Xo x) = single_text_g nt sl st x.
  Proof. intros [c|] H sl st; [|reflexivity]. cbn. apply H. Qed.

  Lemma argt_xo : forall x, Pslot Pn x -> forall sl st,
    arg_text_g nt sl st (Xo x) = arg_text_g nt sl st x.
  Proof. intros [c|] H sl st; [|reflexivity]. apply H. Qed.

  Lemma items_xo : forall l, Forall (Pslot Pn) l -> forall sl st prev prev',
    is_bare_macro prev' = is_bare_macro prev ->
    items_text_g nt sl st prev' (map Xo l) = items_text_g nt sl st prev l.
  Proof.
    induction 1 as [|x r Hx Hr IH]; intros sl st prev prev' Hp; [reflexivity|].
    cbn [map]. rewrite !items_text_cons.
    rewrite (single_xo x Hx). destruct (single_text_g nt sl st x) as [t1 st1].
    rewrite (IH sl st1 x (Xo x) (is_bare_macro_xo fc rb rm g x)).
    destruct (items_text_g nt sl st1 x r) as [t2 st2].
    unfold Xo. now rewrite (pre_space_xo fc rb rm g sl prev prev' x Hp).
  Qed.

  Lemma body_xo : forall b, Pbody Pn b -> forall sl st,
    body_text_g nt sl st (Xo b) = body_text_g nt sl st b.
  Proof.
    intros [c|] Hb sl st; [|reflexivity]. destruct Hb as [_ Hi].
    destruct c; try reflexivity.
    cbn [Xo xo]. rewrite xform_list. cbn [body_text_g]. now apply items_xo.
  Qed.

  Lemma args_texts_xo : forall l, Forall (Pslot Pn) l -> forall sl st,
    args_texts_g nt sl st (map Xo l) = args_texts_g nt sl st l.
  Proof.
    induction 1 as [|x r Hx Hr IH]; intros sl st; [reflexivity|].
    cbn [map]. rewrite !args_texts_cons, (argt_xo x Hx).
    destruct (arg_text_g nt sl st x) as [t st1]. now rewrite IH.
  Qed.

  Lemma args_singles_xo : forall l, Forall (Pslot Pn) l -> forall sl st,
    args_singles_g nt sl st (map Xo l) = args_singles_g nt sl st l.
  Proof.
    induction 1 as [|x r Hx Hr IH]; intros sl st; [reflexivity|].
    cbn [map]. rewrite !args_singles_cons, (single_xo x Hx).
    destruct (single_text_g nt sl st x) as [t st1]. now rewrite IH.
  Qed.

  Lemma atexts_xa : forall a, Pargs Pn a -> forall sl st,
    atexts_g nt sl st (Xa a) = atexts_g nt sl st a.
  Proof. intros [[sp l]|] Ha sl st; [|reflexivity]. now apply args_texts_xo. Qed.
  Lemma asingles_xa : forall a, Pargs Pn a -> forall sl st,
    asingles_g nt sl st (Xa a) = asingles_g nt sl st a.
  Proof. intros [[sp l]|] Ha sl st; [|reflexivity]. now apply args_singles_xo. Qed.

  Lemma is_amp_X : forall x, is_amp (X x) = is_amp x.
  Proof.
    intros x. destruct x; reflexivity.
  Qed.
  Lemma is_rowsep_X : forall x, is_rowsep (X x) = is_rowsep x.
  Proof.
    intros x. destruct x; reflexivity.
  Qed.

  Lemma matrix_xo : forall sl l, Forall (Pslot Pn) l -> forall st cur prev prev' cols rows,
    is_bare_macro prev' = is_bare_macro prev ->
    matrix_go_g nt sl st (map Xo l) cur prev' cols rows = matrix_go_g nt sl st l cur prev cols rows.
  Proof.
    intros sl. induction 1 as [|x r Hx Hr IH]; intros st cur prev prev' cols rows Hp; [reflexivity|].
    destruct x as [c|]; cbn [map Xo xo].
    - rewrite !matrix_go_some. fold X. rewrite is_amp_X, is_rowsep_X.
      destruct (is_amp c); [now apply IH|]. destruct (is_rowsep c); [now apply IH|].
      destruct Hx as [Hx _]. rewrite Hx. destruct (nt sl st c) as [t1 st1].
      assert (Hps : pre_space sl prev' (Some (X c)) = pre_space sl prev (Some c))
        by exact (pre_space_xo fc rb rm g sl prev prev' (Some c) Hp).
      rewrite Hps. apply IH. exact (is_bare_macro_xo fc rb rm g (Some c)).
    - rewrite !matrix_go_none. now apply IH.
  Qed.

  (** what [fmt_equation_environment] renders for the node *)
  Definition eqenv_text (sl : sls) (st : dstate) (nn : node) : str * dstate :=
    match nn with
    | NEnv p e _ nm _ b =>
        math_text_g src o nt sl st true false p e
                    ([92;98;101;103;105;110;123]%N ++ nm ++ [125%N])
                    ([92;101;110;100;123]%N ++ nm ++ [125%N]) b
    | _ => ([], set_err st 2)
    end.

  Lemma math_text_body : forall b b', (forall sl st, body_text_g nt sl st b' = body_text_g nt sl st b) ->
    forall sl st ie d p e dl dr,
    math_text_g src o nt sl st ie d p e dl dr b' = math_text_g src o nt sl st ie d p e dl dr b.
  Proof. intros b b' H sl st ie d p e dl dr. unfold math_text_g. now rewrite H. Qed.

  Lemma math_text_blind : math_blind o = true -> forall b b' sl st ie d p e dl dr,
    math_text_g src o nt sl st ie d p e dl dr b' = math_text_g src o nt sl st ie d p e dl dr b.
  Proof.
    unfold math_blind, math_text_g. intros H b b' sl st ie d p e dl dr.
    destruct (o_math o); try discriminate; reflexivity.
  Qed.

  Lemma call_repl_xa : forall a eb c nn nn' sl st,
    Pargs Pn a ->
    match eb with Some b => Pbody Pn b | None => True end ->
    (forall sl st, eqenv_text sl st nn' = eqenv_text sl st nn) ->
    call_repl_g src lt o nt sl st c nn' (Xa a) (match option_map Xo eb with Some b => b | None => None end)
    = call_repl_g src lt o nt sl st c nn a (match eb with Some b => b | None => None end).
  Proof.
    intros a eb c nn nn' sl st Ha Hb Heq. unfold call_repl_g.
    unfold Xa. rewrite legacy_idx_xa, argn_of_xa, map_length. fold Xa.
    destruct (legacy_idx a) as [optidx off].
    destruct c; try reflexivity;
      try (rewrite (asingles_xa a Ha)); try (rewrite (atexts_xa a Ha)); try reflexivity.
    - (* CItem *)
      destruct optidx as [i|]; [|reflexivity].
      rewrite nth_error_xo. destruct (nth_error (argn_of a) i) as [[c|]|]; reflexivity.
    - (* CUebung *)
      rewrite nth_error_xo. destruct (nth_error (argn_of a) 1) as [[c|]|]; reflexivity.
    - (* CEqEnv *)
      exact (Heq sl st).
    - (* CMatrix *)
      destruct eb as [[b|]|]; try reflexivity. cbn [option_map Xo xo].
      destruct Hb as [_ Hi]. destruct b; try reflexivity.
      rewrite xform_list. fold Xo.
      now rewrite (matrix_xo sl items Hi st None None None [] []).
  Qed.

  Lemma str_repl_xa : forall a eb tmpl k sl st,
    Pargs Pn a ->
    match eb with Some b => Pbody Pn b | None => True end ->
    str_repl_g nt sl st tmpl (Xa a) k (option_map Xo eb) = str_repl_g nt sl st tmpl a k eb.
  Proof.
    intros a eb tmpl k sl st Ha Hb. unfold str_repl_g.
    destruct (mem_c 37 tmpl && negb (Nat.eqb (length tmpl) 1)); [|reflexivity].
    destruct (parse_fmt (S (length tmpl)) tmpl) as [items|]; [|reflexivity].
    destruct eb as [b|]; cbn [option_map].
    - destruct (existsb _ items).
      + now rewrite (body_xo b Hb).
      + rewrite (atexts_xa a Ha). destruct (atexts_g nt sl st a) as [ts0 st1].
        now rewrite (body_xo b Hb).
    - now rewrite (atexts_xa a Ha).
  Qed.

  Lemma generic_xa : forall a eb ts dd k nn nn' sl st,
    Pargs Pn a ->
    match eb with Some b => Pbody Pn b | None => True end ->
    (forall sl st, eqenv_text sl st nn' = eqenv_text sl st nn) ->
    generic_g src lt o nt sl st ts dd nn' (Xa a) k (option_map Xo eb)
    = generic_g src lt o nt sl st ts dd nn a k eb.
  Proof.
    intros a eb ts dd k nn nn' sl st Ha Hb Heq. unfold generic_g.
    destruct (match ts with Some t => t_repl t | None => RNone end) as [|tmpl|c].
    - destruct (match ts with Some t => t_discard t | None => dd end); [reflexivity|].
      destruct eb as [b|]; cbn [option_map]; [now apply body_xo | now rewrite (atexts_xa a Ha)].
    - destruct tmpl as [|c0 tl]; [|now apply str_repl_xa].
      destruct (match ts with Some t => t_discard t | None => dd end); [reflexivity|].
      destruct eb as [b|]; cbn [option_map]; [now apply body_xo | now rewrite (atexts_xa a Ha)].
    - now apply call_repl_xa.
  Qed.

  Theorem xform_text_all : forall n, Pn n.
  Proof.
    induction n using node_ind'.
    - (* chars *) split; intros; reflexivity.
    - (* comment *)
      assert (Hn : forall sl st, nt sl st (X (NComment p e m c ps)) = nt sl st (NComment p e m c ps)).
      { intros sl st. unfold X, nt. rewrite xform_comment, !node_text_step. cbn [node_step].
        destruct Hcomments as [Hk|Hid]; [now rewrite Hk | now rewrite Hid]. }
      split; [exact Hn|]. intros sl st. exact (Hn sl st).
    - (* group *)
      rename H into Hb. split; intros sl st; unfold X; rewrite xform_group.
      + unfold nt. rewrite !node_text_step. cbn [node_step]. fold nt. fold Xo.
        now rewrite (body_xo b Hb).
      + cbn [arg_text_g]. fold Xo. now apply body_xo.
    - (* macro *)
      rename H into Ha.
      assert (Hn : forall sl st, nt sl st (X (NMacro p e m nm ps a)) = nt sl st (NMacro p e m nm ps a)).
      { intros sl st. unfold X, nt. rewrite xform_macro, !node_text_step. cbn [node_step]. fold nt. fold Xa.
        apply (generic_xa a None); [exact Ha | exact I | reflexivity]. }
      split; [exact Hn|]. intros sl st. unfold X. rewrite xform_macro. exact (Hn sl st).
    - (* environment *)
      rename H into Ha. rename H0 into Hb.
      assert (Hn : forall sl st, nt sl st (X (NEnv p e m nm a b)) = nt sl st (NEnv p e m nm a b)).
      { intros sl st. unfold X, nt. rewrite xform_env, !node_text_step. cbn [node_step]. fold nt. fold Xa. fold Xo.
        destruct (rb nm) eqn:Erb.
        - destruct (Henv nm Erb) as [Heq Hblind]. unfold is_eqenv in Heq.
          unfold generic_g. destruct (assoc (lt_envs lt) nm) as [t|]; [|discriminate].
          destruct (t_repl t) as [| |c]; try discriminate. destruct c; try discriminate.
          unfold call_repl_g. destruct (legacy_idx (Xa a)) as [oi off].
          destruct (legacy_idx a) as [oi' off']. now apply math_text_blind.
        - apply (generic_xa a (Some b)); [exact Ha | exact Hb |].
          intros sl' st'. cbn [eqenv_text]. apply math_text_body. intros sl2 st2. now apply body_xo. }
      split; [exact Hn|]. intros sl st. unfold X. rewrite xform_env. exact (Hn sl st).
    - (* specials *)
      rename H into Ha.
      assert (Hn : forall sl st, nt sl st (X (NSpecials p e m c a)) = nt sl st (NSpecials p e m c a)).
      { intros sl st. unfold X, nt. rewrite xform_specials, !node_text_step. cbn [node_step]. fold nt. fold Xa.
        destruct (assoc (lt_specials lt) c) as [t|]; [|reflexivity].
        apply (generic_xa a None); [exact Ha | exact I | reflexivity]. }
      split; [exact Hn|]. intros sl st. unfold X. rewrite xform_specials. exact (Hn sl st).
    - (* math *)
      rename H into Hb.
      assert (Hn : forall sl st, nt sl st (X (NMath p e m d dl dr b)) = nt sl st (NMath p e m d dl dr b)).
      { intros sl st. unfold X, nt. rewrite xform_math, !node_text_step. cbn [node_step]. fold nt. fold Xo.
        destruct (Bool.bool_dec rm true) as [Erm|Erm]; [|apply Bool.not_true_is_false in Erm]; rewrite Erm.
        - apply math_text_blind. now apply Hmath.
        - apply math_text_body. intros sl2 st2. now apply body_xo. }
      split; [exact Hn|]. intros sl st. unfold X. rewrite xform_math. exact (Hn sl st).
    - (* list *)
      rename H into Hl. split; intros sl st; unfold X; rewrite xform_list.
      + unfold nt. rewrite !node_text_step. cbn [node_step]. fold nt. fold Xo. now apply items_xo.
      + cbn [arg_text_g]. fold Xo. now apply items_xo.
  Qed.

  Theorem xform_text : forall n sl st, nt sl st (X n) = nt sl st n.
  Proof. intros n. exact (proj1 (xform_text_all n)). Qed.
End NonInterference.
