(** Proofs about [Parse/Stateful.v] (property C09): the invariant of the
    process-wide state, its preservation by a parse, and history independence
    of every parse result. *)
From Coq Require Import NArith ZArith List Bool Arith Lia.
From PLV Require Import Base.PyStr Tok.PState Tok.Tokenizer Parse.Nodes Parse.Parser Parse.ParseWire
                        Parse.Stateful.
From PLV Require Gen.GenWalkerCtx.
Import ListNotations.

(** * Keys *)
Lemma str_eqb_true_eq : forall a b, str_eqb a b = true -> a = b.
Proof.
  unfold str_eqb. induction a as [|x a IH]; destruct b as [|y b]; intros H; try discriminate; try reflexivity.
  apply andb_true_iff in H. destruct H as [H1 H2]. apply N.eqb_eq in H1. subst y. f_equal. apply IH. exact H2.
Qed.

Lemma obool_eqb_true_eq : forall a b, obool_eqb a b = true -> a = b.
Proof. intros [[|]|] [[|]|]; cbn; intros H; try discriminate; reflexivity. Qed.

Lemma key_eqb_true_eq : forall a b, key_eqb a b = true -> a = b.
Proof.
  intros [s1 a1 f1] [s2 a2 f2]. unfold key_eqb. cbn. intros H.
  apply andb_true_iff in H. destruct H as [H H3]. apply andb_true_iff in H. destruct H as [H1 H2].
  apply str_eqb_true_eq in H1. apply obool_eqb_true_eq in H2. apply obool_eqb_true_eq in H3. subst. reflexivity.
Qed.

Lemma str_eqb_refl' : forall s, str_eqb s s = true.
Proof. unfold str_eqb. induction s as [|x s IH]; [reflexivity|]. rewrite N.eqb_refl. exact IH. Qed.

Lemma key_eqb_refl : forall k, key_eqb k k = true.
Proof.
  intros [s a f]. unfold key_eqb. cbn. rewrite str_eqb_refl'.
  destruct a as [[|]|], f as [[|]|]; reflexivity.
Qed.

(** * [use] *)
Lemma use_strip : forall i, strip (fst (use i)) = strip i.
Proof.
  intros i. unfold use. destruct (i_inner i); [reflexivity|].
  destruct (kind_of_spec (i_spec i) (i_aps i) (i_full i)); reflexivity.
Qed.

Lemma use_inner_ok : forall i, inner_ok i -> inner_ok (fst (use i)).
Proof.
  intros i H. unfold use. destruct (i_inner i) eqn:E; [exact H|].
  destruct (kind_of_spec (i_spec i) (i_aps i) (i_full i)) eqn:K; [|exact H].
  right. cbn. symmetry. exact K.
Qed.

Lemma use_result : forall i, inner_ok i ->
  snd (use i) = kind_of_spec (i_spec i) (i_aps i) (i_full i).
Proof.
  intros i [H|H]; unfold use.
  - rewrite H. destruct (kind_of_spec (i_spec i) (i_aps i) (i_full i)); reflexivity.
  - destruct (i_inner i) eqn:E; [cbn; exact H|].
    destruct (kind_of_spec (i_spec i) (i_aps i) (i_full i)); reflexivity.
Qed.

Lemma strip_fields : forall i j, strip i = strip j ->
  i_spec i = i_spec j /\ i_aps i = i_aps j /\ i_full i = i_full j.
Proof. intros [a b c d] [a' b' c' d']. unfold strip. cbn. intros H. inversion H. auto. Qed.

Lemma kind_of_instance_strip : forall i j, strip i = strip j -> kind_of_instance i = kind_of_instance j.
Proof.
  intros i j H. apply strip_fields in H. destruct H as [H1 [H2 H3]].
  unfold kind_of_instance. rewrite H1, H2, H3. reflexivity.
Qed.

Lemma strip_idem : forall i, strip (strip i) = strip i.
Proof. reflexivity. Qed.

(** the value a resolution step hands to the parser *)
Lemma use_kind : forall i, inner_ok i ->
  match snd (use i) with Some kd => Some (i_spec i, kd) | None => None end = kind_of_instance i.
Proof. intros i H. rewrite (use_result i H). reflexivity. Qed.

(** * The cache *)
Lemma cache_get_ok : forall c k i, Forall entry_ok c -> cache_get c k = Some i -> entry_ok (k, i).
Proof.
  induction c as [|[k' i'] r IH]; intros k i HF HG; cbn in HG; [discriminate|].
  inversion HF as [|? ? H1 H2]; subst.
  destruct (key_eqb k' k) eqn:E.
  - apply key_eqb_true_eq in E. inversion HG. subst. exact H1.
  - apply IH; assumption.
Qed.

Lemma cache_set_ok : forall c k i, Forall entry_ok c -> entry_ok (k, i) -> Forall entry_ok (cache_set c k i).
Proof.
  induction c as [|[k' i'] r IH]; intros k i HF HE; cbn; [constructor|].
  inversion HF as [|? ? H1 H2]; subst.
  destruct (key_eqb k' k) eqn:E.
  - apply key_eqb_true_eq in E. subst k'. constructor; assumption.
  - constructor; [exact H1|]. apply IH; assumption.
Qed.

Lemma get_std_ok : forall c k, Forall entry_ok c ->
  Forall entry_ok (fst (get_std c k)) /\ entry_ok (k, snd (get_std c k)).
Proof.
  intros c k HF. unfold get_std. destruct (cache_get c k) eqn:E; cbn.
  - split; [exact HF|]. eapply cache_get_ok; eassumption.
  - assert (HN : entry_ok (k, new_instance k)).
    { split; [reflexivity|]. left. reflexivity. }
    split; [|exact HN]. apply Forall_app. split; [exact HF|]. constructor; [exact HN|constructor].
Qed.

(** * Explicit objects *)
Lemma list_set_Forall : forall {A} (P : A -> Prop) l n x, Forall P l -> P x -> Forall P (list_set l n x).
Proof.
  intros A P. induction l as [|a r IH]; intros n x HF HP; cbn; [constructor|].
  inversion HF; subst. destruct n; constructor; auto.
Qed.

Lemma map_list_set_same : forall {A B} (f : A -> B) l n x y,
  nth_error l n = Some y -> f x = f y -> map f (list_set l n x) = map f l.
Proof.
  intros A B f. induction l as [|a r IH]; intros n x y HN HE; [destruct n; discriminate|].
  destruct n; cbn in *.
  - inversion HN. subst. rewrite HE. reflexivity.
  - f_equal. eapply IH; eassumption.
Qed.

Lemma nth_error_Forall : forall {A} (P : A -> Prop) l n x, Forall P l -> nth_error l n = Some x -> P x.
Proof.
  intros A P. induction l as [|a r IH]; intros n x HF HN; [destruct n; discriminate|].
  inversion HF; subst. destruct n; cbn in HN; [inversion HN; subst; assumption|eauto].
Qed.

(** * The state predicate carried through a parse: the invariant, and the
    constructor fields of the explicit objects are the given [h] *)
Definition P (h : list instance) (g : gstate) : Prop := Inv g /\ map strip (g_objs g) = h.

Lemma resolve_sp_spec : forall h g sp, P h g ->
  P h (fst (resolve_sp g sp)) /\ snd (resolve_sp g sp) = pure_sp h sp.
Proof.
  intros h g sp [[HC HO] HH]. destruct sp as [k|id]; cbn [resolve_sp].
  - destruct (get_std_ok (g_cache g) k HC) as [HC1 HE].
    destruct (get_std (g_cache g) k) as [c1 i] eqn:EG. cbn [fst snd] in HC1, HE.
    destruct HE as [HS HI]. cbn [fst snd] in HS, HI.
    pose proof (use_strip i) as US. pose proof (use_inner_ok i HI) as UI. pose proof (use_kind i HI) as UK.
    destruct (use i) as [i' ok] eqn:EU. cbn [fst snd] in *.
    split.
    + split; [split|]; cbn [g_cache g_objs]; [|exact HO|exact HH].
      apply cache_set_ok; [exact HC1|]. split; cbn [fst snd]; [rewrite US; exact HS|exact UI].
    + rewrite UK. apply kind_of_instance_strip. rewrite <- HS. reflexivity.
  - destruct (nth_error (g_objs g) id) as [i|] eqn:EN.
    + pose proof (nth_error_Forall _ _ _ _ HO EN) as HI.
      pose proof (use_strip i) as US. pose proof (use_inner_ok i HI) as UI. pose proof (use_kind i HI) as UK.
      destruct (use i) as [i' ok] eqn:EU. cbn [fst snd] in *.
      split.
      * split; [split|]; cbn [g_cache g_objs]; [exact HC| |].
        -- apply list_set_Forall; assumption.
        -- rewrite (map_list_set_same strip _ _ _ _ EN US). exact HH.
      * rewrite UK. subst h. cbn [pure_sp]. rewrite nth_error_map, EN. cbn [option_map]. apply kind_of_instance_strip. reflexivity.
    + cbn [fst snd]. split; [split; [split|]; assumption|].
      subst h. cbn [pure_sp]. rewrite nth_error_map, EN. reflexivity.
Qed.

Lemma mapM_st_spec : forall {A B} (Q : gstate -> Prop) (f : gstate -> A -> gstate * option B) (fp : A -> option B),
  (forall g a, Q g -> Q (fst (f g a)) /\ snd (f g a) = fp a) ->
  forall l g, Q g -> Q (fst (mapM_st f g l)) /\ snd (mapM_st f g l) = mapM_opt fp l.
Proof.
  intros A B Q f fp HF. induction l as [|a r IH]; intros g HQ; cbn [mapM_st mapM_opt].
  - split; [exact HQ|reflexivity].
  - destruct (HF g a HQ) as [H1 H2]. destruct (f g a) as [g1 ob]. cbn [fst snd] in H1, H2.
    destruct (IH g1 H1) as [H3 H4]. destruct (mapM_st f g1 r) as [g2 orr]. cbn [fst snd] in *.
    split; [exact H3|]. rewrite H2, H4. reflexivity.
Qed.

Lemma resolve_arg_spec : forall h g a, P h g ->
  P h (fst (resolve_arg g a)) /\ snd (resolve_arg g a) = pure_arg h a.
Proof.
  intros h g a HP. unfold resolve_arg, pure_arg.
  destruct (resolve_sp_spec h g (sa_sp a) HP) as [H1 H2].
  destruct (resolve_sp g (sa_sp a)) as [g' o]. cbn [fst snd] in *. split; [exact H1|]. rewrite H2. reflexivity.
Qed.

Lemma resolve_cspec_spec : forall h g sc, P h g ->
  P h (fst (resolve_cspec g sc)) /\ snd (resolve_cspec g sc) = pure_cspec h sc.
Proof.
  intros h g sc HP. unfold resolve_cspec, pure_cspec. destruct (ss_args sc) as [l|k].
  - destruct (mapM_st_spec (P h) resolve_arg (pure_arg h) (resolve_arg_spec h) l g HP) as [H1 H2].
    destruct (mapM_st resolve_arg g l) as [g' o]. cbn [fst snd] in *. split; [exact H1|]. rewrite H2. reflexivity.
  - cbn [fst snd]. split; [exact HP|reflexivity].
Qed.

Lemma resolve_named_spec : forall h g n, P h g ->
  P h (fst (resolve_named g n)) /\ snd (resolve_named g n) = pure_named h n.
Proof.
  intros h g n HP. unfold resolve_named, pure_named.
  destruct (resolve_cspec_spec h g (snd n) HP) as [H1 H2].
  destruct (resolve_cspec g (snd n)) as [g' o]. cbn [fst snd] in *. split; [exact H1|]. rewrite H2. reflexivity.
Qed.

Lemma resolve_opt_spec : forall h g o, P h g ->
  P h (fst (resolve_opt g o)) /\ snd (resolve_opt g o) = pure_opt h o.
Proof.
  intros h g o HP. unfold resolve_opt, pure_opt. destruct o as [sc|].
  - destruct (resolve_cspec_spec h g sc HP) as [H1 H2].
    destruct (resolve_cspec g sc) as [g' r]. cbn [fst snd] in *. split; [exact H1|]. rewrite H2. reflexivity.
  - cbn [fst snd]. split; [exact HP|reflexivity].
Qed.

Lemma resolve_ctx_spec : forall h g x, P h g ->
  P h (fst (resolve_ctx g x)) /\ snd (resolve_ctx g x) = pure_ctx h x.
Proof.
  intros h g x HP. unfold resolve_ctx, pure_ctx.
  pose proof (mapM_st_spec (P h) resolve_named (pure_named h) (resolve_named_spec h)) as HM.
  destruct (HM (sx_macros x) g HP) as [P1 E1]. destruct (mapM_st resolve_named g (sx_macros x)) as [g1 ms].
  cbn [fst snd] in P1, E1.
  destruct (HM (sx_envs x) g1 P1) as [P2 E2]. destruct (mapM_st resolve_named g1 (sx_envs x)) as [g2 es].
  cbn [fst snd] in P2, E2.
  destruct (HM (sx_specials x) g2 P2) as [P3 E3]. destruct (mapM_st resolve_named g2 (sx_specials x)) as [g3 ss].
  cbn [fst snd] in P3, E3.
  destruct (resolve_opt_spec h g3 (sx_unk_macro x) P3) as [P4 E4].
  destruct (resolve_opt g3 (sx_unk_macro x)) as [g4 um]. cbn [fst snd] in P4, E4.
  destruct (resolve_opt_spec h g4 (sx_unk_env x) P4) as [P5 E5].
  destruct (resolve_opt g4 (sx_unk_env x)) as [g5 ue]. cbn [fst snd] in P5, E5.
  cbn [fst snd]. split; [exact P5|]. rewrite E1, E2, E3, E4, E5. reflexivity.
Qed.

Lemma parse_st_spec : forall h g j, P h g ->
  P h (fst (parse_st g j)) /\ snd (parse_st g j) = parse_pure h j.
Proof.
  intros h g j HP. unfold parse_st, parse_pure.
  destruct (resolve_ctx_spec h g (j_ctx j) HP) as [H1 H2].
  destruct (resolve_ctx g (j_ctx j)) as [g' ocx]. cbn [fst snd] in *. split; [exact H1|]. rewrite H2. reflexivity.
Qed.

(** * Theorems *)
Lemma inv_init : forall objs, Forall (fun i => i_inner i = None) objs -> Inv (g_init objs).
Proof.
  intros objs H. split; cbn; [constructor|].
  eapply Forall_impl; [|exact H]. intros i Hi. left. exact Hi.
Qed.

Lemma inv_preserved : forall g j, Inv g -> Inv (fst (parse_st g j)).
Proof.
  intros g j HI. destruct (parse_st_spec (map strip (g_objs g)) g j) as [[H _] _]; [split; [exact HI|reflexivity]|].
  exact H.
Qed.

Lemma history_independent_P : forall h jobs g, P h g ->
  map snd (run_history g jobs) = map (parse_pure h) jobs.
Proof.
  intros h. induction jobs as [|j r IH]; intros g HP; [reflexivity|].
  cbn [run_history map]. destruct (parse_st_spec h g j HP) as [H1 H2].
  rewrite H2. f_equal. apply IH. exact H1.
Qed.

Lemma history_independent : forall jobs g0, Inv g0 ->
  map snd (run_history g0 jobs) = map (parse_pure (map strip (g_objs g0))) jobs.
Proof. intros jobs g0 HI. apply history_independent_P. split; [exact HI|reflexivity]. Qed.

(** a parse result does not depend on the state at all (two arbitrary reachable states) *)
Lemma state_irrelevant : forall g1 g2 j, Inv g1 -> Inv g2 ->
  map strip (g_objs g1) = map strip (g_objs g2) ->
  snd (parse_st g1 j) = snd (parse_st g2 j).
Proof.
  intros g1 g2 j H1 H2 HE.
  destruct (parse_st_spec (map strip (g_objs g1)) g1 j) as [_ E1]; [split; [exact H1|reflexivity]|].
  destruct (parse_st_spec (map strip (g_objs g1)) g2 j) as [_ E2]; [split; [exact H2|symmetry; exact HE]|].
  rewrite E1, E2. reflexivity.
Qed.

(** * What a parse can change: lazy fields only; the cache only grows *)
Definition st_le (g g' : gstate) : Prop :=
  map strip (g_objs g') = map strip (g_objs g) /\
  (exists ext, map (fun e => (fst e, strip (snd e))) (g_cache g')
               = map (fun e => (fst e, strip (snd e))) (g_cache g) ++ ext).

Lemma st_le_refl : forall g, st_le g g.
Proof. intros g. split; [reflexivity|]. exists []. rewrite app_nil_r. reflexivity. Qed.

Lemma st_le_trans : forall a b c, st_le a b -> st_le b c -> st_le a c.
Proof.
  intros a b c [H1 [e1 H2]] [H3 [e2 H4]]. split; [congruence|].
  exists (e1 ++ e2). rewrite H4, H2, app_assoc. reflexivity.
Qed.

Lemma cache_set_keys : forall c k i, (forall i0, cache_get c k = Some i0 -> strip i = strip i0) ->
  map (fun e => (fst e, strip (snd e))) (cache_set c k i) = map (fun e => (fst e, strip (snd e))) c.
Proof.
  induction c as [|[k' i'] r IH]; intros k i H; cbn; [reflexivity|].
  cbn in H. destruct (key_eqb k' k) eqn:E; cbn.
  - rewrite (H i' eq_refl). reflexivity.
  - f_equal. apply IH. exact H.
Qed.

Lemma cache_get_app_new : forall c k i, cache_get c k = None ->
  cache_get (c ++ [(k, i)]) k = Some i.
Proof.
  induction c as [|[k' i'] r IH]; intros k i H; cbn.
  - pose proof (key_eqb_refl k) as E.
    rewrite E. reflexivity.
  - cbn in H. destruct (key_eqb k' k); [discriminate|]. apply IH. exact H.
Qed.

Lemma resolve_sp_le : forall g sp, st_le g (fst (resolve_sp g sp)).
Proof.
  intros g sp. destruct sp as [k|id]; cbn [resolve_sp].
  - unfold get_std. destruct (cache_get (g_cache g) k) as [i|] eqn:EG.
    + pose proof (use_strip i) as US. destruct (use i) as [i' ok]. cbn [fst snd] in *.
      split; cbn [g_objs g_cache]; [reflexivity|]. exists []. rewrite app_nil_r.
      apply cache_set_keys. intros i0 H0. rewrite EG in H0. inversion H0. subst. exact US.
    + pose proof (use_strip (new_instance k)) as US. destruct (use (new_instance k)) as [i' ok]. cbn [fst snd] in *.
      split; cbn [g_objs g_cache]; [reflexivity|]. exists [(k, strip (new_instance k))].
      rewrite cache_set_keys.
      * rewrite map_app. reflexivity.
      * intros i0 H0. rewrite (cache_get_app_new _ _ _ EG) in H0. inversion H0. subst. exact US.
  - destruct (nth_error (g_objs g) id) as [i|] eqn:EN; [|apply st_le_refl].
    pose proof (use_strip i) as US. destruct (use i) as [i' ok]. cbn [fst snd] in *.
    split; cbn [g_objs g_cache]; [eapply map_list_set_same; eassumption|].
    exists []. rewrite app_nil_r. reflexivity.
Qed.

Lemma mapM_st_le : forall {A B} (f : gstate -> A -> gstate * option B),
  (forall g a, st_le g (fst (f g a))) -> forall l g, st_le g (fst (mapM_st f g l)).
Proof.
  intros A B f HF. induction l as [|a r IH]; intros g; cbn [mapM_st]; [apply st_le_refl|].
  pose proof (HF g a) as H1. destruct (f g a) as [g1 ob]. cbn [fst] in H1.
  pose proof (IH g1) as H2. destruct (mapM_st f g1 r) as [g2 orr]. cbn [fst] in *.
  eapply st_le_trans; eassumption.
Qed.

Lemma resolve_arg_le : forall g a, st_le g (fst (resolve_arg g a)).
Proof.
  intros g a. unfold resolve_arg. pose proof (resolve_sp_le g (sa_sp a)) as H.
  destruct (resolve_sp g (sa_sp a)). exact H.
Qed.

Lemma resolve_cspec_le : forall g sc, st_le g (fst (resolve_cspec g sc)).
Proof.
  intros g sc. unfold resolve_cspec. destruct (ss_args sc) as [l|k]; [|apply st_le_refl].
  pose proof (mapM_st_le resolve_arg resolve_arg_le l g) as H. destruct (mapM_st resolve_arg g l). exact H.
Qed.

Lemma resolve_named_le : forall g n, st_le g (fst (resolve_named g n)).
Proof.
  intros g n. unfold resolve_named. pose proof (resolve_cspec_le g (snd n)) as H.
  destruct (resolve_cspec g (snd n)). exact H.
Qed.

Lemma resolve_opt_le : forall g o, st_le g (fst (resolve_opt g o)).
Proof.
  intros g [sc|]; unfold resolve_opt; [|apply st_le_refl].
  pose proof (resolve_cspec_le g sc) as H. destruct (resolve_cspec g sc). exact H.
Qed.

Lemma parse_st_le : forall g j, st_le g (fst (parse_st g j)).
Proof.
  intros g j. unfold parse_st, resolve_ctx.
  pose proof (mapM_st_le resolve_named resolve_named_le) as HM.
  pose proof (HM (sx_macros (j_ctx j)) g) as H1. destruct (mapM_st resolve_named g (sx_macros (j_ctx j))) as [g1 ms].
  pose proof (HM (sx_envs (j_ctx j)) g1) as H2. destruct (mapM_st resolve_named g1 (sx_envs (j_ctx j))) as [g2 es].
  pose proof (HM (sx_specials (j_ctx j)) g2) as H3. destruct (mapM_st resolve_named g2 (sx_specials (j_ctx j))) as [g3 ss].
  pose proof (resolve_opt_le g3 (sx_unk_macro (j_ctx j))) as H4. destruct (resolve_opt g3 (sx_unk_macro (j_ctx j))) as [g4 um].
  pose proof (resolve_opt_le g4 (sx_unk_env (j_ctx j))) as H5. destruct (resolve_opt g4 (sx_unk_env (j_ctx j))) as [g5 ue].
  cbn [fst] in *.
  eapply st_le_trans; [exact H1|]. eapply st_le_trans; [exact H2|]. eapply st_le_trans; [exact H3|].
  eapply st_le_trans; [exact H4|exact H5].
Qed.

(** * The counter-on-instance variant (the code before 9295ac7) is history dependent *)
Definition doc_v : str := [92;118;123;97;123;98;125;99;125;100]%N.        (* \v{a{b}c}d *)

Lemma counter_on_instance_differs :
  let ps := walker_state {| cx_macros := []; cx_envs := []; cx_specials := []; cx_unk_macro := None; cx_unk_env := None |} in
  let i0 := old_vnew None in
  let r1 := old_verb_parse i0 doc_v ps 2 in
  let r2 := old_verb_parse (fst r1) doc_v ps 2 in
  snd r1 <> snd r2
  /\ snd r1 = run doc_v false {| cx_macros := []; cx_envs := []; cx_specials := []; cx_unk_macro := None; cx_unk_env := None |}
                  3 (TVerbDelim ps None 2)
  /\ ov_depth (fst r1) = 0%Z.
Proof.
  vm_compute. split; [|split; reflexivity]. intros H. discriminate H.
Qed.

Lemma counter_on_instance_refuted :
  exists (s : str) (ps : pstate) (pos : nat),
    let r1 := old_verb_parse (old_vnew None) s ps pos in
    let r2 := old_verb_parse (fst r1) s ps pos in
    snd r1 <> snd r2.
Proof.
  exists doc_v, (walker_state {| cx_macros := []; cx_envs := []; cx_specials := [];
                                cx_unk_macro := None; cx_unk_env := None |}), 2.
  exact (proj1 counter_on_instance_differs).
Qed.

(** * The generated default context against [kind_of_spec]
    [Gen/GenWalkerCtx.v] records, for every argument of the live default walker
    database, the specification string and the parser kind decoded structurally
    from the live parser object (harness/ctxwire.py).  Sweep: every recorded
    kind is [kind_of_spec] of the recorded string for some constructor fields —
    the model's mirror of [get_arg_parser_instance] agrees with the table
    regenerated from /repo on this run. *)
Definition ostr2_eqb (a b : option (str * str)) : bool :=
  match a, b with
  | None, None => true
  | Some (x1, y1), Some (x2, y2) => str_eqb x1 x2 && str_eqb y1 y2
  | _, _ => false
  end.
Definition argkind_eqb (a b : argkind) : bool :=
  match a, b with
  | AKExpr x, AKExpr y => Bool.eqb x y
  | AKGroup o1 c1 p1 a1, AKGroup o2 c2 p2 a2 => str_eqb o1 o2 && str_eqb c1 c2 && Bool.eqb p1 p2 && Bool.eqb a1 a2
  | AKChars h1 a1 f1, AKChars h2 a2 f2 => str_eqb h1 h2 && Bool.eqb a1 a2 && Bool.eqb f1 f2
  | AKVerb d1, AKVerb d2 => ostr2_eqb d1 d2
  | _, _ => false
  end.
Definition arg_standard (a : argspec) : bool :=
  existsb (fun af : bool * bool =>
             match kind_of_spec (a_spec a) (fst af) (snd af) with
             | Some k => argkind_eqb k (a_kind a)
             | None => false
             end)
          [(true, false); (false, false); (true, true); (false, true)].
Definition cspec_standard (c : cspec) : bool :=
  match sp_args c with APStd l => forallb arg_standard l | APLegacy _ => true end.
Definition ctx_standard (cx : context) : bool :=
  forallb (fun n => cspec_standard (snd n)) (cx_macros cx)
  && forallb (fun n => cspec_standard (snd n)) (cx_envs cx)
  && forallb (fun n => cspec_standard (snd n)) (cx_specials cx)
  && match cx_unk_macro cx with Some c => cspec_standard c | None => true end
  && match cx_unk_env cx with Some c => cspec_standard c | None => true end.

Lemma default_ctx_standard : ctx_standard Gen.GenWalkerCtx.default_ctx = true.
Proof. vm_compute. reflexivity. Qed.
