(** C08, unbounded composition — from documents of the extended grammar to
    the text latex2text renders: [core_of2] is sound.  For every item [i] with
    [core_of2 lt cx i = Some k], at every position, in every state, for every
    source string: the node [node_of2 cx ps p i] exists and [Render.abstract]
    recognises it as the core construct [k] ([core_of2_sound]); for a whole
    document [doc_cores2 lt cx d = Some ks] gives
    [abstract_items src lt (fst (tree_of2 cx ps pos d)) = Some ks]
    ([tree_cores2]).  With C02's round trip ([RoundTrip2.parse_unparse2]) and
    C03's tree-level theorem ([RenderProofs.l2t_nodes_core]):

      [latex_to_text o (unparse2 d) false = Some (render (nfc_accent lt0) o (o_sls o) ks, d0)]

    ([end_to_end2]).  Same induction on document size, in accumulator form, as
    [Proofs/ComposeRender.v] has for the core grammar; no source threading is
    needed here because the sub-grammar has no formulas. *)
From Coq Require Import NArith ZArith List Bool Arith Lia.
From PLV Require Import Base.PyStr Tok.PState Tok.Tokenizer Parse.Nodes Parse.Parser Parse.ParseWire
                        Doc.DocGrammar Doc.DocGrammar2 Proofs.RoundTrip2
                        L2T.L2T L2T.L2TWire L2T.Render
                        Proofs.RenderModel Proofs.RenderProofs Proofs.RenderCompose Proofs.RenderDefaults
                        Proofs.ComposeRender Proofs.UnboundedDefs Proofs.UnboundedRenderDefs.
Import ListNotations.
Local Open Scope N_scope.

Section Sound.
  Variable lt : l2tctx.
  Variable cx : context.
  Variable src : str.
  Notation absl := (abstract_items src lt).

  Lemma cores_items2_cons st j r :
    cores_items2 lt cx st (j :: r)
    = match kabsorb_item2 lt cx st j with Some st' => cores_items2 lt cx st' r | None => None end.
  Proof. destruct j; cbn [cores_items2 kabsorb_item2]; try reflexivity; destruct (core_of2 _ _ _); reflexivity. Qed.

  Lemma core_of2_grp ws b tr :
    core_of2 lt cx (Grp2 ws b tr)
    = match cores_items2 lt cx k0 b with Some st => Some (KGroup (kclose st tr)) | None => None end.
  Proof. reflexivity. Qed.

  Definition NodeK (n : nat) : Prop :=
    forall i k, (isize2 i <= n)%nat -> core_of2 lt cx i = Some k -> forall ps p0,
    exists nd, node_of2 cx ps p0 i = Some nd /\ abstract src lt nd = Some k.
  Definition ListK (n : nat) : Prop :=
    forall l k k', (lsize2 l <= n)%nat -> cores_items2 lt cx k l = Some k' -> forall ps p st,
    KR lt src st k -> KR lt src (fst (absorb2 cx ps p st l)) k'.

  Lemma abstract_specials p e m ch : abstract src lt (NSpecials p e m ch (Some ([], []))) = specials_core lt ch.
  Proof. reflexivity. Qed.

  Lemma node_step_k2 n : NodeK n -> ListK n -> NodeK (S n).
  Proof.
    intros NN LN i k SZ C ps p0.
    destruct i as [ws cs|ws b tr|ws name post args|ws kd b tr|ws text post|ws mid|ws bws name args b tr ews
                  |ws chars args|ws name post dc text|ws bws name oarg text|ws oc cc b tr| |vw od cd vt|pw ptx ppost pa0];
      try discriminate C.
    - (* group *)
      rewrite core_of2_grp in C. destruct (cores_items2 lt cx k0 b) as [st'|] eqn:CB; [|discriminate].
      injection C as <-. cbn [isize2] in SZ. fold (lsize2 b) in SZ.
      rewrite node_of_grp2. cbn zeta. eexists. split; [reflexivity|].
      apply abstract_gen_nodelist_group. apply kr_close.
      apply (LN b k0 st' ltac:(lia) CB ps (S p0) cs_empty). apply kr_empty.
    - (* macro call *)
      cbn [core_of2] in C.
      destruct (get_macro_spec cx name) as [sp|] eqn:GS; [|discriminate].
      destruct (sp_args sp) as [l|lk] eqn:SA; [|discriminate].
      rewrite (node_of_mac2 cx ps p0 ws name post args sp l GS SA). cbn zeta.
      destruct args as [|a [|a2 args]]; destruct l as [|spc [|spc2 l]]; try discriminate.
      + (* bare symbol macro *)
        destruct (symbol_repl lt name) as [r|] eqn:SR; [|discriminate]. injection C as <-.
        eexists. split; [reflexivity|]. cbn [arg_nodes2 fst map]. rewrite abstract_macro. cbn [no_arg_nodes].
        rewrite SR. reflexivity.
      + (* one mandatory argument *)
        destruct (str_eqb (a_spec spc) [123]) eqn:ES; [|discriminate].
        destruct (a_kind spc) as [sp0| | |] eqn:AK; try discriminate.
        set (q := (p0 + 1 + length name + length post)%nat).
        cbn [arg_nodes2 fst map]. fold q. unfold arg_node2. rewrite AK.
        assert (LE : list_eqb str_eqb [a_spec spc] [[123]] = true) by (cbn [list_eqb]; rewrite ES; reflexivity).
        destruct a as [aws cs|aws ab atr|aws nm2 post2 args2|aws akd ab atr|aws atext apost|aws amid|aws abws aname aargs ab atr aews
                      |aws achars aargs|aws aname apost adc atext|aws abws aname aoarg atext|aws aoc acc ab atr| |avw aod acd avt|apw aptx appost apa0];
          try discriminate C.
        * (* one character / text *)
          destruct (accent_macro lt name) as [comb|] eqn:AM; [|discriminate]. injection C as <-.
          eexists. split; [reflexivity|]. rewrite abstract_macro, LE, AM. cbn [expr_node2 mk_chars abstract option_map].
          reflexivity.
        * (* a braced group *)
          destruct (core_of2 lt cx (Grp2 aws ab atr)) as [[]|] eqn:CA; try discriminate.
          cbn [isize2 fold_right] in SZ.
          assert (SZa : (isize2 (Grp2 aws ab atr) <= n)%nat) by (cbn [isize2 fold_right]; lia).
          destruct (NN (Grp2 aws ab atr) _ SZa CA (apply_adelta ps (a_delta spc)) (q + length (item_ws2 (Grp2 aws ab atr)))%nat)
            as (nd & N1 & N2).
          cbn [expr_node2]. rewrite N1.
          rewrite node_of_grp2 in N1. cbn zeta in N1. injection N1 as <-.
          destruct (accent_macro lt name) as [comb|] eqn:AM.
          -- injection C as <-. eexists. split; [reflexivity|].
             rewrite abstract_macro, LE, AM, N2. reflexivity.
          -- destruct (transparent_macro lt name) eqn:TM; [|discriminate]. injection C as <-.
             eexists. split; [reflexivity|].
             rewrite abstract_macro, LE, AM, TM.
             rewrite abstract_group in N2. cbn [str_eqb N.eqb Pos.eqb andb] in N2.
             destruct (abs_body src lt _) as [bd|] in N2 |- *; [|discriminate].
             cbn [option_map] in N2 |- *. congruence.
        * (* a control sequence *)
          destruct (accent_macro lt name) as [comb|] eqn:AM; [|discriminate].
          destruct (symbol_repl lt nm2) as [r|] eqn:SR; [|discriminate]. injection C as <-.
          eexists. split; [reflexivity|]. rewrite abstract_macro, LE, AM. cbn [expr_node2].
          rewrite abstract_macro. cbn [no_arg_nodes]. rewrite SR. reflexivity.
    - (* paragraph break *)
      cbn [core_of2] in C. cbn [node_of2]. destruct (par_spec_ok cx); [|discriminate].
      eexists. split; [reflexivity|]. rewrite abstract_specials. exact C.
    - (* specials *)
      cbn [core_of2] in C. destruct args; [|discriminate].
      destruct (get_specials_spec cx chars) as [sp|] eqn:GS; [|discriminate].
      destruct (sp_args sp) as [[|? ?]|] eqn:SA; try discriminate.
      rewrite (node_of_spc2 cx ps p0 ws chars [] sp [] GS SA). cbn zeta.
      eexists. split; [reflexivity|]. cbn [arg_nodes2 fst map]. rewrite abstract_specials. exact C.
  Qed.

  Lemma list_step_k2 n : NodeK (S n) -> ListK n -> ListK (S n).
  Proof.
    intros NN LN l k k' SZ C ps p st R.
    destruct l as [|i l]; [cbn in C; injection C as <-; exact R|].
    rewrite cores_items2_cons in C. destruct (kabsorb_item2 lt cx k i) as [k1|] eqn:KA; [|discriminate].
    rewrite lsize_cons2 in SZ. pose proof (isize_pos2 i). rewrite absorb_cons2.
    apply (LN l k1 k' ltac:(lia) C).
    destruct i as [ws cs|ws b tr|ws name post args|ws kd b tr|ws text post|ws mid|ws bws name args b tr ews
                  |ws chars args|ws name post dc text|ws bws name oarg text|ws oc cc b tr| |vw od cd vt|pw ptx ppost pa0];
      cbn [kabsorb_item2] in KA; cbn [absorb_item2].
    1: { injection KA as <-. apply kr_push_pending. exact R. }
    all: match type of KA with
         | match core_of2 lt cx ?j with _ => _ end = _ =>
             destruct (core_of2 lt cx j) as [c|] eqn:CJ; [|discriminate]; injection KA as <-;
             destruct (NN j c ltac:(lia) CJ ps (p + length (item_ws2 j))%nat) as (nd & N1 & N2);
             rewrite N1; apply kr_push_node; [apply kr_pre_flush; exact R|exact N2]
         end.
  Qed.

  Lemma cores_all n : NodeK n /\ ListK n.
  Proof.
    induction n as [|n [NN LN]].
    - split.
      + intros i k SZ. pose proof (isize_pos2 i). lia.
      + intros l k k' SZ C ps p st R. destruct l as [|i l]; [cbn in C; injection C as <-; exact R|].
        rewrite lsize_cons2 in SZ. pose proof (isize_pos2 i). lia.
    - pose proof (node_step_k2 n NN LN) as NN'. split; [exact NN'|apply list_step_k2; assumption].
  Qed.

  Theorem core_of2_sound i k ps p : core_of2 lt cx i = Some k ->
    exists nd, node_of2 cx ps p i = Some nd /\ abstract src lt nd = Some k.
  Proof. intros C. exact (proj1 (cores_all (isize2 i)) i k (le_n _) C ps p). Qed.

  (** a whole document *)
  Theorem tree_cores2 ps pos d ks : doc_cores2 lt cx d = Some ks ->
    absl (fst (tree_of2 cx ps pos d)) = Some ks.
  Proof.
    unfold doc_cores2. destruct (cores_items2 lt cx k0 (d_items2 d)) as [k'|] eqn:C; [|discriminate].
    intros H. injection H as <-. unfold tree_of2. cbn [fst].
    pose proof (proj2 (cores_all (lsize2 (d_items2 d))) _ k0 k' (le_n _) C ps pos cs_empty (kr_empty lt src)) as R.
    set (A := absorb2 cx ps pos cs_empty (d_items2 d)) in *.
    unfold eos_state. destruct (d_trail2 d) as [|c tr] eqn:ET.
    - pose proof (kr_flush lt src ps _ _ R) as [F _]. unfold kclose, kpush. cbn [fst snd].
      rewrite app_nil_r. destruct k' as [a b]. exact F.
    - exact (kr_close lt src ps _ _ (c :: tr) (snd A) R).
  Qed.
End Sound.

(** * End to end under the default databases *)
Theorem end_to_end2 : forall d ks,
  ok_doc2 cx0 d = true -> doc_cores2 lt0 cx0 d = Some ks ->
  forall o, latex_to_text o (unparse2 d) false = Some (render (nfc_accent lt0) o (o_sls o) ks, d0).
Proof.
  intros d ks O C o. unfold latex_to_text. fold cx0. fold lt0.
  rewrite (parse_unparse2 cx0 d O). unfold doc_result2, gen_nodelist, mk_nodelist. f_equal.
  apply l2t_nodes_core. apply tree_cores2. exact C.
Qed.
