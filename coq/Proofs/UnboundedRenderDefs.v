(** C08, unbounded composition — definitions: the CORE construct (in the sense
    of C03, [L2T/Render.v]) that an item of the extended document grammar
    stands for, computed from the ITEM (no positions, no source string):
    [core_of2].  It mirrors [Doc/DocGrammar2.node_of2] followed by
    [Render.abstract] on the sub-grammar the encoder chunks live in: text,
    braced groups, macro calls without arguments (bare symbol macros) or with
    ONE mandatory argument — written as a braced group or as a single token
    (a character, a control sequence) — that are accent / formatting macros
    under the latex2text database, specials sequences, paragraph breaks.
    Accumulators [kst] as in [Proofs/ComposeRender.v]. *)
From Coq Require Import NArith List Bool Arith.
From PLV Require Import Base.PyStr Tok.PState Tok.Tokenizer Parse.Nodes Parse.Parser Parse.ParseWire
                        Doc.DocGrammar Doc.DocGrammar2 L2T.L2T L2T.Render
                        Proofs.ComposeRender Proofs.UnboundedDefs.
Import ListNotations.
Local Open Scope N_scope.

Section Cores2.
  Variable lt : l2tctx.
  Variable cx : context.

  (** what [abstract] says of the node of a specials sequence without argument nodes *)
  Definition specials_core (chars : str) : option core :=
    match assoc (lt_specials lt) chars with
    | None => Some (if str_eqb chars [10; 10] then KPar else KSpecials chars)
    | Some _ => option_map KSpecials (specials_repl lt chars)
    end.

  Fixpoint core_of2 (i : item2) {struct i} : option core :=
    let body := fix go (st : kst) (l : list item2) {struct l} : option kst :=
        match l with
        | [] => Some st
        | j :: r =>
            match j with
            | Text2 ws cs => go (kpush st (ws ++ cs)) r
            | _ => match core_of2 j with
                   | Some k => go (kpush_node (kpre_flush st (item_ws2 j)) k) r
                   | None => None
                   end
            end
        end in
    match i with
    | Grp2 _ b tr =>
        match body k0 b with Some st => Some (KGroup (kclose st tr)) | None => None end
    | Mac2 _ name post args =>
        match get_macro_spec cx name with
        | Some sp =>
            match sp_args sp with
            | APStd l =>
                match args, l with
                | [], [] => option_map (fun r => KSymbol r post) (symbol_repl lt name)
                | [a], [spc] =>
                    if str_eqb (a_spec spc) [123] then
                      match a_kind spc with
                      | AKExpr _ =>
                          match a with
                          | Grp2 _ _ _ =>
                              match core_of2 a with
                              | Some (KGroup bd) =>
                                  match accent_macro lt name with
                                  | Some comb => Some (KAccent comb (KGroup bd))
                                  | None => if transparent_macro lt name then Some (KTransparent bd) else None
                                  end
                              | _ => None
                              end
                          | Text2 _ cs =>
                              match accent_macro lt name with
                              | Some comb => Some (KAccent comb (KText cs))
                              | None => None
                              end
                          | Mac2 _ nm2 post2 _ =>
                              match accent_macro lt name, symbol_repl lt nm2 with
                              | Some comb, Some r => Some (KAccent comb (KSymbol r post2))
                              | _, _ => None
                              end
                          | _ => None
                          end
                      | _ => None
                      end
                    else None
                | _, _ => None
                end
            | APLegacy _ => None
            end
        | None => None
        end
    | Spc2 _ chars [] =>
        match get_specials_spec cx chars with
        | Some sp => match sp_args sp with APStd [] => specials_core chars | _ => None end
        | None => None
        end
    | Par2 _ _ => if par_spec_ok cx then specials_core [10; 10] else None
    | _ => None
    end.

  Definition kabsorb_item2 (st : kst) (j : item2) : option kst :=
    match j with
    | Text2 ws cs => Some (kpush st (ws ++ cs))
    | _ => match core_of2 j with
           | Some k => Some (kpush_node (kpre_flush st (item_ws2 j)) k)
           | None => None
           end
    end.

  (** (same shape as the local fixpoint of [core_of2]) *)
  Definition cores_items2 : kst -> list item2 -> option kst :=
    fix go (st : kst) (l : list item2) {struct l} : option kst :=
      match l with
      | [] => Some st
      | j :: r =>
          match j with
          | Text2 ws cs => go (kpush st (ws ++ cs)) r
          | _ => match core_of2 j with
                 | Some k => go (kpush_node (kpre_flush st (item_ws2 j)) k) r
                 | None => None
                 end
          end
      end.

  Definition doc_cores2 (d : doc2) : option (list core) :=
    match cores_items2 k0 (d_items2 d) with
    | Some st => Some (kclose st (d_trail2 d))
    | None => None
    end.
End Cores2.

(** * What a chunk must look like for the round trip (sweep / hypothesis predicates) *)

(** the first characters of the two-character ligatures of the input *)
Definition ligcap (c : N) : bool := mem_c c [33; 39; 45; 63; 96].

Section Cover.
  Variable lt : l2tctx.
  Variable cx : context.
  Variable acc : N -> N -> str.
  Variable o : opts.
  Variable sl : sls.

  (** the text of a structured item / an atom / a list of atoms *)
  Definition rcore (i : item2) : str :=
    match core_of2 lt cx i with Some k => render1 acc o sl k | None => [] end.
  Definition atext (a : atom) : str := match a with AC c => [c] | AI i => rcore i end.
  Definition flat_text (l : list atom) : str := flat_map atext l.

  (** an atom that no neighbour can disturb: a non-blank character at which no specials
      sequence starts; a structured item that is a core construct *)
  Definition firm_atom (a : atom) : bool :=
    match a with
    | AC d => negb (is_space d) && nospec cx d
    | AI i => top_shape i && match core_of2 lt cx i with Some _ => true | None => false end
    end.

  (** the chunk of the character [c]: the character itself (a blank, a character at which
      no specials sequence starts, or the first character of a ligature), or firm atoms
      only (and then [c] is not a blank) *)
  Definition shape_ok (al : list atom) (c : N) : bool :=
    match al with
    | [] => false
    | [AC d] => N.eqb d c && (is_space c || nospec cx c || ligcap c)
    | _ => negb (is_space c) && forallb firm_atom al
    end.
End Cover.

(** * Whitespace runs that come back unchanged: at most one newline, or exactly two
    ADJACENT newlines (the paragraph break is rendered as two newlines) *)
Definition wsclean (w : str) : bool :=
  match ws_split w with
  | ([Par2 _ mid], _) => is_nil mid
  | _ => true
  end.

Fixpoint par_clean_from (ws s : str) : bool :=
  match s with
  | [] => wsclean ws
  | c :: r => if is_space c then par_clean_from (ws ++ [c]) r else wsclean ws && par_clean_from [] r
  end.
(** every maximal whitespace run of [s] is clean *)
Definition par_clean (s : str) : bool := par_clean_from [] s.

Fixpoint runs_clean (ws : str) (l : list atom) : bool :=
  match l with
  | [] => wsclean ws
  | AC c :: r => if is_space c then runs_clean (ws ++ [c]) r else wsclean ws && runs_clean [] r
  | AI _ :: r => wsclean ws && runs_clean [] r
  end.

(** * Specials sequences of ONE character that no other sequence extends ([~], [&]) *)
Definition solo (cx : context) (c : N) : bool :=
  existsb (str_eqb [c]) (map fst (cx_specials cx))
  && forallb (fun sc : str => match sc with d :: t => negb (N.eqb d c) || is_nil t | [] => true end)
             (map fst (cx_specials cx)).
