From Coq Require Import NArith ZArith List Bool Arith.
From PLV Require Import Base.PyStr Parse.Parser Parse.ParseWire L2T.L2T L2T.L2TWire.
From PLV Require Gen.GenWalkerCtx Gen.GenL2TCtx.
Import ListNotations.
Definition o0 : opts :=
    {| o_math := MMText; o_keep_comments := false; o_sls := sls_bos; o_kbg := false; o_kbg_minlen := 0 |}.
Definition s0 : str :=
    [92;116;101;120;116;98;102;123;97;125;32;36;120;36;32;
     92;98;101;103;105;110;123;112;109;97;116;114;105;120;125;92;101;110;100;123;112;109;97;116;114;105;120;125;
     92;104;114;101;102;123;117;125]%N.
Eval vm_compute in latex_to_text o0 s0 true.
