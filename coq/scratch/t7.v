From Coq Require Import NArith ZArith List Bool Arith.
From PLV Require Import Base.PyStr Tok.Tokenizer Parse.Nodes Parse.Parser Parse.ParseWire L2T.L2T L2T.L2TWire Proofs.L2TFilters Proofs.L2TFiltersCover Proofs.Covered2.
From PLV Require Gen.GenWalkerCtx Gen.GenL2TCtx.
Import ListNotations.
Open Scope N_scope.
Definition s0 : str := [92;105;116;101;109;91;120;37;99;10;93;32;92;115;117;98;115;101;99;116;105;111;110;123;97;37;99;10;125;92;116;101;120;111;114;112;100;102;115;116;114;105;110;103;123;97;125;123;98;37;99;10;125;92;98;101;103;105;110;123;112;109;97;116;114;105;120;125;97;37;99;10;38;98;92;101;110;100;123;112;109;97;116;114;105;120;125].
Definition tr := match parse_top s0 false Gen.GenWalkerCtx.default_ctx (walker_state Gen.GenWalkerCtx.default_ctx) with Ok (ONode (Some n)) _ => n | _ => NList None None [] end.
Eval vm_compute in tr.
Definition okc : opts := {| o_math := MMText; o_keep_comments := true; o_sls := sls_bos; o_kbg := false; o_kbg_minlen := 0 |}.
Eval vm_compute in fst (node_text s0 Gen.GenL2TCtx.default_l2tctx Gen.GenWalkerCtx.default_ctx okc sls_bos d0 tr).
Eval vm_compute in option_map fst (latex_to_text okc s0 false).
