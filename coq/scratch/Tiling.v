From Coq Require Import NArith ZArith List Bool Arith Lia.
From PLV Require Import Base.PyStr Base.Wire Parse.Nodes Tree.Split Proofs.SplitProofs.
Import ListNotations.

(** * Spans of the returned lists for a tiled input (C01 adjacency) *)

(** the nodes of [l] tile [a, b): each node starts where the previous one ended
    ([None] entries are transparent); chars nodes are as long as their text *)
Fixpoint tiled (a b : nat) (l : items) : Prop :=
  match l with
  | [] => a = b
  | None :: r => tiled a b r
  | Some n :: r =>
      node_pos n = Some a /\
      (match n with NChars p e _ c => e = p + length c | _ => True end) /\
      exists c, node_end n = Some c /\ a <= c /\ tiled c b r
  end.

Definition has_node (l : items) : bool := existsb (fun o => negb (is_none o)) l.

Lemma tiled_le a b l : tiled a b l -> a <= b.
Proof.
  revert a. induction l as [|[n|] l IH]; intros a H; cbn [tiled] in H; [lia| |auto].
  destruct H as (_ & _ & c & _ & L & T). apply IH in T. lia.
Qed.

Lemma tiled_app a b c l1 l2 : tiled a b l1 -> tiled b c l2 -> tiled a c (l1 ++ l2).
Proof.
  revert a. induction l1 as [|[n|] l1 IH]; intros a H1 H2; cbn [tiled app] in *.
  - subst. exact H2.
  - destruct H1 as (P & W & d & E & L & T). split; [exact P|]. split; [exact W|]. exists d. auto.
  - auto.
Qed.

Lemma tiled_first_pos a b l : tiled a b l -> has_node l = true -> first_pos l = Some a.
Proof.
  revert a. induction l as [|[n|] l IH]; intros a H N; cbn [tiled has_node existsb first_pos is_none negb orb] in *.
  - discriminate.
  - destruct H as (P & _). exact P.
  - apply IH; assumption.
Qed.

Lemma tiled_no_node a b l : tiled a b l -> has_node l = false -> a = b.
Proof.
  revert a. induction l as [|[n|] l IH]; intros a H N; cbn [tiled has_node existsb is_none negb orb] in *;
    [exact H | discriminate | auto].
Qed.

(** a returned list [NList ps pe items]: [items] tile [a, b), [pe = b], and
    [ps = a] unless the list consists of [None] entries only *)
Definition part_tiled (part : node) : Prop :=
  match part with
  | NList ps pe its =>
      exists a b, pe = Some b /\ tiled a b its /\ (has_node its = true \/ its = [] -> ps = Some a)
  | _ => False
  end.

Lemma flush_tiled a b nodes : tiled a b nodes -> part_tiled (flush nodes (Some b)).
Proof.
  intros T. unfold flush, mk_nodelist. exists a, b. split; [destruct nodes; reflexivity|]. split; [exact T|].
  intros [N|E].
  - destruct nodes; [discriminate|]. apply tiled_first_pos with (b := b); assumption.
  - subst nodes. cbn [tiled] in T. subst. reflexivity.
Qed.

Section Tiling.
  Variable m : matcher.
  Variable ms : option nat.
  Variable keep skipnone : bool.
  Variable lm : nmode.
  Hypothesis m_ok : matcher_ok m.

  Lemma piece_tiled p chars a b : a <= b -> b <= length chars ->
    tiled (p + a) (p + b) (if nonempty (slice chars a b) then [mk_piece lm p chars a b] else []).
  Proof.
    intros Hab Hb. destruct (slice chars a b) eqn:S0; cbn [nonempty].
    - cbn [tiled]. assert (length (slice chars a b) = 0) by (rewrite S0; reflexivity).
      rewrite slice_length in H by exact Hb. lia.
    - unfold mk_piece. cbn [tiled node_pos node_end]. split; [reflexivity|].
      split; [rewrite slice_length by exact Hb; lia|]. exists (p + b). repeat split; lia.
  Qed.

  Lemma chars_loop_tiled p md chars : forall fuel prev parts pend parts' pend' a,
    chars_loop m ms keep lm fuel (NChars p (p + length chars) md chars) p chars prev parts pend = Ok (parts', pend') ->
    prev <= length chars ->
    ((prev = 0 /\ tiled a p pend) \/ (0 < prev /\ pend = [] /\ a = p + prev)) ->
    Forall part_tiled parts ->
    Forall part_tiled parts' /\ exists a', tiled a' (p + length chars) pend'.
  Proof.
    induction fuel as [|f IH]; intros prev parts pend parts' pend' a H PL INV A; [discriminate|].
    cbn [chars_loop] in H.
    destruct (next_split m ms (length parts) chars prev) as [[i j]|] eqn:NS.
    - apply next_split_some in NS. pose proof (m_ok _ _ _ _ NS) as JL.
      destruct (Nat.leb prev i && Nat.ltb i j) eqn:G; cbn [negb] in H; [|discriminate].
      apply andb_true_iff in G. destruct G as [G1 G2]. apply Nat.leb_le in G1. apply Nat.ltb_lt in G2.
      pose proof (piece_tiled p chars prev i G1 ltac:(lia)) as PT.
      destruct (Nat.eqb prev 0) eqn:P0.
      + apply Nat.eqb_eq in P0. destruct INV as [[_ T]|[C _]]; [|lia]. subst prev.
        assert (T1 : tiled a (p + i) (if nonempty (slice chars 0 i) then pend ++ [mk_piece lm p chars 0 i] else pend)).
        { destruct (nonempty (slice chars 0 i)).
          - eapply tiled_app; [exact T|]. rewrite Nat.add_0_r in PT. exact PT.
          - cbn [tiled] in PT. replace (p + i) with p by lia. exact T. }
        eapply (IH j _ [] _ _ (p + j)) in H; [exact H | lia | right; repeat split; lia |].
        destruct (_ || keep); [|exact A]. apply Forall_app. split; [exact A|]. constructor; [|constructor].
        apply flush_tiled with (a := a). exact T1.
      + apply Nat.eqb_neq in P0. destruct INV as [[C _]|(_ & E & _)]; [congruence|]. subst pend.
        eapply (IH j _ [] _ _ (p + j)) in H; [exact H | lia | right; repeat split; lia |].
        destruct (_ || keep); [|exact A]. apply Forall_app. split; [exact A|]. constructor; [|constructor].
        apply flush_tiled with (a := p + prev). exact PT.
    - destruct (Nat.eqb prev 0) eqn:P0.
      + apply Nat.eqb_eq in P0. destruct INV as [[_ T]|[C _]]; [|lia]. inversion H; subst. split; [exact A|].
        exists a. eapply tiled_app; [exact T|]. cbn [tiled node_pos node_end]. repeat split; try reflexivity.
        exists (p + length chars). repeat split; lia.
      + apply Nat.eqb_neq in P0. destruct INV as [[C _]|(_ & E & _)]; [congruence|]. subst pend.
        inversion H; subst. split; [exact A|]. exists (p + prev).
        pose proof (piece_tiled p chars prev (length chars) PL ltac:(lia)) as PT.
        destruct (nonempty (slice chars prev (length chars))); exact PT.
  Qed.

  Lemma split_loop_tiled : forall l parts pend res a c b,
    split_loop m ms keep skipnone lm (Some b) l parts pend = Ok res ->
    tiled a c pend -> tiled c b l -> Forall part_tiled parts -> Forall part_tiled res.
  Proof.
    induction l as [|o l IH]; intros parts pend res a c b H TP TL A.
    - cbn [split_loop] in H. inversion H; subst. cbn [tiled] in TL. subst c.
      destruct (_ || keep); [|exact A]. apply Forall_app. split; [exact A|]. constructor; [|constructor].
      apply flush_tiled with (a := a). exact TP.
    - destruct o as [nd|].
      + cbn [tiled] in TL. destruct TL as (P & W & d & E & L & T).
        assert (STEP : tiled a d (pend ++ [Some nd])).
        { eapply tiled_app; [exact TP|]. cbn [tiled]. split; [exact P|]. split; [exact W|]. exists d. auto. }
        destruct nd; cbn [split_loop] in H; try (eapply IH; [exact H|exact STEP|exact T|exact A]; fail); [|discriminate].
        cbn [node_pos node_end] in P, E. inversion P; inversion E; subst. clear P E.
        destruct (chars_loop m ms keep lm (S (length chars)) (NChars c (c + length chars) m0 chars) c chars 0 parts pend)
          as [[parts1 pend1]|] eqn:CL; [|discriminate].
        eapply chars_loop_tiled in CL; [|lia|left; split; [reflexivity|exact TP]|exact A].
        destruct CL as [A1 [a' T1]]. eapply IH; [exact H|exact T1|exact T|exact A1].
      + cbn [split_loop] in H. cbn [tiled] in TL. eapply IH; [exact H| |exact TL|exact A].
        destruct skipnone; [exact TP|]. eapply tiled_app; [exact TP|]. cbn [tiled]. reflexivity.
  Qed.
End Tiling.

(** C18_list_spans: for an input whose nodes tile [a, b) with [pos_end = b],
    every returned list's nodes tile its own [pos, pos_end) *)
Theorem split_list_spans m ms keep skipnone lm a b l parts :
  matcher_ok m -> tiled a b l ->
  split_at_chars m ms keep skipnone lm (Some b) l = Ok parts ->
  Forall part_tiled parts.
Proof.
  intros MO T H. eapply (split_loop_tiled m ms keep skipnone lm MO l [] [] parts a a b); [exact H| |exact T|constructor].
  cbn [tiled]. reflexivity.
Qed.
