From Coq Require Import NArith ZArith List Bool Arith.
From PLV Require Import Base.PyStr Tok.Tokenizer Parse.Nodes Parse.Parser L2T.L2T L2T.L2TWire Proofs.L2TFiltersCover Proofs.Covered2.
Import ListNotations.
Open Scope N_scope.
Definition ok : opts := {| o_math := MMVerbatim; o_keep_comments := false; o_sls := sls_bos; o_kbg := false; o_kbg_minlen := 0 |}.
Definition run (s : str) := match latex_to_text ok s false with Some (r, _) => Some (r, infixb [36;120;36] r) | None => None end.

Eval vm_compute in run [92;39;123;36;120;36;125]. (* acc "\\'{$x$}" *)
Eval vm_compute in run [92;109;97;116;104;98;102;123;36;120;36;125]. (* mbf '\\mathbf{$x$}' *)
Eval vm_compute in run [92;115;101;99;116;105;111;110;123;36;120;36;125]. (* sec '\\section{$x$}' *)
Eval vm_compute in run [92;115;117;98;115;101;99;116;105;111;110;123;36;120;36;125]. (* sub '\\subsection{$x$}' *)
Eval vm_compute in run [92;116;105;116;108;101;123;36;120;36;125;98]. (* tit '\\title{$x$}b' *)
Eval vm_compute in run [92;102;111;111;116;110;111;116;101;91;36;120;36;93;123;121;125]. (* ftn '\\footnote[$x$]{y}' *)
Eval vm_compute in run [92;105;116;101;109;91;36;120;36;93;32;121]. (* itm '\\item[$x$] y' *)
Eval vm_compute in run [92;98;101;103;105;110;123;112;109;97;116;114;105;120;125;36;120;36;38;98;92;101;110;100;123;112;109;97;116;114;105;120;125]. (* mat '\\begin{pmatrix}$x$&b\\end{pmatrix}' *)
Eval vm_compute in run [92;98;101;103;105;110;123;112;109;97;116;114;105;120;125;92;91;120;92;93;38;98;92;101;110;100;123;112;109;97;116;114;105;120;125]. (* mat2 '\\begin{pmatrix}\\[x\\]&b\\end{pmatrix}' *)
