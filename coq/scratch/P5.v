From Coq Require Import NArith List Bool Arith Lia FinFun.
From PLV Require Import Base.PyStr Ctx.CtxSpec Ctx.CtxHeap Proofs.CtxFacts Proofs.CtxRefine Proofs.CtxInv.
Import ListNotations.

Definition leading_auto (names : list cat) : bool :=
  match names with CAuto _ :: _ => true | _ => false end.

(** what [extended_with] returns, abstractly *)
Definition ext_meaning (s : sdb) (c : option cat) (ms es ss : list spec)
           (um ue us : option (option spec)) (sn : sdb) : Prop :=
  match c with
  | Some c' => sn = s_extend_new s c' ms es ss um ue us
  | None => if leading_auto (map sc_name (s_cats s))
            then sn = s_extend_merge s ms es ss um ue us
            else exists a, ~ In (CAuto a) (map sc_name (s_cats s)) /\
                           sn = s_extend_new s (CAuto a) ms es ss um ue us
  end.

Lemma do_extend_ok hp d s c ms es_ ss um ue us hp' d' nd r :
  Rep hp d s ->
  do_extend hp d c ms es_ ss um ue us = (hp', d', nd, r) ->
  (exists os, hp' = hp ++ os) /\ mlocs d' = mlocs d /\ frozen d' = frozen d /\ Rep hp' d' s /\
  match nd with
  | Some n => r = ROk /\ frozen d = true /\ frozen n = true /\ NoDup (mlocs n) /\
              (forall l, In l (mlocs n) -> length hp <= l \/ In l (mlocs d)) /\
              exists sn, Rep hp' n sn /\ ext_meaning s c ms es_ ss um ue us sn
  | None => hp' = hp /\ d' = d /\
            ((r = RRaise ValueError /\ exists c', c = Some c' /\ In c' (map sc_name (s_cats s))) \/
             (r = RRaise RuntimeError /\ frozen d = false))
  end.
Proof.
  intros R. pose proof R as R0.
  destruct (Rep_reads _ _ _ R) as (ddl & es & zm & ze & zs & H1 & Hnd & H3 & H4 & Hm & He & Hs & Hzm & Hze & Hzs & ->).
  clear R. unfold do_extend. rewrite H1, H3, Hm, He, Hs. cbn [s_cats]. rewrite map_map.
  change (map (fun x => sc_name (scat_of x)) es) with (map ce_cat es).
  destruct (match c with Some c' => mem_cat c' (map ce_cat es) | None => false end) eqn:Mc.
  { intros E; injection E as <- <- <- <-. split; [exists []; rewrite app_nil_r; reflexivity|].
    repeat split; auto. left. split; [reflexivity|]. destruct c as [c'|]; [|discriminate].
    exists c'. split; [reflexivity | apply mem_cat_In; exact Mc]. }
  destruct (frozen d) eqn:Fz; cbn [negb].
  2:{ intros E; injection E as <- <- <- <-. split; [exists []; rewrite app_nil_r; reflexivity|].
      repeat split; auto. }
  cbn [init_db].
  set (X := [OList []; OD []; ODict []; OChain [length hp + 2]; ODict []; OChain [length hp + 4];
             ODict []; OChain [length hp + 6]]).
  assert (NewBranch : forall c' d1 cnt',
     ~ In c' (map ce_cat es) -> mlocs d1 = mlocs d -> frozen d1 = true -> Rep hp d1
        (mksdb (map scat_of es) (unk_m d) (unk_e d) (unk_s d) true) ->
     (if mem_cat c' (map ce_cat es) then (hp, d1, @None db, RStuck) else
       let b := length (hp ++ X) in
       let hp1 := (hp ++ X) ++ [ODict (dict_of_specs ms); ODict (dict_of_specs es_); ODict (dict_of_specs ss);
                                OCatD b (b + 1) (b + 2)] in
       let b1 := length hp1 in
       (hp1 ++ [OD (d_set ddl c' (b + 3)); OList (c' :: map ce_cat es);
                OChain (b :: map ce_lm es ++ [zm]); OChain ((b + 1) :: map ce_le es ++ [ze]);
                OChain ((b + 2) :: map ce_ls es ++ [zs])], d1,
        Some (mkdb (b1 + 1) b1 (b1 + 2) (b1 + 3) (b1 + 4) (ovr um (unk_m d)) (ovr ue (unk_e d))
                   (ovr us (unk_s d)) true cnt'), ROk)) = (hp', d', nd, r) ->
     (exists os, hp' = hp ++ os) /\ mlocs d' = mlocs d /\ frozen d' = true /\
     Rep hp' d' (mksdb (map scat_of es) (unk_m d) (unk_e d) (unk_s d) true) /\
     match nd with
     | Some n => r = ROk /\ true = true /\ frozen n = true /\ NoDup (mlocs n) /\
                 (forall l, In l (mlocs n) -> length hp <= l \/ In l (mlocs d)) /\
                 Rep hp' n (s_extend_new (mksdb (map scat_of es) (unk_m d) (unk_e d) (unk_s d) true)
                                         c' ms es_ ss um ue us)
     | None => False
     end).
  { intros c' d1 cnt' Hc Em Ef R1. apply mem_cat_false in Hc. rewrite Hc. apply mem_cat_false in Hc.
    cbv zeta. intros E; injection E as <- <- <- <-.
    split; [eexists; rewrite <- !app_assoc; reflexivity|]. split; [exact Em|]. split; [exact Ef|].
    split; [apply Rep_app, Rep_app, Rep_app; exact R1|].
    split; [reflexivity|]. split; [reflexivity|]. split; [reflexivity|].
    assert (LX : length (hp ++ X) = length hp + 8) by (rewrite app_length; reflexivity).
    split; [|split].
    - unfold mlocs; cbn [cl cm_m cm_e cm_s dd]. repeat (apply NoDup_cons; [cbn [In]; lia|]). apply NoDup_nil.
    - unfold mlocs at 1; cbn [cl cm_m cm_e cm_s dd In]. intros l Hl. left.
      rewrite !app_length in Hl. cbn [length] in Hl. lia.
    - apply (extend_new_rep hp X ddl es zm ze zs c'); assumption. }
  destruct c as [c'|].
  - (* explicit category *)
    intros E.
    assert (P1 : ~ In c' (map ce_cat es)) by (apply mem_cat_false; exact Mc).
    destruct (NewBranch c' d (counter d) P1 eq_refl Fz R0 E) as (K1 & K2 & K3 & K4 & K5).
    destruct nd as [n|]; [|contradiction]. destruct K5 as (-> & _ & K6 & K7 & K8 & K9).
    repeat split; auto. eexists. split; [exact K9 | reflexivity].
  - destruct es as [|e0 es0].
    + (* no category at all: new auto-generated one *)
      cbn [map]. intros E.
      assert (P1 : ~ In (CAuto (fresh_auto [] (counter d))) (map ce_cat [])) by (intros []).
      destruct (NewBranch (CAuto (fresh_auto [] (counter d))) (set_counter (fresh_auto [] (counter d)) d)
                          (S (fresh_auto [] (counter d))) P1 eq_refl Fz (Rep_counter _ _ _ _ R0) E)
        as (K1 & K2 & K3 & K4 & K5).
      destruct nd as [n|]; [|contradiction]. destruct K5 as (-> & _ & K6 & K7 & K8 & K9).
      repeat split; auto. eexists. split; [exact K9|]. cbn [ext_meaning s_cats map leading_auto].
      eexists. split; [|reflexivity]. intros [].
    + cbn [map]. destruct (ce_cat e0) as [u|a] eqn:Ec.
      * (* leading user category: new auto-generated one *)
        intros E. rewrite <- Ec in *.
        set (cats := ce_cat e0 :: map ce_cat es0) in *.
        destruct (NewBranch (CAuto (fresh_auto cats (counter d))) (set_counter (fresh_auto cats (counter d)) d)
                            (S (fresh_auto cats (counter d))) (fresh_auto_fresh _ _) eq_refl Fz
                            (Rep_counter _ _ _ _ R0) E) as (K1 & K2 & K3 & K4 & K5).
        destruct nd as [n|]; [|contradiction]. destruct K5 as (-> & _ & K6 & K7 & K8 & K9).
        repeat split; auto. eexists. split; [exact K9|]. cbn [ext_meaning s_cats map leading_auto].
        change (sc_name (scat_of e0)) with (ce_cat e0). rewrite Ec. eexists. split; [|reflexivity].
        rewrite map_map. change (map (fun x => sc_name (scat_of x)) es0) with (map ce_cat es0).
        rewrite <- Ec. apply fresh_auto_fresh.
      * (* leading auto-generated category: merge *)
        pose proof H4 as H4'. inversion H4' as [|? ? He0 Hes]; subst.
        destruct He0 as (G1 & G2 & G3). rewrite Ec in G1. rewrite G1, G2.
        pose proof (G3 KM) as GM. pose proof (G3 KE) as GE. pose proof (G3 KS) as GS.
        cbn [ce_l ce_d] in GM, GE, GS. cbn iota. rewrite GM, GE, GS. cbn [tl map app].
        intros E; injection E as <- <- <- <-.
        split; [eexists; rewrite <- !app_assoc; reflexivity|]. split; [reflexivity|]. split; [exact Fz|].
        split; [apply Rep_app, Rep_app, Rep_app; exact R0|].
        split; [reflexivity|]. split; [reflexivity|]. split; [reflexivity|].
        set (N4 := [ODict (dict_of_specs ms); ODict (dict_of_specs es_); ODict (dict_of_specs ss); OCatD _ _ _]).
        set (hp1 := (hp ++ X) ++ N4).
        assert (L1 : length hp1 = length hp + 12) by (subst hp1; unfold X, N4; rewrite !app_length; cbn [length]; lia).
        assert (Ehp1 : hp1 = hp ++ (X ++ N4)) by (subst hp1; rewrite <- app_assoc; reflexivity).
        split; [|split].
        -- unfold mlocs; cbn [cl cm_m cm_e cm_s dd]. apply NoDup_cons.
           ++ cbn [In]. pose proof (Rep_mlocs_bound _ _ _ (cl d) R0) as Bc.
              assert (cl d < length hp) by (apply Bc; cbn [mlocs In]; auto). lia.
           ++ repeat (apply NoDup_cons; [cbn [In]; lia|]). apply NoDup_nil.
        -- unfold mlocs at 1; cbn [cl cm_m cm_e cm_s dd In]. intros l Hl.
           destruct Hl as [<-|Hl]; [right; cbn [mlocs In]; auto | left; lia].
        -- eexists. split.
           ++ rewrite <- Ec. clearbody hp1. subst hp1.
              apply (extend_merge_rep hp (X ++ N4) ddl e0 es0 zm ze zs (cl d)); auto.
           ++ cbn [ext_meaning s_cats map leading_auto].
              change (sc_name (scat_of e0)) with (ce_cat e0). rewrite Ec.
              unfold s_extend_merge. cbn [s_cats s_unk_m s_unk_e s_unk_s scat_of sc_name sc_m sc_e sc_s].
              rewrite ?Ec. reflexivity.
Qed.
