  Ltac head_scrut r :=
    lazymatch r with
    | match ?x with _ => _ end => head_scrut x
    | fst ?x => head_scrut x
    | snd ?x => head_scrut x
    | _ => r
    end.

  Ltac red1 :=
    cbn [gslot gbody post listy pre pe_nodes mkerr wf_slot wf_body wf_args wf cs_acc push_pending push_node
         cs_empty mk_nodelist mk_chars forallb andb fst snd parse_content_args] in *.

  Ltac destr h :=
    let E := fresh "E" in
    destruct h eqn:E;
    repeat match goal with
           | H : context [h] |- _ => tryif constr_eq H E then fail else rewrite E in H
           end;
    red1.

  Ltac solve_wf :=
    red1;
    repeat match goal with
           | |- context [match ?x with _ => _ end] => destr x
           end;
    try reflexivity;
    auto 6 using flush_ok, push_node_ok, wfs_snoc, wfs_app_intro, wf_body_slot;
    try (eapply wfs_rev_head; [|eassumption]; auto 6 using flush_ok, push_node_ok, wfs_snoc, wfs_app_intro);
    try (cbn [app forallb];
         repeat match goal with H : _ = true |- _ => rewrite H end; reflexivity);
    try match goal with
        | E : ?x = ?o :: ?l |- wf_slot wf ?o && wfs ?l = true =>
            change (wfs (o :: l) = true); rewrite <- E;
            auto 6 using flush_ok, push_node_ok, wfs_snoc, wfs_app_intro
        end.

  Ltac step IH :=
    first [ reflexivity | congruence |
    lazymatch goal with
    | |- match ?x with _ => _ end = true => let h := head_scrut x in destr h
    | |- ?G ?r = true =>
      lazymatch r with
      | match ?x with _ => _ end =>
          let h := head_scrut x in
          lazymatch h with
          | parse_content _ (run _ _ _ _ ?X) =>
              let H := fresh "HR" in
              assert (H : post X h = true)
                by (cbn [post listy]; first [apply parse_content_gslot | apply parse_content_gbody];
                    apply (IH X); solve_wf);
              revert H; destruct h as [[?n|?st ?stopped ?nlmet ?eos|?a] ?p|?e ?p|?p|?k|]; intros H; red1
          | parse_content_args _ (run _ _ _ _ ?X) =>
              let H := fresh "HR" in
              assert (H : gslot h = true)
                by (apply parse_content_args_gslot; apply (IH X); solve_wf);
              revert H; destruct h as [[?n|?st ?stopped ?nlmet ?eos|?a] ?p|?e ?p|?p|?k|]; intros H; red1
          | run _ _ _ _ ?X =>
              let H := fresh "HR" in
              assert (H : post X h = true) by (apply (IH X); solve_wf);
              revert H; destruct h as [[?n|?st ?stopped ?nlmet ?eos|?a] ?p|?e ?p|?p|?k|]; intros H; red1
          | _ => destr h
          end
      | run _ _ _ _ ?X => apply (IH X); solve [solve_wf]
      | _ => solve [solve_wf]
      end
    end ].

  Theorem run_wf : forall fuel t, pre t = true -> post t (run s tol cx fuel t) = true.
  Proof.
    induction fuel as [|fuel' IH]; intros t Hpre; [destruct t; reflexivity|].
    destruct t; cbn [run]; cbn [post listy]; cbn [pre] in Hpre.
    - (* TCollect *) repeat step IH.
    - (* TGeneral *) repeat step IH.
    - (* TGroup *) repeat step IH.
    - (* TMath *) repeat step IH.
    - (* TEnvBody *) repeat step IH.
    - (* TExpr *) repeat step IH.
    - (* TChars *) repeat step IH.
    - (* TVerbDelim *) repeat step IH.
    - (* TStdArg *)
      apply parse_content_gslot.
      destruct k; match goal with |- _ (run _ _ _ _ ?X) = true => apply (IH X); reflexivity end.
    - repeat step IH.
    - repeat step IH.
    - repeat step IH.
  Qed.
