From Coq Require Import NArith ZArith List Bool Arith.
From PLV Require Import Base.PyStr Tok.Tokenizer Parse.Nodes Parse.Parser L2T.L2T L2T.Render L2T.L2TWire.
From PLV Require Import Doc.DocGrammar Doc.DocGrammar2 Proofs.RenderDefaults Proofs.Compose2Render.
Import ListNotations.
Open Scope N_scope.
(* \frac{1}{2}\sqrt[3]{x}\begin{itemize}\item[a] b\item c\end{itemize}\begin{center}x~y\end{center}$$z$$ *)
Definition d1 : doc2 := {| d_items2 :=
  [Mac2 [] [102;114;97;99] [] [Grp2 [] [Text2 [] [49]] []; Grp2 [] [Text2 [] [50]] []];
   Mac2 [] [115;113;114;116] [] [Brk2 [] 91 93 [Text2 [] [51]] []; Grp2 [] [Text2 [] [120]] []];
   Env2 [] [] [105;116;101;109;105;122;101] [Abs2]
     [Mac2 [] [105;116;101;109] [] [Brk2 [] 91 93 [Text2 [] [97]] []]; Text2 [32] [98];
      Mac2 [] [105;116;101;109] [32] [Abs2]; Text2 [] [99]] [] [];
   Env2 [] [] [99;101;110;116;101;114] [] [Text2 [] [120]; Spc2 [] [126] []; Text2 [] [121]] [] [];
   Math2 [] MDollars [Text2 [] [122]] []]; d_trail2 := [] |}.
Eval vm_compute in (ok_doc2 cx0 d1, unparse2 d1).
Eval vm_compute in doc_tree_cores2 false d1.
Eval vm_compute in doc_tree_cores2 true d1.
Definition o1 : opts := {| o_math := MMText; o_keep_comments := false; o_sls := sls_bos; o_kbg := false; o_kbg_minlen := 0 |}.
Eval vm_compute in option_map fst (latex_to_text o1 (unparse2 d1) false).
Eval vm_compute in option_map (render (nfc_accent lt0) o1 (o_sls o1)) (doc_tree_cores2 false d1).
Definition okd (l : list item2) := ok_doc2 cx0 {| d_items2 := l; d_trail2 := [] |}.
Eval vm_compute in map (fun i => okd [i]) (d_items2 d1).
Eval vm_compute in okd [Env2 [] [] [105;116;101;109;105;122;101] [] [Mac2 [] [105;116;101;109] [] [Brk2 [] 91 93 [Text2 [] [97]] []]; Text2 [32] [98]] [] []].
Eval vm_compute in okd [Env2 [] [] [105;116;101;109;105;122;101] [] [Mac2 [] [105;116;101;109] [32] [Abs2]; Text2 [] [99]] [] []].
Eval vm_compute in okd [Mac2 [] [105;116;101;109] [32] [Abs2]; Text2 [] [99]].
Eval vm_compute in okd [Mac2 [] [105;116;101;109] [] [Abs2]; Text2 [32] [99]].
Eval vm_compute in okd [Env2 [] [] [105;116;101;109;105;122;101] [] [Text2 [] [99]] [] []].
Eval vm_compute in option_map sp_args (get_env_spec cx0 [105;116;101;109;105;122;101]).
Eval vm_compute in option_map sp_args (get_macro_spec cx0 [105;116;101;109]).
