From Coq Require Import NArith List Arith Lia.
Search skipn.
Search firstn.
