From Coq Require Import NArith ZArith List Bool Arith Lia.
From PLV Require Import Base.PyStr Base.Wire Parse.Nodes Tree.Split Proofs.SplitProofs.
Import ListNotations.
Goal forall pred skipnone skipcomments skipws o b, filter_one pred skipnone skipcomments skipws o = Ok b -> b = keepb pred skipnone skipcomments skipws o.
Proof.
    intros pred skipnone skipcomments skipws o b.
    unfold filter_one, keepb, has_isnodetype.
    destruct o as [n|].
    - cbn [is_none]. rewrite andb_false_r. cbn [negb andb].
      destruct n; destruct skipcomments, skipws; cbn [sbind is_comment is_ws_chars andb negb];
        try rewrite strip_empty_forallb;
        try (intros H; inversion H; reflexivity); try discriminate;
        try (destruct (forallb py_isspace chars); cbn [negb andb]; intros H; inversion H; reflexivity).
      all: idtac "remaining". Show.
