import sys,subprocess,re
src=sys.argv[1]; line=int(sys.argv[2])   # line number of the *next* bullet reported in the error
lines=open(src).read().split('\n')
idx=line-2
print('FAILING:',lines[idx])
lines[idx]=lines[idx]+' Show.'
open('scratch/dbg.v','w').write('\n'.join(lines[:idx+1])+'\n')
