From Coq Require Import NArith ZArith List Bool Arith.
From PLV Require Import Base.PyStr Tok.Tokenizer Parse.Nodes Parse.Parser L2T.L2T L2T.Render L2T.L2TWire.
From PLV Require Import Doc.DocGrammar Doc.DocGrammar2 Proofs.RenderDefaults Proofs.Compose2Render.
Import ListNotations.
Open Scope N_scope.
Eval vm_compute in macro_template lt0 [102;114;97;99].
Eval vm_compute in macro_template lt0 [115;113;114;116].
Eval vm_compute in macro_template lt0 [102;111;111;116;110;111;116;101].
Definition d1 : doc2 := {| d_items2 :=
  [Mac2 [] [102;114;97;99] [] [Grp2 [] [Text2 [] [49]] []; Grp2 [] [Text2 [] [50]] []];
   Mac2 [] [115;113;114;116] [] [Brk2 [] 91 93 [Text2 [] [51]] []; Grp2 [] [Text2 [] [120]] []];
   Env2 [] [] [105;116;101;109;105;122;101] [Abs2]
     [Mac2 [] [105;116;101;109] [] [Brk2 [] 91 93 [Text2 [] [97]] []]; Text2 [32] [98];
      Mac2 [] [105;116;101;109] [32] [Abs2]; Text2 [] [99]] [] [];
   Env2 [] [] [99;101;110;116;101;114] [] [Text2 [] [120]; Spc2 [] [126] []; Text2 [] [121]] [] [];
   Math2 [] MDollars [Text2 [] [122]] []]; d_trail2 := [] |}.
Definition o2 : opts := {| o_math := MMVerbatim; o_keep_comments := true; o_sls := sls_bos; o_kbg := false; o_kbg_minlen := 0 |}.
Eval vm_compute in option_map fst (latex_to_text o2 (unparse2 d1) false).
(* without \item[..]: also keep_braced_groups *)
Definition d3 : doc2 := {| d_items2 :=
  [Mac2 [] [102;114;97;99] [] [Text2 [] [49]; Grp2 [] [Grp2 [] [Text2 [] [50]] []] []];
   Mac2 [] [115;113;114;116] [] [Abs2; Grp2 [] [Text2 [] [120]] []]]; d_trail2 := [] |}.
Definition o3 : opts := {| o_math := MMText; o_keep_comments := false; o_sls := sls_bos; o_kbg := true; o_kbg_minlen := 0 |}.
Eval vm_compute in (ok_doc2 cx0 d3, unparse2 d3, doc_tree_cores2 true d3).
Eval vm_compute in option_map fst (latex_to_text o3 (unparse2 d3) false).
