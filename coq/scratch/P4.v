From Coq Require Import NArith List Bool Arith Lia FinFun.
From PLV Require Import Base.PyStr Ctx.CtxSpec Ctx.CtxHeap Proofs.CtxFacts Proofs.CtxRefine Proofs.CtxInv.
Import ListNotations.

(** * extended_with *)

Lemma Rep_app hp os d s : Rep hp d s -> Rep (hp ++ os) d s.
Proof.
  intros R. apply (Rep_frame hp); [apply imm_ext_app | | exact R].
  intros l Hl. apply hget_app_old. eapply Rep_mlocs_bound; eauto.
Qed.

Lemma Rep_reads hp d s : Rep hp d s ->
  exists ddl es zm ze zs,
    get_list hp (cl d) = Some (map ce_cat es) /\ NoDup (map ce_cat es) /\
    get_d hp (dd d) = Some ddl /\ Forall (centry_ok hp ddl) es /\
    get_chain hp (cm_m d) = Some (map ce_lm es ++ [zm]) /\
    get_chain hp (cm_e d) = Some (map ce_le es ++ [ze]) /\
    get_chain hp (cm_s d) = Some (map ce_ls es ++ [zs]) /\
    get_dict hp zm = Some [] /\ get_dict hp ze = Some [] /\ get_dict hp zs = Some [] /\
    s = mksdb (map scat_of es) (unk_m d) (unk_e d) (unk_s d) (frozen d).
Proof.
  intros (ddl & es & H1 & Hnd & H3 & H4 & H5 & Hs).
  destruct (H5 KM) as (zm & Hm & Hzm), (H5 KE) as (ze & He & Hze), (H5 KS) as (zs & Hs' & Hzs).
  exists ddl, es, zm, ze, zs. repeat split; auto.
Qed.

(** the new-category branch: the new database object represents the source's
    categories with the new one in front *)
Lemma extend_new_rep hp X ddl es zm ze zs c' nm ne ns um' ue' us' cnt' :
  Forall (centry_ok hp ddl) es -> NoDup (map ce_cat es) -> ~ In c' (map ce_cat es) ->
  get_dict hp zm = Some [] -> get_dict hp ze = Some [] -> get_dict hp zs = Some [] ->
  let hp0 := hp ++ X in let b := length hp0 in
  let hp1 := hp0 ++ [ODict nm; ODict ne; ODict ns; OCatD b (b + 1) (b + 2)] in
  let b1 := length hp1 in
  let hp2 := hp1 ++ [OD (d_set ddl c' (b + 3)); OList (c' :: map ce_cat es);
                     OChain (b :: map ce_lm es ++ [zm]); OChain ((b + 1) :: map ce_le es ++ [ze]);
                     OChain ((b + 2) :: map ce_ls es ++ [zs])] in
  Rep hp2 (mkdb (b1 + 1) b1 (b1 + 2) (b1 + 3) (b1 + 4) um' ue' us' true cnt')
      (mksdb (mkscat c' nm ne ns :: map scat_of es) um' ue' us' true).
Proof.
  intros H4 Hnd Hc Hzm Hze Hzs hp0 b hp1 b1 hp2.
  assert (I : imm_ext hp hp2).
  { subst hp2 hp1 hp0. eapply imm_ext_trans; [|apply imm_ext_app].
    eapply imm_ext_trans; apply imm_ext_app. }
  assert (L1 : b1 = b + 4) by (subst b1 hp1; rewrite app_length; cbn [length]; lia).
  assert (New1 : forall k, k < 4 -> hget hp2 (b + k) =
            nth_error [ODict nm; ODict ne; ODict ns; OCatD b (b + 1) (b + 2)] k).
  { intros k Hk. subst hp2. rewrite hget_app_old by lia. subst hp1 b. apply hget_app_new. }
  set (enew := mkce c' (b + 3) b (b + 1) (b + 2) nm ne ns).
  exists (d_set ddl c' (b + 3)), (enew :: es). cbn [cl dd cm_m cm_e cm_s map]. repeat split.
  - unfold get_list. subst hp2 b1. rewrite hget_app_new. reflexivity.
  - constructor; assumption.
  - unfold get_d. subst hp2 b1. rewrite hget_app_new0. reflexivity.
  - constructor.
    + unfold enew. repeat split; cbn [ce_cat ce_cd ce_lm ce_le ce_ls].
      * apply d_get_set_same.
      * unfold get_catd. rewrite (New1 3) by lia. reflexivity.
      * intros [| |]; cbn [ce_l ce_d ce_lm ce_le ce_ls ce_m ce_e ce_s]; unfold get_dict.
        -- pose proof (New1 0) as N. rewrite Nat.add_0_r in N. rewrite N by lia. reflexivity.
        -- rewrite (New1 1) by lia. reflexivity.
        -- rewrite (New1 2) by lia. reflexivity.
    + rewrite Forall_forall in H4 |- *. intros e Hin. apply (centry_ok_set hp); auto.
      intros Ec. apply Hc. rewrite <- Ec. apply in_map. exact Hin.
  - intros [| |]; cbn [chain_of cm_m cm_e cm_s]; unfold get_chain; subst hp2 b1; rewrite hget_app_new;
      cbn [nth_error].
    + exists zm. split; [reflexivity | eapply imm_get_dict; eauto].
    + exists ze. split; [reflexivity | eapply imm_get_dict; eauto].
    + exists zs. split; [reflexivity | eapply imm_get_dict; eauto].
Qed.

(** the merge branch: the leading (auto-generated) category gets updated
    copies of its dicts, everything else is shared with the source *)
Lemma extend_merge_rep hp X ddl e0 es zm ze zs lcl nm ne ns um' ue' us' cnt' :
  Forall (centry_ok hp ddl) (e0 :: es) -> NoDup (map ce_cat (e0 :: es)) ->
  get_list hp lcl = Some (map ce_cat (e0 :: es)) ->
  get_dict hp zm = Some [] -> get_dict hp ze = Some [] -> get_dict hp zs = Some [] ->
  let hp1 := hp ++ X in
  let b1 := length hp1 in
  let hp2 := hp1 ++ [ODict (dict_update (ce_m e0) nm); ODict (dict_update (ce_e e0) ne);
                     ODict (dict_update (ce_s e0) ns); OCatD b1 (b1 + 1) (b1 + 2);
                     OD (d_set ddl (ce_cat e0) (b1 + 3));
                     OChain (b1 :: map ce_lm es ++ [zm]); OChain ((b1 + 1) :: map ce_le es ++ [ze]);
                     OChain ((b1 + 2) :: map ce_ls es ++ [zs])] in
  Rep hp2 (mkdb lcl (b1 + 4) (b1 + 5) (b1 + 6) (b1 + 7) um' ue' us' true cnt')
      (mksdb (mkscat (ce_cat e0) (dict_update (ce_m e0) nm) (dict_update (ce_e e0) ne)
                     (dict_update (ce_s e0) ns) :: map scat_of es) um' ue' us' true).
Proof.
  intros H4 Hnd Hl Hzm Hze Hzs hp1 b1 hp2.
  assert (I : imm_ext hp hp2).
  { subst hp2 hp1. eapply imm_ext_trans; apply imm_ext_app. }
  assert (New : forall k, hget hp2 (b1 + k) = nth_error
            [ODict (dict_update (ce_m e0) nm); ODict (dict_update (ce_e e0) ne);
             ODict (dict_update (ce_s e0) ns); OCatD b1 (b1 + 1) (b1 + 2);
             OD (d_set ddl (ce_cat e0) (b1 + 3));
             OChain (b1 :: map ce_lm es ++ [zm]); OChain ((b1 + 1) :: map ce_le es ++ [ze]);
             OChain ((b1 + 2) :: map ce_ls es ++ [zs])] k).
  { intros k. subst hp2 b1. apply hget_app_new. }
  inversion H4 as [|? ? He0 Hes]; subst. cbn [map] in Hnd. inversion Hnd as [|? ? Hc0 Hnd']; subst.
  set (enew := mkce (ce_cat e0) (b1 + 3) b1 (b1 + 1) (b1 + 2)
                    (dict_update (ce_m e0) nm) (dict_update (ce_e e0) ne) (dict_update (ce_s e0) ns)).
  exists (d_set ddl (ce_cat e0) (b1 + 3)), (enew :: es). cbn [cl dd cm_m cm_e cm_s map]. repeat split.
  - unfold get_list in *. destruct (hget hp lcl) as [o|] eqn:E; [|discriminate].
    assert (Lb : lcl < length hp) by (eapply hget_bound; eauto).
    subst hp2 hp1. rewrite !hget_app_old by (rewrite ?app_length; lia). rewrite E. exact Hl.
  - constructor; assumption.
  - unfold get_d. rewrite (New 4). reflexivity.
  - constructor.
    + unfold enew. repeat split; cbn [ce_cat ce_cd ce_lm ce_le ce_ls].
      * apply d_get_set_same.
      * unfold get_catd. rewrite (New 3). reflexivity.
      * intros [| |]; cbn [ce_l ce_d ce_lm ce_le ce_ls ce_m ce_e ce_s]; unfold get_dict.
        -- pose proof (New 0) as N. rewrite Nat.add_0_r in N. rewrite N. reflexivity.
        -- rewrite (New 1). reflexivity.
        -- rewrite (New 2). reflexivity.
    + rewrite Forall_forall in Hes |- *. intros e Hin. apply (centry_ok_set hp); auto.
      intros Ec. apply Hc0. rewrite <- Ec. apply in_map. exact Hin.
  - intros [| |]; cbn [chain_of cm_m cm_e cm_s]; unfold get_chain; rewrite New; cbn [nth_error].
    + exists zm. split; [reflexivity | eapply imm_get_dict; eauto].
    + exists ze. split; [reflexivity | eapply imm_get_dict; eauto].
    + exists zs. split; [reflexivity | eapply imm_get_dict; eauto].
Qed.
