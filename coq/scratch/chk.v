From PLV Require Import Proofs.L2TTotalParse.
Check parser_results_wf. Check parse_top_wf. Check run_wf.
Print Assumptions parser_results_wf.
