From PLV Require Import Proofs.L2TFiltersCover.
Check covered. Check kept_comment_covered. Check verbatim_math_covered.
