From Coq Require Import NArith List Bool Arith Lia FinFun.
From PLV Require Import Base.PyStr Ctx.CtxSpec Ctx.CtxHeap Proofs.CtxFacts Proofs.CtxRefine Proofs.CtxInv.
Import ListNotations.

(** * World level *)

(** every database other than [t] keeps its object and its meaning *)
Definition others_kept (t : nat) (w w' : world) : Prop :=
  forall h d s, h <> t -> nth_error (w_dbs w) h = Some d -> Rep (w_heap w) d s ->
                nth_error (w_dbs w') h = Some d /\ Rep (w_heap w') d s.

Lemma others_kept_refl t w : others_kept t w w.
Proof. intros h d s _ H R. auto. Qed.

Lemma others_kept_trans t a b c : others_kept t a b -> others_kept t b c -> others_kept t a c.
Proof. intros H1 H2 h d s Ne H R. destruct (H1 h d s Ne H R) as [H' R']. apply (H2 h d s Ne H' R'). Qed.

Lemma w_add_ok allow w h c ms es ss pl w' r :
  Inv w -> w_add allow w h c ms es ss pl = (w', r) ->
  Inv w' /\ r <> RStuck /\ length (w_dbs w') = length (w_dbs w) /\ others_kept h w w'.
Proof.
  intros HI. unfold w_add. destruct (nth_error (w_dbs w) h) as [d|] eqn:Hd.
  2:{ Show. intros E; injection E as <- <-. repeat split; auto; [discriminate | apply others_kept_refl]. }
  destruct (do_add allow (w_heap w) d c ms es ss pl) as [[hp' d'] r'] eqn:E.
  intros E2; injection E2 as <- <-.
  destruct (inv_rep _ HI _ _ Hd) as [s R]. pose proof (inv_nodup _ HI _ _ Hd) as ND.
  destruct (do_add_ok _ _ _ _ _ _ _ _ _ _ _ _ R ND E) as (Em & Ef & K).
  assert (Core : imm_ext (w_heap w) hp' /\
                 (forall l, l < length (w_heap w) ->
                    (frozen d = false /\ In l (mlocs d)) \/ hget hp' l = hget (w_heap w) l) /\
                 (exists s', Rep hp' d' s') /\ r' <> RStuck).
  { destruct r'; try contradiction.
    - destruct K as (Fz & (c' & _ & _ & R') & I & F). repeat split; auto; [|eauto|discriminate].
      intros l Hl. destruct (in_dec Nat.eq_dec l (mlocs d)) as [Hin|Hn]; [left; auto | right; auto].
    - destruct K as (-> & R' & _). repeat split; auto; [apply imm_ext_refl | eauto | discriminate]. }
  destruct Core as (I & F & R' & NS).
  destruct (Inv_step_target w h d hp' d' HI Hd I F Em) as [HI' Oth]; auto.
  { intros Fz. rewrite Ef. exact Fz. }
  split; [exact HI'|]. split; [exact NS|]. split; [cbn [w_dbs]; apply set_nth_length|].
  intros h2 d2 s2 Ne H2 R2. apply (Oth h2 d2 s2 Ne H2 R2).
Qed.

Lemma filter_adds_ok items : forall w n w' r,
  Inv w -> filter_adds w n items = (w', r) ->
  Inv w' /\ r <> RStuck /\ length (w_dbs w') = length (w_dbs w) /\ others_kept n w w'.
Proof.
  induction items as [|[c [[vm ve] vs]] rest IH]; intros w n w' r HI; cbn [filter_adds].
  - intros E; injection E as <- <-. repeat split; auto; [discriminate | apply others_kept_refl].
  - destruct (w_add true w n (Some c) vm ve vs PAppend) as [w1 r1] eqn:E1.
    destruct (w_add_ok _ _ _ _ _ _ _ _ _ _ HI E1) as (HI1 & NS1 & L1 & O1).
    destruct r1; try (intros E; injection E as <- <-; repeat split; auto; discriminate).
    intros E. destruct (IH _ _ _ _ HI1 E) as (HI2 & NS2 & L2 & O2).
    repeat split; auto; [congruence | eapply others_kept_trans; eauto].
Qed.

Lemma snapshot_ok hp ddl keep excl which es :
  Forall (centry_ok hp ddl) es -> exists items, snapshot hp ddl keep excl which (map ce_cat es) = Some items.
Proof.
  induction 1 as [|e r He Hr [items IH]]; cbn [map snapshot]; [eexists; reflexivity|].
  destruct (cat_selected keep excl (ce_cat e)); [|eexists; exact IH].
  destruct He as (G1 & G2 & G3). rewrite G1, G2, IH.
  pose proof (G3 KM) as GM. pose proof (G3 KE) as GE. pose proof (G3 KS) as GS. cbn [ce_l] in GM, GE, GS.
  unfold values_at. rewrite GM, GE, GS.
  destruct (keeps which KM), (keeps which KE), (keeps which KS); eexists; reflexivity.
Qed.

Lemma nth_firstn_lt {A} n : forall (l : list A) h, h < n -> nth_error (firstn n l) h = nth_error l h.
Proof.
  induction n as [|n IH]; intros [|x l] [|h] H; cbn [firstn nth_error]; try reflexivity; try lia.
  apply IH. lia.
Qed.

Lemma set_nth_app_l {A} (l : list A) : forall i x r, i < length l -> set_nth (l ++ r) i x = set_nth l i x ++ r.
Proof.
  induction l as [|y l IH]; intros [|i] x r H; cbn [length app set_nth] in *; try lia; try reflexivity.
  f_equal. apply IH. lia.
Qed.

Definition op_target (o : op) : option nat :=
  match o with
  | ONew => None
  | OAdd h _ _ _ _ _ | OSetUnk h _ _ | OFreeze h | OFilter h _ _ _ | OExtend h _ _ _ _ _ _ _ => Some h
  end.
Definition is_derive (o : op) : bool :=
  match o with OFilter _ _ _ _ | OExtend _ _ _ _ _ _ _ _ => true | _ => false end.

(** One step: the invariant is kept, the machine is not stuck, existing
    handles stay, and every database that is not the target of a mutation
    keeps its meaning (its object may differ in the name counter only). *)
Lemma step_ok w o w' r :
  Inv w -> db_step w o = (w', r) ->
  Inv w' /\ r <> RStuck /\ length (w_dbs w) <= length (w_dbs w') /\
  (forall h d s, nth_error (w_dbs w) h = Some d -> Rep (w_heap w) d s ->
       op_target o <> Some h \/ is_derive o = true ->
       exists d', nth_error (w_dbs w') h = Some d' /\ Rep (w_heap w') d' s).
Proof.
  intros HI. destruct o as [|h c ms es ss pl|h k v|h|h keep excl which|h c ms es ss um ue us];
    cbn [db_step op_target is_derive].
  - (* new *)
    unfold w_new. pose proof (init_db_facts (w_heap w)) as F.
    destruct (init_db (w_heap w)) as [hp' d0]. destruct F as ((os & ->) & ND & Fresh & R0).
    intros E; injection E as <- <-.
    destruct (Inv_push w (w_heap w ++ os) d0 HI) as [HI' Oth].
    + apply imm_ext_app.
    + intros l Hl. apply hget_app_old. exact Hl.
    + specialize (R0 None None None false 0). destruct d0. cbn in *. eauto.
    + exact ND.
    + intros l Hl. left. apply Fresh. exact Hl.
    + repeat split; auto; [discriminate | cbn [w_dbs]; rewrite app_length; lia |].
      intros h d s Hd R _. exists d. apply Oth; assumption.
  - (* add *)
    intros E. destruct (w_add_ok _ _ _ _ _ _ _ _ _ _ HI E) as (HI' & NS & L & O).
    repeat split; auto; [lia|]. intros h2 d2 s2 H2 R2 [Ne|Ne]; [|discriminate].
    exists d2. apply O; auto. congruence.
  - (* set_unknown *)
    destruct (nth_error (w_dbs w) h) as [d|] eqn:Hd.
    2:{ intros E; injection E as <- <-. repeat split; auto; [discriminate|]. intros; eauto. }
    destruct (frozen d) eqn:Fz.
    { intros E; injection E as <- <-. repeat split; auto; [discriminate|]. intros; eauto. }
    intros E; injection E as <- <-.
    destruct (inv_rep _ HI _ _ Hd) as [s R].
    destruct (Inv_step_target w h d (w_heap w) (set_unk k v d) HI Hd) as [HI' Oth].
    + apply imm_ext_refl.
    + auto.
    + destruct k; reflexivity.
    + intros Fz'. congruence.
    + eexists. apply (Rep_fields _ d s); auto; destruct k; reflexivity.
    + repeat split; auto; [discriminate | cbn [w_dbs]; rewrite set_nth_length; lia |].
      intros h2 d2 s2 H2 R2 [Ne|Ne]; [|discriminate]. exists d2. apply Oth; auto. congruence.
  - (* freeze *)
    destruct (nth_error (w_dbs w) h) as [d|] eqn:Hd.
    2:{ intros E; injection E as <- <-. repeat split; auto; [discriminate|]. intros; eauto. }
    intros E; injection E as <- <-.
    destruct (inv_rep _ HI _ _ Hd) as [s R].
    destruct (Inv_step_target w h d (w_heap w) (set_frozen d) HI Hd) as [HI' Oth].
    + apply imm_ext_refl.
    + auto.
    + reflexivity.
    + reflexivity.
    + eexists. apply (Rep_fields _ d s); auto.
    + repeat split; auto; [discriminate | cbn [w_dbs]; rewrite set_nth_length; lia |].
      intros h2 d2 s2 H2 R2 [Ne|Ne]; [|discriminate]. exists d2. apply Oth; auto. congruence.
  - (* filtered_context *)
    unfold w_filter. destruct (nth_error (w_dbs w) h) as [d|] eqn:Hd.
    2:{ intros E; injection E as <- <-. repeat split; auto; [discriminate|]. intros; eauto. }
    destruct (inv_rep _ HI _ _ Hd) as [s R].
    destruct (Rep_reads _ _ _ R) as (ddl & es & zm & ze & zs & H1 & Hnd & H3 & H4 & _).
    rewrite H1, H3. destruct (snapshot_ok (w_heap w) ddl keep excl which es H4) as [items Hs]. rewrite Hs.
    pose proof (init_db_facts (w_heap w)) as F.
    destruct (init_db (w_heap w)) as [hp1 d0]. destruct F as ((os & ->) & ND & Fresh & R0).
    set (nd := mkdb (cl d0) (dd d0) (cm_m d0) (cm_e d0) (cm_s d0) (unk_m d) (unk_e d) (unk_s d) false 0).
    destruct (Inv_push w (w_heap w ++ os) nd HI) as [HI1 Oth1].
    { apply imm_ext_app. }
    { intros l Hl. apply hget_app_old. exact Hl. }
    { eexists. apply R0. }
    { exact ND. }
    { intros l Hl. left. apply Fresh. exact Hl. }
    set (n := length (w_dbs w)).
    destruct (filter_adds (mkw (w_heap w ++ os) (w_dbs w ++ [nd])) n items) as [w2 r2] eqn:E2.
    destruct (filter_adds_ok _ _ _ _ _ HI1 E2) as (HI2 & NS2 & L2 & O2).
    cbn [w_dbs] in L2. rewrite app_length in L2. cbn [length] in L2.
    assert (Old : forall h2 d2 s2, nth_error (w_dbs w) h2 = Some d2 -> Rep (w_heap w) d2 s2 ->
              nth_error (w_dbs w2) h2 = Some d2 /\ Rep (w_heap w2) d2 s2).
    { intros h2 d2 s2 H2 R2. destruct (Oth1 _ _ _ H2 R2) as [H2' R2'].
      apply O2; auto. apply nth_error_bound in H2. fold n in H2. lia. }
    destruct r2.
    + intros E; injection E as <- <-. repeat split; auto; [discriminate | fold n; lia |].
      intros h2 d2 s2 H2 R2 _. exists d2. apply Old; auto.
    + contradiction.
    + intros E; injection E as <- <-. split; [apply Inv_firstn; exact HI2|].
      split; [discriminate|]. split; [cbn [w_dbs]; rewrite firstn_length; fold n; lia|].
      intros h2 d2 s2 H2 R2 _. exists d2. cbn [w_heap w_dbs]. destruct (Old _ _ _ H2 R2) as [A B].
      split; [|exact B]. rewrite nth_firstn_lt; [exact A|]. apply nth_error_bound in H2. exact H2.
    + intros E; injection E as <- <-. split; [apply Inv_firstn; exact HI2|].
      split; [discriminate|]. split; [cbn [w_dbs]; rewrite firstn_length; fold n; lia|].
      intros h2 d2 s2 H2 R2 _. exists d2. cbn [w_heap w_dbs]. destruct (Old _ _ _ H2 R2) as [A B].
      split; [|exact B]. rewrite nth_firstn_lt; [exact A|]. apply nth_error_bound in H2. exact H2.
    + exfalso. apply NS2. reflexivity.
  - (* extended_with *)
    destruct (nth_error (w_dbs w) h) as [d|] eqn:Hd.
    2:{ intros E; injection E as <- <-. repeat split; auto; [discriminate|]. intros; eauto. }
    destruct (inv_rep _ HI _ _ Hd) as [s R].
    destruct (do_extend (w_heap w) d c ms es ss um ue us) as [[[hp' d'] nd] r'] eqn:E.
    destruct (do_extend_ok _ _ _ _ _ _ _ _ _ _ _ _ _ _ R E) as ((os & ->) & Em & Ef & R' & K).
    assert (Lh : h < length (w_dbs w)) by (eapply nth_error_bound; eauto).
    destruct nd as [n|].
    + destruct K as (-> & Fz & Fn & NDn & Sh & (sn & Rn & _)).
      intros E2; injection E2 as <- <-.
      destruct (Inv_push w (w_heap w ++ os) n HI) as [HI1 Oth1].
      { apply imm_ext_app. }
      { intros l Hl. apply hget_app_old. exact Hl. }
      { eauto. }
      { exact NDn. }
      { intros l Hl. destruct (Sh l Hl) as [A|A]; [left; exact A | right]. split; [exact Fn|]. eauto. }
      destruct (Oth1 _ _ _ Hd R) as [Hd1 R1].
      destruct (Inv_step_target (mkw (w_heap w ++ os) (w_dbs w ++ [n])) h d (w_heap w ++ os) d' HI1 Hd1)
        as [HI2 Oth2]; auto.
      { apply imm_ext_refl. }
      { intros Fz'. congruence. }
      { eauto. }
      cbn [w_dbs w_heap] in *. rewrite set_nth_app_l in HI2, Oth2 by exact Lh.
      repeat split; auto; [discriminate | rewrite app_length, set_nth_length; lia |].
      intros h2 d2 s2 H2 R2 _. destruct (Nat.eq_dec h2 h) as [->|Ne].
      * exists d'. split.
        -- rewrite nth_error_app1 by (rewrite set_nth_length; exact Lh). apply nth_set_nth_same. exact Lh.
        -- assert (d2 = d) by congruence. subst d2.
           assert (s2 = s). { apply Rep_abs in R2. apply Rep_abs in R. congruence. } subst s2. exact R'.
      * exists d2. destruct (Oth1 _ _ _ H2 R2) as [A B]. apply (Oth2 h2 d2 s2 Ne A B).
    + destruct K as (Eh & -> & K). rewrite app_nil_r_inv in Eh.
      intros E2; injection E2 as <- <-.
      rewrite (set_nth_same _ _ _ Hd).
      assert (os = []).
      { apply (f_equal (@length obj)) in Eh. rewrite app_length in Eh. destruct os; [reflexivity | cbn [length] in Eh; lia]. }
      subst os. rewrite app_nil_r.
      replace (mkw (w_heap w) (w_dbs w)) with w by (destruct w; reflexivity).
      repeat split; auto.
      * destruct K as [[-> _]|[-> _]]; discriminate.
      * intros; eauto.
Qed.
