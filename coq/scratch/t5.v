From Coq Require Import NArith ZArith List Bool Arith.
From PLV Require Import Base.PyStr Tok.Tokenizer Parse.Nodes Parse.Parser L2T.L2T L2T.L2TWire Proofs.L2TFiltersCover Proofs.Covered2.
Import ListNotations.
Open Scope N_scope.
Definition ok : opts := {| o_math := MMText; o_keep_comments := true; o_sls := sls_bos; o_kbg := false; o_kbg_minlen := 0 |}.
Definition run (s : str) := match latex_to_text ok s false with Some (r, _) => Some (r, infixb [37;99] r) | None => None end.

Eval vm_compute in run [92;39;123;101;37;99;10;125]. (* acc "\\'{e%c\n}" *)
Eval vm_compute in run [92;109;97;116;104;98;102;123;120;37;99;10;125]. (* mbf '\\mathbf{x%c\n}' *)
Eval vm_compute in run [92;115;101;99;116;105;111;110;123;97;37;99;10;125]. (* sec '\\section{a%c\n}' *)
Eval vm_compute in run [92;115;117;98;115;101;99;116;105;111;110;123;97;37;99;10;125]. (* sub '\\subsection{a%c\n}' *)
Eval vm_compute in run [92;116;105;116;108;101;123;97;37;99;10;125;98]. (* tit '\\title{a%c\n}b' *)
Eval vm_compute in run [92;102;111;111;116;110;111;116;101;91;37;99;10;49;93;123;120;125]. (* ftn '\\footnote[%c\n1]{x}' *)
Eval vm_compute in run [92;102;111;111;116;110;111;116;101;123;120;37;99;10;125]. (* ftb '\\footnote{x%c\n}' *)
Eval vm_compute in run [92;116;101;120;116;98;102;37;99;10;123;120;125]. (* pre '\\textbf%c\n{x}' *)
Eval vm_compute in run [92;98;101;103;105;110;123;116;97;98;117;108;97;114;125;123;99;37;99;10;125;120;92;101;110;100;123;116;97;98;117;108;97;114;125]. (* tab '\\begin{tabular}{c%c\n}x\\end{tabular}' *)
Eval vm_compute in run [92;105;116;101;109;91;120;37;99;10;93;32;121]. (* itm '\\item[x%c\n] y' *)
Eval vm_compute in run [92;116;101;120;111;114;112;100;102;115;116;114;105;110;103;123;97;125;123;98;37;99;10;125]. (* tex '\\texorpdfstring{a}{b%c\n}' *)
Eval vm_compute in run [92;98;101;103;105;110;123;112;109;97;116;114;105;120;125;97;37;99;10;38;98;92;92;99;38;100;92;101;110;100;123;112;109;97;116;114;105;120;125]. (* mat '\\begin{pmatrix}a%c\n&b\\\\c&d\\end{pmatrix}' *)
Eval vm_compute in run [92;115;113;114;116;91;51;37;99;10;93;123;120;125]. (* sqr '\\sqrt[3%c\n]{x}' *)
Eval vm_compute in run [92;116;101;120;116;99;111;108;111;114;123;114;37;99;10;125;123;120;125]. (* col '\\textcolor{r%c\n}{x}' *)
Eval vm_compute in run [92;108;97;98;101;108;123;97;37;99;10;125]. (* lab '\\label{a%c\n}' *)
