From Coq Require Import NArith ZArith List Bool Arith.
From PLV Require Import Base.PyStr Tok.Tokenizer Parse.Nodes Parse.Parser L2T.L2T.
From PLV Require Import Proofs.L2TUnfold Proofs.L2TFilters Proofs.L2TTotal.
From PLV Require Gen.GenWalkerCtx Gen.GenL2TCtx.
Import ListNotations.

Definition tmpl_formats (r : repl) : bool :=
  match r with
  | RStr t => if mem_c 37 t && negb (Nat.eqb (length t) 1)
              then match parse_fmt (S (length t)) t with Some _ => true | None => false end
              else true
  | _ => true
  end.
Definition all_specs (lt : l2tctx) := lt_macros lt ++ lt_envs lt ++ lt_specials lt.
Definition templates_parse (lt : l2tctx) : bool :=
  forallb (fun kv : str * tspec => tmpl_formats (t_repl (snd kv))) (all_specs lt).

Definition keys_of (n : nat) : list str := map (fun i => key_of_nat (S i)) (seq 0 n).
Definition items_in_sync (items : list fmtitem) (nslots : nat) (env : bool) : bool :=
  if existsb is_fpos items then
    forallb (fun i => match i with FKey _ => false | _ => true end) items
    && Nat.eqb (length (filter is_fpos items)) (if env then 1 else nslots)
  else forallb (fun i => match i with
                         | FKey k => existsb (str_eqb k) (keys_of nslots) || (env && str_eqb k [98;111;100;121]%N)
                         | _ => true end) items.
Definition tmpl_in_sync (r : repl) (nslots : nat) (env : bool) : bool :=
  match r with
  | RStr t => if mem_c 37 t && negb (Nat.eqb (length t) 1)
              then match parse_fmt (S (length t)) t with Some items => items_in_sync items nslots env | None => false end
              else true
  | _ => true
  end.
Definition sync_bad (lt : l2tctx) (cx : context) :=
  (filter (fun kv : str * tspec => negb (tmpl_in_sync (t_repl (snd kv)) (nslots_of (get_macro_spec cx (fst kv))) false)) (lt_macros lt),
  filter (fun kv : str * tspec => negb (tmpl_in_sync (t_repl (snd kv)) (nslots_of (get_env_spec cx (fst kv))) true)) (lt_envs lt),
  filter (fun kv : str * tspec => negb (tmpl_in_sync (t_repl (snd kv)) (nslots_of (get_specials_spec cx (fst kv))) false)) (lt_specials lt)).
Eval vm_compute in templates_parse Gen.GenL2TCtx.default_l2tctx.
Eval vm_compute in no_eqenv_outside_envs Gen.GenL2TCtx.default_l2tctx.
Eval vm_compute in sync_bad Gen.GenL2TCtx.default_l2tctx Gen.GenWalkerCtx.default_ctx.
