From Coq Require Import NArith List Bool Arith Lia.
From PLV Require Import Base.PyStr Ctx.CtxSpec Ctx.CtxHeap Proofs.CtxFacts Proofs.CtxRefine Proofs.CtxInv.
Import ListNotations.

(** * The [d] dict *)

Lemma d_get_set_same ddl c l : d_get (d_set ddl c l) c = Some l.
Proof.
  induction ddl as [|[c' l'] r IH]; cbn [d_set d_get].
  - rewrite cat_eqb_refl. reflexivity.
  - destruct (cat_eqb c c') eqn:E; cbn [d_get]; rewrite E; auto.
Qed.

Lemma d_get_set_other ddl c c' l : c' <> c -> d_get (d_set ddl c l) c' = d_get ddl c'.
Proof.
  intros Ne. induction ddl as [|[c0 l0] r IH]; cbn [d_set d_get].
  - rewrite cat_eqb_neq by exact Ne. reflexivity.
  - destruct (cat_eqb c c0) eqn:E; cbn [d_get].
    + apply cat_eqb_eq in E. subst c0. rewrite cat_eqb_neq by exact Ne. reflexivity.
    + destruct (cat_eqb c' c0); auto.
Qed.

Lemma cat_index_lt c l i : cat_index c l = Some i -> i < length l.
Proof.
  revert i. induction l as [|x r IH]; intros i H; cbn [cat_index length] in *; [discriminate|].
  destruct (cat_eqb c x); [inversion H; lia|].
  destruct (cat_index c r) as [j|]; [|discriminate]. inversion H. specialize (IH j eq_refl). lia.
Qed.

Lemma place_index_le cats pl : place_index cats pl <= length cats.
Proof.
  destruct pl as [| |x|x]; cbn [place_index]; try lia.
  - destruct (cat_index x cats) eqn:E; [apply cat_index_lt in E|]; lia.
  - destruct (cat_index x cats) eqn:E; [apply cat_index_lt in E|]; lia.
Qed.

(** old entries survive an assignment [d[c] = ...] for a new name and any
    extension of the immutable part of the heap *)
Lemma centry_ok_set hp hp' ddl c l e :
  imm_ext hp hp' -> ce_cat e <> c -> centry_ok hp ddl e -> centry_ok hp' (d_set ddl c l) e.
Proof.
  intros I Ne H. apply (centry_ok_frame hp hp' _ _ I). destruct H as (H1 & H2 & H3).
  repeat split; auto. rewrite d_get_set_other by exact Ne. exact H1.
Qed.

Lemma add_named_ok hp d s c' ms es_ ss pl hp' d' r :
  Rep hp d s -> NoDup (mlocs d) ->
  add_named hp d c' ms es_ ss pl = (hp', d', r) ->
  d' = d /\
  match r with
  | ROk => ~ In c' (map sc_name (s_cats s)) /\
           Rep hp' d (s_add_cat s c' ms es_ ss pl) /\
           imm_ext hp hp' /\
           (forall l, l < length hp -> ~ In l (mlocs d) -> hget hp' l = hget hp l)
  | RRaise e => hp' = hp /\ e = ValueError /\ In c' (map sc_name (s_cats s))
  | _ => False
  end.
Proof.
  intros R ND. pose proof R as R0. destruct R as (ddl & es & H1 & Hnd & H3 & H4 & H5 & ->).
  destruct (H5 KM) as (zm & Hm & Hzm), (H5 KE) as (ze & He & Hze), (H5 KS) as (zs & Hs & Hzs).
  cbn [chain_of] in Hm, He, Hs.
  change (map (ce_l KM) es) with (map ce_lm es) in Hm.
  change (map (ce_l KE) es) with (map ce_le es) in He.
  change (map (ce_l KS) es) with (map ce_ls es) in Hs.
  unfold add_named. rewrite H1, H3, Hm, He, Hs. cbn [s_cats]. rewrite map_map.
  change (map (fun x => sc_name (scat_of x)) es) with (map ce_cat es).
  destruct (mem_cat c' (map ce_cat es)) eqn:M; intros E; injection E as <- <- <-; (split; [reflexivity|]).
  { repeat split; auto. apply mem_cat_In. exact M. }
  apply mem_cat_false in M.
  set (b := length hp). set (i := place_index (map ce_cat es) pl).
  set (hp1 := hp ++ [ODict (dict_of_specs ms); ODict (dict_of_specs es_); ODict (dict_of_specs ss); OCatD b (b + 1) (b + 2)]).
  assert (L1 : length hp1 = b + 4) by (subst hp1; rewrite app_length; cbn [length]; lia).
  assert (B : forall l, In l (mlocs d) -> l < b) by (intros l Hl; eapply Rep_mlocs_bound; eauto).
  assert (Bcl : cl d < b) by (apply B; cbn [mlocs In]; auto).
  assert (Bm : cm_m d < b) by (apply B; cbn [mlocs In]; auto).
  assert (Be : cm_e d < b) by (apply B; cbn [mlocs In]; auto).
  assert (Bs : cm_s d < b) by (apply B; cbn [mlocs In]; auto).
  assert (Bd : dd d < b) by (apply B; cbn [mlocs In]; auto 6).
  match goal with |- context [Rep ?h _ _] => set (hp6 := h) end.
  destruct (hget_hset5 hp1 (cl d) (cm_m d) (cm_e d) (cm_s d) (dd d)
              (OList (insert_at i c' (map ce_cat es)))
              (OChain (insert_at i b (map ce_lm es ++ [zm])))
              (OChain (insert_at i (b + 1) (map ce_le es ++ [ze])))
              (OChain (insert_at i (b + 2) (map ce_ls es ++ [zs])))
              (OD (d_set ddl c' (b + 3))) ND)
    as (G1 & G2 & G3 & G4 & G5 & GL & GO); try (rewrite L1; lia).
  fold hp6 in G1, G2, G3, G4, G5, GL, GO.
  assert (Old : forall l, l < b -> ~ In l (mlocs d) -> hget hp6 l = hget hp l).
  { intros l Hl Hn. rewrite GO by exact Hn. subst hp1. apply hget_app_old. exact Hl. }
  assert (I : imm_ext hp hp6).
  { intros l o Ho Io. rewrite Old; [exact Ho | eapply hget_bound; eauto |].
    intros Hin. destruct (Rep_mlocs_mut _ _ _ _ R0 Hin) as (o' & Ho' & Hi'). congruence. }
  assert (New : forall k, k < 4 -> hget hp6 (b + k) = nth_error [ODict (dict_of_specs ms); ODict (dict_of_specs es_); ODict (dict_of_specs ss); OCatD b (b + 1) (b + 2)] k).
  { intros k Hk. rewrite GO.
    - subst hp1 b. apply hget_app_new.
    - intros Hin. apply B in Hin. lia. }
  assert (Hi : i <= length (map ce_cat es)) by apply place_index_le.
  rewrite map_length in Hi.
  set (enew := mkce c' (b + 3) b (b + 1) (b + 2) (dict_of_specs ms) (dict_of_specs es_) (dict_of_specs ss)).
  repeat split; auto.
  exists (d_set ddl c' (b + 3)), (insert_at i enew es). repeat split.
  - unfold get_list. rewrite G1, map_insert_at. reflexivity.
  - rewrite map_insert_at. apply NoDup_insert_at; assumption.
  - unfold get_d. rewrite G5. reflexivity.
  - apply Forall_insert_at.
    + unfold enew. repeat split; cbn [ce_cat ce_cd ce_lm ce_le ce_ls].
      * apply d_get_set_same.
      * unfold get_catd. rewrite (New 3) by lia. reflexivity.
      * intros [| |]; cbn [ce_l ce_d ce_lm ce_le ce_ls ce_m ce_e ce_s]; unfold get_dict.
        -- pose proof (New 0) as N. rewrite Nat.add_0_r in N. rewrite N by lia. reflexivity.
        -- rewrite (New 1) by lia. reflexivity.
        -- rewrite (New 2) by lia. reflexivity.
    + rewrite Forall_forall in H4 |- *. intros e Hin. apply (centry_ok_set hp); auto.
      intros Ec. apply M. rewrite <- Ec. apply in_map. exact Hin.
  - intros [| |]; cbn [chain_of]; unfold get_chain.
    + exists zm. rewrite G2. split; [|eapply imm_get_dict; eauto].
      rewrite insert_at_app_r by (rewrite map_length; exact Hi). rewrite map_insert_at. reflexivity.
    + exists ze. rewrite G3. split; [|eapply imm_get_dict; eauto].
      rewrite insert_at_app_r by (rewrite map_length; exact Hi). rewrite map_insert_at. reflexivity.
    + exists zs. rewrite G4. split; [|eapply imm_get_dict; eauto].
      rewrite insert_at_app_r by (rewrite map_length; exact Hi). rewrite map_insert_at. reflexivity.
  - unfold s_add_cat. cbn [s_cats s_unk_m s_unk_e s_unk_s s_frozen]. rewrite map_insert_at, map_map.
    reflexivity.
Qed.
