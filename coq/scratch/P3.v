From Coq Require Import NArith List Bool Arith Lia FinFun.
From PLV Require Import Base.PyStr Ctx.CtxSpec Ctx.CtxHeap Proofs.CtxFacts Proofs.CtxRefine Proofs.CtxInv.
Import ListNotations.

(** * The auto-generated name is fresh (the counter loop needs at most
      [length cats] extra rounds) *)

Lemma fresh_auto_f_spec fuel cats : forall n,
  mem_cat (CAuto (fresh_auto_f fuel cats n)) cats = true ->
  forall k, k < fuel -> In (CAuto (n + k)) cats.
Proof.
  induction fuel as [|f IH]; intros n H k Hk; [lia|]. cbn [fresh_auto_f] in H.
  destruct (mem_cat (CAuto n) cats) eqn:E; [|congruence].
  destruct k as [|k].
  - rewrite Nat.add_0_r. apply mem_cat_In. exact E.
  - replace (n + S k) with (S n + k) by lia. apply IH; [exact H | lia].
Qed.

Lemma fresh_auto_fresh cats n : ~ In (CAuto (fresh_auto cats n)) cats.
Proof.
  intros H. apply mem_cat_In in H. unfold fresh_auto in H.
  pose proof (fresh_auto_f_spec _ _ _ H) as K.
  assert (N : NoDup (map (fun k => CAuto (n + k)) (seq 0 (S (length cats))))).
  { apply Injective_map_NoDup; [intros a b E; inversion E; lia | apply seq_NoDup]. }
  assert (I : incl (map (fun k => CAuto (n + k)) (seq 0 (S (length cats)))) cats).
  { intros x Hx. apply in_map_iff in Hx. destruct Hx as (k & <- & Hk). apply in_seq in Hk. apply K. lia. }
  pose proof (NoDup_incl_length N I) as L. rewrite map_length, seq_length in L. lia.
Qed.

(** * add_context_category *)

Lemma do_add_ok allow hp d s c ms es_ ss pl hp' d' r :
  Rep hp d s -> NoDup (mlocs d) ->
  do_add allow hp d c ms es_ ss pl = (hp', d', r) ->
  mlocs d' = mlocs d /\ frozen d' = frozen d /\
  match r with
  | ROk => frozen d = false /\
           (exists c', ~ In c' (map sc_name (s_cats s)) /\
                       (c = Some c' \/ (c = None /\ exists n, c' = CAuto n)) /\
                       Rep hp' d' (s_add_cat s c' ms es_ ss pl)) /\
           imm_ext hp hp' /\
           (forall l, l < length hp -> ~ In l (mlocs d) -> hget hp' l = hget hp l)
  | RRaise e => hp' = hp /\ Rep hp d' s /\ (frozen d = true -> e = RuntimeError /\ d' = d)
  | _ => False
  end.
Proof.
  intros R ND. unfold do_add. destruct (frozen d) eqn:Fz.
  { intros E; injection E as <- <- <-. auto 8. }
  destruct (match c with Some (CAuto _) => negb allow | _ => false end).
  { intros E; injection E as <- <- <-. repeat split; auto. discriminate. }
  destruct c as [c'|].
  - intros E. destruct (add_named_ok _ _ _ _ _ _ _ _ _ _ _ R ND E) as [-> K].
    split; [reflexivity|]. split; [exact Fz|]. destruct r; try contradiction.
    + destruct K as (K1 & K2 & K3 & K4). repeat split; auto. exists c'. auto.
    + destruct K as (-> & -> & K3). repeat split; auto; discriminate.
  - pose proof R as R0. destruct R as (ddl & es & H1 & _). rewrite H1.
    set (n := fresh_auto (map ce_cat es) (counter d)). intros E.
    assert (R1 : Rep hp (set_counter (S n) d) s) by (apply Rep_counter; exact R0).
    destruct (add_named_ok _ _ _ _ _ _ _ _ _ _ _ R1 ND E) as [-> K].
    split; [reflexivity|]. split; [exact Fz|]. destruct r; try contradiction.
    + destruct K as (K1 & K2 & K3 & K4). repeat split; auto. exists (CAuto n). repeat split; eauto.
    + destruct K as (-> & -> & K3). repeat split; auto; discriminate.
Qed.

(** * __init__ *)

Lemma init_db_facts hp : let (hp', d0) := init_db hp in
  (exists os, hp' = hp ++ os) /\ NoDup (mlocs d0) /\ (forall l, In l (mlocs d0) -> length hp <= l) /\
  forall um ue us fz n,
    Rep hp' (mkdb (cl d0) (dd d0) (cm_m d0) (cm_e d0) (cm_s d0) um ue us fz n) (mksdb [] um ue us fz).
Proof.
  cbn [init_db]. set (b := length hp). split; [eexists; reflexivity|]. split; [|split].
  - unfold mlocs; cbn [cl cm_m cm_e cm_s dd]. repeat (apply NoDup_cons; [cbn [In]; lia|]). apply NoDup_nil.
  - unfold mlocs; cbn [cl cm_m cm_e cm_s dd In]. intros l H. lia.
  - intros um ue us fz n. exists [], []. cbn [cl dd cm_m cm_e cm_s map app]. repeat split.
    + unfold get_list. subst b. rewrite hget_app_new0. reflexivity.
    + constructor.
    + unfold get_d. subst b. rewrite hget_app_new. reflexivity.
    + constructor.
    + intros [| |]; cbn [chain_of cm_m cm_e cm_s]; unfold get_chain, get_dict; subst b.
      * exists (length hp + 2). rewrite !hget_app_new. split; reflexivity.
      * exists (length hp + 4). rewrite !hget_app_new. split; reflexivity.
      * exists (length hp + 6). rewrite !hget_app_new. split; reflexivity.
Qed.
