(** Extraction of the executable model.  [ExtrOcamlBasic] only: bool, option,
    list, prod, unit, sumbool map to OCaml's; [nat], [N], [positive], [Z] stay
    Coq inductives.  No [Extract Constant]. *)
From Coq Require Import Extraction ExtrOcamlBasic.
From PLV Require Import Extract.Entries.
Extraction Language OCaml.
Extraction "model.ml" model_dispatch.
