(* Generic driver for the extracted model (trusted, property-independent).
   stdin : one case per line, space-separated decimal integers: <entry> <input...>
   stdout: one line per case, the characters whose code points [model_dispatch] returns. *)
open Model

let rec pos_of_int i =
  if i = 1 then XH
  else if i land 1 = 0 then XO (pos_of_int (i lsr 1))
  else XI (pos_of_int (i lsr 1))
let z_of_int i = if i = 0 then Z0 else if i > 0 then Zpos (pos_of_int i) else Zneg (pos_of_int (-i))
let rec int_of_pos = function XH -> 1 | XO p -> 2 * int_of_pos p | XI p -> 2 * int_of_pos p + 1
let int_of_z = function Z0 -> 0 | Zpos p -> int_of_pos p | Zneg p -> - (int_of_pos p)

let () =
  let buf = Buffer.create 65536 in
  (try
     while true do
       let l = input_line stdin in
       let toks = List.filter (fun s -> s <> "") (String.split_on_char ' ' l) in
       match List.map int_of_string toks with
       | [] -> Buffer.add_char buf '\n'
       | id :: inp ->
         let out = model_dispatch (z_of_int id) (List.map z_of_int inp) in
         List.iter (fun z ->
             let c = int_of_z z in
             if c >= 32 && c < 127 then Buffer.add_char buf (Char.chr c)
             else Buffer.add_string buf (Printf.sprintf "\\u{%x}" c)) out;
         Buffer.add_char buf '\n';
         if Buffer.length buf > 60000 then (print_string (Buffer.contents buf); Buffer.clear buf)
     done
   with End_of_file -> ());
  print_string (Buffer.contents buf)
