(** Dispatch table of the executable model: entry number -> wire function.
    Used both by the extracted binary and by [vm_compute] cross-checks. *)
From Coq Require Import ZArith List.
From PLV Require Import Base.Wire Util.LineNo.
Import ListNotations.
Open Scope Z_scope.

Definition dispatch (id : Z) (inp : list Z) : list Z :=
  match id with
  | 20 => entry_lineno inp
  | _ => bad_input
  end.
