(** Dispatch table of the executable model: entry number (100 * property +
    sub-entry) -> wire function.  Used both by the extracted binary and by the
    [vm_compute] cross-checks. *)
From Coq Require Import ZArith List.
From PLV Require Import Base.Wire.
From PLV Require Entry.E01 Entry.E02 Entry.E03 Entry.E04 Entry.E05 Entry.E06 Entry.E07 Entry.E08 Entry.E09 Entry.E10 Entry.E11 Entry.E12 Entry.E13 Entry.E14 Entry.E15 Entry.E16 Entry.E17 Entry.E18 Entry.E19 Entry.E20.
Import ListNotations.
Open Scope Z_scope.

Definition model_dispatch (id : Z) (inp : list Z) : list Z :=
  match id / 100 with
  | 1 => E01.entry (id mod 100) inp
  | 2 => E02.entry (id mod 100) inp
  | 3 => E03.entry (id mod 100) inp
  | 4 => E04.entry (id mod 100) inp
  | 5 => E05.entry (id mod 100) inp
  | 6 => E06.entry (id mod 100) inp
  | 7 => E07.entry (id mod 100) inp
  | 8 => E08.entry (id mod 100) inp
  | 9 => E09.entry (id mod 100) inp
  | 10 => E10.entry (id mod 100) inp
  | 11 => E11.entry (id mod 100) inp
  | 12 => E12.entry (id mod 100) inp
  | 13 => E13.entry (id mod 100) inp
  | 14 => E14.entry (id mod 100) inp
  | 15 => E15.entry (id mod 100) inp
  | 16 => E16.entry (id mod 100) inp
  | 17 => E17.entry (id mod 100) inp
  | 18 => E18.entry (id mod 100) inp
  | 19 => E19.entry (id mod 100) inp
  | 20 => E20.entry (id mod 100) inp
  | _ => bad_input
  end.
