(** The documented rendering rules of latex2text on the CORE sublanguage, as a
    short declarative specification at tree level (definitions only; the
    theorems relating it to the implementation model [L2T.node_text] are in
    [Proofs/Render*.v], their statements in [Properties/C03.v]).

    It is the formal counterpart of the independent Python renderer
    [harness/props/c03.py: render / render1 / push_eq] (which works on the
    generator's items after [segment] has decided which whitespace belongs to
    which character node): a [core] item is one node of the tree, already
    classified by what the text-spec database says about it. *)
From Coq Require Import NArith ZArith List Bool Arith.
From PLV Require Import Base.PyStr Tok.Tokenizer Parse.Nodes Parse.Parser L2T.L2T.
Import ListNotations.

(** * The core constructs *)
Inductive core :=
| KText (chars : str)                       (* a character node (text and/or whitespace) *)
| KComment (text post : str)                (* % text, with the whitespace that follows it *)
| KGroup (body : list core)                 (* { ... } *)
| KTransparent (body : list core)           (* formatting macro with one braced argument: \textbf{..} \emph{..} *)
| KSymbol (repl post : str)                 (* bare macro standing for the string [repl]; [post] = whitespace after it *)
| KSpecials (repl : str)                    (* ~ -- --- `` '' & : stands for [repl] *)
| KPar                                      (* paragraph break (the specials "\n\n") *)
| KMath (display : bool) (dl dr : str) (verb : str) (body : list core)
                                            (* formula; [verb] is its source text, delimiters included *)
| KEnvBody (body : list core)               (* itemize / enumerate / unknown environment: rendered as its body *)
| KEnvWrap (pre post : str) (body : list core)
                                            (* center: its body between two fixed strings (template "pre%spost") *)
| KAccent (comb : N) (arg : core).          (* accent macro \'{e} \hat{a} \c c : every character of the (stripped)
                                               argument text composed with the combining mark [comb].  [arg] is the
                                               argument node: for a braced argument a [KGroup body], whose braces are
                                               argument delimiters -- it contributes the rendering of [body], never
                                               braces (whatever keep_braced_groups says); a single-token argument
                                               contributes its own rendering *)

(** * The rules *)

(** display math in text mode: every line indented by four spaces, on lines of its own *)
Definition indent_block (c : str) : str := [10%N] ++ indent4 ++ replace_nl c indent4 ++ [10%N].

(** the only interaction between neighbours: the whitespace after a bare symbol
    macro is emitted in front of following TEXT unless the policy is strict
    "between-macro-and-chars" *)
Definition glue (sl : sls) (prev : option core) (k : core) : str :=
  match prev, k with
  | Some (KSymbol _ post), KText _ => if s_bmc sl then [] else post
  | _, _ => []
  end.

Section Render.
  Variable accent : N -> N -> str.   (* a character composed with a combining mark (NFC of the pair) *)
  Variable o : opts.

  Fixpoint render1 (sl : sls) (k : core) {struct k} : str :=
    let seq := fix seq (sl : sls) (prev : option core) (l : list core) {struct l} : str :=
        match l with
        | [] => []
        | k :: r => glue sl prev k ++ render1 sl k ++ seq sl (Some k) r
        end in
    match k with
    | KText c =>                              (* text is copied; whitespace-only text between constructs is dropped
                                                 unless strict "between-latex-constructs" *)
        if negb (s_blc sl) && is_blank c then [] else c
    | KComment c post =>                      (* comments vanish (or are kept); their post-space per "after-comment" *)
        if o_keep_comments o
        then 37%N :: c ++ (if s_ac sl then (match post with [] => [] | _ => [10%N] end) else post)
        else (if s_ac sl then [] else post)
    | KGroup body =>                          (* groups are transparent; braces kept on request *)
        let c := seq sl None body in
        if o_kbg o && Nat.leb (o_kbg_minlen o) (length c) then [123%N] ++ c ++ [125%N] else c
    | KTransparent body => seq sl None body   (* formatting macros are transparent *)
    | KSymbol r _ => r                        (* symbols and specials become their replacement *)
    | KSpecials r => r
    | KPar => [10; 10]%N
    | KMath display dl dr verb body =>        (* inline math is inlined, display math is a block; the content is
                                                 stripped and rendered under the in-equations policy *)
        match o_math o with
        | MMRemove => []
        | MMVerbatim => if display then [10%N] ++ verb ++ [10%N] else verb
        | MMWithDelims =>
            let c := py_strip (seq (push_eq sl) None body) in
            if display then dl ++ [10%N] ++ c ++ [10%N] ++ dr else dl ++ c ++ dr
        | MMText =>
            let c := py_strip (seq (push_eq sl) None body) in
            if display then indent_block c else c
        end
    | KEnvBody body => seq sl None body       (* list-like and unknown environments render their body *)
    | KEnvWrap pre post body => pre ++ seq sl None body ++ post
    | KAccent comb arg =>                     (* accents: each character of the argument's contents gets the mark;
                                                 the braces of a braced argument are never part of the contents *)
        let c := match arg with
                 | KGroup body => seq sl None body
                 | _ => render1 sl arg
                 end in
        flat_map (fun ch => accent ch comb) (py_strip c)
    end.

  (** a sequence of items after the item [prev] *)
  Fixpoint render_from (sl : sls) (prev : option core) (l : list core) {struct l} : str :=
    match l with
    | [] => []
    | k :: r => glue sl prev k ++ render1 sl k ++ render_from sl (Some k) r
    end.

  Definition render (sl : sls) (l : list core) : str := render_from sl None l.
End Render.

(** * Which nodes are core: what the text-spec database must say *)
Section Abstract.
  Variable src : str.          (* the source string (for the verbatim text of formulas) *)
  Variable lt : l2tctx.        (* the latex2text database *)

  (** a formatting macro: its text is the concatenation of its arguments' contents *)
  Definition transparent_spec (t : option tspec) : bool :=
    match t with
    | Some {| t_repl := RNone; t_discard := false |} => true
    | Some {| t_repl := RStr []; t_discard := false |} => true
    | _ => false
    end.
  Definition transparent_macro (nm : str) : bool := transparent_spec (assoc (lt_macros lt) nm).
  (** an environment rendered as its body: no entry, or an entry without replacement that does not discard *)
  Definition transparent_env (nm : str) : bool :=
    match assoc (lt_envs lt) nm with
    | None => true
    | t => transparent_spec t
    end.
  (** a BARE macro (no argument nodes) standing for a string: a replacement string
      without [%]; no replacement at all, or an unknown macro, stands for the empty string *)
  Definition symbol_repl (nm : str) : option str :=
    match assoc (lt_macros lt) nm with
    | None => Some []
    | Some {| t_repl := RNone; t_discard := _ |} => Some []
    | Some {| t_repl := RStr r; t_discard := _ |} => if mem_c 37 r then None else Some r
    | Some {| t_repl := RCall _; t_discard := _ |} => None
    end.
  (** specials with a non-empty replacement string without [%] *)
  Definition specials_repl (ch : str) : option str :=
    match assoc (lt_specials lt) ch with
    | Some {| t_repl := RStr (c :: r); t_discard := _ |} => if mem_c 37 (c :: r) then None else Some (c :: r)
    | _ => None
    end.

  (** an environment whose replacement is a template [pre%spost] ([center]: ["\n%s\n"]) *)
  Fixpoint literals (l : list fmtitem) : option str :=
    match l with
    | [] => Some []
    | FLit c :: r => option_map (cons c) (literals r)
    | _ => None
    end.
  Fixpoint split_pos (l : list fmtitem) : option (str * str) :=
    match l with
    | FLit c :: r => option_map (fun ab : str * str => (c :: fst ab, snd ab)) (split_pos r)
    | FPos :: r => option_map (fun b => ([], b)) (literals r)
    | _ => None
    end.
  Definition wrap_env (nm : str) : option (str * str) :=
    match assoc (lt_envs lt) nm with
    | Some {| t_repl := RStr tmpl; t_discard := _ |} =>
        if mem_c 37 tmpl && negb (Nat.eqb (length tmpl) 1)
        then match parse_fmt (S (length tmpl)) tmpl with Some items => split_pos items | None => None end
        else None
    | _ => None
    end.
  (** the [\item] formatter *)
  Definition item_macro (nm : str) : bool :=
    match assoc (lt_macros lt) nm with
    | Some {| t_repl := RCall CItem; t_discard := _ |} => true
    | _ => false
    end.
  (** an accent macro *)
  Definition accent_macro (nm : str) : option N :=
    match assoc (lt_macros lt) nm with
    | Some {| t_repl := RCall (CAccent comb); t_discard := _ |} => Some comb
    | _ => None
    end.
  Definition item_text : str := [10; 32; 32; 42; 32]%N.      (* "\n  * " *)

  Definition no_arg_nodes (a : option pargs) : bool :=
    match a with None => true | Some (_, []) => true | Some (_, _ :: _) => false end.

  (** [abstract n = Some k]: the node [n] is the core construct [k] *)
  Fixpoint abstract (n : node) {struct n} : option core :=
    let abs_items := fix ai (l : list (option node)) {struct l} : option (list core) :=
        match l with
        | [] => Some []
        | Some x :: r => match abstract x, ai r with
                         | Some k, Some ks => Some (k :: ks)
                         | _, _ => None end
        | None :: _ => None
        end in
    let abs_body := fun (b : option node) =>
        match b with Some (NList _ _ items) => abs_items items | _ => None end in
    match n with
    | NChars _ _ _ c => Some (KText c)
    | NComment _ _ _ c post => Some (KComment c post)
    | NGroup _ _ _ dl dr b =>
        if str_eqb dl [123%N] && str_eqb dr [125%N] then option_map KGroup (abs_body b) else None
    | NMacro _ _ _ nm post a =>
        match a with
        | Some (sp, [Some x]) =>
            if list_eqb str_eqb sp [[123%N]] then
              match accent_macro nm with
              | Some comb => option_map (KAccent comb) (abstract x)   (* the argument: a braced group or one token *)
              | None =>
                  match x with
                  | NGroup _ _ _ _ _ b =>
                      if transparent_macro nm then option_map KTransparent (abs_body b) else None
                  | _ => None
                  end
              end
            else None
        | Some (sp, [None]) =>            (* \item without its optional argument: a bare macro standing for "\n  * " *)
            if list_eqb str_eqb sp [[91%N]] && item_macro nm then Some (KSymbol item_text post) else None
        | _ => if no_arg_nodes a then option_map (fun r => KSymbol r post) (symbol_repl nm) else None
        end
    | NEnv _ _ _ nm _ b =>
        if transparent_env nm then option_map KEnvBody (abs_body b)
        else match wrap_env nm with
             | Some (pre, post) => option_map (KEnvWrap pre post) (abs_body b)
             | None => None
             end
    | NSpecials _ _ _ ch a =>
        match assoc (lt_specials lt) ch with
        | None => Some (if str_eqb ch [10; 10]%N then KPar else KSpecials ch)   (* not in the table: its characters *)
        | Some _ => option_map KSpecials (specials_repl ch)
        end
    | NMath p e _ d dl dr b => option_map (KMath d dl dr (slice src p e)) (abs_body b)
    | NList _ _ _ => None
    end.

  (** a list of nodes (the items of a [LatexNodeList]) *)
  Fixpoint abstract_items (l : list (option node)) : option (list core) :=
    match l with
    | [] => Some []
    | Some x :: r => match abstract x, abstract_items r with
                     | Some k, Some ks => Some (k :: ks)
                     | _, _ => None end
    | None :: _ => None
    end.
End Abstract.

(** * A canonical embedding (positions 0, text mode, given names)

    [core_ok] collects, for a core item, the hypotheses on the databases under
    which its embedding is recognised as that item by [abstract]. *)
Section Embed.
  Variable src : str.
  Variable lt : l2tctx.
  Variable fmt_name : str.                (* the formatting macro used for [KTransparent] *)
  Variable env_name : str.                (* the environment used for [KEnvBody] *)
  Variable wrap_name : str -> str -> str. (* the environment used for [KEnvWrap pre post] *)
  Variable acc_name : N -> str.           (* the accent macro for a combining mark *)
  Variable sym_name : str -> str.         (* the macro name standing for a replacement string *)
  Variable spc_chars : str -> str.        (* the specials characters standing for a replacement string *)
  Variable verb_pos : str -> nat * nat.   (* where the source text of a formula lies in the source *)

  Fixpoint embed (k : core) {struct k} : node :=
    let emb_list := fix el (l : list core) {struct l} : list (option node) :=
        match l with [] => [] | k :: r => Some (embed k) :: el r end in
    let body := fun l => Some (NList None None (emb_list l)) in
    match k with
    | KText c => NChars 0 0 text_mode c
    | KComment c post => NComment 0 0 text_mode c post
    | KGroup b => NGroup 0 0 text_mode [123%N] [125%N] (body b)
    | KTransparent b =>
        NMacro 0 0 text_mode fmt_name [] (Some ([[123%N]], [Some (NGroup 0 0 text_mode [123%N] [125%N] (body b))]))
    | KSymbol r post => NMacro 0 0 text_mode (sym_name r) post (Some ([], []))
    | KSpecials r => NSpecials 0 0 text_mode (spc_chars r) (Some ([], []))
    | KPar => NSpecials 0 0 text_mode [10; 10]%N (Some ([], []))
    | KMath d dl dr verb b =>
        NMath (fst (verb_pos verb)) (snd (verb_pos verb)) text_mode d dl dr (body b)
    | KEnvBody b => NEnv 0 0 text_mode env_name (Some ([], [])) (body b)
    | KEnvWrap pre post b => NEnv 0 0 text_mode (wrap_name pre post) (Some ([], [])) (body b)
    | KAccent comb arg => NMacro 0 0 text_mode (acc_name comb) [] (Some ([[123%N]], [Some (embed arg)]))
    end.
  Fixpoint embed_items (l : list core) : list (option node) :=
    match l with [] => [] | k :: r => Some (embed k) :: embed_items r end.

  Fixpoint core_ok (k : core) {struct k} : Prop :=
    let all := fix all (l : list core) {struct l} : Prop :=
        match l with [] => True | k :: r => core_ok k /\ all r end in
    match k with
    | KText _ | KComment _ _ => True
    | KGroup b => all b
    | KTransparent b => transparent_macro lt fmt_name = true /\ all b
    | KSymbol r _ => symbol_repl lt (sym_name r) = Some r
    | KSpecials r =>
        specials_repl lt (spc_chars r) = Some r
        \/ (assoc (lt_specials lt) (spc_chars r) = None /\ spc_chars r = r /\ str_eqb r [10; 10]%N = false)
    | KPar => assoc (lt_specials lt) [10; 10]%N = None
    | KMath _ _ _ verb b => slice src (fst (verb_pos verb)) (snd (verb_pos verb)) = verb /\ all b
    | KEnvBody b => transparent_env lt env_name = true /\ all b
    | KEnvWrap pre post b =>
        wrap_env lt (wrap_name pre post) = Some (pre, post) /\ all b
    | KAccent comb arg => accent_macro lt (acc_name comb) = Some comb /\ core_ok arg
    end.
  Fixpoint cores_ok (l : list core) : Prop :=
    match l with [] => True | k :: r => core_ok k /\ cores_ok r end.
End Embed.
