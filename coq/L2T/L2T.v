(** Model of [pylatexenc/latex2text/__init__.py: LatexNodes2Text] on node trees
    ([nodelist_to_text] ... [_PushEquationContext], [apply_simplify_repl] with
    %-substitution, [fmt_matrix_environment_node], [fmt_math_text_style]) and of
    the replacement callables of [latex2text/_defaultspecs.py].

    [fill_text] is not modelled ([textwrap.fill] is an oracle): this file is the
    [fill_text = None] behaviour.  [\today] is the string found in the table. *)
From Coq Require Import NArith ZArith List Bool Arith.
From PLV Require Import Base.PyStr Tok.Tokenizer Parse.Nodes Parse.Parser.
From PLV Require Gen.GenUnicode.
Import ListNotations.

(** * Options *)
Inductive mathmode := MMText | MMWithDelims | MMVerbatim | MMRemove.
Inductive ineqspec := INone | IAllTrue | IBos | IMacros | IExcept.
Record sls := { s_bmc : bool; s_blc : bool; s_ac : bool; s_ineq : ineqspec }.

Definition sls_bos : sls := {| s_bmc := false; s_blc := false; s_ac := false; s_ineq := INone |}.
Definition sls_macros : sls := {| s_bmc := true; s_blc := true; s_ac := false; s_ineq := IBos |}.
Definition sls_except : sls := {| s_bmc := true; s_blc := true; s_ac := true; s_ineq := IBos |}.
Definition sls_alltrue : sls := {| s_bmc := true; s_blc := true; s_ac := true; s_ineq := IAllTrue |}.
Definition sls_none : sls := {| s_bmc := false; s_blc := false; s_ac := false; s_ineq := INone |}.

(** [_PushEquationContext] *)
Definition push_eq (x : sls) : sls :=
  match s_ineq x with
  | INone => x | IAllTrue => sls_alltrue | IBos => sls_bos | IMacros => sls_macros | IExcept => sls_except
  end.

Record opts := {
  o_math : mathmode; o_keep_comments : bool; o_sls : sls; o_kbg : bool; o_kbg_minlen : nat
}.

(** * The text-spec database *)
Inductive callable :=
| CAccent (comb : N)
| CMathStyle (style : nat)
| CItem | CHref
| CSection (prefix : str) (upper : bool)
| CSetTitle | CSetAuthor | CSetDate | CMakeTitle (today : str)
| CUebung | CTexorpdf | CInput | CEqEnv | CMatrix
| CPlaceholder (txt : str) (block : bool)
| CConst (s : str).

Inductive repl := RNone | RStr (s : str) | RCall (c : callable).
Record tspec := { t_repl : repl; t_discard : bool }.
Record l2tctx := {
  lt_macros : list (str * tspec); lt_envs : list (str * tspec); lt_specials : list (str * tspec);
  lt_nfc : list (N * N * str);                       (* (base, combining) -> NFC(base+combining) *)
  lt_upper : list (N * str);                         (* str.upper() per character, where not identity/ASCII *)
  lt_styles : list (nat * (N * N) * list (N * N));   (* style -> offsets, exceptions *)
}.

Record dstate := { d_title : option str; d_author : option str; d_date : option str; d_err : option nat }.
Definition d0 : dstate := {| d_title := None; d_author := None; d_date := None; d_err := None |}.
Definition set_err (st : dstate) (k : nat) : dstate :=
  {| d_title := d_title st; d_author := d_author st; d_date := d_date st;
     d_err := match d_err st with Some e => Some e | None => Some k end |}.

(** * String helpers *)
Definition py_strip (x : str) : str := strip Tokenizer.is_space x.
Definition is_blank (x : str) : bool := match py_strip x with [] => true | _ => false end.

Fixpoint replace_nl (x indent : str) : str :=
  match x with
  | [] => []
  | c :: r => if N.eqb c 10 then 10%N :: indent ++ replace_nl r indent else c :: replace_nl r indent
  end.
(** [_fmt_indented_block] with [fill_text = None] *)
Definition indented_block (contents indent : str) : str :=
  10%N :: indent ++ replace_nl contents indent ++ [10%N].
Definition indent4 : str := [32;32;32;32]%N.

Fixpoint rjust (x : str) (w : nat) : str :=
  if Nat.ltb (length x) w then repeat_str [32%N] (w - length x) ++ x else x.

(** ** %-formatting ([simplify_repl % x]); [None] = the formatting raised *)
Inductive fmtitem := FLit (c : N) | FPos | FKey (k : str).
Fixpoint parse_fmt (fuel : nat) (t : str) : option (list fmtitem) :=
  match fuel with
  | O => None
  | S f =>
    match t with
    | [] => Some []
    | 37%N :: 37%N :: r => option_map (cons (FLit 37)) (parse_fmt f r)
    | 37%N :: 115%N :: r => option_map (cons FPos) (parse_fmt f r)
    | 37%N :: 40%N :: r =>
        let (k, r2) := span (fun c => negb (N.eqb c 41)) r in
        match r2 with
        | 41%N :: 115%N :: r3 => option_map (cons (FKey k)) (parse_fmt f r3)
        | _ => None
        end
    | 37%N :: _ => None
    | c :: r => option_map (cons (FLit c)) (parse_fmt f r)
    end
  end.
Definition has_percent_s (t : str) : bool :=
  match parse_fmt (S (length t)) t with
  | Some l => existsb (fun i => match i with FPos => true | _ => false end) l
  | None => false
  end.
Fixpoint fmt_tuple (l : list fmtitem) (args : list str) : option str :=
  match l with
  | [] => match args with [] => Some [] | _ => None end        (* not all arguments converted *)
  | FLit c :: r => option_map (cons c) (fmt_tuple r args)
  | FPos :: r => match args with
                 | a :: args' => option_map (app a) (fmt_tuple r args')
                 | [] => None end                                  (* not enough arguments *)
  | FKey _ :: _ => None                                            (* format requires a mapping *)
  end.
Fixpoint fmt_dict (l : list fmtitem) (d : list (str * str)) : option str :=
  match l with
  | [] => Some []
  | FLit c :: r => option_map (cons c) (fmt_dict r d)
  | FPos :: _ => None                                              (* not used with a dict here *)
  | FKey k :: r => match assoc d k with
                   | Some v => option_map (app v) (fmt_dict r d)
                   | None => None end                              (* KeyError *)
  end.

(** decimal key "1", "2", ... *)
Definition key_of_nat (n : nat) : str := PLV.Base.Wire.show_nat n.

(** * Argument views *)
Definition argn_of (a : option pargs) : list (option node) :=
  match a with Some (_, l) => l | None => [] end.

(** [ParsedArguments.legacy_nodeoptarg_nodeargs] as indices into [argnlist]:
    (index of nodeoptarg if any, offset at which nodeargs starts); without an
    arguments object the view is [(None, [])]. *)
Definition legacy_idx (a : option pargs) : option nat * nat :=
  match a with
  | None => (None, 0)
  | Some (sp, l) =>
      let spec := concat sp in
      let stars := length (fst (span (N.eqb 42) spec)) in
      match skipn stars spec with
      | 91%N :: tl => if forallb (N.eqb 123) tl then (Some stars, S stars) else (None, 0)
      | _ => (None, 0)
      end
  end.
Definition legacy_view (a : option pargs) : option node * list (option node) :=
  let l := argn_of a in
  match legacy_idx a with
  | (Some i, off) => (match nth_error l i with Some x => x | None => None end, skipn off l)
  | (None, off) => (None, skipn off l)
  end.

Definition is_bare_macro (o : option node) : option str :=
  match o with
  | Some (NMacro _ _ _ _ post a) =>
      match legacy_view a with
      | (None, []) => Some post
      | _ => None
      end
  | _ => None
  end.

Definition is_chars (o : option node) : bool := match o with Some (NChars _ _ _ _) => true | _ => false end.

Section L2T.
  Variable src : str.           (* the source string ([latex_verbatim]) *)
  Variable lt : l2tctx.
  Variable cx : context.        (* the latexwalker database the tree was parsed with (slot counts) *)
  Variable o : opts.

  Definition nslots_of (sp : option cspec) : nat :=
    match sp with
    | Some s0 => match sp_args s0 with
                 | APStd l => length l
                 | APLegacy LVerbMacro => 1
                 | APLegacy (LVerbEnv _ optarg) => if optarg then 2 else 1
                 end
    | None => 0
    end.

  Definition nfc_accent (ch comb : N) : str :=
    let ch' := if N.eqb ch 305 then 105%N else if N.eqb ch 567 then 106%N else ch in
    match (fix find (l : list (N * N * str)) :=
             match l with
             | [] => None
             | (b, c, r) :: tl => if N.eqb b ch' && N.eqb c comb then Some r else find tl
             end) (lt_nfc lt) with
    | Some r => r
    | None => [ch'; comb]
    end.

  Definition upper_char (c : N) : str :=
    if (97 <=? c)%N && (c <=? 122)%N then [(c - 32)%N]
    else match (fix find (l : list (N * str)) :=
                  match l with [] => None | (b, r) :: tl => if N.eqb b c then Some r else find tl end)
               (lt_upper lt) with
         | Some r => r
         | None => [c]
         end.
  Definition py_upper (x : str) : str := flat_map upper_char x.

  Definition style_char (style : nat) (c : N) : N :=
    match (fix find (l : list (nat * (N * N) * list (N * N))) :=
             match l with
             | [] => None
             | (st, offs, exc) :: tl => if Nat.eqb st style then Some (offs, exc) else find tl
             end) (lt_styles lt) with
    | None => c
    | Some ((up, lo), exc) =>
        match (fix fe (l : list (N * N)) := match l with [] => None | (a, b) :: tl => if N.eqb a c then Some b else fe tl end) exc with
        | Some z => z
        | None => if (65 <=? c)%N && (c <=? 90)%N then (up + c - 65)%N
                  else if (97 <=? c)%N && (c <=? 122)%N then (lo + c - 97)%N else c
        end
    end.

  (** [x.strip()] applied, then each character accented *)
  Definition accent_text (comb : N) (argtext : option str) : str :=
    match argtext with
    | Some t => flat_map (fun ch => nfc_accent ch comb) (py_strip t)
    | None => nfc_accent 32 comb
    end.

  Fixpoint node_text (sl : sls) (st : dstate) (n : node) {struct n} : str * dstate :=
    (* [nodelist_to_text] over the items of a list *)
    let items_text :=
        fix it (sl : sls) (st : dstate) (prev : option node) (l : list (option node)) {struct l} : str * dstate :=
          match l with
          | [] => ([], st)
          | x :: r =>
              let pre := match is_bare_macro prev with
                         | Some post => if is_chars x && negb (s_bmc sl) then post else []
                         | None => [] end in
              let '(t1, st1) := match x with Some nn => node_text sl st nn | None => ([], st) end in
              let '(t2, st2) := it sl st1 x r in
              (pre ++ t1 ++ t2, st2)
          end in
    (* [nodelist_to_text(x)] for a body / list object *)
    let body_text := fun (sl : sls) (st : dstate) (b : option node) =>
        match b with
        | None => ([], st)
        | Some (NList _ _ items) => items_text sl st None items
        | Some _ => ([], set_err st 1)                  (* iterating a node: TypeError *)
        end in
    (* [_groupnodecontents_to_text] *)
    let arg_text := fun (sl : sls) (st : dstate) (a : option node) =>
        match a with
        | None => ([], st)
        | Some (NList _ _ items) => items_text sl st None items
        | Some (NGroup _ _ _ _ _ b) => body_text sl st b
        | Some nn => node_text sl st nn
        end in
    (* [nodelist_to_text([x])] for one argument node *)
    let single_text := fun (sl : sls) (st : dstate) (a : option node) =>
        match a with
        | None => ([], st)
        | Some nn => node_text sl st nn
        end in
    let args_texts :=
        fix at_ (sl : sls) (st : dstate) (l : list (option node)) {struct l} : list str * dstate :=
          match l with
          | [] => ([], st)
          | a :: r => let '(t, st1) := arg_text sl st a in
                      let '(ts, st2) := at_ sl st1 r in (t :: ts, st2)
          end in
    let args_singles :=
        fix as_ (sl : sls) (st : dstate) (l : list (option node)) {struct l} : list str * dstate :=
          match l with
          | [] => ([], st)
          | a :: r => let '(t, st1) := single_text sl st a in
                      let '(ts, st2) := as_ sl st1 r in (t :: ts, st2)
          end in
    let atexts := fun (sl : sls) (st : dstate) (args : option pargs) =>
        match args with Some (_, l) => args_texts sl st l | None => ([], st) end in
    let asingles := fun (sl : sls) (st : dstate) (args : option pargs) =>
        match args with Some (_, l) => args_singles sl st l | None => ([], st) end in
    (* [math_node_to_text] for a math node or a math environment *)
    let math_text := fun (sl : sls) (st : dstate) (is_env : bool) (display : bool) (p e : nat)
                         (dl dr : str) (b : option node) =>
        let block := is_env || display in
        match o_math o with
        | MMVerbatim => (if block then indented_block (slice src p e) [] else slice src p e, st)
        | MMRemove => ([], st)
        | MMWithDelims =>
            let '(c, st1) := body_text (push_eq sl) st b in
            let c := py_strip c in
            (if block then dl ++ indented_block c [] ++ dr else dl ++ c ++ dr, st1)
        | MMText =>
            let '(c, st1) := body_text (push_eq sl) st b in
            let c := py_strip c in
            (if block then indented_block c indent4 else c, st1)
        end in
    (* [apply_simplify_repl] for a string replacement *)
    let str_repl := fun (sl : sls) (st : dstate) (tmpl : str) (args : option pargs) (nslots : nat)
                        (env_body : option (option node)) =>
        if mem_c 37 tmpl && negb (Nat.eqb (length tmpl) 1) then
          let al := argn_of args in
          let pad (ts : list str) := ts ++ repeat [] (nslots - length ts) in   (* missing slots render as '' *)
          match parse_fmt (S (length tmpl)) tmpl with
          | None => (tmpl, st)
          | Some items =>
              let pos := existsb (fun i => match i with FPos => true | _ => false end) items in
              match env_body with
              | Some b =>
                  if pos then
                    let '(bt, st1) := body_text sl st b in
                    (match fmt_tuple items [bt] with Some r => r | None => tmpl end, st1)
                  else
                    let '(ts0, st1) := atexts sl st args in
                    let ts := pad ts0 in
                    let '(bt, st2) := body_text sl st1 b in
                    let d := (combine (map (fun i => key_of_nat (S i)) (seq 0 (length ts))) ts)
                             ++ [([98;111;100;121]%N, bt)] in
                    (match fmt_dict items d with Some r => r | None => tmpl end, st2)
              | None =>
                  let '(ts0, st1) := atexts sl st args in
                  let ts := pad ts0 in
                  if pos then (match fmt_tuple items ts with Some r => r | None => tmpl end, st1)
                  else
                    let d := combine (map (fun i => key_of_nat (S i)) (seq 0 (length ts))) ts in
                    (match fmt_dict items d with Some r => r | None => tmpl end, st1)
              end
          end
        else (tmpl, st) in
    (* the replacement callables; [r if r else ''].  The texts of all argument nodes are computed
       first, in list order (each both as [nodelist_to_text([arg])] and as group contents), and the
       callable picks the ones it uses. *)
    let call_repl := fun (sl : sls) (st : dstate) (c : callable) (nn : node) (args : option pargs)
                         (body : option node) =>
        let al := argn_of args in
        let '(optidx, off) := legacy_idx args in
        let nth_s (ts : list str) (k : nat) : str := nth k ts [] in
        match c with
        | CConst x => (x, st)
        | CAccent comb =>
            (* [make_accented_char]: [l2tobj._groupnodecontents_to_text(nodearg)] -- the CONTENTS of a
               group argument (never its braces), a single-token argument as [node_to_text] *)
            let '(ss, st1) := atexts sl st args in
            if Nat.ltb off (length al) then (accent_text comb (Some (nth_s ss off)), st1)
            else (accent_text comb None, st)
        | CMathStyle style =>
            let '(ts, st1) := atexts sl st args in (map (style_char style) (nth_s ts 0), st1)
        | CItem =>
            match optidx with
            | Some i => match nth_error al i with
                        | Some (Some _) => let '(ss, st1) := asingles sl st args in
                                           ((10%N :: 32%N :: 32%N :: nth_s ss i), st1)
                        | _ => ([10; 32; 32; 42; 32]%N, st)
                        end
            | None => ([10; 32; 32; 42; 32]%N, st)
            end
        | CHref =>
            let '(ss, st1) := asingles sl st args in
            (nth_s ss 1 ++ [32; 60]%N ++ nth_s ss 0 ++ [62%N], st1)
        | CSection prefix up =>
            let '(ts, st1) := atexts sl st args in
            let t2 := nth_s ts 2 in
            ([10; 10]%N ++ prefix ++ (if up then py_upper t2 else t2) ++ [10%N], st1)
        | CSetTitle => let '(ss, st1) := asingles sl st args in
            ([], {| d_title := Some (nth_s ss 0); d_author := d_author st1; d_date := d_date st1; d_err := d_err st1 |})
        | CSetAuthor => let '(ss, st1) := asingles sl st args in
            ([], {| d_title := d_title st1; d_author := Some (nth_s ss 0); d_date := d_date st1; d_err := d_err st1 |})
        | CSetDate => let '(ss, st1) := asingles sl st args in
            ([], {| d_title := d_title st1; d_author := d_author st1; d_date := Some (nth_s ss 0); d_err := d_err st1 |})
        | CMakeTitle today =>
            let ti := match d_title st with Some x => x
                      | None => [91;78;79;32;92;116;105;116;108;101;32;71;73;86;69;78;93]%N end in
            let au := match d_author st with Some x => x
                      | None => [91;78;79;32;92;97;117;116;104;111;114;32;71;73;86;69;78;93]%N end in
            let da := match d_date st with Some x => x | None => today end in
            let w := Nat.max (length ti) (Nat.max (4 + length au) (4 + length da)) in
            (ti ++ [10%N] ++ indent4 ++ au ++ [10%N] ++ indent4 ++ da ++ [10%N]
             ++ repeat_str [61%N] w ++ [10; 10]%N, st)
        | CUebung =>
            let '(ss, st1) := asingles sl st args in
            match nth_error al 1 with
            | Some (Some _) => ([10%N] ++ nth_s ss 0 ++ [10%N] ++ [91%N] ++ nth_s ss 1 ++ [93; 10]%N, st1)
            | _ => ([10%N] ++ nth_s ss 0 ++ [10%N], st1)
            end
        | CTexorpdf =>
            let '(ss, st1) := asingles sl st args in (nth_s ss (S off), st1)
        | CInput => ([], st)                    (* no input directory: read_input_file returns '' *)
        | CEqEnv =>
            match nn with
            | NEnv p e _ nm _ b =>
                math_text sl st true false p e
                          ([92;98;101;103;105;110;123]%N ++ nm ++ [125%N])
                          ([92;101;110;100;123]%N ++ nm ++ [125%N]) b
            | _ => ([], set_err st 2)
            end
        | CPlaceholder txt block =>
            (if block then indented_block txt indent4 else 32%N :: txt ++ [32%N], st)
        | CMatrix =>
            (* [fmt_matrix_environment_node]: cells are [nodelist_to_text(buffer).strip()] *)
            let flush_col := fun (cur : option str) (cols : list str) =>
                match cur with Some c0 => cols ++ [py_strip c0] | None => cols end in
            let go :=
                fix go (st : dstate) (l : list (option node)) (cur : option str) (prev : option node)
                       (cols : list str) (rows : list (list str)) {struct l} : list (list str) * dstate :=
                  match l with
                  | [] => (rows ++ [flush_col cur cols], st)
                  | None :: r => go st r cur prev cols rows
                  | Some (NSpecials _ _ _ [38%N] _) :: r => go st r None None (flush_col cur cols) rows
                  | Some (NMacro _ _ _ [92%N] _ _) :: r => go st r None None [] (rows ++ [flush_col cur cols])
                  | Some x :: r =>
                      let pre := match is_bare_macro prev with
                                 | Some post => if is_chars (Some x) && negb (s_bmc sl) then post else []
                                 | None => [] end in
                      let '(t1, st1) := node_text sl st x in
                      go st1 r (Some ((match cur with Some c0 => c0 | None => [] end) ++ pre ++ t1)) (Some x) cols rows
                  end in
            let render := fun (rows : list (list str)) =>
                let w := fold_left Nat.max (map (fun x : str => length x) (concat rows)) 0 in
                [91; 32]%N ++ join [59; 32]%N (map (fun row => join [32%N] (map (fun x => rjust x w) row)) rows)
                ++ [32; 93]%N in
            match body with
            | Some (NList _ _ l) => let '(rows, st1) := go st l None None [] [] in (render rows, st1)
            | _ => (render [[]], st)
            end
        end in
    let generic := fun (sl : sls) (st : dstate) (ts : option tspec) (default_discard : bool) (nn : node)
                       (args : option pargs) (nslots : nat) (env_body : option (option node)) =>
        let rp := match ts with Some t => t_repl t | None => RNone end in
        let disc := match ts with Some t => t_discard t | None => default_discard end in
        match rp with
        | RCall c => call_repl sl st c nn args (match env_body with Some b => b | None => None end)
        | RStr ((_ :: _) as tmpl) => str_repl sl st tmpl args nslots env_body
        | _ =>
            if disc then ([], st)
            else match env_body with
                 | Some b => body_text sl st b
                 | None => let '(ts', st1) := atexts sl st args in (concat ts', st1)
                 end
        end in
    match n with
    | NChars _ _ _ c =>
        (if negb (s_blc sl) && is_blank c then [] else c, st)
    | NComment _ _ _ c ps =>
        if o_keep_comments o then
          if s_ac sl then (37%N :: c ++ (match ps with [] => [] | _ => [10%N] end), st)
          else (37%N :: c ++ ps, st)
        else (if s_ac sl then [] else ps, st)
    | NGroup _ _ _ dl dr b =>
        let '(c, st1) := body_text sl st b in
        (if o_kbg o && Nat.leb (o_kbg_minlen o) (length c) then dl ++ c ++ dr else c, st1)
    | NMacro _ _ _ nm _ a =>
        generic sl st (assoc (lt_macros lt) nm) true n a (nslots_of (get_macro_spec cx nm)) None
    | NEnv _ _ _ nm a b =>
        generic sl st (assoc (lt_envs lt) nm) false n a (nslots_of (get_env_spec cx nm)) (Some b)
    | NSpecials _ _ _ ch a =>
        match assoc (lt_specials lt) ch with
        | None => (ch, st)
        | Some t => generic sl st (Some t) true n a (nslots_of (get_specials_spec cx ch)) None
        end
    | NMath p e _ d dl dr b => math_text sl st false d p e dl dr b
    | NList _ _ items => items_text sl st None items
    end.

  (** [nodelist_to_text(nodelist)] for the object returned by the parser *)
  Definition l2t_nodes (root : option node) : str * dstate :=
    match root with
    | None => ([], d0)
    | Some r => node_text (o_sls o) d0 r
    end.
End L2T.
