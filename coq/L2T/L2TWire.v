(** Wire decoding of latex2text options and the text entry points. *)
From Coq Require Import NArith ZArith List Bool Arith.
From PLV Require Import Base.PyStr Base.Wire Tok.TokWire Parse.Nodes Parse.Parser Parse.ParseWire L2T.L2T.
From PLV Require Gen.GenWalkerCtx Gen.GenL2TCtx.
Import ListNotations.

Definition rd_mathmode : rd mathmode :=
  fun l => match l with
           | 0%Z :: r => Some (MMText, r) | 1%Z :: r => Some (MMWithDelims, r)
           | 2%Z :: r => Some (MMVerbatim, r) | 3%Z :: r => Some (MMRemove, r) | _ => None end.
Definition rd_ineq : rd ineqspec :=
  fun l => match l with
           | 0%Z :: r => Some (INone, r) | 1%Z :: r => Some (IAllTrue, r) | 2%Z :: r => Some (IBos, r)
           | 3%Z :: r => Some (IMacros, r) | 4%Z :: r => Some (IExcept, r) | _ => None end.
Definition rd_sls : rd sls :=
  bind rd_bool (fun a => bind rd_bool (fun b => bind rd_bool (fun c => bind rd_ineq (fun i =>
  ret {| s_bmc := a; s_blc := b; s_ac := c; s_ineq := i |})))).
Definition rd_opts : rd opts :=
  bind rd_mathmode (fun m => bind rd_bool (fun kc => bind rd_sls (fun sl => bind rd_bool (fun kb =>
  bind rd_nat (fun ml =>
  ret {| o_math := m; o_keep_comments := kc; o_sls := sl; o_kbg := kb; o_kbg_minlen := ml |}))))).

Definition show_text (r : str * dstate) : str :=
  match d_err (snd r) with
  | Some k => [101;120;110;32]%N ++ show_nat k
  | None => [111;107;32]%N ++ show_str (fst r)
  end.

(** sub 0: options ; source ; tree  (tree produced by the REAL parser) *)
Definition entry_l2t_tree (inp : list Z) : list Z :=
  match bind rd_opts (fun o => bind rd_str (fun s => bind rd_tree (fun t => ret (o, s, t)))) inp with
  | Some ((o, s, t), _) =>
      to_wire (show_text (l2t_nodes s Gen.GenL2TCtx.default_l2tctx Gen.GenWalkerCtx.default_ctx o t))
  | None => bad_input
  end.

(** [LatexNodes2Text(options).latex_to_text(s, tolerant_parsing=tol)] with the default databases *)
Definition latex_to_text (o : opts) (s : str) (tol : bool) : option (str * dstate) :=
  let cx := Gen.GenWalkerCtx.default_ctx in
  match parse_top s tol cx (walker_state cx) with
  | Ok (ONode t) _ => Some (l2t_nodes s Gen.GenL2TCtx.default_l2tctx cx o t)
  | _ => None
  end.

(** sub 1: options ; source ; tolerant *)
Definition entry_l2t_e2e (inp : list Z) : list Z :=
  match bind rd_opts (fun o => bind rd_str (fun s => bind rd_bool (fun tol => ret (o, s, tol)))) inp with
  | Some ((o, s, tol), _) =>
      match latex_to_text o s tol with
      | Some r => to_wire (show_text r)
      | None => to_wire [112;97;114;115;101;45;101;114;114]%N          (* parse-err *)
      end
  | None => bad_input
  end.
