(** Model of the pylatexenc-3 parser stack: [LatexNodesCollector]
    (latexnodes/_nodescollector.py), [LatexGeneralNodesParser], the delimited
    group / math / environment-body parsers, [LatexExpressionParser], the
    optional-chars (star) parser, the standard argument parser, the delimited
    verbatim parser, [LatexArgumentsParser], the macro / environment / specials
    call parsers, the legacy verbatim arguments parsers, and
    [LatexWalker.parse_content] with its tolerant-mode recovery.

    One fuelled [run] over a task sum type; every recursive call is on
    [fuel'].  Exceptions used as control flow are result constructors:
    [PErr] = LatexWalkerParseError (with the recovery payload and the reader
    position at the time it was raised), [REOS] = LatexWalkerEndOfStream
    escaping a parser. *)
From Coq Require Import NArith ZArith List Bool Arith.
From PLV Require Import Base.PyStr Tok.PState Tok.Tokenizer Parse.Nodes.
Import ListNotations.

(** * Context database as the parser sees it *)
Inductive adelta := ADNone | ADEnterMath | ADLeaveMath.

Inductive argkind :=
| AKExpr (aps : bool)                           (* '{' 'm' *)
| AKGroup (o c : str) (optional aps : bool)     (* '[' 'o' 'r<..>' 'd<..>' *)
| AKChars (ch : str) (aps full_list : bool)     (* '*' 's' 't<c>' *)
| AKVerb (d : option (str * str)).              (* 'v' 'v<..>' *)

Record argspec := { a_spec : str; a_kind : argkind; a_delta : adelta }.

Inductive legacy_kind :=
| LVerbMacro                                    (* \verb *)
| LVerbEnv (name : str) (optarg : bool).        (* verbatim ; lstlisting (with '[') *)

Inductive argsparser :=
| APStd (l : list argspec)
| APLegacy (k : legacy_kind).

Record cspec := { sp_args : argsparser; sp_body_math : bool }.

Record context := {
  cx_macros : list (str * cspec);
  cx_envs : list (str * cspec);
  cx_specials : list (str * cspec);
  cx_unk_macro : option cspec;
  cx_unk_env : option cspec;
}.

Fixpoint assoc {A} (l : list (str * A)) (k : str) : option A :=
  match l with
  | [] => None
  | (k', v) :: r => if str_eqb k' k then Some v else assoc r k
  end.

Definition get_macro_spec (cx : context) (nm : str) : option cspec :=
  match assoc (cx_macros cx) nm with Some sp => Some sp | None => cx_unk_macro cx end.
Definition get_env_spec (cx : context) (nm : str) : option cspec :=
  match assoc (cx_envs cx) nm with Some sp => Some sp | None => cx_unk_env cx end.
Definition get_specials_spec (cx : context) (ch : str) : option cspec := assoc (cx_specials cx) ch.

(** * Results *)
Record perr := {
  pe_pos : option nat;                 (* .pos *)
  pe_what : nat;                       (* which raise site (diagnostic only) *)
  pe_nodes : option node;              (* recovery_nodes *)
  pe_has_nodes_attr : bool;            (* LatexWalkerNodesParseError (has the recovery attributes) *)
  pe_at : option token;                (* recovery_at_token *)
  pe_past : option token;              (* recovery_past_token *)
}.

Inductive res (A : Type) :=
| Ok (a : A) (pos : nat)               (* value, reader position afterwards *)
| PErr (e : perr) (pos : nat)          (* parse error, reader position when it was raised *)
| REOS (pos : nat)                     (* LatexWalkerEndOfStream escaping *)
| RExn (k : nat)                       (* any other exception class *)
| OutOfFuel.
Arguments Ok {A}. Arguments PErr {A}. Arguments REOS {A}. Arguments RExn {A}. Arguments OutOfFuel {A}.

Definition mkerr (pos : option nat) (what : nat) (nodes : option node) (isn : bool)
                 (at_ past : option token) : perr :=
  {| pe_pos := pos; pe_what := what; pe_nodes := nodes; pe_has_nodes_attr := isn;
     pe_at := at_; pe_past := past |}.

(** * Parsing-state helpers *)
Definition ps_mode (ps : pstate) : nmode :=
  {| in_math := f_in_math (ps_f ps); math_delim := f_math_delim (ps_f ps) |}.
Definition ps_enter_math (ps : pstate) (d : option str) : pstate :=
  sub_context ps [UInMath true; UMathDelim d].
Definition ps_leave_math (ps : pstate) : pstate :=
  sub_context ps [UInMath false; UMathDelim None].
Definition apply_adelta (ps : pstate) (d : adelta) : pstate :=
  match d with
  | ADNone => ps
  | ADEnterMath => ps_enter_math ps None
  | ADLeaveMath => ps_leave_math ps
  end.
Definition pair_in (o c : str) (d : delims) : bool :=
  existsb (fun pr : str * str => str_eqb (fst pr) o && str_eqb (snd pr) c) d.
(** [LatexDelimitedGroupParserInfo.get_group_parsing_state] for a delimiter pair *)
Definition ps_add_group (ps : pstate) (o c : str) : pstate :=
  if pair_in o c (f_group_delims (ps_f ps)) then ps
  else sub_context ps [UGroupDelims (f_group_delims (ps_f ps) ++ [(o, c)])].
(** [dict(latex_group_delimiters)[open]] *)
Definition group_close_of (ps : pstate) (o : str) : option str :=
  dict_get (f_group_delims (ps_f ps)) o.

(** * Stop conditions and child-state policies of a nodes collector *)
Inductive stopcond :=
| SNone
| SBraceClose (c : str)
| SMathClose (k : tokkind) (c : str)
| SEndEnv (name : str)
| SLegacy (brace : option str) (env : option str) (math : option str).   (* get_latex_nodes *)

Inductive nlstop :=                                (* stop_nodelist_condition *)
| NLNone
| NLMax (n : nat)                                 (* read_max_nodes *)
| NLSingle (stop_on_comment : bool).              (* LatexSingleNodeParser *)

Inductive childpol :=
| CPSelf                                         (* no function / base info without child delta: the collector's state *)
| CPGroup (contents orig : pstate) (odelim : str). (* LatexDelimitedGroupParserInfo.make_child_parsing_state *)

Definition stop_matches (st : stopcond) (t : token) : bool :=
  match st with
  | SNone => false
  | SBraceClose c => tokkind_eqb (tk t) TkBraceClose && str_eqb (targ t) c
  | SMathClose k c => tokkind_eqb (tk t) k && str_eqb (targ t) c
  | SEndEnv n => tokkind_eqb (tk t) TkEndEnv && str_eqb (targ t) n
  | SLegacy b e m =>
      (match b with Some c => tokkind_eqb (tk t) TkBraceClose && str_eqb (targ t) c | None => false end)
      || (match e with Some n => tokkind_eqb (tk t) TkEndEnv && str_eqb (targ t) n | None => false end)
      || (match m with Some d => (tokkind_eqb (tk t) TkMathInline || tokkind_eqb (tk t) TkMathDisplay)
                                 && str_eqb (targ t) d | None => false end)
  end.
Definition stop_is_none (st : stopcond) : bool := match st with SNone => true | _ => false end.

Definition is_comment (o : option node) : bool :=
  match o with Some (NComment _ _ _ _ _) => true | _ => false end.
Definition nl_stop_met (c : nlstop) (nl : list (option node)) : bool :=
  match c with
  | NLNone => false
  | NLMax n => Nat.leb n (length nl)
  | NLSingle soc =>
      Nat.leb 1 (length (if soc then nl else filter (fun o => negb (is_comment o)) nl))
  end.
Definition nlstop_is_none (c : nlstop) : bool := match c with NLNone => true | _ => false end.

(** * Tasks *)
Record collstate := {
  cs_acc : list (option node);          (* _nodelist, in order *)
  cs_pend : str;                        (* _pending_chars *)
  cs_ppos : option nat;                 (* _pending_chars_pos *)
}.
Definition cs_empty : collstate := {| cs_acc := []; cs_pend := []; cs_ppos := None |}.

Record genopts := {
  g_stop : stopcond;
  g_nl : nlstop;
  g_require : bool;                     (* require_stop_condition_met *)
  g_child : childpol;
  g_incl_pre : bool;                    (* include_stop_token_pre_space_chars *)
  g_handle_stop : bool;                 (* handle_stop_condition_token = move past it *)
}.

Inductive gdelims := GDNone | GDStr (o : str) | GDPair (o c : str).

Inductive task :=
| TCollect (ps : pstate) (o : genopts) (st : collstate) (pos : nat)       (* collector loop *)
| TGeneral (ps : pstate) (o : genopts) (pos : nat)                         (* LatexGeneralNodesParser.parse *)
| TGroup (ps : pstate) (d : gdelims) (optional aps : bool) (pos : nat)     (* LatexDelimitedGroupParser.parse *)
| TMath (ps : pstate) (d : str) (pos : nat)                                (* LatexMathParser.parse *)
| TEnvBody (ps : pstate) (name : str) (pos : nat)                          (* LatexEnvironmentBodyContentsParser.parse *)
| TExpr (ps : pstate) (aps apc full sterr : bool) (acc : list (option node)) (pos : nat)  (* LatexExpressionParser.parse loop *)
| TChars (ps : pstate) (ch : str) (aps full : bool) (pos : nat)            (* LatexOptionalCharsMarkerParser, max_num_args=1 *)
| TVerbDelim (ps : pstate) (d : option (str * str)) (pos : nat)            (* LatexDelimitedVerbatimParser.parse *)
| TStdArg (ps : pstate) (k : argkind) (pos : nat)                          (* LatexStandardArgumentParser.parse *)
| TArgs (ps : pstate) (specs : list argspec) (acc : list (option node)) (pos : nat)   (* LatexArgumentsParser.parse loop *)
| TLegacyArgs (ps : pstate) (k : legacy_kind) (pos : nat)                  (* _LegacyPyltxenc2MacroArgsParserWrapper.parse *)
| TCall (ps : pstate) (t : token) (sp : cspec) (pos : nat).                (* macro / environment / specials call parser *)

Inductive out :=
| ONode (n : option node)                            (* (nodes, None) *)
| OColl (st : collstate) (stopped : option token) (nlmet eos : bool)   (* collector finished *)
| OArgs (a : option pargs).

Section Parser.
  Variable s : str.
  Variable tol : bool.
  Variable cx : context.

  Definition rd_at (p : nat) : reader := {| r_s := s; r_pos := p; r_tol := tol |}.

  (** [next_token] as a plain result; token errors only exist in strict mode *)
  Definition next_tok (ps : pstate) (p : nat) : tokres := fst (next_token ps (rd_at p)).
  Definition peek_tok (ps : pstate) (p : nat) : tokres := fst (peek_token ps (rd_at p)).

  Definition tokerr_perr (e : tokerr) : perr :=
    mkerr (Some (te_pos e)) 1 None false None None.

  (** [LatexWalker.parse_content]: EOS becomes [(None, None)]; a parse error
      propagates in strict mode and is recovered from in tolerant mode (fix
      30e0a63): recovery nodes, reader moved to / past the recovery token. *)
  Definition parse_content (x : res out) : res out :=
    match x with
    | REOS p => Ok (ONode None) p
    | PErr e p =>
        if tol then
          let p' := match pe_at e with
                    | Some t => tpos t - length (tpre t)
                    | None => match pe_past e with Some t => tend t | None => p end
                    end in
          Ok (ONode (pe_nodes e)) p'
        else PErr e p
    | y => y
    end.
  (** arguments parsers return a ParsedArguments object, not nodes: a recovered
      error yields [None] there *)
  Definition parse_content_args (x : res out) : res out :=
    match parse_content x with
    | Ok (ONode None) p => Ok (OArgs None) p
    | Ok (ONode (Some _)) p => Ok (OArgs None) p       (* unreachable: args errors carry no nodes *)
    | y => y
    end.

  (** [check_tolerant_parsing_ignore_error]: raise in strict mode, go on in tolerant *)
  Definition mk_chars (ps : pstate) (p e : nat) (c : str) : node := NChars p e (ps_mode ps) c.

  (** [flush_pending_chars] + [push_to_nodelist] (the stop-condition check is done by the caller) *)
  Definition flush (ps : pstate) (st : collstate) : collstate :=
    match cs_pend st with
    | [] => st
    | _ =>
        let p0 := match cs_ppos st with Some p => p | None => 0 end in
        {| cs_acc := cs_acc st ++ [Some (mk_chars ps p0 (p0 + length (cs_pend st)) (cs_pend st))];
           cs_pend := []; cs_ppos := None |}
    end.
  Definition push_pending (st : collstate) (c : str) (p : nat) : collstate :=
    {| cs_acc := cs_acc st; cs_pend := cs_pend st ++ c;
       cs_ppos := match cs_ppos st with Some q => Some q | None => Some p end |}.
  Definition push_node (st : collstate) (n : option node) : collstate :=
    {| cs_acc := cs_acc st ++ [n]; cs_pend := cs_pend st; cs_ppos := cs_ppos st |}.

  Definition child_state (o : genopts) (coll_ps : pstate) (t : token) : pstate :=
    match g_child o with
    | CPSelf => coll_ps
    | CPGroup contents orig od =>
        if tokkind_eqb (tk t) TkBraceOpen && str_eqb (targ t) od then contents else orig
    end.

  (** [collector.pos_start()] *)
  Definition coll_pos_start (st : collstate) : option nat :=
    match first_pos (cs_acc st) with
    | Some p => Some p
    | None => match (fix anysome (l : list (option node)) :=
                       match l with [] => false | Some _ :: _ => true | None :: r => anysome r end)
                    (cs_acc st) with
              | true => None       (* first non-None node has pos None: cannot happen for nodes *)
              | false => cs_ppos st
              end
    end.

  Definition mode_of_tok (t : token) : bool :=
    tokkind_eqb (tk t) TkMathInline || tokkind_eqb (tk t) TkMathDisplay.

  Definition by_open_has (ps : pstate) (d : str) : bool :=
    match dict_get (c_math_by_open (ps_c ps)) d with Some _ => true | None => false end.

  (** the string found by [s.find(sub, pos)] *)
  Definition sfind (sub : str) (p : nat) : option nat := find_from s sub p.

  Fixpoint run (fuel : nat) (t : task) : res out :=
    match fuel with
    | O => OutOfFuel
    | S fuel' =>
    match t with
    (* ------------------------------------------------------------------ *)
    | TCollect ps o st pos =>
      (* one iteration of [process_tokens]'s loop; [finalize] = flush on every exit path *)
      let finish (st' : collstate) (stopped : option token) (nlmet eos : bool) (p : nat) : res out :=
          Ok (OColl st' stopped nlmet eos) p in
      (* push a node, then check the node-list stop condition *)
      let push_check (st' : collstate) (n : option node) (p_if_stop p_next : nat) : res out :=
          let st2 := push_node st' n in
          if nl_stop_met (g_nl o) (cs_acc st2) then finish st2 None true false p_if_stop
          else run fuel' (TCollect ps o st2 p_next) in
      match next_tok ps pos with
      | TokErr e =>
          (* strict only; [finally: finalize()] flushes the pending chars *)
          PErr (mkerr (Some (te_pos e)) 1 (Some (NList None None (cs_acc (flush ps st)))) false None None) pos
      | TokEOS fin =>
          match fin with
          | _ :: _ =>
              (* zero-width char token carrying the final space *)
              run fuel' (TCollect ps o (push_pending st fin pos) (pos + length fin))
          | [] =>
              let st' := flush ps st in
              (* the flush in [finalize] may itself meet the node-list stop condition
                 (fix 484c9a0: that is a normal stop) *)
              let nlmet := negb (Nat.eqb (length (cs_acc st')) (length (cs_acc st)))
                           && nl_stop_met (g_nl o) (cs_acc st') in
              finish st' None nlmet true pos
          end
      | TokOk t =>
          if stop_matches (g_stop o) t then
            let st1 := if g_incl_pre o then push_pending st (tpre t) (tpos t - length (tpre t)) else st in
            let p' := if g_incl_pre o then tpos t else tpos t - length (tpre t) in
            let st2 := flush ps st1 in
            let nlmet := negb (Nat.eqb (length (cs_acc st2)) (length (cs_acc st1)))
                         && nl_stop_met (g_nl o) (cs_acc st2) in
            finish st2 (Some t) nlmet false p'
          else
          match tk t with
          | TkChar =>
              run fuel' (TCollect ps o (push_pending st (tpre t ++ targ t) (tpos t - length (tpre t))) (tend t))
          | _ =>
            (* whitespace before a non-char token *)
            let pre_result : collstate * bool :=
                match cs_pend st with
                | _ :: _ =>
                    let st1 := flush ps {| cs_acc := cs_acc st; cs_pend := cs_pend st ++ tpre t;
                                           cs_ppos := cs_ppos st |} in
                    (st1, nl_stop_met (g_nl o) (cs_acc st1))
                | [] =>
                    match tpre t with
                    | _ :: _ =>
                        let st1 := push_node st (Some (mk_chars ps (tpos t - length (tpre t)) (tpos t) (tpre t))) in
                        (st1, nl_stop_met (g_nl o) (cs_acc st1))
                    | [] => (st, false)
                    end
                end in
            let st1 := fst pre_result in
            if snd pre_result then finish st1 None true false (tpos t)
            else
            let t0 := mk (tk t) (targ t) (tpos t) (tend t) [] (tpost t) in   (* tok.pre_space = '' *)
            let fail (what : nat) : res out :=
                PErr (mkerr (Some (tpos t)) what (Some (NList None None (cs_acc (flush ps st1)))) true None (Some t0))
                     (tend t) in
            match tk t with
            | TkBraceClose => fail 2
            | TkEndEnv => fail 3
            | TkComment =>
                push_check st1 (Some (NComment (tpos t) (tend t) (ps_mode ps) (targ t) (tpost t))) (tend t) (tend t)
            | TkBraceOpen =>
                match parse_content (run fuel' (TGroup (child_state o ps t) (GDStr (targ t)) false false (tpos t))) with
                | Ok (ONode n) p => push_check st1 n p p
                | Ok _ p => RExn 9
                | PErr e p => PErr e p | REOS p => REOS p | RExn k => RExn k | OutOfFuel => OutOfFuel
                end
            | TkMathInline | TkMathDisplay =>
                if negb (by_open_has ps (targ t)) then fail 4 else
                match parse_content (run fuel' (TMath (child_state o ps t) (targ t) (tpos t))) with
                | Ok (ONode (Some n)) p => push_check st1 (Some n) p p
                | Ok (ONode None) p => run fuel' (TCollect ps o st1 p)
                | Ok _ p => RExn 9
                | PErr e p => PErr e p | REOS p => REOS p | RExn k => RExn k | OutOfFuel => OutOfFuel
                end
            | TkMacro | TkBeginEnv | TkSpecials =>
                let spec := match tk t with
                            | TkMacro => get_macro_spec cx (targ t)
                            | TkBeginEnv => get_env_spec cx (targ t)
                            | _ => get_specials_spec cx (targ t)
                            end in
                match spec with
                | None =>
                    (* unknown name and no fallback spec: error, ignored (node dropped) in tolerant mode *)
                    if tol then run fuel' (TCollect ps o st1 (tend t))
                    else PErr (mkerr (Some (tpos t)) 5 (Some (NList None None (cs_acc (flush ps st1)))) false None None) (tend t)
                | Some sp =>
                    match parse_content (run fuel' (TCall (child_state o ps t) t0 sp (tend t))) with
                    | Ok (ONode (Some n)) p => push_check st1 (Some n) p p
                    | Ok (ONode None) p => run fuel' (TCollect ps o st1 p)
                    | Ok _ p => RExn 9
                    | PErr e p => PErr e p | REOS p => REOS p | RExn k => RExn k | OutOfFuel => OutOfFuel
                    end
                end
            | TkChar => RExn 9
            end
          end
      end
    (* ------------------------------------------------------------------ *)
    | TGeneral ps o pos =>
      match run fuel' (TCollect ps o cs_empty pos) with
      | Ok (OColl st stopped nlmet eos) p =>
          let nl := mk_nodelist None None (cs_acc st) in
          let nl := match nl with
                    | NList a b items => NList (match a with Some _ => a | None => Some pos end)
                                               (match b with Some _ => b | None => Some pos end) items
                    | x => x end in
          let met :=
              if negb (g_require o) then true
              else if negb (stop_is_none (g_stop o)) then (match stopped with Some _ => true | None => false end)
              else if negb (nlstop_is_none (g_nl o)) then nlmet
              else true in
          if negb met then
            let epos := match coll_pos_start st with Some q => q | None => pos end in   (* fix 2761056 *)
            PErr (mkerr (Some epos) 6 (Some nl) true None None) p
          else
            let p' := match stopped with
                      | Some t => if g_handle_stop o then tend t else p
                      | None => p end in
            Ok (ONode (Some nl)) p'
      | Ok _ p => RExn 9
      | PErr e p =>
          (* re-wrapped: a new NodesParseError with the nodes so far; at/past tokens are dropped *)
          let nl := match pe_nodes e with
                    | Some (NList _ _ items) =>
                        match mk_nodelist None None items with
                        | NList a b it => NList (match a with Some _ => a | None => Some pos end)
                                                (match b with Some _ => b | None => Some pos end) it
                        | x => x end
                    | _ => NList (Some pos) (Some pos) []
                    end in
          PErr (mkerr (pe_pos e) (pe_what e) (Some nl) true None None) p
      | REOS p => REOS p | RExn k => RExn k | OutOfFuel => OutOfFuel
      end
    (* ------------------------------------------------------------------ *)
    | TGroup ps d optional aps pos =>
      let gps := match d with GDPair o c => ps_add_group ps o c | _ => ps end in
      match next_tok gps pos with
      | TokEOS _ => REOS pos
      | TokErr e => PErr (tokerr_perr e) pos
      | TokOk t =>
          let opening_ok :=
              tokkind_eqb (tk t) TkBraceOpen &&
              match d with
              | GDNone => true
              | GDStr o => str_eqb (targ t) o
              | GDPair o _ => str_eqb (targ t) o
              end in
          let ok := (aps || match tpre t with [] => true | _ => false end) && opening_ok in
          if negb ok then
            if optional then Ok (ONode None) (tpos t - length (tpre t))
            else
              (* the placeholder list sits where the reader is rewound to (fix: before the pre-space) *)
              let rp := tpos t - length (tpre t) in
              PErr (mkerr (Some (tpos t)) 7 (Some (NList (Some rp) (Some rp) [])) true (Some t) None) (tend t)
          else
          let parsed : option (str * str) :=
              match d with
              | GDPair o c => Some (o, c)
              | GDStr o => match group_close_of gps o with Some c => Some (o, c) | None => None end
              | GDNone => match group_close_of gps (targ t) with Some c => Some (targ t, c) | None => None end
              end in
          match parsed with
          | None => RExn 2                                   (* KeyError: cannot happen for tokens read under [gps] *)
          | Some (od, cd) =>
              let o := {| g_stop := SBraceClose cd; g_nl := NLNone; g_require := true;
                          g_child := CPGroup gps ps od; g_incl_pre := true; g_handle_stop := true |} in
              match parse_content (run fuel' (TGeneral gps o (tend t))) with
              | Ok (ONode body) p => Ok (ONode (Some (NGroup (tpos t) p (ps_mode gps) od cd body))) p
              | Ok _ p => RExn 9
              | PErr e p => PErr e p | REOS p => REOS p | RExn k => RExn k | OutOfFuel => OutOfFuel
              end
          end
      end
    (* ------------------------------------------------------------------ *)
    | TMath ps d pos =>
      match next_tok ps pos with
      | TokEOS _ => REOS pos
      | TokErr e => PErr (tokerr_perr e) pos
      | TokOk t =>
          let ok := (match tpre t with [] => true | _ => false end) && mode_of_tok t && str_eqb (targ t) d in
          if negb ok then
            PErr (mkerr (Some (tpos t)) 8 (Some (NList (Some (tpos t)) (Some (tpos t)) [])) true (Some t) None) (tend t)
          else
          let mps := ps_enter_math ps (Some (targ t)) in
          match c_expect_close (ps_c mps) with
          | None => RExn 3                                   (* TypeError: None['close_delim'] *)
          | Some (cd, _) =>
              let o := {| g_stop := SMathClose (tk t) cd; g_nl := NLNone; g_require := true;
                          g_child := CPSelf; g_incl_pre := true; g_handle_stop := true |} in
              match parse_content (run fuel' (TGeneral mps o (tend t))) with
              | Ok (ONode body) p =>
                  Ok (ONode (Some (NMath (tpos t) p (ps_mode ps) (tokkind_eqb (tk t) TkMathDisplay)
                                         (targ t) cd body))) p
              | Ok _ p => RExn 9
              | PErr e p => PErr e p | REOS p => REOS p | RExn k => RExn k | OutOfFuel => OutOfFuel
              end
          end
      end
    (* ------------------------------------------------------------------ *)
    | TEnvBody ps name pos =>
      let o := {| g_stop := SEndEnv name; g_nl := NLNone; g_require := true;
                  g_child := CPSelf; g_incl_pre := true; g_handle_stop := true |} in
      match parse_content (run fuel' (TGeneral ps o pos)) with
      | Ok (ONode (Some nl)) p => Ok (ONode (Some nl)) p
      | Ok (ONode None) p => Ok (ONode (Some (NList None None []))) p
      | Ok _ p => RExn 9
      | PErr e p => PErr e p | REOS p => REOS p | RExn k => RExn k | OutOfFuel => OutOfFuel
      end
    (* ------------------------------------------------------------------ *)
    | TExpr ps aps apc full sterr acc pos =>
      let eps := sub_context ps [UEnEnvs false] in
      let finish (more : list (option node)) (p : nat) : res out :=
          let nodes := acc ++ more in
          let nl := match nodes with
                    | [] => mk_nodelist (Some p) (Some p) []
                    | _ => mk_nodelist None None nodes
                    end in
          if full then Ok (ONode (Some nl)) p
          else match rev nodes with
               | last :: _ => Ok (ONode last) p
               | [] => match nl with
                       | NList a b _ =>
                           Ok (ONode (Some (NGroup (match a with Some x => x | None => 0 end)
                                                   (match b with Some x => x | None => 0 end)
                                                   (ps_mode ps) [] [] (Some nl)))) p
                       | _ => RExn 9 end
               end in
      let strict_err (what : nat) (epos : nat) (p : nat) (k : res out) : res out :=
          if tol then k else PErr (mkerr (Some epos) what None false None None) p in
      match next_tok eps pos with
      | TokErr e => PErr (tokerr_perr e) pos
      | TokEOS _ => strict_err 10 pos pos (finish [] pos)
      | TokOk t =>
          let p1 := tend t in
          match tk t with
          | TkMacro =>
              if sterr && (str_eqb (targ t) kw_begin || str_eqb (targ t) kw_end) then
                strict_err 11 (tpos t) p1
                  (finish [Some (NMacro (tpos t) (tend t) (ps_mode ps) (targ t) (tpost t) None)] p1)
              else
              match get_macro_spec cx (targ t) with
              | None =>
                  (* unknown macro, no fallback spec (fix: same error as the collector) *)
                  strict_err 5 (tpos t) p1
                    (finish [Some (NMacro (tpos t) (tend t) (ps_mode ps) (targ t) (tpost t) None)] p1)
              | Some sp =>
                  (* [spec.get_node_parser(tok).contents_can_be_empty()] is LatexParserBase's default: True *)
                  finish [Some (NMacro (tpos t) (tend t) (ps_mode ps) (targ t) (tpost t) (Some ([], [])))] p1
              end
          | TkSpecials =>
              finish [Some (NSpecials (tpos t) (tend t) (ps_mode ps) (targ t) (Some ([], [])))] p1
          | _ =>
            match tpre t with
            | _ :: _ =>
                if aps then
                  run fuel' (TExpr ps aps apc full sterr
                                   (acc ++ [Some (mk_chars ps (tpos t - length (tpre t)) (tpos t) (tpre t))])
                                   (tpos t))
                else strict_err 12 (tpos t - length (tpre t)) p1
                       (run fuel' (TExpr ps aps apc full sterr acc p1))
            | [] =>
              match tk t with
              | TkComment =>
                  if apc then
                    run fuel' (TExpr ps aps apc full sterr
                                     (acc ++ [Some (NComment (tpos t) (tend t) (ps_mode ps) (targ t) (tpost t))]) p1)
                  else strict_err 13 (tpos t) p1 (run fuel' (TExpr ps aps apc full sterr acc p1))
              | TkBraceOpen =>
                  match parse_content (run fuel' (TGroup ps (GDStr (targ t)) false false (tpos t))) with
                  | Ok (ONode n) p => finish [n] p
                  | Ok _ p => RExn 9
                  | PErr e p => PErr e p | REOS p => REOS p | RExn k => RExn k | OutOfFuel => OutOfFuel
                  end
              | TkBraceClose =>
                  PErr (mkerr (Some (tpos t)) 14 (Some (mk_chars ps (tpos t) (tpos t) [])) true (Some t) None) (tpos t)
              | TkChar => finish [Some (mk_chars ps (tpos t) (tend t) (targ t))] p1
              | TkMathInline | TkMathDisplay =>
                  let rn := match targ t with
                            | 92%N :: _ => NMacro (tpos t) (tend t) (ps_mode ps) (targ t) (tpost t) (Some ([], []))
                            | _ => mk_chars ps (tpos t) (tend t) (targ t)
                            end in
                  PErr (mkerr (Some (tpos t)) 15 (Some rn) true None (Some t)) p1
              | _ => PErr (mkerr (Some (tpos t)) 16 None false None None) p1
              end
            end
          end
      end
    (* ------------------------------------------------------------------ *)
    | TChars ps ch aps full pos =>
      (* chars_list = [ch] (a single character), max_num_args = 1 (fix 4c9ec06) *)
      match peek_tok ps pos with
      | TokEOS _ => REOS pos
      | TokErr e => PErr (tokerr_perr e) pos
      | TokOk orig =>
          let back := tpos orig - length (tpre orig) in
          if (match tpre orig with [] => false | _ => true end) && negb aps then Ok (ONode None) back
          else
          let tokc : option str :=
              match tk orig with
              | TkChar => Some (targ orig)
              | TkSpecials => Some (targ orig)
              | _ => None end in
          match tokc with
          | Some [] =>
              (* a char token with empty text (the tolerant placeholder for a trailing escape
                 character, always the last token): the marker loop reads on and meets the end *)
              REOS back
          | Some a =>
              if str_eqb a ch then
                let cn := mk_chars ps (tpos orig) (tend orig) ch in
                Ok (ONode (Some (if full then mk_nodelist None None [Some cn] else cn))) (tend orig)
              else Ok (ONode None) back
          | None => Ok (ONode None) back
          end
      end
    (* ------------------------------------------------------------------ *)
    | TVerbDelim ps d pos =>
      let p0 := snd (peek_space s pos) in
      match nth_error s p0 with
      | None => REOS p0
      | Some c0 =>
          let delims : option (N * N) :=
              match d with
              | None => Some (c0, if N.eqb c0 123 then 125%N else if N.eqb c0 91 then 93%N
                                  else if N.eqb c0 60 then 62%N else if N.eqb c0 40 then 41%N else c0)
              | Some ([o], [c]) => if N.eqb c0 o then Some (o, c) else None
              | Some _ => None
              end in
          match delims with
          | None => PErr (mkerr (Some p0) 17 None false None None) (S p0)
          | Some (od, cd) =>
              (* scan with a per-parse depth counter (fix 9295ac7) *)
              let scan := (fix scan (l : str) (depth n : nat) : option nat :=
                             match l with
                             | [] => None
                             | c :: r =>
                                 if N.eqb c cd then
                                   match depth with
                                   | S (S d') => scan r (S d') (S n)
                                   | _ => Some n
                                   end
                                 else if N.eqb c od then scan r (S depth) (S n)
                                 else scan r depth (S n)
                             end) (skipn (S p0) s) 1 0 in
              match scan with
              | Some n =>
                  let cstart := S p0 in let cend := S p0 + n in
                  let vn := mk_chars ps cstart cend (slice s cstart cend) in
                  Ok (ONode (Some (NGroup p0 (S cend) (ps_mode ps) [od] [cd]
                                          (Some (mk_nodelist None None [Some vn]))))) (S cend)
              | None =>
                  let vn := mk_chars ps (S p0) (length s) (slice s (S p0) (length s)) in
                  PErr (mkerr (Some (length s)) 18 (Some vn) true None None) (length s)
              end
          end
      end
    (* ------------------------------------------------------------------ *)
    | TStdArg ps k pos =>
      let inner :=
          match k with
          | AKExpr aps => run fuel' (TExpr ps aps aps false true [] pos)
          | AKGroup o c opt aps => run fuel' (TGroup ps (GDPair o c) opt aps pos)
          | AKChars ch aps full => run fuel' (TChars ps ch aps full pos)
          | AKVerb d => run fuel' (TVerbDelim ps d pos)
          end in
      parse_content inner
    (* ------------------------------------------------------------------ *)
    | TArgs ps specs acc pos =>
      match specs with
      | [] => Ok (OArgs (Some ([], acc))) pos
      | a :: rest =>
          (* [peek_token_or_none] before each argument (strict: a token error escapes) *)
          match peek_tok ps pos with
          | TokErr e => PErr (tokerr_perr e) pos
          | _ =>
              match parse_content (run fuel' (TStdArg (apply_adelta ps (a_delta a)) (a_kind a) pos)) with
              | Ok (ONode n) p => run fuel' (TArgs ps rest (acc ++ [n]) p)
              | Ok _ p => RExn 9
              | PErr e p => PErr e p | REOS p => REOS p | RExn k => RExn k | OutOfFuel => OutOfFuel
              end
          end
      end
    (* ------------------------------------------------------------------ *)
    | TLegacyArgs ps k pos =>
      match k with
      | LVerbMacro =>
          let p1 := snd (peek_space s pos) in
          match nth_error s p1 with
          | None => PErr (mkerr (Some p1) 19 None false None None) pos       (* fix 6c6625f *)
          | Some dc =>
              let b := S p1 in
              match sfind [dc] b with
              | None => PErr (mkerr (Some p1) 20 None false None None) pos
              | Some e =>
                  Ok (OArgs (Some ([[123%N]], [Some (mk_chars ps b e (slice s b e))]))) (S e)
              end
          end
      | LVerbEnv name optarg =>
          let endcode : str := [92;101;110;100;123]%N ++ name ++ [125%N] in
          let after_opt : res (list str * list (option node) * nat) :=
              if optarg then
                match nth_error s pos with
                | Some c => if is_space c then Ok ([[91%N]], [None], pos) pos
                            else match parse_content (run fuel' (TGroup ps (GDPair [91%N] [93%N]) true false pos)) with
                                 | Ok (ONode n) p => Ok ([[91%N]], [n], p) p
                                 | Ok _ p => RExn 9
                                 | PErr e p => PErr e p | REOS p => REOS p | RExn k2 => RExn k2
                                 | OutOfFuel => OutOfFuel end
                | None => match parse_content (run fuel' (TGroup ps (GDPair [91%N] [93%N]) true false pos)) with
                          | Ok (ONode n) p => Ok ([[91%N]], [n], p) p
                          | Ok _ p => RExn 9
                          | PErr e p => PErr e p | REOS p => REOS p | RExn k2 => RExn k2
                          | OutOfFuel => OutOfFuel end
                end
              else Ok ([], [], pos) pos in
          match after_opt with
          | Ok (sp, al, p) _ =>
              match sfind endcode p with
              | None => PErr (mkerr (Some p) 21 None false None None) pos
              | Some e =>
                  Ok (OArgs (Some (sp ++ [[123%N]], al ++ [Some (mk_chars ps p e (slice s p e))]))) e
              end
          | PErr e p => PErr e p | REOS p => REOS p | RExn k2 => RExn k2 | OutOfFuel => OutOfFuel
          end
      end
    (* ------------------------------------------------------------------ *)
    | TCall ps t sp pos =>
      let args_res :=
          match sp_args sp with
          | APStd l => parse_content_args (run fuel' (TArgs ps l [] pos))
          | APLegacy k => parse_content_args (run fuel' (TLegacyArgs ps k pos))
          end in
      match args_res with
      | Ok (OArgs a) p =>
          (* the arguments spec list reported by ParsedArguments *)
          let a' := match a, sp_args sp with
                    | Some (_, al), APStd l => Some (map a_spec l, al)
                    | x, _ => x end in
          match tk t with
          | TkBeginEnv =>
              let bps := if sp_body_math sp then ps_enter_math ps None else ps in
              match parse_content (run fuel' (TEnvBody bps (targ t) p)) with
              | Ok (ONode body) p2 =>
                  Ok (ONode (Some (NEnv (tpos t) p2 (ps_mode ps) (targ t) a' body))) p2
              | Ok _ p2 => RExn 9
              | PErr e p2 => PErr e p2 | REOS p2 => REOS p2 | RExn k => RExn k | OutOfFuel => OutOfFuel
              end
          | TkSpecials => Ok (ONode (Some (NSpecials (tpos t) p (ps_mode ps) (targ t) a'))) p
          | _ => Ok (ONode (Some (NMacro (tpos t) p (ps_mode ps) (targ t) (tpost t) a'))) p
          end
      | Ok _ p => RExn 9
      | PErr e p => PErr e p | REOS p => REOS p | RExn k => RExn k | OutOfFuel => OutOfFuel
      end
    end
    end.

  (** [LatexWalker(s, ...).parse_content(LatexGeneralNodesParser())] from position 0 *)
  Definition top_opts : genopts :=
    {| g_stop := SNone; g_nl := NLNone; g_require := true; g_child := CPSelf;
       g_incl_pre := true; g_handle_stop := false |}.

  (** The recursion budget of a top-level parse.  It depends on the context:
      [max_args cx] is the maximal number of argument slots of any
      specification of [cx]; with [fuel_unit] units per input character and
      [fuel_base] on top, no parse of any string under any context runs out of
      fuel ([Proofs/ParserTerm.v]: [parse_top_terminates]).  A context without
      argument slots gets the former constant budget [8 * length s + 40]. *)
  Definition nargs (sp : cspec) : nat :=
    match sp_args sp with APStd l => length l | APLegacy _ => 0 end.
  Definition onargs (o : option cspec) : nat := match o with Some sp => nargs sp | None => 0 end.
  Definition specs_max (l : list (str * cspec)) : nat := list_max (map (fun x => nargs (snd x)) l).
  (** the maximal number of argument slots of any specification of the context *)
  Definition max_args : nat :=
    Nat.max (specs_max (cx_macros cx))
      (Nat.max (specs_max (cx_envs cx))
         (Nat.max (specs_max (cx_specials cx))
            (Nat.max (onargs (cx_unk_macro cx)) (onargs (cx_unk_env cx))))).

  Definition fuel_unit : nat := 8 + max_args.
  Definition fuel_base : nat := 40 + max_args.
  Definition parse_fuel : nat := length s * fuel_unit + fuel_base.

  Definition parse_top (ps : pstate) : res out :=
    parse_content (run parse_fuel (TGeneral ps top_opts 0)).
End Parser.
