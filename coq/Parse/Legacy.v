(** Model of the pylatexenc-2 compatibility layer ON TOP OF the frozen parser
    model [Parse/Parser.v]:

    - the six legacy [LatexWalker] methods of [latexwalker/_walker.py]
      ([get_token], [get_latex_nodes], [get_latex_expression],
      [get_latex_braced_group], [get_latex_environment],
      [get_latex_maybe_optional_arg]): each builds the parsing state the Python
      code builds, starts [run] at the given position with [parse_fuel], goes
      through [parse_content] and post-processes the result exactly as the code
      does;
    - the spec-construction paths ([CallableSpec.__init__] with its legacy
      [args_parser=] branch, [std_macro], [MacroStandardArgsParser.__init__]) as
      functions from a "spelling" to the arguments parser a spec ends up with;
    - the LEGACY argument algorithm [MacroStandardArgsParser.parse_args]
      (macrospec/_pyltxenc2_argparsers/_base.py), which calls the legacy walker
      methods at explicit positions.

    The model tracks /repo WITH the two fixes proposed by this check
    (fixes/C16-optarg-pre-space.diff, fixes/C16-star-at-eos.diff).

    New definitions only; nothing of the frozen model is changed. *)
From Coq Require Import NArith ZArith List Bool Arith.
From PLV Require Import Base.PyStr Tok.PState Tok.Tokenizer Parse.Nodes Parse.Parser Parse.ParseWire.
Import ListNotations.

(** * Results of the legacy entry points

    Python exceptions are result constructors: [LErr] = LatexWalkerParseError
    (and its subclasses, e.g. the token parse error) with its [.pos]; [LEOS] =
    LatexWalkerEndOfStream; [LExn k] = any other exception class (3 TypeError,
    4 AttributeError, 5 ValueError, 9 impossible shape, 0 outside the modelled
    domain). *)
Inductive lres (A : Type) :=
| LOk (a : A)
| LErr (pos : option nat)
| LEOS
| LExn (k : nat)
| LFuel.
Arguments LOk {A}. Arguments LErr {A}. Arguments LEOS {A}. Arguments LExn {A}. Arguments LFuel {A}.

(** the [(node, pos, len)] tuple *)
Record ltriple := { lt_node : option node; lt_pos : option nat; lt_len : option Z }.

(** [node.len]: [pos_end - pos], [None] when one of them is [None] *)
Definition olen (n : node) : option Z :=
  match node_pos n, node_end n with
  | Some p, Some e => Some (Z.of_nat e - Z.of_nat p)%Z
  | _, _ => None
  end.

(** [(nodes, nodes.pos, nodes.len)] *)
Definition triple_of (n : node) : ltriple :=
  {| lt_node := Some n; lt_pos := node_pos n; lt_len := olen n |}.
(** [(None, pos, 0)] *)
Definition triple_none (pos : nat) : ltriple :=
  {| lt_node := None; lt_pos := Some pos; lt_len := Some 0%Z |}.

(** what the legacy methods do with the outcome of [parse_content]: every
    failure class is passed on unchanged *)
Definition lift_res {A} (x : res out) (k : option node -> nat -> lres A) : lres A :=
  match x with
  | Ok (ONode n) p => k n p
  | Ok _ _ => LExn 9
  | PErr e _ => LErr (pe_pos e)
  | REOS _ => LEOS
  | RExn j => LExn j
  | OutOfFuel => LFuel
  end.

(** the opening brace [get_latex_nodes] knows for a closing brace *)
Definition opener_of (c : N) : option N :=
  if N.eqb c 125 then Some 123%N        (* } { *)
  else if N.eqb c 93 then Some 91%N      (* ] [ *)
  else if N.eqb c 41 then Some 40%N      (* ) ( *)
  else if N.eqb c 62 then Some 60%N      (* > < *)
  else None.
(** the closing brace [get_latex_braced_group] knows for an opening brace *)
Definition closer_of (c : N) : option N :=
  if N.eqb c 123 then Some 125%N
  else if N.eqb c 91 then Some 93%N
  else if N.eqb c 40 then Some 41%N
  else if N.eqb c 60 then Some 62%N
  else None.

(** [nodes.nodeargd = None] for macro / environment / specials nodes *)
Definition clear_args (n : node) : node :=
  match n with
  | NMacro p e m nm po _ => NMacro p e m nm po None
  | NEnv p e m nm _ b => NEnv p e m nm None b
  | NSpecials p e m c _ => NSpecials p e m c None
  | x => x
  end.

Definition truthy_ob (o : option bool) : bool := match o with Some true => true | _ => false end.
Definition is_false_ob (o : option bool) : bool := match o with Some false => true | _ => false end.

Section Legacy.
  Variable s : str.
  Variable tol : bool.
  Variable cx : context.

  (** the fuel given to every [run]; the executable entry points below
      instantiate it with [parse_fuel s] *)
  Variable fuel : nat.

  Local Notation run := (Parser.run s tol cx).
  Local Notation pc := (Parser.parse_content tol).

  (** ** [get_token] *)

  (** the parsing state [get_token] builds from its keyword arguments:
      [include_brace_chars] (a list of pairs), [brackets_are_chars] (present in
      kwargs or not), [environments] (True / False / None) *)
  Definition token_state (ps : pstate) (incl : option delims) (bac : option bool) (envs : option bool)
    : pstate :=
    let incl1 : option delims :=
        match bac with
        | Some false => Some ((match incl with Some l => l | None => [] end) ++ [([91%N], [93%N])])
        | _ => incl
        end in
    let u1 := match incl1 with
              | Some (x :: l) => [UGroupDelims (f_group_delims (ps_f ps) ++ x :: l)]
              | _ => []
              end in
    let u2 := match envs with
              | Some e => if Bool.eqb (f_en_envs (ps_f ps)) e then [] else [UEnEnvs e]
              | None => []
              end in
    match u1 ++ u2 with
    | [] => ps
    | kw => sub_context ps kw
    end.

  Definition legacy_get_token (ps : pstate) (pos : nat) (incl : option delims) (bac envs : option bool)
    : lres token :=
    match peek_tok s tol (token_state ps incl bac envs) pos with
    | TokOk t => LOk t
    | TokEOS _ => LEOS
    | TokErr e => LErr (Some (te_pos e))
    end.

  (** ** [get_latex_nodes] *)

  (** [stop_upon_closing_brace] given as one character (the opening brace is
      looked up) or as two characters / a pair: the closing brace that stops
      the parse and the delimiter pair added to the parsing state *)
  Definition brace_promotion (b : str) : option (option N * N) :=
    match b with
    | [o; c] => Some (Some o, c)
    | [c] => Some (opener_of c, c)
    | _ => None
    end.

  Definition nodes_state (ps : pstate) (b : option str) : option (pstate * option str) :=
    match b with
    | None => Some (ps, None)
    | Some bb =>
        match brace_promotion bb with
        | Some (Some o, c) => Some (ps_add_group ps [o] [c], Some [c])
        | _ => None            (* a closing brace without known opening brace: outside the model *)
        end
    end.

  Definition nodes_opts (b e m : option str) (mx : option nat) : genopts :=
    {| g_stop := SLegacy b e m;
       g_nl := match mx with Some n => NLMax n | None => NLNone end;
       g_require := match b, e, m with None, None, None => false | _, _, _ => true end;
       g_child := CPSelf; g_incl_pre := true; g_handle_stop := true |}.

  (** [(nodes, nodes.pos, reader position - nodes.pos)] *)
  Definition nodes_post (n : option node) (pend : nat) : lres ltriple :=
    match n with
    | Some x =>
        match node_pos x with
        | Some p => LOk {| lt_node := Some x; lt_pos := Some p;
                           lt_len := Some (Z.of_nat pend - Z.of_nat p)%Z |}
        | None => LExn 3                                   (* int - None *)
        end
    | None => LOk {| lt_node := None; lt_pos := None; lt_len := None |}
    end.

  Definition legacy_get_latex_nodes_f (ps : pstate) (pos : nat) (b e m : option str) (mx : option nat)
    : lres ltriple :=
    match nodes_state ps b with
    | None => LExn 0
    | Some (ps', bc) =>
        lift_res (pc (run fuel (TGeneral ps' (nodes_opts bc e m mx) pos))) nodes_post
    end.

  (** ** [get_latex_expression] *)

  (** the [except LatexWalkerParseError] clause: the error raised by the
      expression parser itself for an unexpected closing brace (Parser.v:
      [pe_what = 14], still carrying its recovery token — a re-raised copy made
      by an enclosing general-nodes parser has lost both the Python attribute
      and the token) is swallowed unless [strict_braces] is true *)
  Definition is_closing_brace_error (e : perr) : bool :=
    Nat.eqb (pe_what e) 14 && match pe_at e with Some _ => true | None => false end.

  Definition expr_catch (sb : option bool) (x : res out) : res out :=
    match x with
    | PErr e p => if is_closing_brace_error e && negb (truthy_ob sb) then Ok (ONode None) p else PErr e p
    | y => y
    end.

  Definition expr_post (ps : pstate) (pos : nat) (sb : option bool) (n : option node) (_ : nat)
    : lres ltriple :=
    match n with
    | Some (NList _ _ _) => LExn 4                         (* LatexNodeList has no isNodeType *)
    | Some x => LOk (triple_of (clear_args x))
    | None =>
        if tol || is_false_ob sb then LOk (triple_of (mk_chars ps pos pos []))
        else LOk (triple_none pos)
    end.

  Definition legacy_get_latex_expression_f (ps : pstate) (pos : nat) (sb : option bool) : lres ltriple :=
    lift_res (expr_catch sb (pc (run fuel (TExpr ps true true false (negb tol) [] pos))))
             (expr_post ps pos sb).

  (** ** [get_latex_braced_group] *)
  Definition brace_pair (bt : str) : option (str * str) :=
    match bt with
    | [o; c] => Some ([o], [c])
    | [o] => match closer_of o with Some c => Some ([o], [c]) | None => None end
    | _ => None
    end.

  Definition group_post (pos : nat) (n : option node) (_ : nat) : lres ltriple :=
    match n with
    | Some x => LOk (triple_of x)
    | None => LOk (triple_none pos)
    end.

  Definition legacy_get_latex_braced_group_f (ps : pstate) (pos : nat) (bt : str) : lres ltriple :=
    match brace_pair bt with
    | None => LExn 5                                       (* ValueError *)
    | Some (o, c) => lift_res (pc (run fuel (TGroup ps (GDPair o c) false true pos))) (group_post pos)
    end.

  (** ** [get_latex_environment] *)
  Definition single_opts : genopts :=
    {| g_stop := SNone; g_nl := NLSingle true; g_require := false; g_child := CPSelf;
       g_incl_pre := true; g_handle_stop := false |}.

  Definition env_post (name : option str) (n : option node) (_ : nat) : lres ltriple :=
    match n with
    | Some (NList _ _ [Some (NEnv p e m nm a b)]) =>
        match name with
        | Some x => if str_eqb nm x then LOk (triple_of (NEnv p e m nm a b)) else LErr None
        | None => LOk (triple_of (NEnv p e m nm a b))
        end
    | Some (NList _ _ [None]) => LExn 4                    (* None.isNodeType *)
    | Some (NList _ _ _) => LErr None                      (* "Expected environment, got ..." *)
    | None => LErr None
    | Some _ => LExn 3                                     (* len() of a node *)
    end.

  Definition legacy_get_latex_environment_f (ps : pstate) (pos : nat) (name : option str) : lres ltriple :=
    lift_res (pc (run fuel (TGeneral ps single_opts pos))) (env_post name).

  (** ** [get_latex_maybe_optional_arg]
      ([LatexOptionalSquareBracketsParser(allow_pre_space=True)], fix
      C16-optarg-pre-space) *)
  Definition optarg_post (n : option node) (_ : nat) : lres (option ltriple) :=
    match n with
    | Some x => LOk (Some (triple_of x))
    | None => LOk None
    end.

  Definition legacy_get_latex_maybe_optional_arg_f (ps : pstate) (pos : nat) : lres (option ltriple) :=
    lift_res (pc (run fuel (TGroup ps (GDPair [91%N] [93%N]) true true pos))) optarg_post.

  (** ** The legacy argument algorithm [MacroStandardArgsParser.parse_args] *)

  (** [get_inner_parsing_state(j)] *)
  Definition inner_state (ps : pstate) (amm : option (list (option bool))) (j : nat) : pstate :=
    match amm with
    | None => ps
    | Some l =>
        match nth j l None with
        | None => ps
        | Some b => if Bool.eqb b (f_in_math (ps_f ps)) then ps else sub_context ps [UInMath b]
        end
    end.

  Definition lfail {A B} (x : lres A) : lres B :=
    match x with
    | LOk _ => LExn 9
    | LErr p => LErr p | LEOS => LEOS | LExn k => LExn k | LFuel => LFuel
    end.

  (** NB [w.get_token(p)] is called WITHOUT the parsing state: it reads under the
      walker's default one, [walker_state cx] *)
  Fixpoint legacy_args_loop_f (ps : pstate) (noopt : bool) (amm : option (list (option bool)))
           (j : nat) (a : str) (p : nat) (acc : list (option node))
    : lres (list (option node) * nat) :=
    match a with
    | [] => LOk (acc, p)
    | c :: r =>
        let ips := inner_state ps amm j in
        if N.eqb c 123 then                                                (* '{' *)
          match legacy_get_latex_expression_f ips p (Some false) with
          | LOk t =>
              match lt_pos t, lt_len t with
              | Some np, Some nl =>
                  legacy_args_loop_f ps noopt amm (S j) r (Z.to_nat (Z.of_nat np + nl)) (acc ++ [lt_node t])
              | _, _ => LExn 3
              end
          | x => lfail x
          end
        else if N.eqb c 91 then                                            (* '[' *)
          if noopt && Nat.ltb p (length s)
             && match nth_error s p with Some ch => is_space ch | None => false end
          then legacy_args_loop_f ps noopt amm (S j) r p (acc ++ [None])
          else
          match legacy_get_latex_maybe_optional_arg_f ips p with
          | LOk None => legacy_args_loop_f ps noopt amm (S j) r p (acc ++ [None])
          | LOk (Some t) =>
              match lt_pos t, lt_len t with
              | Some np, Some nl =>
                  legacy_args_loop_f ps noopt amm (S j) r (Z.to_nat (Z.of_nat np + nl)) (acc ++ [lt_node t])
              | _, _ => LExn 3
              end
          | x => lfail x
          end
        else if N.eqb c 42 then                                            (* '*' *)
          match legacy_get_token (walker_state cx) p None None (Some true) with
          | LOk t =>
              if tokkind_eqb (tk t) TkChar && startswith (targ t) [42%N] then
                legacy_args_loop_f ps noopt amm (S j) r (S (tpos t))
                                 (acc ++ [Some (mk_chars ips (tpos t) (S (tpos t)) [42%N])])
              else legacy_args_loop_f ps noopt amm (S j) r p (acc ++ [None])
          | LEOS => legacy_args_loop_f ps noopt amm (S j) r p (acc ++ [None])   (* fix C16-star-at-eos *)
          | x => lfail x
          end
        else LExn 6                                                         (* LatexWalkerError: unknown kind *)
    end.

  Definition legacy_parse_args_f (ps : pstate) (a : str) (noopt : bool)
             (amm : option (list (option bool))) (pos : nat) : lres (list (option node) * nat) :=
    match amm with
    | Some l => if Nat.eqb (length l) (length a) then legacy_args_loop_f ps noopt amm 0 a pos []
                else LExn 5                                                 (* ValueError *)
    | None => legacy_args_loop_f ps noopt amm 0 a pos []
    end.
End Legacy.

(** * The executable legacy entry points: every [run] starts with [parse_fuel s] *)
Definition legacy_get_latex_nodes (s : str) (tol : bool) (cx : context) :=
  legacy_get_latex_nodes_f s tol cx (parse_fuel s cx).
Definition legacy_get_latex_expression (s : str) (tol : bool) (cx : context) :=
  legacy_get_latex_expression_f s tol cx (parse_fuel s cx).
Definition legacy_get_latex_braced_group (s : str) (tol : bool) (cx : context) :=
  legacy_get_latex_braced_group_f s tol cx (parse_fuel s cx).
Definition legacy_get_latex_environment (s : str) (tol : bool) (cx : context) :=
  legacy_get_latex_environment_f s tol cx (parse_fuel s cx).
Definition legacy_get_latex_maybe_optional_arg (s : str) (tol : bool) (cx : context) :=
  legacy_get_latex_maybe_optional_arg_f s tol cx (parse_fuel s cx).
Definition legacy_args_loop (s : str) (tol : bool) (cx : context) :=
  legacy_args_loop_f s tol cx (parse_fuel s cx).
Definition legacy_parse_args (s : str) (tol : bool) (cx : context) :=
  legacy_parse_args_f s tol cx (parse_fuel s cx).

(** * The specification spellings *)

(** the standard argument specification a single character of an argument
    string stands for ([LatexArgumentSpec(c)] parsed by
    [LatexStandardArgumentParser(c)]) *)
Definition std_kind (c : N) : argkind :=
  if N.eqb c 123 then AKExpr true
  else if N.eqb c 91 then AKGroup [91%N] [93%N] true true
  else if N.eqb c 42 then AKChars [42%N] true false
  else AKVerb None.                      (* not used: argument strings are over the three characters *)
Definition std_spec (c : N) : argspec := {| a_spec := [c]; a_kind := std_kind c; a_delta := ADNone |}.

(** the legacy arguments parser object *)
Record legacy_obj := { lo_argspec : str; lo_noopt : bool; lo_amm : option (list (option bool)) }.

(** [MacroStandardArgsParser(argspec, optional_arg_no_space, args_math_mode)]:
    [None] / [''] is the empty string; anything outside [*[{] is a TypeError *)
Definition argchar_ok (c : N) : bool := N.eqb c 42 || N.eqb c 91 || N.eqb c 123.
Definition mk_legacy_obj (a : option str) (noopt : bool) (amm : option (list (option bool)))
  : option legacy_obj :=
  let a' := match a with Some x => x | None => [] end in
  if forallb argchar_ok a' then Some {| lo_argspec := a'; lo_noopt := noopt; lo_amm := amm |} else None.

(** what a spec's [arguments_parser] is after construction *)
Inductive aparser :=
| PNew (l : list argspec)                (* LatexArgumentsParser *)
| PNoArgs                                (* LatexNoArgumentsParser *)
| PWrap (o : legacy_obj).                (* _LegacyPyltxenc2MacroArgsParserWrapper *)

(** [LatexArgumentsParser(string)]: one [LatexArgumentSpec] per character *)
Definition new_parser_of_string (a : str) : aparser := PNew (map std_spec a).

(** the two ways a value can reach [CallableSpec.__init__] *)
Inductive asl_value := VStr (a : str) | VObj (o : legacy_obj).

(** [CallableSpec.__init__(arguments_spec_list=asl, args_parser=ap)] with
    [_legacy_pyltxenc2_CallableSpec_init_from_args_parser]; [None] = ValueError
    ("cannot specify both").  The final [if not use_legacy_args_parser] block
    rebuilds the parser from [self.arguments_spec_list] (fix 8cc117d). *)
Definition callable_init (asl ap : option asl_value) : option aparser :=
  let finish (self_asl : option str) : aparser :=
      match self_asl with
      | Some (c :: r) => new_parser_of_string (c :: r)
      | _ => PNoArgs
      end in
  match ap with
  | None =>
      match asl with
      | Some (VObj o) => Some (PWrap o)
      | Some (VStr a) => Some (finish (Some a))
      | None => Some (finish None)
      end
  | Some x =>
      match asl with
      | Some _ => None
      | None =>
          match x with
          | VStr a => Some (finish (Some a))
          | VObj o => Some (PWrap o)
          end
      end
  end.

(** [std_macro(name, *args)]: one string; or [(optarg, numargs)] *)
Inductive std_args := SAString (a : option str) | SAOptNum (optarg : option bool) (n : nat)
                    | SAOptString (optarg : option bool) (a : str).
Definition std_macro_argspec (x : std_args) : option str :=
  match x with
  | SAString a => a
  | SAOptString o a => if truthy_ob o then None (* '[' + '{'*str: TypeError *) else Some a
  | SAOptNum o n => Some ((if truthy_ob o then [91%N] else []) ++ repeat 123%N n)
  end.
Definition std_macro (x : std_args) : option aparser :=
  match x with
  | SAOptString o a => if truthy_ob o then None else callable_init (Some (VStr a)) None
  | _ => callable_init (match std_macro_argspec x with Some a => Some (VStr a) | None => None end) None
  end.

(** the spellings of one argument string *)
Inductive spelling :=
| SpArgsParserString          (* MacroSpec(name, args_parser=a) *)
| SpPositional                (* MacroSpec(name, a) *)
| SpStdMacro                  (* std_macro(name, a) *)
| SpStdMacroNone              (* std_macro(name, None, a) *)
| SpStdEnvironment            (* std_environment(name, a) *)
| SpLegacyKw                  (* MacroSpec(name, args_parser=MacroStandardArgsParser(a)) *)
| SpLegacyKwArgspec           (* MacroSpec(name, args_parser=MacroStandardArgsParser(argspec=a)) *)
| SpLegacyPositional.         (* MacroSpec(name, MacroStandardArgsParser(a)) *)

Definition all_spellings : list spelling :=
  [SpArgsParserString; SpPositional; SpStdMacro; SpStdMacroNone; SpStdEnvironment;
   SpLegacyKw; SpLegacyKwArgspec; SpLegacyPositional].

Definition spell (sp : spelling) (a : str) : option aparser :=
  match sp with
  | SpArgsParserString => callable_init None (Some (VStr a))
  | SpPositional => callable_init (Some (VStr a)) None
  | SpStdMacro | SpStdEnvironment => std_macro (SAString (Some a))
  | SpStdMacroNone => std_macro (SAOptString None a)
  | SpLegacyKw | SpLegacyKwArgspec =>
      match mk_legacy_obj (Some a) false None with
      | Some o => callable_init None (Some (VObj o))
      | None => None
      end
  | SpLegacyPositional =>
      match mk_legacy_obj (Some a) false None with
      | Some o => callable_init (Some (VObj o)) None
      | None => None
      end
  end.

(** [spec.arguments_parser.argspec], one string per argument *)
Definition parser_argspec (p : aparser) : list str :=
  match p with
  | PNew l => map a_spec l
  | PNoArgs => []
  | PWrap o => map (fun c => [c]) (lo_argspec o)
  end.

(** all strings over an alphabet up to a length *)
Fixpoint strings_upto (alpha : str) (n : nat) : list str :=
  match n with
  | O => [[]]
  | S k => [] :: flat_map (fun c => map (cons c) (strings_upto alpha k)) alpha
  end.
Definition arg_alphabet : str := [42; 91; 123]%N.
