(** The node tree ([pylatexenc/latexnodes/nodes.py] node classes,
    [LatexNodeList], [_parsedargs.py: ParsedArguments]) as one nested
    inductive, its canonical text dump and its wire decoder.

    A [LatexNodeList] is the constructor [NList] (it can stand wherever the
    Python code allows either a node or a node list: bodies, arguments).
    [parsing_state] is represented by the two fields the properties observe:
    [in_math_mode] and [math_mode_delimiter]. *)
From Coq Require Import NArith ZArith List Bool Arith.
From PLV Require Import Base.PyStr Base.Wire.
Import ListNotations.

Record nmode := { in_math : bool; math_delim : option str }.
Definition text_mode : nmode := {| in_math := false; math_delim := None |}.

Inductive node :=
| NChars (p e : nat) (m : nmode) (chars : str)
| NComment (p e : nat) (m : nmode) (comment post : str)
| NGroup (p e : nat) (m : nmode) (dl dr : str) (body : option node)
| NMacro (p e : nat) (m : nmode) (name post : str) (args : option (list str * list (option node)))
| NEnv (p e : nat) (m : nmode) (name : str) (args : option (list str * list (option node)))
       (body : option node)
| NSpecials (p e : nat) (m : nmode) (chars : str) (args : option (list str * list (option node)))
| NMath (p e : nat) (m : nmode) (display : bool) (dl dr : str) (body : option node)
| NList (p e : option nat) (items : list (option node)).

Definition onode := option node.
Definition pargs := (list str * list (option node))%type.

(** * Accessors *)
Definition node_pos (n : node) : option nat :=
  match n with
  | NChars p _ _ _ | NComment p _ _ _ _ | NGroup p _ _ _ _ _ | NMacro p _ _ _ _ _
  | NEnv p _ _ _ _ _ | NSpecials p _ _ _ _ | NMath p _ _ _ _ _ _ => Some p
  | NList p _ _ => p
  end.
Definition node_end (n : node) : option nat :=
  match n with
  | NChars _ e _ _ | NComment _ e _ _ _ | NGroup _ e _ _ _ _ | NMacro _ e _ _ _ _
  | NEnv _ e _ _ _ _ | NSpecials _ e _ _ _ | NMath _ e _ _ _ _ _ => Some e
  | NList _ e _ => e
  end.
Definition node_mode (n : node) : option nmode :=
  match n with
  | NChars _ _ m _ | NComment _ _ m _ _ | NGroup _ _ m _ _ _ | NMacro _ _ m _ _ _
  | NEnv _ _ m _ _ _ | NSpecials _ _ m _ _ | NMath _ _ m _ _ _ _ => Some m
  | NList _ _ _ => None
  end.

(** [_update_posposend_from_nodelist] + the [LatexNodeList] constructor *)
Fixpoint first_pos (l : list (option node)) : option nat :=
  match l with
  | [] => None
  | Some n :: _ => node_pos n
  | None :: r => first_pos r
  end.
Fixpoint first_end (l : list (option node)) : option nat :=
  match l with
  | [] => None
  | Some n :: _ => node_end n
  | None :: r => first_end r
  end.
Definition last_end (l : list (option node)) : option nat := first_end (rev l).
Definition mk_nodelist (pos pos_end : option nat) (items : list (option node)) : node :=
  NList (match pos with Some p => Some p | None => first_pos items end)
        (match pos_end with Some e => Some e | None => last_end items end)
        items.

(** * Canonical text dump

    One line, fully parenthesised; identical to [harness/treedump.py:dump]. *)
Definition show_mode (m : nmode) : str :=
  (if in_math m then [77%N] else [116%N]) ++ show_opt show_str (math_delim m).   (* M / t *)

Fixpoint show_node (n : node) : str :=
  let show_on := fun (o : option node) => match o with None => [95%N] | Some x => show_node x end in
  let show_items := fix si (l : list (option node)) : str :=
      match l with
      | [] => []
      | [o] => match o with None => [95%N] | Some x => show_node x end
      | o :: r => (match o with None => [95%N] | Some x => show_node x end) ++ 44%N :: si r
      end in
  let show_args := fun (a : option pargs) =>
      match a with
      | None => [33%N]                                                        (* ! : nodeargd is None *)
      | Some (sp, l) => 60%N :: show_list show_str sp ++ 124%N :: show_items l ++ [62%N]  (* <spec|items> *)
      end in
  let hd := fun (tag : N) (p e : nat) (m : nmode) =>
      tag :: 40%N :: show_nat p ++ 44%N :: show_nat e ++ 44%N :: show_mode m in
  match n with
  | NChars p e m c => hd 67%N p e m ++ 44%N :: show_str c ++ [41%N]                       (* C *)
  | NComment p e m c ps => hd 35%N p e m ++ 44%N :: show_str c ++ 44%N :: show_str ps ++ [41%N] (* # *)
  | NGroup p e m dl dr b =>
      hd 71%N p e m ++ 44%N :: show_str dl ++ 44%N :: show_str dr ++ 44%N :: show_on b ++ [41%N]  (* G *)
  | NMacro p e m nm ps a =>
      hd 77%N p e m ++ 44%N :: show_str nm ++ 44%N :: show_str ps ++ 44%N :: show_args a ++ [41%N] (* M *)
  | NEnv p e m nm a b =>
      hd 69%N p e m ++ 44%N :: show_str nm ++ 44%N :: show_args a ++ 44%N :: show_on b ++ [41%N]   (* E *)
  | NSpecials p e m c a =>
      hd 83%N p e m ++ 44%N :: show_str c ++ 44%N :: show_args a ++ [41%N]                   (* S *)
  | NMath p e m d dl dr b =>
      hd 36%N p e m ++ 44%N :: show_bool d ++ 44%N :: show_str dl ++ 44%N :: show_str dr
         ++ 44%N :: show_on b ++ [41%N]                                                      (* $ *)
  | NList p e l =>
      76%N :: 40%N :: show_opt show_nat p ++ 44%N :: show_opt show_nat e ++ 44%N :: 91%N
         :: show_items l ++ [93%N; 41%N]                                                     (* L *)
  end.

Definition show_onode (o : option node) : str :=
  match o with None => [95%N] | Some x => show_node x end.

(** * Wire decoder (trees produced by the real parser are fed to model functions) *)
Definition rd_mode : rd nmode :=
  fun l => match rd_bool l with
           | Some (b, r) => match rd_opt rd_str r with
                            | Some (d, r') => Some ({| in_math := b; math_delim := d |}, r')
                            | None => None end
           | None => None end.

Fixpoint rd_onode (fuel : nat) : rd (option node) :=
  match fuel with
  | O => fun _ => None
  | S f =>
    let rd_args : rd (option pargs) := fun l =>
      match l with
      | z :: r =>
        if Z.eqb z 0 then Some (None, r) else
        match rd_list rd_str r with
        | Some (sp, r1) => match rd_list (rd_onode f) r1 with
                           | Some (items, r2) => Some (Some (sp, items), r2)
                           | None => None end
        | None => None end
      | [] => None end in
    fun l =>
    match l with
    | [] => None
    | tag :: r0 =>
      if Z.eqb tag 0 then Some (None, r0) else
      if Z.eqb tag 8 then
        match rd_opt rd_nat r0 with
        | Some (p, r1) => match rd_opt rd_nat r1 with
          | Some (e, r2) => match rd_list (rd_onode f) r2 with
            | Some (items, r3) => Some (Some (NList p e items), r3)
            | None => None end
          | None => None end
        | None => None end
      else
      match rd_nat r0 with
      | Some (p, r1) => match rd_nat r1 with
        | Some (e, r2) => match rd_mode r2 with
          | Some (m, r3) =>
            if Z.eqb tag 1 then
              match rd_str r3 with Some (c, r4) => Some (Some (NChars p e m c), r4) | None => None end
            else if Z.eqb tag 2 then
              match rd_str r3 with
              | Some (c, r4) => match rd_str r4 with
                                | Some (ps, r5) => Some (Some (NComment p e m c ps), r5)
                                | None => None end
              | None => None end
            else if Z.eqb tag 3 then
              match rd_str r3 with
              | Some (dl, r4) => match rd_str r4 with
                | Some (dr, r5) => match rd_onode f r5 with
                  | Some (b, r6) => Some (Some (NGroup p e m dl dr b), r6)
                  | None => None end
                | None => None end
              | None => None end
            else if Z.eqb tag 4 then
              match rd_str r3 with
              | Some (nm, r4) => match rd_str r4 with
                | Some (ps, r5) => match rd_args r5 with
                  | Some (a, r6) => Some (Some (NMacro p e m nm ps a), r6)
                  | None => None end
                | None => None end
              | None => None end
            else if Z.eqb tag 5 then
              match rd_str r3 with
              | Some (nm, r4) => match rd_args r4 with
                | Some (a, r5) => match rd_onode f r5 with
                  | Some (b, r6) => Some (Some (NEnv p e m nm a b), r6)
                  | None => None end
                | None => None end
              | None => None end
            else if Z.eqb tag 6 then
              match rd_str r3 with
              | Some (c, r4) => match rd_args r4 with
                | Some (a, r5) => Some (Some (NSpecials p e m c a), r5)
                | None => None end
              | None => None end
            else if Z.eqb tag 7 then
              match rd_bool r3 with
              | Some (d, r4) => match rd_str r4 with
                | Some (dl, r5) => match rd_str r5 with
                  | Some (dr, r6) => match rd_onode f r6 with
                    | Some (b, r7) => Some (Some (NMath p e m d dl dr b), r7)
                    | None => None end
                  | None => None end
                | None => None end
              | None => None end
            else None
          | None => None end
        | None => None end
      | None => None end
    end
  end.

(** decode with fuel = length of the input (each level consumes >= 1 integer) *)
Definition rd_tree : rd (option node) := fun l => rd_onode (S (length l)) l.
