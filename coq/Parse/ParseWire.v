(** Wire decoding of contexts and dumping of parse outcomes. *)
From Coq Require Import NArith ZArith List Bool Arith.
From PLV Require Import Base.PyStr Base.Wire Tok.PState Tok.Tokenizer Tok.TokWire Parse.Nodes Parse.Parser.
Import ListNotations.

Definition rd_adelta : rd adelta :=
  fun l => match l with
           | 0%Z :: r => Some (ADNone, r) | 1%Z :: r => Some (ADEnterMath, r)
           | 2%Z :: r => Some (ADLeaveMath, r) | _ => None end.

Definition rd_argkind : rd argkind :=
  fun l => match l with
  | 0%Z :: r => bind rd_bool (fun a => ret (AKExpr a)) r
  | 1%Z :: r => bind rd_str (fun o => bind rd_str (fun c => bind rd_bool (fun opt => bind rd_bool (fun a =>
                ret (AKGroup o c opt a))))) r
  | 2%Z :: r => bind rd_str (fun ch => bind rd_bool (fun a => bind rd_bool (fun f => ret (AKChars ch a f)))) r
  | 3%Z :: r => bind (rd_opt rd_pair) (fun d => ret (AKVerb d)) r
  | _ => None end.

Definition rd_argspec : rd argspec :=
  bind rd_str (fun sp => bind rd_argkind (fun k => bind rd_adelta (fun d =>
  ret {| a_spec := sp; a_kind := k; a_delta := d |}))).

Definition rd_argsparser : rd argsparser :=
  fun l => match l with
  | 0%Z :: r => bind (rd_list rd_argspec) (fun a => ret (APStd a)) r
  | 1%Z :: r => Some (APLegacy LVerbMacro, r)
  | 2%Z :: r => bind rd_str (fun n => bind rd_bool (fun o => ret (APLegacy (LVerbEnv n o)))) r
  | _ => None end.

Definition rd_cspec : rd cspec :=
  bind rd_argsparser (fun a => bind rd_bool (fun m => ret {| sp_args := a; sp_body_math := m |})).

Definition rd_named : rd (str * cspec) :=
  bind rd_str (fun n => bind rd_cspec (fun c => ret (n, c))).

Definition rd_context : rd context :=
  bind (rd_list rd_named) (fun ms => bind (rd_list rd_named) (fun es => bind (rd_list rd_named) (fun ss =>
  bind (rd_opt rd_cspec) (fun um => bind (rd_opt rd_cspec) (fun ue =>
  ret {| cx_macros := ms; cx_envs := es; cx_specials := ss; cx_unk_macro := um; cx_unk_env := ue |}))))).

(** [LatexWalker.__init__]: [ParsingState(s=s, latex_context=ctx)] *)
Definition walker_fields (cx : context) : fields :=
  {| f_ctx_specials := Some (map fst (cx_specials cx)); f_in_math := false; f_math_delim := None;
     f_group_delims := default_group_delims; f_inline_delims := default_inline_delims;
     f_display_delims := default_display_delims; f_en_dnp := true; f_en_macros := true;
     f_en_envs := true; f_en_comments := true; f_en_groups := true; f_en_specials := true;
     f_en_math := true; f_alpha := default_alpha; f_escape := [92%N]; f_comment := [37%N];
     f_forbidden := [] |}.
Definition walker_state (cx : context) : pstate := fresh (walker_fields cx).

Definition show_res (x : res out) : str :=
  match x with
  | Ok (ONode n) p => [111;107;32]%N ++ show_onode n ++ 64%N :: show_nat p          (* "ok <tree>@pos" *)
  | Ok (OArgs _) p => [97;114;103;115]%N                                              (* args *)
  | Ok (OColl _ _ _ _) p => [99;111;108;108]%N                                        (* coll *)
  | PErr e p => [101;114;114;32]%N ++ show_opt show_nat (pe_pos e)                   (* "err <pos>" *)
  | REOS p => [101;111;115]%N                                                        (* eos *)
  | RExn k => [101;120;110;32]%N ++ show_nat k                                       (* "exn k" *)
  | OutOfFuel => [102;117;101;108]%N                                                 (* fuel *)
  end.
