(** Model of the process-wide state behind the standard argument parsers
    (property C09).

    Python mirrored here:

    - latexnodes/parsers/_stdarg.py: the module-level dict
      [_std_arg_parser_instances], [get_standard_argument_parser] (71-93),
      [LatexStandardArgumentParser.__init__], [get_arg_parser_instance]
      (131-246) and the lazily created [_arg_parser] of [parse] (249-252);
    - macrospec/_argumentsparser.py [LatexArgumentsParser.parse]: an argument
      whose [parser] is a string is resolved through
      [get_standard_argument_parser(<string>)] at every parse; an argument
      whose [parser] is a [LatexStandardArgumentParser] object is used as it
      is (the object lives on the spec and is shared by every parse that uses
      the spec).

    The state a parse can leave behind is therefore
      (1) the cache  key -> instance   (it only ever grows), and
      (2) the lazily created inner parser of every instance, cached or
          explicitly placed on a specification object.
    Everything else a parser creates is per-parse (the verbatim nesting counter
    is, since fix 9295ac7, a field of the per-parse [VerbatimInfo]; the variant
    that keeps it on the instance is modelled separately in
    [Section CounterOnInstance] below, only to document the defect).

    The parser proper is the pure, frozen [Parser.parse_top]; a context whose
    argument parsers are given as SPELLINGS ([sctx]) is first resolved to a
    [Parser.context] through the state, then parsed.

    Abstraction, stated once: the real code resolves an argument when the
    parser reaches it, the model resolves every argument of the job's context
    before parsing.  The keys a parse adds to the model's cache are thus a
    superset of what the real parse adds; the theorems hold from EVERY state
    satisfying [Inv], which covers both.  A specification string that
    [get_arg_parser_instance] rejects makes the real parse raise ValueError
    when that argument is reached; the model reports [RExn exn_value_error] for
    a context containing one (the harness reaches it in every such job). *)
From Coq Require Import NArith ZArith List Bool Arith.
From PLV Require Import Base.PyStr Tok.PState Tok.Tokenizer Parse.Nodes Parse.Parser Parse.ParseWire.
Import ListNotations.

(** * Instances and keys *)

(** A [LatexStandardArgumentParser] object.  [expression_single_token_requiring_arg_is_error]
    is always left at its default (True): [Parser.TStdArg] models only that. *)
Record instance := {
  i_spec : str;                       (* .arg_spec *)
  i_aps : bool;                       (* .allow_pre_space *)
  i_full : bool;                      (* .return_full_node_list *)
  i_inner : option argkind;           (* ._arg_parser : None until first use *)
}.

(** Cache key of [get_standard_argument_parser(arg_spec, **kwargs)]: the string
    itself when no keyword argument is given, else the tuple of the sorted
    items of [{'arg_spec': .., **kwargs}].  A string never equals a tuple and
    two tuples are equal iff the same keywords were given with the same
    values: a key is the specification plus, per keyword, [None] (not given)
    or [Some value]. *)
Record key := { k_spec : str; k_aps : option bool; k_full : option bool }.

Definition obool_eqb (a b : option bool) : bool :=
  match a, b with
  | None, None => true
  | Some x, Some y => Bool.eqb x y
  | _, _ => false
  end.
Definition key_eqb (a b : key) : bool :=
  str_eqb (k_spec a) (k_spec b) && obool_eqb (k_aps a) (k_aps b) && obool_eqb (k_full a) (k_full b).

Definition dflt (d : bool) (o : option bool) : bool := match o with Some b => b | None => d end.

(** [LatexStandardArgumentParser(arg_spec, **kwargs)] *)
Definition new_instance (k : key) : instance :=
  {| i_spec := k_spec k; i_aps := dflt true (k_aps k); i_full := dflt false (k_full k); i_inner := None |}.

(** [get_arg_parser_instance(arg_spec)], in the order of the Python [if] chain.
    [None] = the call raises ValueError, or builds a parser outside the
    modelled fragment ([spec_modelled] tells the two apart). *)
Definition kind_of_spec (a : str) (aps full : bool) : option argkind :=
  match a with
  | [109%N] | [123%N] => if full then None else Some (AKExpr aps)                   (* 'm' '{' *)
  | [111%N] | [91%N] => Some (AKGroup [91%N] [93%N] true aps)                       (* 'o' '[' *)
  | [115%N] | [42%N] => Some (AKChars [42%N] aps full)                              (* 's' '*' *)
  | 101%N :: _ => None                                                              (* 'e...' not modelled *)
  | [116%N; c] => Some (AKChars [c] aps true)                                       (* 't<c>' *)
  | 116%N :: _ => None                                                              (* ValueError *)
  | [114%N; o; c] => Some (AKGroup [o] [c] false aps)                               (* 'r<o><c>' *)
  | 114%N :: _ => None
  | [100%N; o; c] => Some (AKGroup [o] [c] true aps)                                (* 'd<o><c>' *)
  | 100%N :: _ => None
  | [118%N] => Some (AKVerb None)                                                   (* 'v' *)
  | [118%N; o; c] => Some (AKVerb (Some ([o], [c])))                                (* 'v<o><c>' *)
  | 118%N :: _ => None
  | _ => None                                                                       (* Unknown argument specification *)
  end.

(** the parsers [get_arg_parser_instance] can build that [Parser.argkind] cannot express *)
Definition any_delimited : str := [65;110;121;68;101;108;105;109;105;116;101;100]%N.
Definition any_delimited_optional : str := any_delimited ++ [79;112;116;105;111;110;97;108]%N.
Definition spec_modelled (a : str) (full : bool) : bool :=
  match a with
  | [109%N] | [123%N] => negb full
  | 101%N :: _ => false
  | _ => negb (str_eqb a any_delimited || str_eqb a any_delimited_optional)
  end.

(** * The cache *)
Definition cache := list (key * instance).       (* dict, in insertion order *)

Fixpoint cache_get (c : cache) (k : key) : option instance :=
  match c with
  | [] => None
  | (k', i) :: r => if key_eqb k' k then Some i else cache_get r k
  end.

(** write an instance back ("mutation in place" of the cached object) *)
Fixpoint cache_set (c : cache) (k : key) (i : instance) : cache :=
  match c with
  | [] => []
  | (k', i0) :: r => if key_eqb k' k then (k', i) :: r else (k', i0) :: cache_set r k i
  end.

(** [get_standard_argument_parser]: reuse, or create and insert *)
Definition get_std (c : cache) (k : key) : cache * instance :=
  match cache_get c k with
  | Some i => (c, i)
  | None => let i := new_instance k in (c ++ [(k, i)], i)
  end.

(** first lines of [LatexStandardArgumentParser.parse]: create the inner parser
    on first use and keep it on the instance; [None] = ValueError raised, the
    field stays [None] *)
Definition use (i : instance) : instance * option argkind :=
  match i_inner i with
  | Some kd => (i, Some kd)
  | None =>
      match kind_of_spec (i_spec i) (i_aps i) (i_full i) with
      | Some kd => ({| i_spec := i_spec i; i_aps := i_aps i; i_full := i_full i; i_inner := Some kd |}, Some kd)
      | None => (i, None)
      end
  end.

(** * Global state: the cache and the explicit parser objects placed on specs *)
Record gstate := {
  g_cache : cache;                    (* _std_arg_parser_instances *)
  g_objs : list instance;             (* LatexStandardArgumentParser objects owned by specs, by identity *)
}.

Definition g_init (objs : list instance) : gstate := {| g_cache := []; g_objs := objs |}.

Fixpoint list_set {A} (l : list A) (n : nat) (x : A) : list A :=
  match l, n with
  | [], _ => []
  | _ :: r, O => x :: r
  | a :: r, S m => a :: list_set r m x
  end.

(** How the [parser] of one [LatexArgumentSpec] is written. *)
Inductive spelling :=
| SpKey (k : key)       (* a string (no keywords): resolved by LatexArgumentsParser.parse at every parse;
                           with keywords: the object get_standard_argument_parser(spec, **kw) returned when
                           the specification was built (the same cache entry, entries are never evicted) *)
| SpObj (id : nat).     (* an explicit LatexStandardArgumentParser object: index into [g_objs] *)

Definition resolve_sp (g : gstate) (sp : spelling) : gstate * option (str * argkind) :=
  match sp with
  | SpKey k =>
      let (c1, i) := get_std (g_cache g) k in
      let (i', ok) := use i in
      ({| g_cache := cache_set c1 k i'; g_objs := g_objs g |},
       match ok with Some kd => Some (i_spec i, kd) | None => None end)
  | SpObj id =>
      match nth_error (g_objs g) id with
      | None => (g, None)
      | Some i =>
          let (i', ok) := use i in
          ({| g_cache := g_cache g; g_objs := list_set (g_objs g) id i' |},
           match ok with Some kd => Some (i_spec i, kd) | None => None end)
      end
  end.

(** * Contexts whose argument parsers are spellings *)
Record sarg := { sa_sp : spelling; sa_delta : adelta }.
Inductive sargsparser :=
| SAStd (l : list sarg)
| SALegacy (k : legacy_kind).
Record scspec := { ss_args : sargsparser; ss_body_math : bool }.
Record sctx := {
  sx_macros : list (str * scspec);
  sx_envs : list (str * scspec);
  sx_specials : list (str * scspec);
  sx_unk_macro : option scspec;
  sx_unk_env : option scspec;
}.

Fixpoint mapM_st {A B} (f : gstate -> A -> gstate * option B) (g : gstate) (l : list A)
  : gstate * option (list B) :=
  match l with
  | [] => (g, Some [])
  | a :: r =>
      let (g1, ob) := f g a in
      let (g2, orr) := mapM_st f g1 r in
      (g2, match ob, orr with Some b, Some bs => Some (b :: bs) | _, _ => None end)
  end.

Definition mk_arg (a : sarg) (o : option (str * argkind)) : option argspec :=
  match o with
  | Some (sp, kd) => Some {| a_spec := sp; a_kind := kd; a_delta := sa_delta a |}
  | None => None
  end.
Definition mk_cspec (sc : scspec) (o : option (list argspec)) : option cspec :=
  match o with
  | Some l => Some {| sp_args := APStd l; sp_body_math := ss_body_math sc |}
  | None => None
  end.
Definition mk_ctx (ms es ss : option (list (str * cspec))) (um ue : option (option cspec)) : option context :=
  match ms, es, ss, um, ue with
  | Some m, Some e, Some s, Some a, Some b =>
      Some {| cx_macros := m; cx_envs := e; cx_specials := s; cx_unk_macro := a; cx_unk_env := b |}
  | _, _, _, _, _ => None
  end.

Definition resolve_arg (g : gstate) (a : sarg) : gstate * option argspec :=
  let (g', o) := resolve_sp g (sa_sp a) in (g', mk_arg a o).

Definition resolve_cspec (g : gstate) (sc : scspec) : gstate * option cspec :=
  match ss_args sc with
  | SAStd l => let (g', o) := mapM_st resolve_arg g l in (g', mk_cspec sc o)
  | SALegacy k => (g, Some {| sp_args := APLegacy k; sp_body_math := ss_body_math sc |})
  end.

Definition resolve_named (g : gstate) (n : str * scspec) : gstate * option (str * cspec) :=
  let (g', o) := resolve_cspec g (snd n) in
  (g', match o with Some c => Some (fst n, c) | None => None end).

Definition resolve_opt (g : gstate) (o : option scspec) : gstate * option (option cspec) :=
  match o with
  | None => (g, Some None)
  | Some sc => let (g', r) := resolve_cspec g sc in (g', match r with Some c => Some (Some c) | None => None end)
  end.

Definition resolve_ctx (g : gstate) (x : sctx) : gstate * option context :=
  let (g1, ms) := mapM_st resolve_named g (sx_macros x) in
  let (g2, es) := mapM_st resolve_named g1 (sx_envs x) in
  let (g3, ss) := mapM_st resolve_named g2 (sx_specials x) in
  let (g4, um) := resolve_opt g3 (sx_unk_macro x) in
  let (g5, ue) := resolve_opt g4 (sx_unk_env x) in
  (g5, mk_ctx ms es ss um ue).

(** * Jobs and histories *)
Record job := { j_ctx : sctx; j_s : str; j_tol : bool }.

Definition exn_value_error : nat := 22.

Definition run_resolved (ocx : option context) (j : job) : res out :=
  match ocx with
  | Some cx => parse_top (j_s j) (j_tol j) cx (walker_state cx)
  | None => RExn exn_value_error
  end.

(** one [LatexWalker(s, latex_context=db, tolerant_parsing=tol).parse_content(LatexGeneralNodesParser())]
    in a process whose state is [g] *)
Definition parse_st (g : gstate) (j : job) : gstate * res out :=
  let (g', ocx) := resolve_ctx g (j_ctx j) in (g', run_resolved ocx j).

Fixpoint run_history (g : gstate) (jobs : list job) : list (gstate * res out) :=
  match jobs with
  | [] => []
  | j :: r => let x := parse_st g j in x :: run_history (fst x) r
  end.

(** * The same parse with freshly resolved argument parsers: no cache, no lazy fields.
    [h] gives the constructor fields of the explicit objects. *)
Definition strip (i : instance) : instance :=
  {| i_spec := i_spec i; i_aps := i_aps i; i_full := i_full i; i_inner := None |}.

Definition kind_of_instance (i : instance) : option (str * argkind) :=
  match kind_of_spec (i_spec i) (i_aps i) (i_full i) with
  | Some kd => Some (i_spec i, kd)
  | None => None
  end.

Definition pure_sp (h : list instance) (sp : spelling) : option (str * argkind) :=
  match sp with
  | SpKey k => kind_of_instance (new_instance k)
  | SpObj id => match nth_error h id with Some i => kind_of_instance i | None => None end
  end.

Fixpoint mapM_opt {A B} (f : A -> option B) (l : list A) : option (list B) :=
  match l with
  | [] => Some []
  | a :: r => match f a, mapM_opt f r with Some b, Some bs => Some (b :: bs) | _, _ => None end
  end.

Definition pure_arg (h : list instance) (a : sarg) : option argspec := mk_arg a (pure_sp h (sa_sp a)).
Definition pure_cspec (h : list instance) (sc : scspec) : option cspec :=
  match ss_args sc with
  | SAStd l => mk_cspec sc (mapM_opt (pure_arg h) l)
  | SALegacy k => Some {| sp_args := APLegacy k; sp_body_math := ss_body_math sc |}
  end.
Definition pure_named (h : list instance) (n : str * scspec) : option (str * cspec) :=
  match pure_cspec h (snd n) with Some c => Some (fst n, c) | None => None end.
Definition pure_opt (h : list instance) (o : option scspec) : option (option cspec) :=
  match o with
  | None => Some None
  | Some sc => match pure_cspec h sc with Some c => Some (Some c) | None => None end
  end.
Definition pure_ctx (h : list instance) (x : sctx) : option context :=
  mk_ctx (mapM_opt (pure_named h) (sx_macros x)) (mapM_opt (pure_named h) (sx_envs x))
         (mapM_opt (pure_named h) (sx_specials x)) (pure_opt h (sx_unk_macro x)) (pure_opt h (sx_unk_env x)).

Definition parse_pure (h : list instance) (j : job) : res out := run_resolved (pure_ctx h (j_ctx j)) j.

(** * The invariant: every instance is what its constructor made, plus at most
    the inner parser its own fields determine *)
Definition inner_ok (i : instance) : Prop :=
  i_inner i = None \/ i_inner i = kind_of_spec (i_spec i) (i_aps i) (i_full i).
Definition entry_ok (e : key * instance) : Prop :=
  strip (snd e) = new_instance (fst e) /\ inner_ok (snd e).
Definition Inv (g : gstate) : Prop :=
  Forall entry_ok (g_cache g) /\ Forall inner_ok (g_objs g).

(** * The defect repaired by 9295ac7, kept apart from the model of the current
    code: the verbatim nesting counter stored on the (cached, shared) parser
    instance.  [LatexDelimitedVerbatimParser.parse] as it was: the opening
    delimiter is consumed, then characters are read; a closing delimiter
    decrements [self.depth_counter] and stops when it is <= 0, an opening
    delimiter increments it; the counter is never reset. *)
Section CounterOnInstance.
  Record old_vinstance := { ov_delims : option (str * str); ov_depth : Z }.
  (** [LatexDelimitedVerbatimParser(delimiters=d)]: [self.depth_counter = 1] *)
  Definition old_vnew (d : option (str * str)) : old_vinstance := {| ov_delims := d; ov_depth := 1 |}.

  Fixpoint old_scan (od cd : N) (l : str) (depth : Z) (n : nat) : option nat * Z :=
    match l with
    | [] => (None, depth)
    | c :: r =>
        if N.eqb c cd then
          let d' := (depth - 1)%Z in
          if (d' <=? 0)%Z then (Some n, d') else old_scan od cd r d' (S n)
        else if N.eqb c od then old_scan od cd r (depth + 1)%Z (S n)
        else old_scan od cd r depth (S n)
    end.

  (** same shape as [Parser.run]'s [TVerbDelim] branch, the counter read from and
      written back to the instance *)
  Definition old_verb_parse (i : old_vinstance) (s : str) (ps : pstate) (pos : nat)
    : old_vinstance * res out :=
    let p0 := snd (peek_space s pos) in
    match nth_error s p0 with
    | None => (i, REOS p0)
    | Some c0 =>
        let delims : option (N * N) :=
            match ov_delims i with
            | None => Some (c0, if N.eqb c0 123 then 125%N else if N.eqb c0 91 then 93%N
                                else if N.eqb c0 60 then 62%N else if N.eqb c0 40 then 41%N else c0)
            | Some ([o], [c]) => if N.eqb c0 o then Some (o, c) else None
            | Some _ => None
            end in
        match delims with
        | None => (i, PErr (mkerr (Some p0) 17 None false None None) (S p0))
        | Some (od, cd) =>
            let (found, depth') := old_scan od cd (skipn (S p0) s) (ov_depth i) 0 in
            let i' := {| ov_delims := ov_delims i; ov_depth := depth' |} in
            match found with
            | Some n =>
                let cstart := S p0 in let cend := S p0 + n in
                let vn := NChars cstart cend (ps_mode ps) (slice s cstart cend) in
                (i', Ok (ONode (Some (NGroup p0 (S cend) (ps_mode ps) [od] [cd]
                                             (Some (mk_nodelist None None [Some vn]))))) (S cend))
            | None =>
                let vn := NChars (S p0) (length s) (ps_mode ps) (slice s (S p0) (length s)) in
                (i', PErr (mkerr (Some (length s)) 18 (Some vn) true None None) (length s))
            end
        end
    end.
End CounterOnInstance.
