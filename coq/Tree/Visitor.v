(** Executable model of [LatexNodesVisitor] (pylatexenc/latexnodes/nodes.py
    1350-1642), of every [accept_node_visitor] (nodes.py 304, 350, 385, 474,
    599, 661, 710, 873; _parsedargs.py 250) and the declarative specification
    the model is proved equal to ([Proofs/VisitorProofs.v], [Properties/C19.v]).

    The visitor is parametric in the callbacks (one function per [visit_*]
    method).  A callback receives the object it is called on, the
    [visited_results_*] keyword arguments, and — standing for the identity of
    the Python object, which a Python callback can observe with [id(node)] —
    the path of that object in the tree ([path], root first).

    Python values that occur in the keyword arguments:
      - [pylist]  : [None] or a list whose elements are [None] or a result;
      - [argres]  : the empty string ['' ] ([descend_into_parsed_arguments] on a
                    missing [nodeargd]) or the result of [visit_parsed_arguments].

    Exceptions: a body ([nodelist] of a group / environment / math node) that
    is a node but not a [LatexNodeList] makes [for cnode in nodelist] raise
    [TypeError]; that is the constructor [VTypeError].  The real parsers never
    build such trees (measured by the harness), the type [node] allows them. *)
From Coq Require Import NArith ZArith List Bool Arith.
From PLV Require Import Base.PyStr Base.Wire Parse.Nodes.
Import ListNotations.

(** * Occurrences: where an object sits in the tree *)

Inductive step :=
| SArgs                (* node -> its ParsedArguments object (nodeargd) *)
| SArg (i : nat)       (* ParsedArguments -> argnlist[i] *)
| SBody (i : nat)      (* group / environment / math node -> nodelist[i] *)
| SItem (i : nat).     (* LatexNodeList -> nodelist[i] *)

Definition path := list step.      (* root first *)

(** what a callback can be called on *)
Inductive subject := SubNode (n : node) | SubArgs (a : pargs).

(** which [visit_*] method *)
Inductive ckind :=
| KChars | KComment | KGroup | KMacro | KEnv | KSpecials | KMath | KList | KPArgs.

Definition node_kind (n : node) : ckind :=
  match n with
  | NChars _ _ _ _ => KChars
  | NComment _ _ _ _ _ => KComment
  | NGroup _ _ _ _ _ _ => KGroup
  | NMacro _ _ _ _ _ _ => KMacro
  | NEnv _ _ _ _ _ _ => KEnv
  | NSpecials _ _ _ _ _ => KSpecials
  | NMath _ _ _ _ _ _ _ => KMath
  | NList _ _ _ => KList
  end.

Definition subject_kind (s : subject) : ckind :=
  match s with SubNode n => node_kind n | SubArgs _ => KPArgs end.

Section Visitor.
Context {R : Type}.

Definition pylist := option (list (option R)).
Inductive argres := AEmptyStr | ARes (r : R).

(** one field per overridable [visit_*] method.  [visit_unknown_node] is not
    reachable: the type [node] has no constructor for a bare [LatexNode]. *)
Record callbacks := {
  cb_chars    : path -> node -> R;                        (* visit_chars_node(node) *)
  cb_comment  : path -> node -> R;                        (* visit_comment_node(node) *)
  cb_group    : path -> node -> pylist -> R;              (* visited_results_nodelist *)
  cb_macro    : path -> node -> argres -> R;              (* visited_results_arguments *)
  cb_env      : path -> node -> argres -> pylist -> R;    (* visited_results_arguments, visited_results_body *)
  cb_specials : path -> node -> argres -> R;              (* visited_results_arguments *)
  cb_math     : path -> node -> pylist -> R;              (* visited_results_nodelist *)
  cb_list     : path -> node -> pylist -> R;              (* visit_node_list: visited_results_nodelist *)
  cb_pargs    : path -> pargs -> pylist -> R              (* visit_parsed_arguments: visited_results_argnlist *)
}.

(** the keyword arguments of one callback invocation *)
Inductive payload :=
| PNone
| PNodelist (l : pylist)
| PArguments (a : argres)
| PArgsBody (a : argres) (b : pylist)
| PArgnlist (l : pylist).

Record event := Ev { ev_path : path; ev_kind : ckind; ev_subj : subject; ev_pay : payload }.

Inductive vres (A : Type) := VOk (a : A) | VTypeError.
Arguments VOk {A} a.
Arguments VTypeError {A}.

(** a computation = the callback invocations it made, in call order, and its
    outcome *)
Definition M (A : Type) := (list event * vres A)%type.
Definition vret {A} (a : A) : M A := ([], VOk a).
Definition vraise {A} : M A := ([], VTypeError).
Definition vbind {A B} (m : M A) (f : A -> M B) : M B :=
  match m with
  | (e1, VOk a) => let (e2, b) := f a in (e1 ++ e2, b)
  | (e1, VTypeError) => (e1, VTypeError)
  end.
(** invoke a callback: log the call, return what it returned *)
Definition call (e : event) (r : R) : M R := ([e], VOk r).

Variable cb : callbacks.

(** ** the [visit_*] methods as overridden by [cb] *)
Definition visit_chars_node p n := call (Ev p KChars (SubNode n) PNone) (cb_chars cb p n).
Definition visit_comment_node p n := call (Ev p KComment (SubNode n) PNone) (cb_comment cb p n).
Definition visit_group_node p n l := call (Ev p KGroup (SubNode n) (PNodelist l)) (cb_group cb p n l).
Definition visit_macro_node p n a := call (Ev p KMacro (SubNode n) (PArguments a)) (cb_macro cb p n a).
Definition visit_environment_node p n a b :=
  call (Ev p KEnv (SubNode n) (PArgsBody a b)) (cb_env cb p n a b).
Definition visit_specials_node p n a :=
  call (Ev p KSpecials (SubNode n) (PArguments a)) (cb_specials cb p n a).
Definition visit_math_node p n l := call (Ev p KMath (SubNode n) (PNodelist l)) (cb_math cb p n l).
Definition visit_node_list p n l := call (Ev p KList (SubNode n) (PNodelist l)) (cb_list cb p n l).
Definition visit_parsed_arguments p a l :=
  call (Ev p KPArgs (SubArgs a) (PArgnlist l)) (cb_pargs cb p a l).

(** ** [descend_into_nodelist]

    What [for cnode in nodelist] sees: [None] (tested before the loop), the
    elements of a [LatexNodeList] / Python list, or an object without
    [__iter__]. *)
Inductive pyiter := ItNone | ItList (l : list (option node)) | ItNotIterable.

(** the loop body; [rec] is [cnode.accept_node_visitor(self)], [mk i] the
    step from the owner to element [i] *)
Definition descend_items (rec : path -> node -> M R) (p : path) (mk : nat -> step)
  : nat -> list (option node) -> M (list (option R)) :=
  fix go (i : nat) (l : list (option node)) {struct l} : M (list (option R)) :=
  match l with
  | [] => vret []
  | None :: r => vbind (go (S i) r) (fun rs => vret (None :: rs))
  | Some c :: r =>
      vbind (rec (p ++ [mk i]) c) (fun x =>
      vbind (go (S i) r) (fun rs => vret (Some x :: rs)))
  end.

Definition descend_into_nodelist (rec : path -> node -> M R) (p : path) (mk : nat -> step)
           (nodelist : pyiter) (default : pylist) : M pylist :=
  match nodelist with
  | ItNone => vret default                         (* [] when default is _UseList *)
  | ItNotIterable => vraise
  | ItList l => vbind (descend_items rec p mk 0 l) (fun rs => vret (Some rs))
  end.

Definition use_list : pylist := Some [].           (* default=_UseList *)

(** ** [node_standard_process_*] *)
Definition node_standard_process_chars (p : path) (n : node) : M R := visit_chars_node p n.
Definition node_standard_process_comment (p : path) (n : node) : M R := visit_comment_node p n.

Definition node_standard_process_group rec (p : path) (n : node) (nodelist : pyiter) : M R :=
  vbind (descend_into_nodelist rec p SBody nodelist use_list) (fun rs =>
  visit_group_node p n rs).

(** [ParsedArguments.accept_node_visitor] -> [node_standard_process_parsed_arguments];
    [argnlist] is always a list ([ParsedArguments.__init__] replaces a false
    value by [[]]), so the [default=None] is not reachable *)
Definition node_standard_process_parsed_arguments rec (p : path) (sp : list str)
           (argnlist : list (option node)) : M R :=
  vbind (descend_into_nodelist rec p SArg (ItList argnlist) None) (fun rs =>
  visit_parsed_arguments p (sp, argnlist) rs).

Definition descend_into_parsed_arguments rec (p : path) (nodeargd : option pargs) : M argres :=
  match nodeargd with
  | None => vret AEmptyStr                                               (* return '' *)
  | Some (sp, l) =>
      vbind (node_standard_process_parsed_arguments rec (p ++ [SArgs]) sp l) (fun r => vret (ARes r))
  end.

Definition node_standard_process_macro rec (p : path) (n : node) (nodeargd : option pargs) : M R :=
  vbind (descend_into_parsed_arguments rec p nodeargd) (fun a =>
  visit_macro_node p n a).

Definition node_standard_process_environment rec (p : path) (n : node) (nodeargd : option pargs)
           (nodelist : pyiter) : M R :=
  vbind (descend_into_parsed_arguments rec p nodeargd) (fun a =>
  vbind (descend_into_nodelist rec p SBody nodelist use_list) (fun b =>
  visit_environment_node p n a b)).

Definition node_standard_process_specials rec (p : path) (n : node) (nodeargd : option pargs) : M R :=
  vbind (descend_into_parsed_arguments rec p nodeargd) (fun a =>
  visit_specials_node p n a).

Definition node_standard_process_math rec (p : path) (n : node) (nodelist : pyiter) : M R :=
  vbind (descend_into_nodelist rec p SBody nodelist None) (fun rs =>      (* default=None *)
  visit_math_node p n rs).

(** [nodelist.nodelist] of a [LatexNodeList] is a plain list *)
Definition node_standard_process_list rec (p : path) (n : node) (items : list (option node)) : M R :=
  vbind (descend_into_nodelist rec p SItem (ItList items) use_list) (fun rs =>
  visit_node_list p n rs).

(** ** [accept_node_visitor]: the first dispatch (on the class of the node).
    The [match] on the body spells out what iterating over [node.nodelist]
    means for each shape of value. *)
Fixpoint accept (p : path) (n : node) {struct n} : M R :=
  match n with
  | NChars _ _ _ _ => node_standard_process_chars p n
  | NComment _ _ _ _ _ => node_standard_process_comment p n
  | NGroup _ _ _ _ _ body =>
      match body with
      | None => node_standard_process_group accept p n ItNone
      | Some (NList _ _ l) => node_standard_process_group accept p n (ItList l)
      | Some _ => node_standard_process_group accept p n ItNotIterable
      end
  | NMacro _ _ _ _ _ nodeargd => node_standard_process_macro accept p n nodeargd
  | NEnv _ _ _ _ nodeargd body =>
      match body with
      | None => node_standard_process_environment accept p n nodeargd ItNone
      | Some (NList _ _ l) => node_standard_process_environment accept p n nodeargd (ItList l)
      | Some _ => node_standard_process_environment accept p n nodeargd ItNotIterable
      end
  | NSpecials _ _ _ _ nodeargd => node_standard_process_specials accept p n nodeargd
  | NMath _ _ _ _ _ _ body =>
      match body with
      | None => node_standard_process_math accept p n ItNone
      | Some (NList _ _ l) => node_standard_process_math accept p n (ItList l)
      | Some _ => node_standard_process_math accept p n ItNotIterable
      end
  | NList _ _ items => node_standard_process_list accept p n items
  end.

(** [LatexNodesVisitor.start(node)] *)
Definition visit (n : node) : M R := accept [] n.
Definition events {A} (m : M A) : list event := fst m.
Definition outcome {A} (m : M A) : vres A := snd m.

(** * Declarative specification *)

(** results of the children of one owner, in slot order, [None] for an absent
    slot *)
Definition slot_results (res : path -> node -> R) (p : path) (mk : nat -> step)
  : nat -> list (option node) -> list (option R) :=
  fix go (i : nat) (l : list (option node)) {struct l} : list (option R) :=
  match l with
  | [] => []
  | None :: r => None :: go (S i) r
  | Some c :: r => Some (res (p ++ [mk i]) c) :: go (S i) r
  end.

(** what the owner of a body receives for it *)
Definition body_result (res : path -> node -> R) (p : path) (default : pylist) (b : option node) : pylist :=
  match b with
  | Some (NList _ _ l) => Some (slot_results res p SBody 0 l)
  | _ => default
  end.

(** what [visit_parsed_arguments] receives *)
Definition pargs_payload (res : path -> node -> R) (p : path) (a : pargs) : pylist :=
  Some (slot_results res p SArg 0 (snd a)).

(** what the owner of an arguments object receives for it *)
Definition args_result (res : path -> node -> R) (p : path) (a : option pargs) : argres :=
  match a with
  | None => AEmptyStr
  | Some (sp, l) => ARes (cb_pargs cb (p ++ [SArgs]) (sp, l) (pargs_payload res (p ++ [SArgs]) (sp, l)))
  end.

(** the keyword arguments the callback of node [n] at [p] receives, given the
    results [res] of all nodes below it *)
Definition node_payload (res : path -> node -> R) (p : path) (n : node) : payload :=
  match n with
  | NChars _ _ _ _ | NComment _ _ _ _ _ => PNone
  | NGroup _ _ _ _ _ b => PNodelist (body_result res p use_list b)
  | NMacro _ _ _ _ _ a | NSpecials _ _ _ _ a => PArguments (args_result res p a)
  | NEnv _ _ _ _ a b => PArgsBody (args_result res p a) (body_result res p use_list b)
  | NMath _ _ _ _ _ _ b => PNodelist (body_result res p None b)
  | NList _ _ l => PNodelist (Some (slot_results res p SItem 0 l))
  end.

(** the result of a node = what its callback returns on the results of its
    children (a fold of the callbacks over the tree) *)
Fixpoint result (p : path) (n : node) {struct n} : R :=
  match n with
  | NChars _ _ _ _ => cb_chars cb p n
  | NComment _ _ _ _ _ => cb_comment cb p n
  | NGroup _ _ _ _ _ b => cb_group cb p n (body_result result p use_list b)
  | NMacro _ _ _ _ _ a => cb_macro cb p n (args_result result p a)
  | NEnv _ _ _ _ a b => cb_env cb p n (args_result result p a) (body_result result p use_list b)
  | NSpecials _ _ _ _ a => cb_specials cb p n (args_result result p a)
  | NMath _ _ _ _ _ _ b => cb_math cb p n (body_result result p None b)
  | NList _ _ l => cb_list cb p n (Some (slot_results result p SItem 0 l))
  end.

(** events of the children of one owner: slot by slot, nothing for an absent slot *)
Definition slot_events (evs : path -> node -> list event) (p : path) (mk : nat -> step)
  : nat -> list (option node) -> list event :=
  fix go (i : nat) (l : list (option node)) {struct l} : list event :=
  match l with
  | [] => []
  | None :: r => go (S i) r
  | Some c :: r => evs (p ++ [mk i]) c ++ go (S i) r
  end.

Definition body_events (evs : path -> node -> list event) (p : path) (b : option node) : list event :=
  match b with
  | Some (NList _ _ l) => slot_events evs p SBody 0 l     (* the list object itself gets no callback *)
  | _ => []
  end.

Definition args_events (evs : path -> node -> list event) (p : path) (a : option pargs) : list event :=
  match a with
  | None => []
  | Some (sp, l) =>
      slot_events evs (p ++ [SArgs]) SArg 0 l
      ++ [Ev (p ++ [SArgs]) KPArgs (SubArgs (sp, l)) (PArgnlist (pargs_payload result (p ++ [SArgs]) (sp, l)))]
  end.

(** post-order: the arguments object (its items first), then the body items,
    each in list order, then the node itself with the results of its
    children *)
Fixpoint postorder_events (p : path) (n : node) {struct n} : list event :=
  match n with
  | NChars _ _ _ _ | NComment _ _ _ _ _ => []
  | NGroup _ _ _ _ _ b | NMath _ _ _ _ _ _ b => body_events postorder_events p b
  | NMacro _ _ _ _ _ a | NSpecials _ _ _ _ a => args_events postorder_events p a
  | NEnv _ _ _ _ a b => args_events postorder_events p a ++ body_events postorder_events p b
  | NList _ _ l => slot_events postorder_events p SItem 0 l
  end ++ [Ev p (node_kind n) (SubNode n) (node_payload result p n)].

End Visitor.

Arguments VOk {A} a.
Arguments VTypeError {A}.
Arguments callbacks R : clear implicits.
Arguments event R : clear implicits.
Arguments payload R : clear implicits.
Arguments argres R : clear implicits.
Arguments pylist R : clear implicits.
Arguments M R A : clear implicits.

(** * The objects of a tree, independently of any visitor (pre-order) *)

(** bodies are [None] or node lists, everywhere *)
Definition wf_slot (wf : node -> bool) (o : option node) : bool :=
  match o with None => true | Some c => wf c end.
Definition wf_body (wf : node -> bool) (b : option node) : bool :=
  match b with
  | None => true
  | Some (NList _ _ l) => forallb (wf_slot wf) l
  | Some _ => false
  end.
Definition wf_args (wf : node -> bool) (a : option pargs) : bool :=
  match a with None => true | Some (_, l) => forallb (wf_slot wf) l end.
Fixpoint wf (n : node) {struct n} : bool :=
  match n with
  | NChars _ _ _ _ | NComment _ _ _ _ _ => true
  | NGroup _ _ _ _ _ b | NMath _ _ _ _ _ _ b => wf_body wf b
  | NMacro _ _ _ _ _ a | NSpecials _ _ _ _ a => wf_args wf a
  | NEnv _ _ _ _ a b => wf_args wf a && wf_body wf b
  | NList _ _ l => forallb (wf_slot wf) l
  end.

Definition occ := (path * subject)%type.

Definition slot_occ (f : path -> node -> list occ) (p : path) (mk : nat -> step)
  : nat -> list (option node) -> list occ :=
  fix go (i : nat) (l : list (option node)) {struct l} : list occ :=
  match l with
  | [] => []
  | None :: r => go (S i) r
  | Some c :: r => f (p ++ [mk i]) c ++ go (S i) r
  end.
Definition body_occ (f : path -> node -> list occ) (p : path) (b : option node) : list occ :=
  match b with Some (NList _ _ l) => slot_occ f p SBody 0 l | _ => [] end.
Definition args_occ (f : path -> node -> list occ) (p : path) (a : option pargs) : list occ :=
  match a with
  | None => []
  | Some (sp, l) => (p ++ [SArgs], SubArgs (sp, l)) :: slot_occ f (p ++ [SArgs]) SArg 0 l
  end.

(** every object reachable from [n] through arguments and bodies, the owner
    before what it owns.  The [LatexNodeList] holding a body is not listed (it
    gets no callback, by the documented design); node lists in argument / item
    / root position are. *)
Fixpoint occurrences (p : path) (n : node) {struct n} : list occ :=
  (p, SubNode n) ::
  match n with
  | NChars _ _ _ _ | NComment _ _ _ _ _ => []
  | NGroup _ _ _ _ _ b | NMath _ _ _ _ _ _ b => body_occ occurrences p b
  | NMacro _ _ _ _ _ a | NSpecials _ _ _ _ a => args_occ occurrences p a
  | NEnv _ _ _ _ a b => args_occ occurrences p a ++ body_occ occurrences p b
  | NList _ _ l => slot_occ occurrences p SItem 0 l
  end.

(** the proper nodes among them ([harness/treedump.py: iter_nodes]) *)
Definition is_proper_node (o : occ) : bool :=
  match snd o with SubNode (NList _ _ _) => false | SubNode _ => true | SubArgs _ => false end.
Definition node_occurrences (n : node) : list occ := filter is_proper_node (occurrences [] n).

Definition ev_occ {R} (e : event R) : occ := (ev_path e, ev_subj e).

(** what the callback of the object [s] at [p] must receive: the folded
    results of the objects it owns, slot by slot *)
Definition expected_payload {R} (cb : callbacks R) (p : path) (s : subject) : payload R :=
  match s with
  | SubNode n => node_payload cb (result cb) p n
  | SubArgs a => PArgnlist (pargs_payload (result cb) p a)
  end.
(** the value the object [s] at [p] contributes to its owner *)
Definition subject_result {R} (cb : callbacks R) (p : path) (s : subject) : R :=
  match s with
  | SubNode n => result cb p n
  | SubArgs a => cb_pargs cb p a (pargs_payload (result cb) p a)
  end.
(** applying the callback an event names to the keyword arguments it logged *)
Definition callback_result {R} (cb : callbacks R) (e : event R) : option R :=
  let p := ev_path e in
  match ev_kind e, ev_subj e, ev_pay e with
  | KChars, SubNode n, PNone => Some (cb_chars cb p n)
  | KComment, SubNode n, PNone => Some (cb_comment cb p n)
  | KGroup, SubNode n, PNodelist l => Some (cb_group cb p n l)
  | KMacro, SubNode n, PArguments a => Some (cb_macro cb p n a)
  | KEnv, SubNode n, PArgsBody a b => Some (cb_env cb p n a b)
  | KSpecials, SubNode n, PArguments a => Some (cb_specials cb p n a)
  | KMath, SubNode n, PNodelist l => Some (cb_math cb p n l)
  | KList, SubNode n, PNodelist l => Some (cb_list cb p n l)
  | KPArgs, SubArgs a, PArgnlist l => Some (cb_pargs cb p a l)
  | _, _, _ => None
  end.

(** [q] is strictly below [p] *)
Definition strictly_below (p q : path) : Prop := exists x d, q = p ++ x :: d.

(** document order among the things one object owns: the arguments object
    before the body items, slots of one list by index *)
Definition step_lt (x y : step) : Prop :=
  match x, y with
  | SArgs, SBody _ => True
  | SArg i, SArg j | SBody i, SBody j | SItem i, SItem j => i < j
  | _, _ => False
  end.
(** [q1] lies in a part of the document that comes before the part [q2] lies
    in: below a common owner they descend through an earlier / a later slot *)
Definition doc_before (q1 q2 : path) : Prop :=
  exists c x y d1 d2, q1 = c ++ x :: d1 /\ q2 = c ++ y :: d2 /\ step_lt x y.

(** * The recording visitor used by the correspondence check

    Every callback returns the identity of the object it was called on (kind,
    pos, pos_end; for an arguments object: number of slots); the entry prints
    the event log and the outcome of [start]. *)

Definition kind_char (k : ckind) : N :=
  match k with
  | KChars => 67 | KComment => 35 | KGroup => 71 | KMacro => 77 | KEnv => 69
  | KSpecials => 83 | KMath => 36 | KList => 76 | KPArgs => 65
  end%N.

Definition show_step (s : step) : str :=
  match s with
  | SArgs => [65%N]                          (* A *)
  | SArg i => 97%N :: show_nat i             (* a<i> *)
  | SBody i => 98%N :: show_nat i            (* b<i> *)
  | SItem i => 105%N :: show_nat i           (* i<i> *)
  end.
Fixpoint show_path (p : path) : str :=
  match p with
  | [] => []
  | s :: r => 47%N :: show_step s ++ show_path r       (* /step/step *)
  end.

(** identity of a node: kind char, pos ':' pos_end *)
Definition node_ident (n : node) : str :=
  kind_char (node_kind n) :: show_opt show_nat (node_pos n) ++ 58%N :: show_opt show_nat (node_end n).
Definition pargs_ident (a : pargs) : str := 65%N :: show_nat (length (snd a)).

Definition recording : callbacks str :=
  {| cb_chars := fun _ n => node_ident n;
     cb_comment := fun _ n => node_ident n;
     cb_group := fun _ n _ => node_ident n;
     cb_macro := fun _ n _ => node_ident n;
     cb_env := fun _ n _ _ => node_ident n;
     cb_specials := fun _ n _ => node_ident n;
     cb_math := fun _ n _ => node_ident n;
     cb_list := fun _ n _ => node_ident n;
     cb_pargs := fun _ a _ => pargs_ident a |}.

Definition show_pylist (l : pylist str) : str :=
  match l with
  | None => [78; 111; 110; 101]%N                                       (* None *)
  | Some l => show_list (fun o => match o with None => [95%N] | Some r => r end) l
  end.
Definition show_argres (a : argres str) : str :=
  match a with AEmptyStr => [39; 39]%N | ARes r => r end.              (* '' *)

Definition show_payload (pl : payload str) : str :=
  match pl with
  | PNone => []
  | PNodelist l => [110; 108; 61]%N ++ show_pylist l                                  (* nl= *)
  | PArguments a => [97; 114; 103; 115; 61]%N ++ show_argres a                        (* args= *)
  | PArgsBody a b => [97; 114; 103; 115; 61]%N ++ show_argres a
                     ++ [44; 98; 111; 100; 121; 61]%N ++ show_pylist b                (* ,body= *)
  | PArgnlist l => [97; 114; 103; 110; 61]%N ++ show_pylist l                         (* argn= *)
  end.

Definition show_subject (s : subject) : str :=
  match s with
  | SubNode n => node_ident n
  | SubArgs a => pargs_ident a ++ show_list show_str (fst a)
  end.

(** [<path>|<ident>(<kwargs>)] — the kind char is the first char of the ident *)
Definition show_event (e : event str) : str :=
  show_path (ev_path e) ++ 124%N :: kind_char (ev_kind e) :: 61%N :: show_subject (ev_subj e)
  ++ paren (show_payload (ev_pay e)).

Fixpoint show_events (l : list (event str)) : str :=
  match l with
  | [] => []
  | e :: r => show_event e ++ 59%N :: show_events r                    (* ; *)
  end.

Definition show_outcome (o : vres str) : str :=
  match o with
  | VOk r => [61; 62]%N ++ r                                                          (* =>ident *)
  | VTypeError => [69; 88; 67; 32; 84; 121; 112; 101; 69; 114; 114; 111; 114]%N       (* EXC TypeError *)
  end.

(** [start(None)]: ['NoneType' object has no attribute 'accept_node_visitor'] *)
Definition exc_attribute_error : str :=
  [69; 88; 67; 32; 65; 116; 116; 114; 105; 98; 117; 116; 101; 69; 114; 114; 111; 114]%N.

Definition run_recording (t : option node) : str :=
  match t with
  | None => exc_attribute_error
  | Some n => let m := visit recording n in show_events (events m) ++ show_outcome (outcome m)
  end.

Definition entry_visitor (inp : list Z) : list Z :=
  match rd_tree inp with
  | Some (t, []) => to_wire (run_recording t)
  | _ => bad_input
  end.
