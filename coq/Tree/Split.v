(** Model of the node-list utilities of [pylatexenc/latexnodes/nodes.py]:
    [LatexNodeList.filter] (877-910), [split_at_node] (913-945),
    [split_at_chars] (947-1125), [parse_keyval_content] (1128-1230),
    [get_content_as_chars] / [_get_content_as_chars] (1233-1310), and of
    [_parsedargsinfo.py: SingleParsedArgumentInfo.get_content_nodelist /
    get_content_as_chars / parse_content_as_keyval] (87-168).

    A node list is [list (option node)] ([None] entries are Python [None]s);
    for splitting, every node that is not a [NChars] is opaque.  Python
    exceptions are result constructors.  The model tracks the code WITH the
    proposed fixes [fixes/C18-*.diff] applied (see notes/C18.md):
      - policy 'first' keeps the stored [LatexNodeList] (F10),
      - a separator match that is empty / does not lie at or after the search
        position raises [ValueError] instead of looping for ever,
      - a strictly negative start index returned by a callable means "no more
        separators", as documented. *)
From Coq Require Import NArith ZArith List Bool Arith.
From PLV Require Import Base.PyStr Base.Wire Parse.Nodes.
Import ListNotations.

Definition items := list (option node).

(** * Outcomes *)
Inductive exn :=
| EValue                      (* ValueError *)
| EAttribute                  (* AttributeError *)
| EType                       (* TypeError *)
| ERuntime                    (* RuntimeError *)
| EParse (pos : option nat)   (* LatexWalkerParseError(pos=...) *)
| EHang.                      (* the Python loop would not terminate (fuel ran out) *)

Inductive sres (A : Type) :=
| Ok (a : A)
| Exn (e : exn).
Arguments Ok {A} a.
Arguments Exn {A} e.

Definition sbind {A B} (r : sres A) (f : A -> sres B) : sres B :=
  match r with Ok a => f a | Exn e => Exn e end.

(** * Separator matchers

    [get_next_split(chars, pos)] without the [max_split] test: [None] is the
    Python [(-1, _)], [Some (i, j)] is [(next_sep_idx, next_sep_end)]. *)
Definition matcher := str -> nat -> option (nat * nat).

(** [str.isspace] for one code point (the 29 code points for which CPython's
    [str.isspace] / [re] [\s] hold; compared with the running interpreter over
    the whole code space by harness/props/c18.py on every run). *)
Definition py_isspace (c : N) : bool :=
  (((9 <=? c) && (c <=? 13)) || ((28 <=? c) && (c <=? 32)) || (c =? 133) || (c =? 160)
   || (c =? 5760) || ((8192 <=? c) && (c <=? 8202)) || (c =? 8232) || (c =? 8233)
   || (c =? 8239) || (c =? 8287) || (c =? 12288))%N.

Fixpoint find_pred (f : N -> bool) (s : str) : option nat :=
  match s with
  | [] => None
  | c :: r => if f c then Some 0
              else match find_pred f r with Some k => Some (S k) | None => None end
  end.

Fixpoint run_len (f : N -> bool) (s : str) : nat :=
  match s with
  | c :: r => if f c then S (run_len f r) else 0
  | [] => 0
  end.

(** literal string separator: [chars.find(sep, pos)], [(idx, idx+len(sep))] *)
Definition m_lit (sep : str) : matcher := fun s pos =>
  match find_from s sep pos with
  | Some i => Some (i, i + length sep)
  | None => None
  end.

(** regular expression [c\s*] (e.g. [,\s*]): the character [c] then any
    whitespace; [rx.search(chars, pos)] *)
Definition m_char_spaces (c : N) : matcher := fun s pos =>
  match find_pred (N.eqb c) (skipn pos s) with
  | Some k => let i := pos + k in
              Some (i, i + 1 + run_len py_isspace (skipn (i + 1) s))
  | None => None
  end.

(** regular expression [\s+] (the example of the docstring) *)
Definition m_spaces_plus : matcher := fun s pos =>
  match find_pred py_isspace (skipn pos s) with
  | Some k => let i := pos + k in Some (i, i + run_len py_isspace (skipn i s))
  | None => None
  end.

(** regular expression [\s*]: matches at [pos] itself, possibly empty *)
Definition m_spaces_star : matcher := fun s pos =>
  if Nat.ltb (length s) pos then None
  else Some (pos, pos + run_len py_isspace (skipn pos s)).

(** the callable of the harness ([harness/props/c18.py: sep_callable]): the
    next [;] or [|]; a doubled character is one separator *)
Definition is_semi_bar (c : N) : bool := ((c =? 59) || (c =? 124))%N.
Definition m_call : matcher := fun s pos =>
  match find_pred is_semi_bar (skipn pos s) with
  | Some k =>
      let i := pos + k in
      match skipn i s with
      | c :: d :: _ => if N.eqb c d then Some (i, i + 2) else Some (i, i + 1)
      | _ => Some (i, i + 1)
      end
  | None => None
  end.

(** * [split_at_chars] *)
Section SplitChars.
  Variable m : matcher.              (* sep_chars *)
  Variable ms : option nat.          (* max_split *)
  Variable keep : bool.              (* keep_empty *)
  Variable skipnone : bool.          (* skip_none *)
  Variable lm : nmode.               (* self.parsing_state (observed fields) *)
  Variable list_end : option nat.    (* self.pos_end *)

  Definition maxed (nparts : nat) : bool :=
    match ms with Some k => Nat.leb k nparts | None => false end.

  (** [get_next_split] *)
  Definition next_split (nparts : nat) (chars : str) (pos : nat) : option (nat * nat) :=
    if maxed nparts then None else m chars pos.

  (** [chars_to_node(chars[a:b], n, a, b)] *)
  Definition mk_piece (p : nat) (chars : str) (a b : nat) : option node :=
    Some (NChars (p + a) (p + b) lm (slice chars a b)).

  (** [flush_nodes(nodes, pos_end)] without the append *)
  Definition flush (nodes : items) (pe : option nat) : node :=
    mk_nodelist (match nodes with [] => pe | _ :: _ => None end) pe nodes.

  Definition nonempty {A} (l : list A) : bool := match l with [] => false | _ :: _ => true end.

  (** the [while True] loop over one chars node [NChars p _ _ chars];
      [prev] is [prev_sep_end] at the top of the iteration. *)
  Fixpoint chars_loop (fuel : nat) (orig : node) (p : nat) (chars : str)
           (prev : nat) (parts : list node) (pend : items) : sres (list node * items) :=
    match fuel with
    | O => Exn EHang
    | S f =>
      match next_split (length parts) chars prev with
      | Some (i, j) =>
        (* fix C18-empty-separator: the match must be non-empty and must not
           start before the search position *)
        if negb (Nat.leb prev i && Nat.ltb i j) then Exn EValue else
        let piece := slice chars prev i in
        if Nat.eqb prev 0 then
          let pend1 := if nonempty piece then pend ++ [mk_piece p chars prev i] else pend in
          let parts1 := if nonempty pend1 || keep
                        then parts ++ [flush pend1 (Some (p + i))] else parts in
          chars_loop f orig p chars j parts1 []
        else
          let the := if nonempty piece then [mk_piece p chars prev i] else [] in
          let parts1 := if nonempty the || keep
                        then parts ++ [flush the (Some (p + i))] else parts in
          chars_loop f orig p chars j parts1 pend
      | None =>
        if Nat.eqb prev 0 then Ok (parts, pend ++ [Some orig])
        else
          let piece := slice chars prev (length chars) in
          Ok (parts, if nonempty piece then pend ++ [mk_piece p chars prev (length chars)] else pend)
      end
    end.

  (** the [for n in self.nodelist] loop and the final flush *)
  Fixpoint split_loop (l : items) (parts : list node) (pend : items) : sres (list node) :=
    match l with
    | [] => Ok (if nonempty pend || keep then parts ++ [flush pend list_end] else parts)
    | None :: r => split_loop r parts (if skipnone then pend else pend ++ [None])
    | Some n :: r =>
      match n with
      | NChars p _ _ chars =>
        match chars_loop (S (length chars)) n p chars 0 parts pend with
        | Ok (parts1, pend1) => split_loop r parts1 pend1
        | Exn e => Exn e
        end
      | NList _ _ _ => Exn EAttribute        (* a LatexNodeList has no isNodeType *)
      | _ => split_loop r parts (pend ++ [Some n])
      end
    end.

  Definition split_at_chars (l : items) : sres (list node) := split_loop l [] [].
End SplitChars.

(** [nl.split_at_chars(...)] on a [LatexNodeList] object *)
Definition split_list_at_chars (m : matcher) (ms : option nat) (keep skipnone : bool)
           (lm : nmode) (nl : node) : sres (list node) :=
  match nl with
  | NList _ e l => split_at_chars m ms keep skipnone lm e l
  | _ => Exn EAttribute
  end.

(** * [split_at_node] *)
Section SplitNode.
  Variable pred : option node -> bool.     (* node_predicate_fn *)
  Variable skipnone keepsep : bool.
  Variable ms : option nat.

  (** [nodelists_list = done ++ [cur]] *)
  Fixpoint san_loop (l : items) (done : list items) (cur : items) (nomore : bool) : list items :=
    match l with
    | [] => done ++ [cur]
    | n :: r =>
      if skipnone && (match n with None => true | Some _ => false end) then san_loop r done cur nomore
      else if negb nomore && pred n then
        let done1 := done ++ [cur] in
        let cur1 := if keepsep then [n] else [] in
        let nomore1 := match ms with Some k => Nat.leb k (length done1 + 1) | None => false end in
        san_loop r done1 cur1 nomore1
      else san_loop r done (cur ++ [n]) nomore
    end.

  Definition split_at_node (l : items) : list node :=
    let nomore0 := match ms with Some 0 => true | _ => false end in
    map (mk_nodelist None None) (san_loop l [] [] nomore0).
End SplitNode.

(** * [filter] *)
Section Filter.
  Variable pred : option (option node -> bool).
  Variable skipnone skipcomments skipws : bool.

  (** [n.isNodeType(cls)] on something that may be [None] / a node list *)
  Definition has_isnodetype (n : option node) : bool :=
    match n with None => false | Some (NList _ _ _) => false | Some _ => true end.

  Definition filter_one (n : option node) : sres bool :=
    if skipnone && (match n with None => true | Some _ => false end) then Ok false else
    sbind (if skipcomments then
             if has_isnodetype n
             then Ok (match n with Some (NComment _ _ _ _ _) => true | _ => false end)
             else Exn EAttribute
           else Ok false) (fun is_comment =>
    if is_comment then Ok false else
    sbind (if skipws then
             if has_isnodetype n
             then Ok (match n with
                      | Some (NChars _ _ _ c) => Nat.eqb (length (strip py_isspace c)) 0
                      | _ => false end)
             else Exn EAttribute
           else Ok false) (fun is_ws =>
    if is_ws then Ok false else
    match pred with Some f => Ok (f n) | None => Ok true end)).

  Fixpoint filter_loop (l : items) : sres items :=
    match l with
    | [] => Ok []
    | n :: r => sbind (filter_one n) (fun b =>
                sbind (filter_loop r) (fun r' => Ok (if b then n :: r' else r')))
    end.

  Definition filter_list (nl : node) : sres node :=
    match nl with
    | NList _ e l =>
        sbind (filter_loop l) (fun fl =>
        let pe := match fl with [] => e | _ :: _ => None end in
        Ok (mk_nodelist pe pe fl))
    | _ => Exn EAttribute
    end.
End Filter.

(** * [_get_content_as_chars] *)
Fixpoint content_chars_node (n : node) : sres str :=
  match n with
  | NChars _ _ _ c => Ok c
  | NComment _ _ _ _ _ => Ok []
  | NGroup _ _ _ _ _ body =>
      match body with
      | None => Ok []
      | Some (NList _ _ l) =>
          (fix go (l : items) : sres str :=
             match l with
             | [] => Ok []
             | None :: r => go r
             | Some x :: r => sbind (content_chars_node x) (fun a =>
                              sbind (go r) (fun b => Ok (a ++ b)))
             end) l
      | Some _ => Exn EType                   (* iterating over a node *)
      end
  | NList _ _ _ => Exn EAttribute
  | _ => Exn (EParse (node_pos n))
  end.

Fixpoint content_chars (l : items) : sres str :=
  match l with
  | [] => Ok []
  | None :: r => content_chars r
  | Some x :: r => sbind (content_chars_node x) (fun a =>
                   sbind (content_chars r) (fun b => Ok (a ++ b)))
  end.

Definition node_items (n : node) : items := match n with NList _ _ l => l | _ => [] end.

(** * [parse_keyval_content] *)
Inductive policy := PFirst | PLast | PConcat | PError.

Definition kvs := list (str * node).

Fixpoint kv_lookup (k : str) (d : kvs) : option node :=
  match d with
  | [] => None
  | (k', v) :: r => if str_eqb k k' then Some v else kv_lookup k r
  end.

(** [d[k] = v] on an insertion-ordered dict *)
Fixpoint kv_set (k : str) (v : node) (d : kvs) : kvs :=
  match d with
  | [] => [(k, v)]
  | (k', v') :: r => if str_eqb k k' then (k', v) :: r else (k', v') :: kv_set k v r
  end.

(** [value_nl if isinstance(value_nl, LatexNodeList) else make_nodelist([value_nl])] *)
Definition as_nodelist (o : option node) : node :=
  match o with
  | Some (NList p e l) => NList p e l
  | other => mk_nodelist None None [other]
  end.

Section KeyVal.
  Variable mcomma meq : matcher.
  Variable pol : policy.
  Variable dflt : option node.          (* default_value_nodelist *)
  Variable extract : bool.              (* extract_value_group_contents *)
  Variable lm : nmode.

  (** the value of one [key=value] part after the [=] split: [rest] are the
      split parts after the key part *)
  Definition kv_value (rest : list node) : sres node :=
    match rest with
    | [] => Ok (as_nodelist dflt)
    | [v] =>
        sbind (if extract then
                 match node_items v with
                 | [Some (NGroup _ _ _ _ _ body)] => Ok body
                 | [Some (NList _ _ _)] => Exn EAttribute
                 | _ => Ok (Some v)
                 end
               else Ok (Some v)) (fun vo =>
        Ok (as_nodelist (match vo with None => dflt | Some x => Some x end)))
    | _ => Exn ERuntime
    end.

  (** the repeated-key branch *)
  Definition kv_combine (prev value : node) : sres node :=
    match pol with
    | PConcat => Ok (mk_nodelist (node_pos prev) None (node_items prev ++ node_items value))
    | PError => Exn EValue
    | PFirst => Ok prev                    (* fix C18-keyval-first *)
    | PLast => Ok value
    end.

  Definition kv_step (part : node) (d : kvs) : sres kvs :=
    sbind (split_list_at_chars meq (Some 1) false true lm part) (fun eqparts =>
    match eqparts with
    | [] => Ok d
    | key_nl :: rest =>
        sbind (kv_value rest) (fun value =>
        sbind (content_chars (node_items key_nl)) (fun key_s =>
        sbind (match kv_lookup key_s d with
               | Some prev => kv_combine prev value
               | None => Ok value
               end) (fun value1 =>
        Ok (kv_set key_s value1 d))))
    end).

  Fixpoint kv_loop (parts : list node) (d : kvs) : sres kvs :=
    match parts with
    | [] => Ok d
    | part :: r => sbind (kv_step part d) (fun d1 => kv_loop r d1)
    end.

  Definition parse_keyval_content (nl : node) : sres kvs :=
    sbind (split_list_at_chars mcomma None false true lm nl) (fun parts => kv_loop parts []).
End KeyVal.

(** * [SingleParsedArgumentInfo] *)
Definition get_content_nodelist (unwrap : bool) (arg : option node) : sres (option node) :=
  match arg with
  | None => Ok (Some (mk_nodelist None None [None]))
  | Some (NList _ _ _) => Ok arg
  | Some (NGroup _ _ _ dl _ body) =>
      if unwrap then
        match body with
        | Some (NList _ _ [Some (NGroup _ _ _ dl2 _ b2)]) =>
            if negb (str_eqb dl2 dl) then Ok b2 else Ok body
        | Some (NList _ _ [Some (NList _ _ (_ :: _))]) => Exn EAttribute
        | Some (NList _ _ _) => Ok body
        | _ => Exn EType                    (* len(None) / len(node) *)
        end
      else Ok body
  | Some n => Ok (Some (mk_nodelist None None [Some n]))
  end.

Definition arg_content_as_chars (arg : option node) : sres str :=
  sbind (get_content_nodelist true arg) (fun o =>
  match o with
  | Some (NList _ _ l) => content_chars l
  | _ => Exn EAttribute
  end).

Definition arg_parse_keyval (mcomma meq : matcher) (pol : policy) (dflt : option node)
           (extract : bool) (lm : nmode) (arg : option node) : sres kvs :=
  sbind (get_content_nodelist true arg) (fun o =>
  match o with
  | Some nl => parse_keyval_content mcomma meq pol dflt extract lm nl
  | None => Exn EAttribute
  end).

(** * Concrete node predicates of the harness ([harness/props/c18.py: PREDS]) *)
Definition pred_of (k : nat) (s : str) : option node -> bool := fun o =>
  match k, o with
  | 0, Some (NMacro _ _ _ nm _ _) => str_eqb nm s                     (* macro named s *)
  | 1, Some (NChars _ _ _ c) => str_eqb c s                           (* chars == s *)
  | 2, Some (NComment _ _ _ _ _) => true                              (* any comment *)
  | 3, Some (NGroup _ _ _ _ _ _) => true                              (* any group *)
  | 4, None => true                                                   (* None entries *)
  | 5, Some (NChars _ _ _ c) => Nat.eqb (length (strip py_isspace c)) 0  (* whitespace chars *)
  | 6, Some (NSpecials _ _ _ _ _) => true
  | 6, Some (NMath _ _ _ _ _ _ _) => true
  | 7, _ => true                                                      (* everything *)
  | _, _ => false
  end.

(** * Wire *)
Definition show_exn (e : exn) : str :=
  [69; 88; 67; 32]%N ++                                                  (* "EXC " *)
  match e with
  | EValue => [86; 97; 108; 117; 101; 69; 114; 114; 111; 114]%N
  | EAttribute => [65; 116; 116; 114; 105; 98; 117; 116; 101; 69; 114; 114; 111; 114]%N
  | EType => [84; 121; 112; 101; 69; 114; 114; 111; 114]%N
  | ERuntime => [82; 117; 110; 116; 105; 109; 101; 69; 114; 114; 111; 114]%N
  | EParse p => [80; 97; 114; 115; 101; 69; 114; 114; 111; 114; 32]%N ++ show_opt show_nat p
  | EHang => [72; 65; 78; 71]%N
  end.

Definition show_res {A} (f : A -> str) (r : sres A) : str :=
  match r with Ok a => f a | Exn e => show_exn e end.

Definition show_parts (l : list node) : str := show_list show_node l.
Definition show_kvs (d : kvs) : str :=
  show_list (fun kv => paren (show_str (fst kv) ++ 58%N :: show_node (snd kv))) d.

Definition rd_bind {A B} (f : rd A) (g : A -> rd B) : rd B :=
  fun l => match f l with Some (a, r) => g a r | None => None end.
Definition rd_ret {A} (a : A) : rd A := fun l => Some (a, l).

(** matcher: [0 s] literal, [1 c] regex c\s*, [2] regex \s+, [3] regex \s*, [4] callable *)
Definition rd_matcher : rd matcher :=
  rd_bind rd_nat (fun k =>
  match k with
  | 0 => rd_bind rd_str (fun s => rd_ret (m_lit s))
  | 1 => rd_bind rd_N (fun c => rd_ret (m_char_spaces c))
  | 2 => rd_ret m_spaces_plus
  | 3 => rd_ret m_spaces_star
  | _ => rd_ret m_call
  end).

Definition rd_policy : rd policy :=
  rd_bind rd_nat (fun k =>
  rd_ret (match k with 0 => PFirst | 1 => PLast | 2 => PConcat | _ => PError end)).

Definition rd_pred : rd (option node -> bool) :=
  rd_bind rd_nat (fun k => rd_bind rd_str (fun s => rd_ret (pred_of k s))).

Definition run_entry (r : rd str) (inp : list Z) : list Z :=
  match r inp with Some (s, _) => to_wire s | None => bad_input end.

Definition need_node {A} (o : option node) (f : node -> rd A) : rd A :=
  match o with Some n => f n | None => fun _ => None end.

Definition entry_split (sub : Z) : list Z -> list Z :=
  if Z.eqb sub 1 then        (* split_at_chars: tree lm matcher max_split keep_empty skip_none *)
    run_entry (rd_bind rd_tree (fun t => need_node t (fun nl =>
               rd_bind rd_mode (fun lm => rd_bind rd_matcher (fun m =>
               rd_bind (rd_opt rd_nat) (fun ms => rd_bind rd_bool (fun keep =>
               rd_bind rd_bool (fun sk =>
               rd_ret (show_res show_parts (split_list_at_chars m ms keep sk lm nl))))))))))
  else if Z.eqb sub 2 then   (* split_at_node: tree pred skip_none keep_separators max_split *)
    run_entry (rd_bind rd_tree (fun t => need_node t (fun nl =>
               rd_bind rd_pred (fun pr => rd_bind rd_bool (fun sk =>
               rd_bind rd_bool (fun ks => rd_bind (rd_opt rd_nat) (fun ms =>
               rd_ret (show_parts (split_at_node pr sk ks ms (node_items nl))))))))))
  else if Z.eqb sub 3 then   (* filter: tree pred? skip_none skip_comments skip_ws *)
    run_entry (rd_bind rd_tree (fun t => need_node t (fun nl =>
               rd_bind (rd_opt rd_pred) (fun pr => rd_bind rd_bool (fun sk =>
               rd_bind rd_bool (fun sc => rd_bind rd_bool (fun sw =>
               rd_ret (show_res show_node (filter_list pr sk sc sw nl)))))))))
  else if Z.eqb sub 4 then   (* parse_keyval_content: tree lm mcomma meq policy default extract *)
    run_entry (rd_bind rd_tree (fun t => need_node t (fun nl =>
               rd_bind rd_mode (fun lm => rd_bind rd_matcher (fun mc =>
               rd_bind rd_matcher (fun me => rd_bind rd_policy (fun pol =>
               rd_bind rd_tree (fun dflt => rd_bind rd_bool (fun ex =>
               rd_ret (show_res show_kvs (parse_keyval_content mc me pol dflt ex lm nl)))))))))))
  else if Z.eqb sub 5 then   (* LatexNodeList.get_content_as_chars: tree *)
    run_entry (rd_bind rd_tree (fun t => need_node t (fun nl =>
               rd_ret (show_res show_str (content_chars (node_items nl))))))
  else if Z.eqb sub 6 then   (* get_content_nodelist: arg unwrap *)
    run_entry (rd_bind rd_tree (fun arg => rd_bind rd_bool (fun uw =>
               rd_ret (show_res show_onode (get_content_nodelist uw arg)))))
  else if Z.eqb sub 7 then   (* SingleParsedArgumentInfo.get_content_as_chars: arg *)
    run_entry (rd_bind rd_tree (fun arg =>
               rd_ret (show_res show_str (arg_content_as_chars arg))))
  else if Z.eqb sub 8 then   (* parse_content_as_keyval: arg lm policy *)
    run_entry (rd_bind rd_tree (fun arg => rd_bind rd_mode (fun lm =>
               rd_bind rd_policy (fun pol =>
               rd_ret (show_res show_kvs
                         (arg_parse_keyval (m_lit [44%N]) (m_lit [61%N]) pol None true lm arg))))))
  else fun _ => bad_input.
