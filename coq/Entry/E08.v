(** Wire entry points of C08 (round trip) and C13 (inert output):
    sub 0: [protection 0..4] [sls: bmc blc ac ineq] [string]  ->  "ok <text>" | "fail"
    sub 1: [xml?] [protection 0..4] [policy 0..4] [string]
           ->  "enc <latex> ascii=T|F parsed c e m" | "enc <latex> ... perr <pos>" | "valueerror" | "other" *)
From Coq Require Import NArith ZArith List Bool.
From PLV Require Import Base.PyStr Base.Wire Tok.TokWire L2T.L2T L2T.L2TWire Enc.RoundTrip.
From PLV Require Enc.Encoder.
Import ListNotations.

Definition rd_prot : rd Enc.Encoder.prot :=
  fun l => match l with
           | 0%Z :: r => Some (Enc.Encoder.PNone, r) | 1%Z :: r => Some (Enc.Encoder.PBraces, r)
           | 2%Z :: r => Some (Enc.Encoder.PBracesAll, r) | 3%Z :: r => Some (Enc.Encoder.PBracesAlmostAll, r)
           | 4%Z :: r => Some (Enc.Encoder.PBracesAfterMacro, r) | _ => None end.
Definition rd_policy : rd Enc.Encoder.policy :=
  fun l => match l with
           | 0%Z :: r => Some (Enc.Encoder.UKeep, r) | 1%Z :: r => Some (Enc.Encoder.UReplace, r)
           | 2%Z :: r => Some (Enc.Encoder.UIgnore, r) | 3%Z :: r => Some (Enc.Encoder.UFail, r)
           | 4%Z :: r => Some (Enc.Encoder.UUnihex, r) | _ => None end.

Definition entry_roundtrip (inp : list Z) : list Z :=
  match bind rd_prot (fun p => bind rd_sls (fun sl => bind rd_str (fun s => ret (p, sl, s)))) inp with
  | Some ((p, sl, s), _) =>
      match roundtrip p sl s with
      | Some t => to_wire ([111;107;32]%N ++ show_str t)
      | None => to_wire [102;97;105;108]%N
      end
  | None => bad_input
  end.

Definition entry_inert (inp : list Z) : list Z :=
  match bind rd_bool (fun x => bind rd_prot (fun p => bind rd_policy (fun pol => bind rd_str (fun s =>
        ret (x, p, pol, s))))) inp with
  | Some ((x, p, pol, s), _) =>
      match encode_builtin x p pol s with
      | EncValueError => to_wire [118;97;108;117;101;101;114;114;111;114]%N
      | EncOther => to_wire [111;116;104;101;114]%N
      | EncOk t =>
          let head := [101;110;99;32]%N ++ show_str t ++ [32;97;115;99;105;105;61]%N ++ show_bool (is_ascii_str t) in
          to_wire (head ++ match parse_encoded t with
                           | IParsed c e m => [32;112;97;114;115;101;100;32]%N ++ show_nat c ++ [32%N] ++ show_nat e
                                              ++ [32%N] ++ show_nat m
                           | IParseError pos => [32;112;101;114;114;32]%N ++ show_opt show_nat pos
                           | IOther => [32;111;116;104;101;114]%N
                           end)
      end
  | None => bad_input
  end.

Definition entry (sub : Z) (inp : list Z) : list Z :=
  if Z.eqb sub 0 then entry_roundtrip inp else if Z.eqb sub 1 then entry_inert inp else bad_input.
