(** Wire entry points of property C15.

    input : node cwd dir strict names
      node  := 0 k (name node)^k | 1 content | 2 target       (strings length-prefixed)
      cwd   := list of component strings (real path of the process' cwd)
      dir   := option string (None: set_tex_input_directory never called)
      names := list of requested names
    output: [D=<realpath dir> <ret>;<realpath(join(dir,name))> ...]
      <ret> is the returned string, or [L] when the model ran out of fuel.
    sub 0: the code with the C15 fix; sub 1: the code before the fix. *)
From Coq Require Import NArith ZArith List Bool.
From PLV Require Import Base.PyStr Base.Wire FS.FsModel FS.InputFile.
Import ListNotations.

Fixpoint rd_node (fuel : nat) : rd node :=
  fun l =>
  match fuel with
  | O => None
  | S f =>
    match l with
    | z :: r =>
        if Z.eqb z 0 then
          match rd_list (fun l1 => match rd_str l1 with
                                   | Some (nm, l2) =>
                                       match rd_node f l2 with
                                       | Some (x, l3) => Some ((nm, x), l3)
                                       | None => None end
                                   | None => None end) r with
          | Some (es, r') => Some (Dir es, r')
          | None => None
          end
        else if Z.eqb z 1 then
          match rd_str r with Some (c, r') => Some (File c, r') | None => None end
        else
          match rd_str r with Some (t, r') => Some (Symlink t, r') | None => None end
    | [] => None
    end
  end%Z.

Definition show_rres (r : rres) : str :=
  match r with Ret s => show_str s | Loop => [76%N] end.

Definition entry_fuel (inp : list Z) : nat := 200 + 8 * length inp.

Definition run_names (orig : bool) (fuel : nat) (root : node) (cwd : path)
           (dir : option str) (strict : bool) (names : list str) : str :=
  let rd1 := fun fn =>
    match dir with
    | None => Ret []
    | Some d => if orig then read_latex_file_orig fuel root cwd d strict fn
                else read_latex_file fuel root cwd d strict fn
    end in
  let probe := fun fn =>
    match dir with
    | None => None
    | Some d => realpath fuel root cwd (os_path_join d fn)
    end in
  let dreal := match dir with None => None | Some d => realpath fuel root cwd d end in
  join [32%N]
       (([68; 61]%N ++ show_opt show_str dreal)
          :: map (fun fn => show_rres (rd1 fn) ++ 59%N :: show_opt show_str (probe fn)) names).

Definition entry (sub : Z) (inp : list Z) : list Z :=
  match rd_node (length inp) inp with
  | Some (root, r1) =>
    match rd_list rd_str r1 with
    | Some (cwd, r2) =>
      match rd_opt rd_str r2 with
      | Some (dir, r3) =>
        match rd_bool r3 with
        | Some (strict, r4) =>
          match rd_list rd_str r4 with
          | Some (names, _) =>
              to_wire (run_names (Z.eqb sub 1) (entry_fuel inp) root cwd dir strict names)
          | None => bad_input end
        | None => bad_input end
      | None => bad_input end
    | None => bad_input end
  | None => bad_input
  end.
