(** Wire entry points of property C11: sub 0: parsing state chain + reader script;
    sub 1: several parsing states used alternately on one reader. *)
From Coq Require Import ZArith List.
From PLV Require Import Base.Wire Tok.TokWire.
Definition entry (sub : Z) (inp : list Z) : list Z :=
  if Z.eqb sub 1 then entry_tok_multi inp else entry_tok inp.
