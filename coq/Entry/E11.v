(** Wire entry points of property C11 (stub: replaced when the model is built). *)
From Coq Require Import ZArith List.
From PLV Require Import Base.Wire.
Definition entry (sub : Z) (inp : list Z) : list Z := bad_input.
