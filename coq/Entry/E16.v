(** Wire entry points of property C16 (the pylatexenc-2 compatible API).

    Every sub-entry starts with the context selector (0 = generated default
    walker context, 1 = a custom context on the wire), the string, the
    tolerant flag and the parsing-state variant (0 = the walker's default
    state, 1 = its [sub_context(in_math_mode=True)]); the legacy call is made at
    EVERY start position [0..len s] and the dumps are joined by " | ".

    sub 0 get_token            include_brace_chars (opt list of pairs), brackets_are_chars (tri), environments (tri)
    sub 1 get_latex_nodes      stop_upon_closing_brace, _end_environment, _closing_mathmode (opt str each), read_max_nodes (opt nat)
    sub 2 get_latex_expression strict_braces (tri)
    sub 3 get_latex_braced_group  brace_type (1 or 2 characters)
    sub 4 get_latex_environment   environmentname (opt str)
    sub 5 get_latex_maybe_optional_arg
    sub 7 MacroStandardArgsParser(a, optional_arg_no_space, args_math_mode).parse_args at every position
    sub 6 (no header) spelling id, argument string  /  id 8: std_macro(name, optarg, numargs) *)
From Coq Require Import NArith ZArith List Bool.
From PLV Require Import Base.PyStr Base.Wire Tok.PState Tok.Tokenizer Tok.TokWire Parse.Nodes Parse.Parser
     Parse.ParseWire Parse.Legacy.
From PLV Require Gen.GenWalkerCtx.
Import ListNotations.

(** 0 = None / absent, 1 = True, 2 = False *)
Definition rd_tri : rd (option bool) :=
  fun l => match l with
           | 0%Z :: r => Some (None, r) | 1%Z :: r => Some (Some true, r) | 2%Z :: r => Some (Some false, r)
           | _ => None end.

Definition show_lres {A} (f : A -> str) (x : lres A) : str :=
  match x with
  | LOk a => f a
  | LErr p => [101;114;114;32]%N ++ show_opt show_nat p          (* "err <pos>" *)
  | LEOS => [101;111;115]%N                                      (* eos *)
  | LExn k => [101;120;110;32]%N ++ show_nat k                   (* "exn k" *)
  | LFuel => [102;117;101;108]%N                                 (* fuel *)
  end.

(** "ok <node>@<pos>+<len>" *)
Definition show_triple (t : ltriple) : str :=
  [111;107;32]%N ++ show_onode (lt_node t) ++ 64%N :: show_opt show_nat (lt_pos t)
    ++ 43%N :: show_opt show_Z (lt_len t).
Definition show_otriple (o : option ltriple) : str :=
  match o with Some t => show_triple t | None => [110;111;110;101]%N end.     (* none *)
Definition show_args (x : list (option node) * nat) : str :=
  [111;107;32]%N ++ show_list show_onode (fst x) ++ 64%N :: show_nat (snd x).

Definition all_positions (s : str) : list nat := seq 0 (S (length s)).
Definition at_all (s : str) (f : nat -> str) : list Z :=
  to_wire (join [32;124;32]%N (map f (all_positions s))).

Definition state_variant (cx : context) (v : Z) : pstate :=
  if Z.eqb v 1 then sub_context (walker_state cx) [UInMath true] else walker_state cx.

Definition rd_header : rd (context * str * bool * Z) :=
  bind (fun l => match l with
                 | 0%Z :: r => Some (Gen.GenWalkerCtx.default_ctx, r)
                 | 1%Z :: r => rd_context r
                 | _ => None end) (fun cx =>
  bind rd_str (fun s => bind rd_bool (fun tol => bind rd_Z (fun v => ret (cx, s, tol, v))))).

Definition show_aparser (p : option aparser) : str :=
  match p with
  | None => [114;97;105;115;101]%N                                              (* raise *)
  | Some q =>
      (match q with
       | PNew _ => [110;101;119]%N                                              (* new *)
       | PNoArgs => [110;111;97;114;103;115]%N                                  (* noargs *)
       | PWrap o => [119;114;97;112]%N ++ show_bool (lo_noopt o)                (* wrapT / wrapF *)
       end) ++ 32%N :: show_list show_str (parser_argspec q)
  end.

Definition spelling_of (z : Z) : option spelling :=
  match z with
  | 0%Z => Some SpArgsParserString | 1%Z => Some SpPositional | 2%Z => Some SpStdMacro
  | 3%Z => Some SpStdMacroNone | 4%Z => Some SpStdEnvironment | 5%Z => Some SpLegacyKw
  | 6%Z => Some SpLegacyKwArgspec | 7%Z => Some SpLegacyPositional | _ => None
  end.

Definition entry (sub : Z) (inp : list Z) : list Z :=
  if Z.eqb sub 6 then
    match inp with
    | 8%Z :: r =>
        match bind rd_tri (fun o => bind rd_nat (fun n => ret (o, n))) r with
        | Some ((o, n), _) => to_wire (show_aparser (std_macro (SAOptNum o n)))
        | None => bad_input
        end
    | z :: r =>
        match spelling_of z, rd_str r with
        | Some sp, Some (a, _) => to_wire (show_aparser (spell sp a))
        | _, _ => bad_input
        end
    | [] => bad_input
    end
  else
  match rd_header inp with
  | None => bad_input
  | Some ((cx, s, tol, v), r) =>
    let ps := state_variant cx v in
    if Z.eqb sub 0 then
      match bind (rd_opt rd_delims) (fun i => bind rd_tri (fun b => bind rd_tri (fun e => ret (i, b, e)))) r with
      | Some ((i, b, e), _) =>
          at_all s (fun p => show_lres show_token (legacy_get_token s tol ps p i b e))
      | None => bad_input
      end
    else if Z.eqb sub 1 then
      match bind (rd_opt rd_str) (fun b => bind (rd_opt rd_str) (fun e => bind (rd_opt rd_str) (fun m =>
            bind (rd_opt rd_nat) (fun mx => ret (b, e, m, mx))))) r with
      | Some ((b, e, m, mx), _) =>
          at_all s (fun p => show_lres show_triple (legacy_get_latex_nodes s tol cx ps p b e m mx))
      | None => bad_input
      end
    else if Z.eqb sub 2 then
      match rd_tri r with
      | Some (sb, _) =>
          at_all s (fun p => show_lres show_triple (legacy_get_latex_expression s tol cx ps p sb))
      | None => bad_input
      end
    else if Z.eqb sub 3 then
      match rd_str r with
      | Some (bt, _) =>
          at_all s (fun p => show_lres show_triple (legacy_get_latex_braced_group s tol cx ps p bt))
      | None => bad_input
      end
    else if Z.eqb sub 4 then
      match rd_opt rd_str r with
      | Some (nm, _) =>
          at_all s (fun p => show_lres show_triple (legacy_get_latex_environment s tol cx ps p nm))
      | None => bad_input
      end
    else if Z.eqb sub 5 then
      at_all s (fun p => show_lres show_otriple (legacy_get_latex_maybe_optional_arg s tol cx ps p))
    else if Z.eqb sub 7 then
      match bind rd_str (fun a => bind rd_bool (fun no => bind (rd_opt (rd_list rd_tri)) (fun amm =>
            ret (a, no, amm)))) r with
      | Some ((a, no, amm), _) =>
          at_all s (fun p => show_lres show_args (legacy_parse_args s tol cx ps a no amm p))
      | None => bad_input
      end
    else bad_input
  end.
