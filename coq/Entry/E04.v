(** Wire entry points of property C04.

    sub 0: one encoder run
      [mode (0 plain | 1 partial, keep-chars)] [out (0 str | 1 chunk list)]
      [non_ascii_only] [protection] [policy] [rules] [input string]
      ->  O "<code points>"  |  C ["..",..]  |  E <exception class>  |  FUEL
    sub 1: a history of calls of the module-level helper
      [list of (non_ascii_only, protection name, policy name, warning flag, string)]
      ->  the outcomes, space separated *)
From Coq Require Import NArith ZArith List Bool String.
From PLV Require Import Base.PyStr Base.Wire Enc.Encoder Enc.Builtin Enc.Partial Enc.Family.
Import ListNotations.
Local Open Scope string_scope.
Local Open Scope list_scope.

Definition bind {A B} (f : rd A) (g : A -> rd B) : rd B :=
  fun l => match f l with Some (a, r) => g a r | None => None end.
Definition ret {A} (a : A) : rd A := fun l => Some (a, l).
Definition fail {A} : rd A := fun _ => None.
Notation "'let*' x ':=' f 'in' g" := (bind f (fun x => g)) (at level 200, x name, f at level 100, g at level 200).

Definition rd_sprot : rd sprot :=
  let* k := rd_nat in
  match k with
  | 0 => ret SPNone | 1 => ret SPBraces | 2 => ret SPBracesAll | 3 => ret SPBracesAlmostAll
  | 4 => ret SPBracesAfterMacro
  | 5 => let* pre := rd_str in let* post := rd_str in ret (SPWrap pre post)
  | _ => fail
  end.

Definition rd_spolicy : rd spolicy :=
  let* k := rd_nat in
  match k with
  | 0 => ret SUKeep | 1 => ret SUReplace | 2 => ret SUIgnore | 3 => ret SUFail | 4 => ret SUUnihex
  | 5 => let* pre := rd_str in let* post := rd_str in ret (SUWrap pre post)
  | _ => fail
  end.

Definition rd_rx : rd rx :=
  let* k := rd_nat in
  match k with
  | 0 => let* l := rd_str in ret (RxLit l)
  | 1 => let* lo := rd_N in let* hi := rd_N in let* n := rd_nat in ret (RxClassMin lo hi n)
  | 2 => let* c := rd_N in let* n := rd_nat in ret (RxRep c n)
  | 3 => let* pre := rd_str in let* lo := rd_N in let* hi := rd_N in let* suf := rd_str in
         ret (RxGroup pre lo hi suf)
  | 4 => let* lo := rd_N in let* hi := rd_N in let* l := rd_str in ret (RxNotAfter lo hi l)
  | 5 => let* l := rd_str in ret (RxBol l)
  | _ => fail
  end.

Definition rd_tpiece : rd tpiece :=
  let* k := rd_nat in
  match k with
  | 0 => let* l := rd_str in ret (TLit l)
  | 1 => ret TGroup0
  | 2 => ret TGroup1
  | _ => fail
  end.

Definition rd_srrepl : rd srrepl :=
  let* k := rd_nat in
  match k with
  | 0 => let* t := rd_list rd_tpiece in ret (SRTempl t)
  | 1 => let* pre := rd_str in let* post := rd_str in ret (SRWrap pre post)
  | _ => fail
  end.

Definition rd_scallable : rd scallable :=
  let* k := rd_nat in
  match k with
  | 0 => let* l := rd_str in let* r := rd_str in ret (SCLit l r)
  | 1 => ret SCDoc
  | 2 => ret SCQuote
  | 3 => let* cs := rd_str in let* n := rd_nat in let* r := rd_str in ret (SCSet cs n r)
  | _ => fail
  end.

Definition rd_pair {A B} (f : rd A) (g : rd B) : rd (A * B) :=
  let* a := f in let* b := g in ret (a, b).

Definition rd_sbody : rd sbody :=
  let* k := rd_nat in
  match k with
  | 0 => let* d := rd_nat in
         match d with
         | 0 => ret (SBDict SDDefaults)
         | 1 => ret (SBDict SDXml)
         | 2 => let* t := rd_list (rd_pair rd_N rd_str) in ret (SBDict (SDCustom t))
         | _ => fail
         end
  | 1 => let* l := rd_list (rd_pair rd_rx rd_srrepl) in ret (SBRegex l)
  | 2 => let* c := rd_scallable in ret (SBCallable c)
  | _ => fail
  end.

Definition rd_srule : rd srule :=
  let* p := rd_opt rd_sprot in let* b := rd_sbody in ret {| sr_body := b; sr_prot := p |}.

Definition show_exn (e : exn) : str :=
  match e with
  | ValueError => lit "ValueError"
  | BadOption => lit "ValueError"
  | ReError => lit "error"
  | TokenParseError => lit "LatexWalkerTokenParseError"
  | EndOfStream => lit "LatexWalkerEndOfStream"
  end.

Definition show_res (chunks : bool) (r : res (list str)) : str :=
  match r with
  | Ok l => if chunks then lit "C " ++ show_list show_str l else lit "O " ++ show_str (flatten l)
  | Exn e => lit "E " ++ show_exn e
  | OutOfFuel => lit "FUEL"
  end.

Definition rd_case : rd str :=
  let* mode := rd_nat in
  let* keep := (match mode with 0 => ret None | _ => let* k := rd_str in ret (Some k) end) in
  let* chunks := rd_bool in
  let* nao := rd_bool in
  let* gp := rd_sprot in
  let* pol := rd_spolicy in
  let* rs := rd_list rd_srule in
  let* s := rd_str in
  let cfg := den_config {| s_rules := rs; s_gprot := gp; s_policy := pol; s_nao := nao |} in
  ret (show_res chunks (match keep with
                        | None => encode cfg s
                        | Some k => partial_encode k cfg s
                        end)).

Definition rd_call : rd (hkey * str) :=
  let* nao := rd_bool in let* pr := rd_str in let* pol := rd_str in let* w := rd_bool in
  let* s := rd_str in
  ret ({| k_nao := nao; k_prot := pr; k_policy := pol; k_warn := w |}, s).

Definition entry (sub : Z) (inp : list Z) : list Z :=
  match sub with
  | 0%Z => match rd_case inp with Some (o, _) => to_wire o | None => bad_input end
  | 1%Z => match rd_list rd_call inp with
           | Some (h, _) => to_wire (join [32%N] (map (show_res false) (snd (helper_run [] h))))
           | None => bad_input
           end
  | _ => bad_input
  end.
