(** Wire entry points of property C13: same functions as E08 (sub 1 is the inert-output entry). *)
From Coq Require Import ZArith List.
From PLV Require Import Base.Wire.
From PLV Require Entry.E08.
Definition entry (sub : Z) (inp : list Z) : list Z := Entry.E08.entry sub inp.
