(** Wire entry of property C14: decode a query universe and an operation
    history, run the heap model, and print after every operation its result
    and the observation of every live database.

    Input:  universe  ops
      universe = macro-names env-names specials-names tests iter-lists
                 (names: list of str; tests: list of (str, list of pos);
                  iter-lists: list of list of cat)
      cat      = 0 n (user)  |  1 n (auto-generated)
      spec     = name id
      op       = 0                                           new
               | 1 h optcat specs specs specs placement      add_context_category
               | 2 h kind optspec                            set_unknown_*_spec
               | 3 h                                         freeze
               | 4 h cats cats kinds                         filtered_context
               | 5 h optcat specs specs specs oo oo oo       extended_with
      placement = 0 | 1 | 2 cat | 3 cat     (append, prepend, before, after)
    Output: step|step|...   with step = result{obs}{obs}...  *)
From Coq Require Import NArith ZArith List Bool Arith.
From PLV Require Import Base.PyStr Base.Wire Ctx.CtxSpec Ctx.CtxHeap.
Import ListNotations.

(** * Decoding *)

Definition bind {A B} (r : rd A) (f : A -> rd B) : rd B :=
  fun l => match r l with Some (a, l') => f a l' | None => None end.
Definition ret {A} (a : A) : rd A := fun l => Some (a, l).
Notation "x <- r ;; k" := (bind r (fun x => k)) (at level 61, r at next level, right associativity).

Definition rd_cat : rd cat :=
  t <- rd_nat ;; n <- rd_nat ;; ret (match t with O => CUser n | _ => CAuto n end).
Definition rd_spec : rd spec := n <- rd_str ;; i <- rd_nat ;; ret (mkspec n i).
Definition rd_kind : rd kind :=
  t <- rd_nat ;; ret (match t with O => KM | S O => KE | _ => KS end).
Definition rd_placement : rd placement :=
  t <- rd_nat ;;
  match t with
  | O => ret PAppend
  | S O => ret PPrepend
  | S (S O) => c <- rd_cat ;; ret (PBefore c)
  | _ => c <- rd_cat ;; ret (PAfter c)
  end.

Definition rd_op : rd op :=
  t <- rd_nat ;;
  match t with
  | 0 => ret ONew
  | 1 => h <- rd_nat ;; c <- rd_opt rd_cat ;; ms <- rd_list rd_spec ;; es <- rd_list rd_spec ;;
         ss <- rd_list rd_spec ;; pl <- rd_placement ;; ret (OAdd h c ms es ss pl)
  | 2 => h <- rd_nat ;; k <- rd_kind ;; v <- rd_opt rd_spec ;; ret (OSetUnk h k v)
  | 3 => h <- rd_nat ;; ret (OFreeze h)
  | 4 => h <- rd_nat ;; keep <- rd_list rd_cat ;; excl <- rd_list rd_cat ;;
         which <- rd_list rd_kind ;; ret (OFilter h keep excl which)
  | _ => h <- rd_nat ;; c <- rd_opt rd_cat ;; ms <- rd_list rd_spec ;; es <- rd_list rd_spec ;;
         ss <- rd_list rd_spec ;; um <- rd_opt (rd_opt rd_spec) ;; ue <- rd_opt (rd_opt rd_spec) ;;
         us <- rd_opt (rd_opt rd_spec) ;; ret (OExtend h c ms es ss um ue us)
  end.

Record universe := mkuni {
  u_macros : list str; u_envs : list str; u_specials : list str;
  u_tests : list (str * list nat);
  u_iters : list (list cat) }.

Definition rd_universe : rd universe :=
  a <- rd_list rd_str ;; b <- rd_list rd_str ;; c <- rd_list rd_str ;;
  t <- rd_list (s <- rd_str ;; ps <- rd_list rd_nat ;; ret (s, ps)) ;;
  i <- rd_list (rd_list rd_cat) ;; ret (mkuni a b c t i).

(** * The queries asked of every live database, in print order *)
Definition queries (u : universe) : list query :=
  [QFrozen; QCats]
  ++ map (QLookup KM) (u_macros u) ++ map (QLookup KE) (u_envs u) ++ map (QLookup KS) (u_specials u)
  ++ concat (map (fun t => map (QTest (fst t)) (snd t)) (u_tests u))
  ++ [QIter KM None; QIter KE None; QIter KS None]
  ++ concat (map (fun cs => [QIter KM (Some cs); QIter KE (Some cs); QIter KS (Some cs)]) (u_iters u)).

(** * Rendering *)

Definition show_cat (c : cat) : str :=
  match c with CUser n => 117%N :: show_nat n | CAuto n => 97%N :: show_nat n end.   (* u<n> / a<n> *)
Definition show_spec (s : spec) : str := show_nat (sp_id s).

Definition show_ans (a : option ans) : str :=
  match a with
  | None => [83; 84; 85; 67; 75]%N                                                    (* STUCK *)
  | Some (AFrozen b) => show_bool b
  | Some (ACats l) => show_list show_cat l
  | Some (ALookup true v) => show_opt show_spec v
  | Some (ALookup false v) => 126%N :: show_opt show_spec v                           (* ~unknown *)
  | Some (ATest v) => show_opt show_spec v
  | Some (AIter l b) => show_list show_spec l ++ (if b then [33%N] else [])           (* ! = ValueError *)
  end.

Definition show_answers (l : list (option ans)) : str :=
  123%N :: join [44%N] (map show_ans l) ++ [125%N].                                   (* {a,b,...} *)

Definition show_result (r : result) : str :=
  match r with
  | ROk => [111; 107]%N                                                               (* ok *)
  | RNew h => 110%N :: show_nat h                                                     (* n<h> *)
  | RRaise RuntimeError => [82; 117; 110; 116; 105; 109; 101; 69; 114; 114; 111; 114]%N
  | RRaise ValueError => [86; 97; 108; 117; 101; 69; 114; 114; 111; 114]%N
  | RNoSuchDb => [78; 79; 68; 66]%N
  | RStuck => [83; 84; 85; 67; 75]%N
  end.

(** the observation text of one database: heap side and specification side
    share the rendering and differ only in who answers *)
Definition observe (u : universe) (w : world) (h : nat) : str :=
  show_answers (map (run_query w h) (queries u)).
Definition observe_spec (u : universe) (s : sdb) : str :=
  show_answers (map (fun q => Some (spec_query s q)) (queries u)).

Definition observe_all (u : universe) (w : world) : str :=
  concat (map (observe u w) (seq 0 (length (w_dbs w)))).

Fixpoint run_show (u : universe) (w : world) (ops : list op) : list str :=
  match ops with
  | [] => []
  | o :: r => let (w', res) := db_step w o in
              (show_result res ++ observe_all u w') :: run_show u w' r
  end.

Definition entry_history (inp : list Z) : list Z :=
  match rd_universe inp with
  | Some (u, r1) =>
    match rd_list rd_op r1 with
    | Some (ops, _) => to_wire (join [124%N] (run_show u init_world ops))
    | None => bad_input
    end
  | None => bad_input
  end.

Definition entry (sub : Z) (inp : list Z) : list Z := entry_history inp.
