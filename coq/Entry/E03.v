(** Wire entry points of the latex2text properties (C03 C07 C12): sub 0 tree-level, sub 1 end-to-end. *)
From Coq Require Import ZArith List.
From PLV Require Import Base.Wire L2T.L2TWire.
Definition entry (sub : Z) (inp : list Z) : list Z :=
  if Z.eqb sub 0 then entry_l2t_tree inp else if Z.eqb sub 1 then entry_l2t_e2e inp else bad_input.
