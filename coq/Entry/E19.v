(** Wire entry points of property C19.

    sub-entry 0: decode a node tree ([rd_tree]; [0] alone is Python [None]),
    start the recording visitor on it ([Tree/Visitor.v: run_recording]) and
    print the callback log followed by the outcome of [start]. *)
From Coq Require Import ZArith List.
From PLV Require Import Base.Wire Tree.Visitor.
Definition entry (sub : Z) (inp : list Z) : list Z := entry_visitor inp.
