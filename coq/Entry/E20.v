(** Wire entry points of property C20. *)
From Coq Require Import ZArith List.
From PLV Require Import Base.Wire Util.LineNo.
Definition entry (sub : Z) (inp : list Z) : list Z := entry_lineno inp.
