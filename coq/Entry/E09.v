(** Wire entry of property C09: a HISTORY of parse jobs run in one process.

    sub 0:  objects  : list (arg_spec, allow_pre_space, return_full_node_list)   explicit parser objects
            contexts : list sctx          (arguments as spellings; jobs refer to them by index)
            jobs     : list (context index, string, tolerant)
    The state (cache of standard argument parsers + lazy inner parsers) starts
    empty and is threaded through the jobs in order; the output is one result
    dump per job ([ParseWire.show_res], ValueError shown as the real harness
    shows it), joined by " | ". *)
From Coq Require Import NArith ZArith List Bool.
From PLV Require Import Base.PyStr Base.Wire Tok.TokWire Parse.Nodes Parse.Parser Parse.ParseWire Parse.Stateful.
Import ListNotations.

Definition rd_instance : rd instance :=
  bind rd_str (fun a => bind rd_bool (fun aps => bind rd_bool (fun full =>
  ret {| i_spec := a; i_aps := aps; i_full := full; i_inner := None |}))).

Definition rd_key : rd key :=
  bind rd_str (fun a => bind (rd_opt rd_bool) (fun aps => bind (rd_opt rd_bool) (fun full =>
  ret {| k_spec := a; k_aps := aps; k_full := full |}))).

Definition rd_spelling : rd spelling :=
  fun l => match l with
  | 0%Z :: r => bind rd_key (fun k => ret (SpKey k)) r
  | 1%Z :: r => bind rd_nat (fun n => ret (SpObj n)) r
  | _ => None end.

Definition rd_sarg : rd sarg :=
  bind rd_spelling (fun sp => bind rd_adelta (fun d => ret {| sa_sp := sp; sa_delta := d |})).

Definition rd_sargsparser : rd sargsparser :=
  fun l => match l with
  | 0%Z :: r => bind (rd_list rd_sarg) (fun a => ret (SAStd a)) r
  | 1%Z :: r => Some (SALegacy LVerbMacro, r)
  | 2%Z :: r => bind rd_str (fun n => bind rd_bool (fun o => ret (SALegacy (LVerbEnv n o)))) r
  | _ => None end.

Definition rd_scspec : rd scspec :=
  bind rd_sargsparser (fun a => bind rd_bool (fun m => ret {| ss_args := a; ss_body_math := m |})).

Definition rd_snamed : rd (str * scspec) :=
  bind rd_str (fun n => bind rd_scspec (fun c => ret (n, c))).

Definition rd_sctx : rd sctx :=
  bind (rd_list rd_snamed) (fun ms => bind (rd_list rd_snamed) (fun es => bind (rd_list rd_snamed) (fun ss =>
  bind (rd_opt rd_scspec) (fun um => bind (rd_opt rd_scspec) (fun ue =>
  ret {| sx_macros := ms; sx_envs := es; sx_specials := ss; sx_unk_macro := um; sx_unk_env := ue |}))))).

Definition rd_rawjob : rd (nat * str * bool) :=
  bind rd_nat (fun c => bind rd_str (fun s => bind rd_bool (fun tol => ret (c, s, tol)))).

Fixpoint link_jobs (ctxs : list sctx) (raw : list (nat * str * bool)) : option (list job) :=
  match raw with
  | [] => Some []
  | (c, s, tol) :: r =>
      match nth_error ctxs c, link_jobs ctxs r with
      | Some x, Some js => Some ({| j_ctx := x; j_s := s; j_tol := tol |} :: js)
      | _, _ => None
      end
  end.

(** "exn ?ValueError": what harness/parseharness.py prints for an exception class outside its table *)
Definition show_res9 (x : res out) : str :=
  match x with
  | RExn 22 => [101;120;110;32;63;86;97;108;117;101;69;114;114;111;114]%N
  | y => show_res y
  end.

Fixpoint join_results (l : list str) : str :=
  match l with
  | [] => []
  | [a] => a
  | a :: r => a ++ [32;124;32]%N ++ join_results r
  end.

Definition history_entry (inp : list Z) : list Z :=
  match bind (rd_list rd_instance) (fun objs => bind (rd_list rd_sctx) (fun ctxs =>
        bind (rd_list rd_rawjob) (fun raw => ret (objs, ctxs, raw)))) inp with
  | Some ((objs, ctxs, raw), _) =>
      match link_jobs ctxs raw with
      | Some jobs => to_wire (join_results (map (fun x => show_res9 (snd x)) (run_history (g_init objs) jobs)))
      | None => bad_input
      end
  | None => bad_input
  end.

Definition entry (sub : Z) (inp : list Z) : list Z :=
  if Z.eqb sub 0 then history_entry inp else bad_input.
