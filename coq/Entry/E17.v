(** Wire entry points of property C17: parsing state chain + reader script. *)
From Coq Require Import ZArith List.
From PLV Require Import Base.Wire Tok.TokWire.
Definition entry (sub : Z) (inp : list Z) : list Z := entry_tok inp.
