(** Wire entry points of property C17: parsing state chain + reader script
    (every sub value except 3, as before), and sub 3 (wire id 1703): base fields,
    one parsing-state DELTA object of any nesting ([Tok/Delta.v]), reader script. *)
From Coq Require Import ZArith List.
From PLV Require Import Base.Wire Tok.TokWire Tok.Delta.
Definition entry (sub : Z) (inp : list Z) : list Z :=
  if Z.eqb sub 3 then entry_delta inp else entry_tok inp.
