(** Wire entry points of property C18 (node-list splitting, key-value parsing):
    sub 1 split_at_chars, 2 split_at_node, 3 filter, 4 parse_keyval_content,
    5 LatexNodeList.get_content_as_chars, 6 get_content_nodelist,
    7 SingleParsedArgumentInfo.get_content_as_chars, 8 parse_content_as_keyval.
    Formats are documented at [Tree/Split.v: entry_split]. *)
From Coq Require Import ZArith List.
From PLV Require Import Base.Wire Tree.Split.
Definition entry (sub : Z) (inp : list Z) : list Z := entry_split sub inp.
