(** Wire entry points shared by the parser properties (C01 C02 C05 C06 C09 C10):
    sub 0: default context;  sub 1: custom context on the wire;
    sub 99: decode a tree and dump it again (validates the tree wire format). *)
From Coq Require Import ZArith List.
From PLV Require Import Base.Wire Tok.TokWire Parse.Nodes Parse.Parser Parse.ParseWire.
From PLV Require Gen.GenWalkerCtx.
Import ListNotations.

Definition parse_entry (cx : context) (inp : list Z) : list Z :=
  match bind rd_str (fun s => bind rd_bool (fun tol => ret (s, tol))) inp with
  | Some ((s, tol), _) => to_wire (show_res (parse_top s tol cx (walker_state cx)))
  | None => bad_input
  end.

(** sub 2: the parse starts from [walker_state cx] updated by one [sub_context] call
    (the state LatexWalker.make_parsing_state().sub_context(keywords) handed to parse_content as parsing_state):
    custom math / group delimiters, disabled features, other escape / comment characters *)
Definition parse_entry_state (cx : context) (inp : list Z) : list Z :=
  match bind (rd_list rd_update) (fun u => bind rd_str (fun s => bind rd_bool (fun tol => ret (u, s, tol)))) inp with
  | Some ((u, s, tol), _) => to_wire (show_res (parse_top s tol cx (Tok.PState.sub_context (walker_state cx) u)))
  | None => bad_input
  end.

Definition entry (sub : Z) (inp : list Z) : list Z :=
  if Z.eqb sub 99 then
    match rd_tree inp with
    | Some (o, _) => to_wire (show_onode o)
    | None => bad_input
    end
  else if Z.eqb sub 0 then parse_entry Gen.GenWalkerCtx.default_ctx inp
  else if Z.eqb sub 1 then
    match rd_context inp with
    | Some (cx, r) => parse_entry cx r
    | None => bad_input
    end
  else if Z.eqb sub 2 then
    match inp with
    | 0%Z :: r => parse_entry_state Gen.GenWalkerCtx.default_ctx r
    | 1%Z :: r => match rd_context r with
                  | Some (cx, r') => parse_entry_state cx r'
                  | None => bad_input
                  end
    | _ => bad_input
    end
  else bad_input.
