(** Wire entry points of property C01 (sub 99: decode a tree and dump it again,
    used to validate the tree wire format against harness/treedump.py). *)
From Coq Require Import ZArith List.
From PLV Require Import Base.Wire Parse.Nodes.
Definition entry (sub : Z) (inp : list Z) : list Z :=
  if Z.eqb sub 99 then
    match rd_tree inp with
    | Some (o, _) => to_wire (show_onode o)
    | None => bad_input
    end
  else bad_input.
