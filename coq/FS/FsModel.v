(** Executable model of a POSIX file system with symbolic links, and of the
    [os.path] functions [pylatexenc/latex2text/_inputlatexfile.py] uses
    (property C15).

    A file system is a finite tree; a path is the list of its components from
    the root.  Two walkers are modelled separately because they differ:

    - [rp]: CPython 3.12 [posixpath.realpath] (non-strict).  It resolves
      component by component, pops [..] from the already resolved prefix
      WITHOUT asking the kernel, keeps going through missing components and
      through regular files, and follows a link by resolving its target in
      place.  (Mirror of [posixpath._joinrealpath]; its [seen] cache only
      matters on symlink loops, which show up here as fuel exhaustion.)
    - [kwalk]: the kernel's path walk behind [stat]/[open]: every intermediate
      component must be a directory (ENOTDIR / ENOENT otherwise), links are
      followed everywhere, a trailing slash demands a directory.

    Strings are [list N]; '/' is 47, '.' is 46. *)
From Coq Require Import NArith List Bool Arith.
From PLV Require Import Base.PyStr.
Import ListNotations.

Definition comp := str.
Definition path := list comp.

Inductive node :=
| Dir (entries : list (comp * node))
| File (content : str)
| Symlink (target : str).

Fixpoint assoc (k : comp) (es : list (comp * node)) : option node :=
  match es with
  | [] => None
  | (n, x) :: r => if str_eqb k n then Some x else assoc k r
  end.

(** [lookup root p]: the node named by the component list [p], descending
    through directories only (a link or a file in the middle gives [None]).
    This is [lstat] for a path whose proper prefixes contain no link. *)
Fixpoint lookup (n : node) (p : path) : option node :=
  match p with
  | [] => Some n
  | c :: p' => match n with
               | Dir es => match assoc c es with
                           | Some m => lookup m p'
                           | None => None
                           end
               | _ => None
               end
  end.

(** [s.split('/')] *)
Fixpoint split_slash (s : str) : list str :=
  match s with
  | [] => [[]]
  | c :: r => if N.eqb c 47 then [] :: split_slash r
              else match split_slash r with
                   | h :: t => (c :: h) :: t
                   | [] => [[c]]
                   end
  end.

Definition is_nil (s : str) : bool := match s with [] => true | _ => false end.
Definition is_dot (s : str) : bool := str_eqb s [46%N].
Definition is_dotdot (s : str) : bool := str_eqb s [46%N; 46%N].
(** [os.path.isabs] *)
Definition isabs (s : str) : bool := startswith s [47%N].

(** the string of an absolute component path *)
Fixpoint render_aux (p : path) : str :=
  match p with [] => [] | c :: r => 47%N :: c ++ render_aux r end.
Definition render (p : path) : str :=
  match p with [] => [47%N] | _ => render_aux p end.

(** * [posixpath._joinrealpath], non-strict.
    [cur] is the resolved part (absolute, as components), [rest] what is left
    to resolve.  [None] = fuel exhausted (symlink loop). *)
Fixpoint rp (fuel : nat) (root : node) (cur : path) (rest : list comp) : option path :=
  match fuel with
  | O => None
  | S f =>
    match rest with
    | [] => Some cur
    | name :: rest' =>
        if is_nil name || is_dot name then rp f root cur rest'             (* current dir *)
        else if is_dotdot name then rp f root (removelast cur) rest'       (* parent dir: lexical pop *)
        else
          let newpath := cur ++ [name] in
          match lookup root newpath with                                   (* os.lstat(newpath) *)
          | Some (Symlink t) =>                                            (* resolve the link in place *)
              rp f root (if isabs t then [] else cur) (split_slash t ++ rest')
          | _ => rp f root newpath rest'                                   (* not a link, or lstat failed *)
          end
    end
  end.

(** [os.path.realpath(s)] with current directory [cwd] (a real path). *)
Definition start_of (cwd : path) (s : str) : path := if isabs s then [] else cwd.
Definition realpath_c (fuel : nat) (root : node) (cwd : path) (s : str) : option path :=
  rp fuel root (start_of cwd s) (split_slash s).
Definition realpath (fuel : nat) (root : node) (cwd : path) (s : str) : option str :=
  match realpath_c fuel root cwd s with
  | Some p => Some (render p)
  | None => None
  end.

(** * The kernel's path walk.  [cur] is the directory reached so far. *)
Inductive kres := KOk (p : path) | KErr | KFuel.

Fixpoint kwalk (fuel : nat) (root : node) (cur : path) (rest : list comp) : kres :=
  match fuel with
  | O => KFuel
  | S f =>
    match rest with
    | [] => KOk cur
    | name :: rest' =>
        match lookup root cur with
        | Some (Dir _) =>
            if is_nil name || is_dot name then kwalk f root cur rest'
            else if is_dotdot name then kwalk f root (removelast cur) rest'
            else
              match lookup root (cur ++ [name]) with
              | None => KErr                                                (* ENOENT *)
              | Some (Symlink t) =>
                  kwalk f root (if isabs t then [] else cur) (split_slash t ++ rest')
              | Some _ => kwalk f root (cur ++ [name]) rest'
              end
        | _ => KErr                                                         (* ENOTDIR *)
        end
    end
  end.

(** [os.stat(s)]: the real location of the node [s] names. *)
Definition kstat (fuel : nat) (root : node) (cwd : path) (s : str) : kres :=
  match s with
  | [] => KErr                                                              (* ENOENT *)
  | _ => kwalk fuel root (start_of cwd s) (split_slash s)
  end.

(** [os.path.exists], [os.path.isfile], [open(s).read()]; [None] = fuel. *)
Definition path_exists (fuel : nat) (root : node) (cwd : path) (s : str) : option bool :=
  match kstat fuel root cwd s with
  | KOk p => match lookup root p with Some _ => Some true | None => Some false end
  | KErr => Some false
  | KFuel => None
  end.

Definition path_isfile (fuel : nat) (root : node) (cwd : path) (s : str) : option bool :=
  match kstat fuel root cwd s with
  | KOk p => match lookup root p with Some (File _) => Some true | _ => Some false end
  | KErr => Some false
  | KFuel => None
  end.

(** [Some (Some c)]: opened and read; [Some None]: IOError; [None]: fuel *)
Definition read_file (fuel : nat) (root : node) (cwd : path) (s : str) : option (option str) :=
  match kstat fuel root cwd s with
  | KOk p => match lookup root p with Some (File c) => Some (Some c) | _ => Some None end
  | KErr => Some None
  | KFuel => None
  end.

(** [os.path.join(a, b)] *)
Fixpoint ends_with_c (c : N) (s : str) : bool :=
  match s with
  | [] => false
  | [x] => N.eqb x c
  | _ :: r => ends_with_c c r
  end.

Definition os_path_join (a b : str) : str :=
  if startswith b [47%N] then b
  else if is_nil a || ends_with_c 47 a then a ++ b
  else a ++ 47%N :: b.
