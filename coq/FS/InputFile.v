(** Model of [pylatexenc/latex2text/_inputlatexfile.py: read_latex_file] and of
    [LatexNodes2Text.read_input_file] (latex2text/__init__.py 948-976), over
    the file-system model of [FS/FsModel.v] (property C15).

    [read_latex_file] tracks the code WITH the fix [fixes/C15-strict-input-containment.diff]
    applied (containment tested component-wise, on the real path of the file
    that is actually opened, after the implicit extension was chosen).
    [read_latex_file_orig] is the code as it was before the fix; it is kept
    only to carry the refutations (F7a, F7b, F7c) as theorems. *)
From Coq Require Import NArith List Bool Arith.
From PLV Require Import Base.PyStr FS.FsModel.
Import ListNotations.

(** Result of the function: the returned string ([''] for every refusal /
    failure, as in the code), or [Loop] when the model ran out of fuel
    (symlink loop; outside every theorem's and the generators' domain). *)
Inductive rres := Ret (s : str) | Loop.

Definition ext_tex : str := [46; 116; 101; 120]%N.                 (* ".tex" *)
Definition ext_latex : str := [46; 108; 97; 116; 101; 120]%N.      (* ".latex" *)

(** [if not os.path.exists(fnfull) and os.path.exists(fnfull + ext): fnfull = fnfull + ext] *)
Definition ext_fallback (fuel : nat) (root : node) (cwd : path) (fnfull ext : str) : option str :=
  match path_exists fuel root cwd fnfull with
  | None => None
  | Some true => Some fnfull
  | Some false =>
      match path_exists fuel root cwd (fnfull ++ ext) with
      | None => None
      | Some true => Some (fnfull ++ ext)
      | Some false => Some fnfull
      end
  end.

(** [_is_within_directory(dirfull, fnfull)] of the fixed code: component-wise
    containment of two real paths, written with string operations as the
    Python is. *)
Definition is_within (dirfull fnfull : str) : bool :=
  let dirprefix := if ends_with_c 47 dirfull then dirfull else dirfull ++ [47%N] in
  str_eqb fnfull dirfull || startswith fnfull dirprefix.

(** [if not os.path.isfile(fnfull): return ''] ... [open(fnfull).read()] *)
Definition open_and_read (fuel : nat) (root : node) (cwd : path) (fnfull : str) : rres :=
  match path_isfile fuel root cwd fnfull with
  | None => Loop
  | Some false => Ret []
  | Some true =>
      match read_file fuel root cwd fnfull with
      | None => Loop
      | Some None => Ret []                                         (* IOError *)
      | Some (Some c) => Ret c
      end
  end.

(** The path the function settles on before any check: the real path of the
    joined name, then the implicit [.tex], then [.latex], each only if what we
    have so far does not exist. *)
Definition candidate (fuel : nat) (root : node) (cwd : path) (dir fn : str) : option str :=
  match realpath fuel root cwd (os_path_join dir fn) with
  | None => None
  | Some fnfull0 =>
    match ext_fallback fuel root cwd fnfull0 ext_tex with
    | None => None
    | Some fnfull1 => ext_fallback fuel root cwd fnfull1 ext_latex
    end
  end.

(** The fixed [read_latex_file(tex_input_directory, strict_input, fn)]. *)
Definition read_latex_file (fuel : nat) (root : node) (cwd : path)
           (dir : str) (strict : bool) (fn : str) : rres :=
  match candidate fuel root cwd dir fn with
  | None => Loop
  | Some fnfull =>
      if strict then
        match realpath fuel root cwd fnfull with                    (* fnfull = os.path.realpath(fnfull) *)
        | None => Loop
        | Some fnreal =>
          match realpath fuel root cwd dir with                     (* dirfull = os.path.realpath(dir) *)
          | None => Loop
          | Some dirfull =>
              if is_within dirfull fnreal
              then open_and_read fuel root cwd fnreal
              else Ret []
          end
        end
      else open_and_read fuel root cwd fnfull
  end.

(** [LatexNodes2Text.read_input_file]: no directory set, no file access. *)
Definition read_input_file (fuel : nat) (root : node) (cwd : path)
           (dir : option str) (strict : bool) (fn : str) : rres :=
  match dir with
  | None => Ret []
  | Some d => read_latex_file fuel root cwd d strict fn
  end.

(** The code before the fix (commit 9e38f01): string-prefix test on the path
    without extension, extension chosen afterwards. *)
Definition read_latex_file_orig (fuel : nat) (root : node) (cwd : path)
           (dir : str) (strict : bool) (fn : str) : rres :=
  match realpath fuel root cwd (os_path_join dir fn) with
  | None => Loop
  | Some fnfull0 =>
    let continue_ :=
      match ext_fallback fuel root cwd fnfull0 ext_tex with
      | None => Loop
      | Some fnfull1 =>
        match ext_fallback fuel root cwd fnfull1 ext_latex with
        | None => Loop
        | Some fnfull2 => open_and_read fuel root cwd fnfull2
        end
      end in
    if strict then
      match realpath fuel root cwd dir with
      | None => Loop
      | Some dirfull => if startswith fnfull0 dirfull then continue_ else Ret []
      end
    else continue_
  end.
