(** The concrete configuration family: a first-order syntax for encoder
    configurations whose regular-expression rules, callable rules, callable
    protections and callable policies come from a small family that has TWIN
    definitions — here, and as real [re] patterns / Python callables in
    harness/props/c04.py ([_mk_rule], [_mk_prot], [_mk_policy]).  [den_*] map
    the syntax to the semantic configuration of [Enc/Encoder.v]; the boolean
    side conditions of the theorems are decided on the syntax. *)
From Coq Require Import NArith List Bool Arith String.
From PLV Require Import Base.PyStr Enc.Encoder Enc.Builtin.
Import ListNotations.
Local Open Scope string_scope.
Local Open Scope list_scope.

Inductive sprot :=
| SPNone | SPBraces | SPBracesAll | SPBracesAlmostAll | SPBracesAfterMacro
| SPWrap (pre post : str).                  (* lambda r: pre + r + post *)

Inductive spolicy :=
| SUKeep | SUReplace | SUIgnore | SUFail | SUUnihex
| SUWrap (pre post : str).                  (* lambda ch: pre + ch + post *)

Inductive srrepl :=
| SRTempl (t : list tpiece)                 (* template string for m.expand *)
| SRWrap (pre post : str).                  (* lambda m: pre + m.group(0) + post *)

Inductive scallable :=
| SCLit (l repl : str)                      (* if s.startswith(l, pos): return (len(l), repl) *)
| SCDoc                                     (* the example of the class documentation *)
| SCQuote                                   (* double quote -> two backticks after start/blank, else two apostrophes: looks behind *)
| SCSet (chars : str) (k : nat) (repl : str).   (* if s[pos] in chars: return (k, repl) *)

Inductive sdict := SDDefaults | SDXml | SDCustom (t : list (N * str)).

Inductive sbody :=
| SBDict (d : sdict)
| SBRegex (l : list (rx * srrepl))
| SBCallable (c : scallable).

Record srule := { sr_body : sbody; sr_prot : option sprot }.

Record sconfig := {
  s_rules : list srule; s_gprot : sprot; s_policy : spolicy; s_nao : bool }.

Definition den_prot (p : sprot) : prot :=
  match p with
  | SPNone => PNone | SPBraces => PBraces | SPBracesAll => PBracesAll
  | SPBracesAlmostAll => PBracesAlmostAll | SPBracesAfterMacro => PBracesAfterMacro
  | SPWrap pre post => PFun (fun r => pre ++ r ++ post)
  end.

Definition den_policy (p : spolicy) : policy :=
  match p with
  | SUKeep => UKeep | SUReplace => UReplace | SUIgnore => UIgnore | SUFail => UFail
  | SUUnihex => UUnihex
  | SUWrap pre post => UFun (fun c => pre ++ c :: post)
  end.

Definition den_rrepl (r : srrepl) : rrepl :=
  match r with
  | SRTempl t => RTempl t
  | SRWrap pre post => RFun (fun whole _ => pre ++ whole ++ post)
  end.

Definition is_blank (c : N) : bool := N.eqb c 32 || N.eqb c 10 || N.eqb c 9.

Definition s_dots : str := lit "...".

Definition den_callable (c : scallable) (s : str) (pos : nat) : cres :=
  let u := skipn pos s in
  match c with
  | SCLit l repl => if startswith u l then CMatch (List.length l) repl else CNone
  | SCDoc =>
      match rx_match (RxClassMin 65 90 2) None u with
      | Some (n, _) => CMatch n (braces (firstn n u))
      | None => if startswith u s_dots then CMatch 3 (lit "\ldots") else CNone
      end
  | SCQuote =>
      if N.eqb (nth pos s 0%N) 34 then
        match pos with
        | O => CMatch 1 (lit "``")
        | S q => if is_blank (nth q s 0%N) then CMatch 1 (lit "``") else CMatch 1 (lit "''")
        end
      else CNone
  | SCSet chars k repl => if mem_c (nth pos s 0%N) chars then CMatch k repl else CNone
  end.

Definition den_dict (d : sdict) : N -> option str :=
  match d with
  | SDDefaults => map_lookup uni2latex_map
  | SDXml => map_lookup uni2latex_xml_map
  | SDCustom t => assoc_lookup t
  end.

Definition den_body (b : sbody) : rule_body :=
  match b with
  | SBDict d => RDict (den_dict d)
  | SBRegex l => RRegex (map (fun p => (fst p, den_rrepl (snd p))) l)
  | SBCallable c => RCallable (den_callable c)
  end.

Definition den_rule (r : srule) : rule :=
  {| rbody := den_body (sr_body r);
     rprot := match sr_prot r with Some p => Some (den_prot p) | None => None end |}.

Definition den_config (c : sconfig) : config :=
  {| rules := map den_rule (s_rules c); gprot := den_prot (s_gprot c);
     upolicy := den_policy (s_policy c); non_ascii_only := s_nao c |}.

(** * Decidable side conditions on the syntax *)

(** every match consumes at least one character *)
Definition rx_consumes (r : rx) : bool :=
  match r with
  | RxLit l => match l with [] => false | _ => true end
  | RxClassMin _ _ n => Nat.leb 1 n
  | RxRep _ n => Nat.leb 1 n
  | RxGroup _ _ _ _ => true
  | RxNotAfter _ _ l | RxBol l => match l with [] => false | _ => true end
  end.
Definition callable_consumes (c : scallable) : bool :=
  match c with
  | SCLit l _ => match l with [] => false | _ => true end
  | SCDoc => true
  | SCQuote => true
  | SCSet _ k _ => Nat.leb 1 k
  end.
Definition srule_consumes (r : srule) : bool :=
  match sr_body r with
  | SBDict _ => true
  | SBRegex l => forallb (fun p => rx_consumes (fst p)) l
  | SBCallable c => callable_consumes c
  end.
Definition sconfig_consumes (c : sconfig) : bool := forallb srule_consumes (s_rules c).

(** no rule can raise: a template mentions group 1 only if the pattern has one *)
Definition templ_ok (r : rx) (t : list tpiece) : bool :=
  match r with
  | RxGroup _ _ _ _ => true
  | _ => forallb (fun p => match p with TGroup1 => false | _ => true end) t
  end.
Definition srule_no_raise (r : srule) : bool :=
  match sr_body r with
  | SBRegex l => forallb (fun p => match snd p with SRTempl t => templ_ok (fst p) t | SRWrap _ _ => true end) l
  | _ => true
  end.
Definition sconfig_no_raise (c : sconfig) : bool := forallb srule_no_raise (s_rules c).

(** only dictionary rules: every rule looks at one character and consumes it *)
Definition sconfig_per_char (c : sconfig) : bool :=
  forallb (fun r => match sr_body r with SBDict _ => true | _ => false end) (s_rules c).
