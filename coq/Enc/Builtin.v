(** Built-in rule sets of [get_builtin_rules.py] over the tables regenerated
    from the repository ([Gen/GenUni2Latex.v], [Gen/GenUni2LatexXml.v]), and
    the model of the module-level cached helper
    [latexencode/__init__.py: unicode_to_latex] (137-183). *)
From Coq Require Import NArith List Bool FMapPositive String.
Local Open Scope string_scope.
Local Open Scope list_scope.
From PLV Require Import Base.PyStr Enc.Encoder.
From PLV Require Gen.GenUni2Latex Gen.GenUni2LatexXml.
Import ListNotations.

(** a Python [dict] keyed by code points: a binary trie, built once *)
Definition build_map (t : list (N * str)) : PositiveMap.t str :=
  fold_left (fun m kv => PositiveMap.add (N.succ_pos (fst kv)) (snd kv) m) t (PositiveMap.empty str).
Definition map_lookup (m : PositiveMap.t str) (c : N) : option str :=
  PositiveMap.find (N.succ_pos c) m.

Definition uni2latex_map : PositiveMap.t str := build_map GenUni2Latex.table.
Definition uni2latex_xml_map : PositiveMap.t str := build_map GenUni2LatexXml.table.

(** [get_builtin_conversion_rules('defaults')], [('unicode-xml')]: one
    dictionary rule without a protection of its own *)
Definition rules_defaults : list rule :=
  [ {| rbody := RDict (map_lookup uni2latex_map); rprot := None |} ].
Definition rules_unicode_xml : list rule :=
  [ {| rbody := RDict (map_lookup uni2latex_xml_map); rprot := None |} ].

(** * Option names ([_get_method_fn]: ['_' + base + '_' + name.replace('-', '_')],
    [hasattr]) *)
Definition dash_to_underscore (n : str) : str :=
  map (fun c => if N.eqb c 45 then 95%N else c) n.

Definition prot_of_name (n : str) : option prot :=
  let m := dash_to_underscore n in
  if str_eqb m (lit "none") then Some PNone
  else if str_eqb m (lit "braces") then Some PBraces
  else if str_eqb m (lit "braces_almost_all") then Some PBracesAlmostAll
  else if str_eqb m (lit "braces_all") then Some PBracesAll
  else if str_eqb m (lit "braces_after_macro") then Some PBracesAfterMacro
  else None.

Definition policy_of_name (n : str) : option policy :=
  let m := dash_to_underscore n in
  if str_eqb m (lit "keep") then Some UKeep
  else if str_eqb m (lit "replace") then Some UReplace
  else if str_eqb m (lit "ignore") then Some UIgnore
  else if str_eqb m (lit "fail") then Some UFail
  else if str_eqb m (lit "unihex") then Some UUnihex
  else None.

(** * The module-level helper.  The cache key is the tuple
    [(non_ascii_only, replacement_latex_protection, unknown_char_policy,
    unknown_char_warning)] of hashable option values (booleans and strings). *)
Record hkey := { k_nao : bool; k_prot : str; k_policy : str; k_warn : bool }.

Definition hkey_eqb (a b : hkey) : bool :=
  Bool.eqb (k_nao a) (k_nao b) && str_eqb (k_prot a) (k_prot b)
  && str_eqb (k_policy a) (k_policy b) && Bool.eqb (k_warn a) (k_warn b).

(** [UnicodeToLatexEncoder(non_ascii_only=.., replacement_latex_protection=..,
    unknown_char_policy=.., unknown_char_warning=..)]; [None] when the
    constructor raises [ValueError("Invalid ...")].  The warning flag only
    controls logging. *)
Definition mk_encoder (k : hkey) : option config :=
  match policy_of_name (k_policy k) with
  | None => None
  | Some pol =>
      match prot_of_name (k_prot k) with
      | None => None
      | Some pr => Some {| rules := rules_defaults; gprot := pr; upolicy := pol;
                           non_ascii_only := k_nao k |}
      end
  end.

(** [_u2l_obj_cache]: key -> encoder object (an encoder object is immutable
    after construction: it is the configuration it was built from) *)
Definition cache := list (hkey * config).

Fixpoint cache_get (c : cache) (k : hkey) : option config :=
  match c with
  | [] => None
  | (k', e) :: c' => if hkey_eqb k' k then Some e else cache_get c' k
  end.

(** one call [unicode_to_latex(s, ...)] : new cache and the outcome *)
Definition helper_call (c : cache) (k : hkey) (s : str) : cache * res (list str) :=
  match cache_get c k with
  | Some e => (c, encode e s)
  | None =>
      match mk_encoder k with
      | Some e => ((k, e) :: c, encode e s)
      | None => (c, Exn BadOption)
      end
  end.

(** a fresh encoder with the same option tuple *)
Definition fresh_call (k : hkey) (s : str) : res (list str) :=
  match mk_encoder k with Some e => encode e s | None => Exn BadOption end.

(** run a history of calls from a given cache, collecting the outcomes *)
Fixpoint helper_run (c : cache) (h : list (hkey * str)) : cache * list (res (list str)) :=
  match h with
  | [] => (c, [])
  | (k, s) :: h' =>
      let (c1, r) := helper_call c k s in
      let (c2, rs) := helper_run c1 h' in
      (c2, r :: rs)
  end.
