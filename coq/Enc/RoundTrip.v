(** Composition of the three models for C08 / C13: encode with a built-in rule
    set, parse the output strictly with the default walker database, convert
    back to text with the default latex2text database. *)
From Coq Require Import NArith ZArith List Bool Arith.
From PLV Require Import Base.PyStr Tok.PState Tok.Tokenizer Parse.Nodes Parse.Parser Parse.ParseWire.
From PLV Require Import L2T.L2T L2T.L2TWire.
From PLV Require Enc.Encoder Enc.Builtin Gen.GenWalkerCtx Gen.GenL2TCtx.
Import ListNotations.

Definition enc_cfg (xml : bool) (p : Enc.Encoder.prot) (pol : Enc.Encoder.policy) : Enc.Encoder.config :=
  {| Enc.Encoder.rules := if xml then Enc.Builtin.rules_unicode_xml else Enc.Builtin.rules_defaults;
     Enc.Encoder.gprot := p; Enc.Encoder.upolicy := pol; Enc.Encoder.non_ascii_only := false |}.

Inductive encres := EncOk (t : str) | EncValueError | EncOther.

Definition encode_builtin (xml : bool) (p : Enc.Encoder.prot) (pol : Enc.Encoder.policy) (s : str) : encres :=
  match Enc.Encoder.encode (enc_cfg xml p pol) s with
  | Enc.Encoder.Ok l => EncOk (Enc.Encoder.flatten l)
  | Enc.Encoder.Exn Enc.Encoder.ValueError => EncValueError
  | _ => EncOther
  end.

(** [LatexNodes2Text(strict_latex_spaces=..).latex_to_text(encoded, tolerant_parsing=False)] *)
Definition l2t_opts (sl : sls) : opts :=
  {| o_math := MMText; o_keep_comments := false; o_sls := sl; o_kbg := false; o_kbg_minlen := 2 |}.

Definition roundtrip (p : Enc.Encoder.prot) (sl : sls) (s : str) : option str :=
  match encode_builtin false p Enc.Encoder.UKeep s with
  | EncOk t => match latex_to_text (l2t_opts sl) t false with
               | Some (txt, st) => match d_err st with None => Some txt | Some _ => None end
               | None => None
               end
  | _ => None
  end.

(** ** what C13 observes of the strict parse of an encoder output *)
Fixpoint count_kinds (n : node) : nat * nat * nat :=      (* comments, environments, math nodes *)
  let add := fun (a b : nat * nat * nat) =>
      let '(a1, a2, a3) := a in let '(b1, b2, b3) := b in (a1 + b1, a2 + b2, a3 + b3) in
  let opt := fun (o : option node) => match o with Some x => count_kinds x | None => (0, 0, 0) end in
  let items := fix it (l : list (option node)) : nat * nat * nat :=
      match l with [] => (0, 0, 0) | x :: r => add (opt x) (it r) end in
  let args := fun (a : option pargs) => match a with Some (_, l) => items l | None => (0, 0, 0) end in
  match n with
  | NChars _ _ _ _ => (0, 0, 0)
  | NComment _ _ _ _ _ => (1, 0, 0)
  | NGroup _ _ _ _ _ b => opt b
  | NMacro _ _ _ _ _ a => args a
  | NEnv _ _ _ _ a b => add (0, 1, 0) (add (args a) (opt b))
  | NSpecials _ _ _ _ a => args a
  | NMath _ _ _ _ _ _ b => add (0, 0, 1) (opt b)
  | NList _ _ l => items l
  end.

Inductive inertres :=
| IParsed (comments envs maths : nat)
| IParseError (pos : option nat)
| IOther.

Definition parse_encoded (t : str) : inertres :=
  let cx := Gen.GenWalkerCtx.default_ctx in
  match parse_top t false cx (walker_state cx) with
  | Ok (ONode (Some n)) _ => let '(a, b, c) := count_kinds n in IParsed a b c
  | PErr e _ => IParseError (pe_pos e)
  | _ => IOther
  end.

Definition is_ascii_str (t : str) : bool := forallb (fun c => N.ltb c 128) t.
