(** Model of [pylatexenc/latexencode/_partial_latex_encoder.py]:
    [PartialLatexToLatexEncoder] is a [UnicodeToLatexEncoder] whose rule list
    is prefixed by one callable rule (protection ['none']) that, at a
    character of [keep_latex_chars], reads ONE token with a strict
    [LatexTokenReader] in the default parsing state and copies it.

    The token read is modelled at the level the rule needs: the EXTENT
    (number of characters from the current position to the end of the token,
    leading whitespace and a macro's / comment's trailing whitespace
    included) computed by [LatexTokenReader.impl_peek_token] and the functions
    it calls ([impl_peek_space_chars], [impl_maybe_read_math_mode_delimiter],
    [impl_read_environment] + [rx_environment_name], [impl_read_macro],
    [impl_read_comment], [LatexContextDb.test_for_specials],
    [impl_char_token]) for the state [LatexWalker.make_parsing_state()]
    (not in math mode; constants regenerated into [Gen/GenEncChars.v]).
    The tokenizer only ever looks forward from the position, so the extent is
    a function of the suffix [u = s[pos:]].

    THE MODEL TRACKS THE CODE WITH fixes/C04-partial-token-error.diff APPLIED:
    a token that cannot be read ([LatexWalkerTokenParseError],
    [LatexWalkerEndOfStream]) makes the keep rule answer [None] so that the
    character is encoded by the ordinary rules.  [keep_rule_unfixed] is the
    rule as it was (the exception escapes). *)
From Coq Require Import NArith List Bool Arith String.
From PLV Require Import Base.PyStr Enc.Encoder Gen.GenEncChars.
Import ListNotations.
Local Open Scope string_scope.
Local Open Scope list_scope.

Definition isspace (c : N) : bool := mem_c c isspace_chars.
Definition is_macro_alpha (c : N) : bool := mem_c c macro_alpha_chars.

(** index of the first / one past the last newline of a string that has one *)
Fixpoint first_nl (s : str) : nat :=
  match s with
  | [] => 0
  | c :: r => if N.eqb c 10 then 0 else S (first_nl r)
  end.
Fixpoint after_last_nl (s : str) : nat :=       (* s.rfind('\n') + 1, 0 when absent *)
  match s with
  | [] => 0
  | c :: r => match after_last_nl r with
              | 0 => if N.eqb c 10 then 1 else 0
              | S k => S (S k)
              end
  end.

(** trailing whitespace kept with a macro or comment: the whole run, but only
    up to the first newline when the run contains a paragraph break *)
Definition post_space_len (u : str) : nat :=
  let sp := fst (span isspace u) in
  if Nat.leb 2 (count_c 10 sp) then first_nl sp else List.length sp.

(** [rx_environment_name.match(u)]: [\s*\{[class]+\}]; length of the match *)
Definition env_name_len (u : str) : option nat :=
  let (sp, r) := span isspace u in
  match r with
  | c :: r1 =>
      if N.eqb c 123 then
        let (nm, r2) := span (fun c => mem_c c envname_chars) r1 in
        match nm, r2 with
        | _ :: _, d :: _ => if N.eqb d 125 then Some (List.length sp + 1 + List.length nm + 1) else None
        | _, _ => None
        end
      else None
  | [] => None
  end.

(** the first delimiter of [_math_all_delims_by_len] that is a prefix *)
Fixpoint first_prefix (ds : list str) (u : str) : option nat :=
  match ds with
  | [] => None
  | d :: ds' => if startswith u d then Some (List.length d) else first_prefix ds' u
  end.

(** [test_for_specials]: the longest specials string that is a prefix (0: none) *)
Fixpoint longest_prefix (ds : list str) (u : str) (best : nat) : nat :=
  match ds with
  | [] => best
  | d :: ds' =>
      if Nat.ltb best (List.length d) && startswith u d
      then longest_prefix ds' u (List.length d) else longest_prefix ds' u best
  end.

(** [s.find('\n')] on a suffix *)
Fixpoint find_nl (s : str) : option nat :=
  match s with
  | [] => None
  | c :: r => if N.eqb c 10 then Some 0
              else match find_nl r with Some k => Some (S k) | None => None end
  end.

Definition s_begin : str := lit "begin".
Definition s_end : str := lit "end".

(** the token that starts at a non-whitespace character: its length *)
Definition tok_len (c : N) (r : str) : nat + exn :=
  match first_prefix math_delims (c :: r) with
  | Some n => inl n
  | None =>
    if N.eqb c macro_escape_char then
      let be := if startswith r s_begin then Some 5
                else if startswith r s_end then Some 3 else None in
      let is_env := match be with
                    | Some n => match skipn n r with
                                | [] => true
                                | d :: _ => negb (is_macro_alpha d)
                                end
                    | None => false
                    end in
      match be, is_env with
      | Some n, true =>
          match env_name_len (skipn n r) with
          | Some m => inl (1 + n + m)
          | None => inr TokenParseError          (* Bad \begin call: expected {environmentname} *)
          end
      | _, _ =>
          match r with
          | [] => inr TokenParseError            (* Expected macro name after escape character *)
          | c2 :: r2 =>
              if is_macro_alpha c2 then
                let (al, r3) := span is_macro_alpha r2 in
                inl (2 + List.length al + post_space_len r3)
              else inl 2
          end
      end
    else if N.eqb c comment_start_char then
      match find_nl r with
      | None => inl (1 + List.length r)
      | Some i => inl (1 + i + post_space_len (skipn i r))
      end
    else if mem_c c group_open_chars || mem_c c group_close_chars then inl 1
    else match longest_prefix specials_chars (c :: r) 0 with
         | 0 => inl 1                            (* 'char' token; no forbidden characters *)
         | n => inl n
         end
  end.

(** [impl_peek_token] from the start of [u]: number of characters up to the
    end of the token ([len(pre_space) + tok.len]) *)
Definition tok_extent (u : str) : nat + exn :=
  let (pre, rest) := span isspace u in
  if Nat.leb 2 (count_c 10 pre) then inl (after_last_nl pre)      (* paragraph break token *)
  else match rest with
       | [] => inr EndOfStream
       | c :: r => match tok_len c r with
                   | inl n => inl (List.length pre + n)
                   | inr e => inr e
                   end
       end.

(** [_do_partial_latex_encode_step] (with the fix): [tok.pre_space +
    s[tok.pos:tok.pos+tok.len]] is [s[pos:pos+n]], consumed is [n] *)
Definition keep_rule (keep : str) (s : str) (pos : nat) : cres :=
  if mem_c (nth pos s 0%N) keep then
    let u := skipn pos s in
    match tok_extent u with
    | inl n => CMatch n (firstn n u)
    | inr _ => CNone
    end
  else CNone.

(** the rule before the fix: the exception of the strict token read escapes *)
Definition keep_rule_unfixed (keep : str) (s : str) (pos : nat) : cres :=
  if mem_c (nth pos s 0%N) keep then
    let u := skipn pos s in
    match tok_extent u with
    | inl n => CMatch n (firstn n u)
    | inr e => CRaise e
    end
  else CNone.

(** [PartialLatexToLatexEncoder.__init__]: the keep rule first, protection 'none' *)
Definition with_keep_rule (keep : str) (cfg : config) : config :=
  {| rules := {| rbody := RCallable (keep_rule keep); rprot := Some PNone |} :: rules cfg;
     gprot := gprot cfg; upolicy := upolicy cfg; non_ascii_only := non_ascii_only cfg |}.
Definition with_keep_rule_unfixed (keep : str) (cfg : config) : config :=
  {| rules := {| rbody := RCallable (keep_rule_unfixed keep); rprot := Some PNone |} :: rules cfg;
     gprot := gprot cfg; upolicy := upolicy cfg; non_ascii_only := non_ascii_only cfg |}.

(** [PartialLatexToLatexEncoder(keep_latex_chars=keep, options).unicode_to_latex(s)] *)
Definition partial_encode (keep : str) (cfg : config) (s : str) : res (list str) :=
  encode (with_keep_rule keep cfg) s.
Definition partial_encode_unfixed (keep : str) (cfg : config) (s : str) : res (list str) :=
  encode (with_keep_rule_unfixed keep cfg) s.

(** the default [keep_latex_chars=r'\${}^_'] *)
Definition default_keep : str := lit "\${}^_".
