(** Executable model of [pylatexenc/latexencode/_unicode_to_latex_encoder.py]
    ([UnicodeToLatexEncoder.__init__] rule compilation, [unicode_to_latex]
    411-447, [_check_do_skip_ascii], [_apply_rule_dict/_regex/_callable],
    [_apply_replacement], the five [_apply_protection_*], the
    [_do_unknown_char_*] policies), of [_rule.py] and of the module-level
    cached helper [latexencode/__init__.py: unicode_to_latex].

    The input string is the NFC-normalised string (normalisation itself is
    outside the model).  The output is the list of chunks that are [+=]-ed to
    [p.latex], in order: a [str] result is their concatenation, a custom
    [latex_string_class] sees exactly this sequence. *)
From Coq Require Import NArith ZArith List Bool Arith String Ascii.
From PLV Require Import Base.PyStr Gen.GenEncChars.
Import ListNotations.
Local Open Scope N_scope.

(** ASCII literals *)
Definition lit (s : string) : str := List.map N_of_ascii (list_ascii_of_string s).

(** * Outcomes *)
Inductive exn :=
| ValueError            (* raised by [_do_unknown_char_fail] *)
| BadOption             (* [ValueError("Invalid ...")] of [_get_method_fn]: constructor-time *)
| ReError               (* [re.error]: replacement template refers to a group the pattern lacks *)
| TokenParseError       (* [LatexWalkerTokenParseError] (only the un-fixed partial encoder) *)
| EndOfStream.          (* [LatexWalkerEndOfStream]     (only the un-fixed partial encoder) *)

Inductive res (A : Type) := Ok (a : A) | Exn (e : exn) | OutOfFuel.
Arguments Ok {A} a.
Arguments Exn {A} e.
Arguments OutOfFuel {A}.

Definition res_map {A B} (f : A -> B) (r : res A) : res B :=
  match r with Ok a => Ok (f a) | Exn e => Exn e | OutOfFuel => OutOfFuel end.

(** * Python string predicates used by the protection schemes *)
Definition in_ranges (c : N) (l : list (N * N)) : bool :=
  existsb (fun r => (fst r <=? c) && (c <=? snd r)) l.
Definition py_isalpha_c (c : N) : bool := in_ranges c isalpha_ranges.
(** [str.isalpha()]: nonempty and all alphabetic *)
Definition py_isalpha (s : str) : bool :=
  match s with [] => false | _ => forallb py_isalpha_c s end.

(** [repl[repl.rfind(c)+1:]] when [c] occurs, [None] when [rfind] is -1 *)
Fixpoint after_last (c : N) (s : str) : option str :=
  match s with
  | [] => None
  | d :: r => match after_last c r with
              | Some t => Some t
              | None => if N.eqb d c then Some r else None
              end
  end.

(** [k = repl.rfind('\\'); k >= 0 and repl[k+1:].isalpha()] *)
Definition dangling_macro (repl : str) : bool :=
  match after_last 92 repl with Some t => py_isalpha t | None => false end.

(** * Options *)
Inductive prot :=
| PNone | PBraces | PBracesAll | PBracesAlmostAll | PBracesAfterMacro
| PFun (f : str -> str).               (* any callable *)

Inductive policy :=
| UKeep | UReplace | UIgnore | UFail | UUnihex
| UFun (f : N -> str).                 (* any callable *)

Definition braces (r : str) : str := 123 :: r ++ [125].

Definition apply_protection (p : prot) (repl : str) : str :=
  match p with
  | PNone => repl
  | PBraces => if dangling_macro repl then braces repl else repl
  | PBracesAlmostAll =>
      match repl with                              (* repl[0:1] == '\\' *)
      | c :: _ => if N.eqb c 92 then braces repl else repl
      | [] => repl
      end
  | PBracesAll => braces repl
  | PBracesAfterMacro => if dangling_macro repl then repl ++ [123; 125] else repl
  | PFun f => f repl
  end.

(** [HexstrN(value, 4)]: ['%X' % value] zero-filled to 4 *)
Definition hexdigit (d : N) : N := if d <? 10 then 48 + d else 55 + d.
Fixpoint hex_aux (fuel : nat) (n : N) (acc : str) : str :=
  match fuel with
  | O => acc
  | S f => if n =? 0 then acc else hex_aux f (n / 16) (hexdigit (n mod 16) :: acc)
  end.
Definition hexstr (n : N) : str :=
  if n =? 0 then [48] else hex_aux (N.size_nat n) n [].
Definition zfill (w : nat) (s : str) : str := List.repeat 48 (w - List.length s)%nat ++ s.
Definition HexstrN (n : N) : str := zfill 4 (hexstr n).

Definition do_unknown_char (p : policy) (c : N) : str + exn :=
  match p with
  | UKeep => inl [c]
  | UReplace => inl (lit "{\bfseries ?}")
  | UIgnore => inl []
  | UFail => inr ValueError
  | UUnihex => inl (lit "\ensuremath{\langle}\texttt{U+" ++ HexstrN c ++ lit "}\ensuremath{\rangle}")
  | UFun f => inl (f c)
  end.

(** * Rules *)

(** result of asking one rule at one position *)
Inductive cres :=
| CNone                                  (* returns [None]: try the next rule *)
| CMatch (consumed : nat) (repl : str)   (* matched *)
| CRaise (e : exn).                      (* the rule raised *)

(** The regular expressions of the twin family (same definitions in Python
    [re], see harness/props/c04.py [_mk_regex]). *)
Inductive rx :=
| RxLit (l : str)                          (* re.escape(l) *)
| RxClassMin (lo hi : N) (n : nat)         (* [lo-hi]{n,}       e.g. [A-Z]{2,} *)
| RxRep (c : N) (n : nat)                  (* re.escape(c){n}   e.g. \.{3} *)
| RxGroup (pre : str) (lo hi : N) (suf : str)    (* re.escape(pre) ([lo-hi]+) re.escape(suf) *)
| RxNotAfter (lo hi : N) (l : str)         (* (?<![lo-hi]) re.escape(l): looks at the character BEFORE pos *)
| RxBol (l : str).                         (* ^ re.escape(l): only at position 0 of the whole string *)

Definition in_cls (lo hi c : N) : bool := (lo <=? c) && (c <=? hi).

(** greedy [([lo-hi]+)suf] with backtracking: the longest k >= 1 such that the
    first k characters are in the class and [suf] follows *)
Fixpoint grp_len (lo hi : N) (suf : str) (s : str) : option nat :=
  match s with
  | c :: r => if in_cls lo hi c then
                match grp_len lo hi suf r with
                | Some k => Some (S k)
                | None => if startswith r suf then Some 1%nat else None
                end
              else None
  | [] => None
  end.

Fixpoint count_prefix (f : N -> bool) (s : str) : nat :=
  match s with c :: r => if f c then S (count_prefix f r) else O | [] => O end.

(** [rx.match(s, pos)] on the suffix [u = s[pos:]] and the character [prev]
    in front of [pos] ([None] at position 0; patterns may look behind): length
    of the match and the text of group 1 if the pattern has one *)
Definition rx_match (r : rx) (prev : option N) (u : str) : option (nat * option str) :=
  match r with
  | RxLit l => if startswith u l then Some (List.length l, None) else None
  | RxClassMin lo hi n =>
      let k := count_prefix (in_cls lo hi) u in
      if Nat.leb n k then Some (k, None) else None
  | RxRep c n =>
      if Nat.leb n (count_prefix (N.eqb c) u) then Some (n, None) else None
  | RxGroup pre lo hi suf =>
      if startswith u pre then
        match grp_len lo hi suf (skipn (List.length pre) u) with
        | Some k => Some ((List.length pre + k + List.length suf)%nat,
                          Some (firstn k (skipn (List.length pre) u)))
        | None => None
        end
      else None
  | RxNotAfter lo hi l =>
      if match prev with Some c => in_cls lo hi c | None => false end then None
      else if startswith u l then Some (List.length l, None) else None
  | RxBol l =>
      match prev with
      | None => if startswith u l then Some (List.length l, None) else None
      | Some _ => None
      end
  end.

(** the character in front of position [pos] *)
Definition prev_char (s : str) (pos : nat) : option N :=
  match pos with O => None | S k => nth_error s k end.

(** replacement of a regex rule: a template for [m.expand] or a callable on
    the match object *)
Inductive tpiece := TLit (l : str) | TGroup0 | TGroup1.
Inductive rrepl :=
| RTempl (t : list tpiece)
| RFun (f : str -> option str -> str).     (* whole match, group 1 *)

Fixpoint expand (t : list tpiece) (whole : str) (g1 : option str) : option str :=
  match t with
  | [] => Some []
  | p :: t' =>
      match expand t' whole g1 with
      | None => None
      | Some rest =>
          match p with
          | TLit l => Some (l ++ rest)
          | TGroup0 => Some (whole ++ rest)
          | TGroup1 => match g1 with Some g => Some (g ++ rest) | None => None end
          end
      end
  end.

Inductive rule_body :=
| RDict (d : N -> option str)                       (* RULE_DICT: code point -> replacement *)
| RRegex (l : list (rx * rrepl))                    (* RULE_REGEX *)
| RCallable (f : str -> nat -> cres).               (* RULE_CALLABLE: f(s, pos) *)

Record rule := { rbody : rule_body; rprot : option prot }.

Record config := {
  rules : list rule;               (* expanded conversion rules, in order *)
  gprot : prot;                    (* replacement_latex_protection *)
  upolicy : policy;                (* unknown_char_policy *)
  non_ascii_only : bool }.

(** [_apply_rule_regex]: the first pair whose pattern matches *)
Fixpoint apply_regexes (l : list (rx * rrepl)) (prev : option N) (u : str) : cres :=
  match l with
  | [] => CNone
  | (r, repl) :: l' =>
      match rx_match r prev u with
      | Some (n, g1) =>
          let whole := firstn n u in
          match repl with
          | RFun f => CMatch n (f whole g1)
          | RTempl t => match expand t whole g1 with
                        | Some x => CMatch n x
                        | None => CRaise ReError
                        end
          end
      | None => apply_regexes l' prev u
      end
  end.

(** the three [_apply_rule_*] up to the call of [_apply_replacement] *)
Definition apply_rule (r : rule) (s : str) (pos : nat) : cres :=
  match rbody r with
  | RDict d => match d (nth pos s 0) with Some repl => CMatch 1%nat repl | None => CNone end
  | RRegex l => apply_regexes l (prev_char s pos) (skipn pos s)
  | RCallable f => f s pos
  end.

(** [_apply_replacement]: the rule's own protection setting wins *)
Definition effective_prot (cfg : config) (r : rule) : prot :=
  match rprot r with Some p => p | None => gprot cfg end.
Definition apply_replacement (cfg : config) (r : rule) (repl : str) : str :=
  apply_protection (effective_prot cfg r) repl.

(** the [for compiledrule in self._compiled_rules: if compiledrule(s, p): break] *)
Inductive rres := RNoMatch | RMatch (n : nat) (chunk : str) | RRaise (e : exn).
Fixpoint try_rules (cfg : config) (rs : list rule) (s : str) (pos : nat) : rres :=
  match rs with
  | [] => RNoMatch
  | r :: rs' =>
      match apply_rule r s pos with
      | CMatch n repl => RMatch n (apply_replacement cfg r repl)
      | CRaise e => RRaise e
      | CNone => try_rules cfg rs' s pos
      end
  end.

(** [(o >= 32 and o <= 127) or (ch in "\n\r\t")] *)
Definition passthrough (c : N) : bool :=
  ((32 <=? c) && (c <=? 127)) || (c =? 10) || (c =? 13) || (c =? 9).

(** [_maybe_skip_ascii]: [non_ascii_only and ord(s[p.pos]) < 128]
    (THE MODEL TRACKS THE CODE WITH fixes/C04-non-ascii-only-del.diff APPLIED;
    the unfixed test is [< 127], which hands U+007F to the rules) *)
Definition skip_ascii (cfg : config) (c : N) : bool := non_ascii_only cfg && (c <? 128).

(** * The main loop, [while p.pos < len(s)], with fuel.  [acc] is [p.latex]
    (chunks, most recent first). *)
Fixpoint encode_loop (fuel : nat) (cfg : config) (s : str) (pos : nat) (acc : list str)
  : res (list str) :=
  match fuel with
  | O => OutOfFuel
  | S f =>
      if Nat.ltb pos (List.length s) then
        let c := nth pos s 0 in
        if skip_ascii cfg c then encode_loop f cfg s (pos + 1)%nat ([c] :: acc)
        else
          match try_rules cfg (rules cfg) s pos with
          | RMatch n chunk => encode_loop f cfg s (pos + n)%nat (chunk :: acc)
          | RRaise e => Exn e
          | RNoMatch =>                                              (* for-else *)
              if passthrough c then encode_loop f cfg s (pos + 1)%nat ([c] :: acc)
              else match do_unknown_char (upolicy cfg) c with
                   | inl chunk => encode_loop f cfg s (pos + 1)%nat (chunk :: acc)
                   | inr e => Exn e
                   end
          end
      else Ok (rev acc)
  end.

(** [UnicodeToLatexEncoder(options).unicode_to_latex(s)] with the fuel the
    termination theorem shows sufficient *)
Definition encode (cfg : config) (s : str) : res (list str) :=
  encode_loop (S (List.length s)) cfg s 0 [].

(** the [str] result *)
Definition flatten (l : list str) : str := List.concat l.

(** * The declarative specification: at each position, left to right, the
    FIRST rule (in the given order) that answers decides; the replacement is
    wrapped by the rule's protection or else the global one; unmatched
    printable ASCII is copied, other unmatched characters follow the policy;
    ASCII is copied untouched when [non_ascii_only].  Structurally recursive
    on the remaining input; [skip] counts characters already consumed by a
    multi-character match. *)
Fixpoint first_some {A B} (f : A -> option B) (l : list A) : option (A * B) :=
  match l with
  | [] => None
  | a :: l' => match f a with Some b => Some (a, b) | None => first_some f l' end
  end.

(** a rule "answers" when it matches or raises *)
Definition rule_answer (r : rule) (s : str) (pos : nat) : option (nat * str + exn) :=
  match apply_rule r s pos with
  | CNone => None
  | CMatch n repl => Some (inl (n, repl))
  | CRaise e => Some (inr e)
  end.

Inductive sres := SEmit (n : nat) (chunk : str) | SRaise (e : exn).

Definition spec_step (cfg : config) (s : str) (pos : nat) (c : N) : sres :=
  if skip_ascii cfg c then SEmit 1%nat [c] else
  match first_some (fun r => rule_answer r s pos) (rules cfg) with
  | Some (r, inl (n, repl)) => SEmit n (apply_protection (effective_prot cfg r) repl)
  | Some (_, inr e) => SRaise e
  | None =>
      if passthrough c then SEmit 1%nat [c]
      else match do_unknown_char (upolicy cfg) c with
           | inl chunk => SEmit 1%nat chunk
           | inr e => SRaise e
           end
  end.

Fixpoint spec_from (cfg : config) (s : str) (rest : str) (pos : nat) (skip : nat)
  : res (list str) :=
  match rest with
  | [] => Ok []
  | c :: rest' =>
      match skip with
      | S k => spec_from cfg s rest' (S pos) k
      | O => match spec_step cfg s pos c with
             | SEmit n chunk => res_map (cons chunk) (spec_from cfg s rest' (S pos) (Nat.pred n))
             | SRaise e => Exn e
             end
      end
  end.

Definition encode_spec (cfg : config) (s : str) : res (list str) := spec_from cfg s s 0 0.

(** * Built-in rule sets ([get_builtin_conversion_rules]) *)
Fixpoint assoc_lookup (t : list (N * str)) (c : N) : option str :=
  match t with
  | [] => None
  | (k, v) :: t' => if N.eqb k c then Some v else assoc_lookup t' c
  end.
