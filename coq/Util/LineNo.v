(** Model of [pylatexenc/_util.py: LineNumbersCalculator] and of
    [LatexWalker.pos_to_lineno_colno] (latexwalker/_walker.py 629-653). *)
From Coq Require Import NArith ZArith List Bool Arith.
From PLV Require Import Base.PyStr Base.Wire.
Import ListNotations.

(** [find_all_new_lines]: position 0, then the position after every '\n'.
    [nl_after s i] scans [s], whose first character has absolute index [i]. *)
Fixpoint nl_after (s : str) (i : nat) : list nat :=
  match s with
  | [] => []
  | c :: r => if N.eqb c 10 then S i :: nl_after r (S i) else nl_after r (S i)
  end.
Definition line_starts (s : str) : list nat := 0 :: nl_after s 0.

(** [bisect.bisect_right(l, x)] by its specification on a sorted list: the
    number of leading elements [<= x] (CPython's C implementation is trusted
    to meet that specification). *)
Fixpoint bisect_right (l : list nat) (x : nat) : nat :=
  match l with
  | [] => 0
  | y :: r => if Nat.leb y x then S (bisect_right r x) else 0
  end.

Record offsets := { line_offset : Z; first_col_offset : Z; col_offset : Z }.
Definition default_offsets := {| line_offset := 1; first_col_offset := 0; col_offset := 0 |}.

Definition col_off (o : offsets) (k : nat) : Z :=
  match k with O => first_col_offset o | S _ => col_offset o end.

(** The body of [pos_to_lineno_colno] for [pos] not [None]. The Python
    [assert line_no >= 0] is unreachable because [line_starts] begins with 0;
    the model returns [None] there so that the claim is a theorem, not a
    convention. *)
Definition lineno_colno (o : offsets) (s : str) (pos : nat) : option (Z * Z) :=
  let ls := line_starts s in
  match bisect_right ls pos with
  | O => None
  | S k => Some ((Z.of_nat k + line_offset o)%Z,
                 (Z.of_nat (pos - nth k ls 0%nat) + col_off o k)%Z)
  end.

(** [pos is None -> (None, None)] *)
Definition pos_to_lineno_colno (o : offsets) (s : str) (pos : option nat)
  : option (option (Z * Z)) :=
  match pos with
  | None => Some None
  | Some p => match lineno_colno o s p with Some lc => Some (Some lc) | None => None end
  end.

(** [LatexWalker.__init__]: a [None] offset means the default. *)
Definition walker_offsets (lo fo co : option Z) : offsets :=
  {| line_offset := match lo with Some z => z | None => 1%Z end;
     first_col_offset := match fo with Some z => z | None => 0%Z end;
     col_offset := match co with Some z => z | None => 0%Z end |}.

(** * Wire entry: [lo fo co s npos p1 .. pn]  ->  "l:c l:c ..." *)
Definition show_lc (r : option (Z * Z)) : str :=
  match r with
  | Some (l, c) => show_Z l ++ 58%N :: show_Z c
  | None => [33%N]                                      (* "!" : assertion would fire *)
  end.

Definition entry_lineno (inp : list Z) : list Z :=
  match rd_opt rd_Z inp with
  | Some (lo, r1) =>
    match rd_opt rd_Z r1 with
    | Some (fo, r2) =>
      match rd_opt rd_Z r2 with
      | Some (co, r3) =>
        match rd_str r3 with
        | Some (s, r4) =>
          match rd_list rd_nat r4 with
          | Some (ps, _) =>
              let o := walker_offsets lo fo co in
              to_wire (join [32%N] (map (fun p => show_lc (lineno_colno o s p)) ps))
          | None => bad_input end
        | None => bad_input end
      | None => bad_input end
    | None => bad_input end
  | None => bad_input end.
