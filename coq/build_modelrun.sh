#!/bin/sh
# Build the extracted model binary /verif/build/modelrun from coq/model.ml(+i) and Extract/driver.ml
set -e
cd "$(dirname "$0")"
B=../build
mkdir -p $B
if [ ! -f $B/modelrun ] || [ model.ml -nt $B/modelrun ] || [ Extract/driver.ml -nt $B/modelrun ]; then
  cp model.ml model.mli Extract/driver.ml $B/
  (cd $B && ocamlfind ocamlopt -O3 -unboxed-types 2>/dev/null -w -a model.mli model.ml driver.ml -o modelrun.tmp 2>/dev/null \
     || ocamlfind ocamlopt -w -a model.mli model.ml driver.ml -o modelrun.tmp)
  mv $B/modelrun.tmp $B/modelrun
fi
