(** The abstract specification of a latex context database (property C14).

    A database *means*: an ordered list of categories, each with three
    dictionaries (macros, environments, specials), three unknown-specs and a
    frozen flag.  Every public query of [LatexContextDb] is defined on that
    value in a few lines:

    - lookup = the first category, in the reported order, that defines the
      name; otherwise the configured unknown-spec;
    - test_for_specials = the longest specials sequence matching at the
      position, ties going to the earlier category;
    - iter_* = concatenation of the categories' values in order.

    This file also holds the small value types shared with the heap model
    ([cat], [spec], [dict] with Python's insertion-order semantics, [query],
    [ans]).  Executable definitions only. *)
From Coq Require Import NArith List Bool Arith.
From PLV Require Import Base.PyStr.
Import ListNotations.

(** * Shared value types *)

(** A category name: a user-chosen name (index into the harness' universe
    ['A','B','C',...]) or an auto-generated one ['__lctxdb_cat_<n>']. *)
Inductive cat := CUser (n : nat) | CAuto (n : nat).

Definition cat_eqb (a b : cat) : bool :=
  match a, b with
  | CUser x, CUser y => Nat.eqb x y
  | CAuto x, CAuto y => Nat.eqb x y
  | _, _ => false
  end.
Definition mem_cat (c : cat) (l : list cat) : bool := existsb (cat_eqb c) l.

(** A spec object: the name it carries ([macroname] / [environmentname] /
    [specials_chars]) and an opaque identity. *)
Record spec := mkspec { sp_name : str; sp_id : nat }.

Inductive kind := KM | KE | KS.

(** A Python [dict] from names to spec objects: association list in insertion
    order; assignment to an existing key keeps its position. *)
Definition dict := list (str * spec).

Fixpoint dict_get (d : dict) (k : str) : option spec :=
  match d with
  | [] => None
  | (k', v) :: r => if str_eqb k k' then Some v else dict_get r k
  end.

Fixpoint dict_set (d : dict) (k : str) (v : spec) : dict :=
  match d with
  | [] => [(k, v)]
  | (k', v') :: r => if str_eqb k k' then (k', v) :: r else (k', v') :: dict_set r k v
  end.

(** [d.update(kvs)] *)
Definition dict_update (d : dict) (kvs : list (str * spec)) : dict :=
  fold_left (fun d kv => dict_set d (fst kv) (snd kv)) kvs d.

(** [dict((m.macroname, m) for m in specs)] *)
Definition dict_of_specs (l : list spec) : dict :=
  dict_update [] (map (fun s => (sp_name s, s)) l).

Definition dict_values (d : dict) : list spec := map snd d.

(** Where [add_context_category] puts the new category. *)
Inductive placement := PAppend | PPrepend | PBefore (c : cat) | PAfter (c : cat).

(** [list.index] (first occurrence), [None] when absent *)
Fixpoint cat_index (c : cat) (l : list cat) : option nat :=
  match l with
  | [] => None
  | x :: r => if cat_eqb c x then Some 0
              else match cat_index c r with Some i => Some (S i) | None => None end
  end.

(** The documented insertion index: prepend = 0; before X = index of X, or 0
    when X is absent; after X = index of X + 1, or the end when X is absent;
    append = the end. *)
Definition place_index (cats : list cat) (pl : placement) : nat :=
  match pl with
  | PAppend => length cats
  | PPrepend => 0
  | PBefore x => match cat_index x cats with Some i => i | None => 0 end
  | PAfter x => match cat_index x cats with Some i => S i | None => length cats end
  end.

(** [list.insert(i, x)] for [i >= 0] *)
Definition insert_at {A} (i : nat) (x : A) (l : list A) : list A := firstn i l ++ x :: skipn i l.

(** * Queries and answers (the observable interface) *)

Inductive query :=
| QFrozen
| QCats                                         (* categories() *)
| QLookup (k : kind) (n : str)                  (* get_*_spec(n) and get_*_spec(n, raise_if_not_found=True) *)
| QTest (s : str) (pos : nat)                   (* test_for_specials(s, pos) *)
| QIter (k : kind) (cs : option (list cat)).    (* list(iter_*_specs(cs)) *)

Inductive ans :=
| AFrozen (b : bool)
| ACats (l : list cat)
| ALookup (found : bool) (v : option spec)      (* found=false: KeyError inside, unknown-spec returned *)
| ATest (v : option spec)
| AIter (l : list spec) (raised : bool).        (* specs yielded, then whether ValueError was raised *)

(** * The abstract database *)

Record scat := mkscat { sc_name : cat; sc_m : dict; sc_e : dict; sc_s : dict }.

Record sdb := mksdb {
  s_cats : list scat;
  s_unk_m : option spec; s_unk_e : option spec; s_unk_s : option spec;
  s_frozen : bool }.

Definition sel (k : kind) (c : scat) : dict :=
  match k with KM => sc_m c | KE => sc_e c | KS => sc_s c end.
Definition s_unk (k : kind) (s : sdb) : option spec :=
  match k with KM => s_unk_m s | KE => s_unk_e s | KS => s_unk_s s end.

Definition defines (k : kind) (n : str) (c : scat) : bool :=
  match dict_get (sel k c) n with Some _ => true | None => false end.

(** lookup: first category in reported order that defines the name, else the
    unknown-spec *)
Definition s_lookup (s : sdb) (k : kind) (n : str) : ans :=
  match find (defines k n) (s_cats s) with
  | Some c => ALookup true (dict_get (sel k c) n)
  | None => ALookup false (s_unk k s)
  end.

(** Of a list of candidates in search order, the first one of maximal key
    length (a later candidate wins only if strictly longer). *)
Fixpoint first_longest (l : dict) : option (str * spec) :=
  match l with
  | [] => None
  | x :: r => match first_longest r with
              | Some y => if Nat.ltb (length (fst x)) (length (fst y)) then Some y else Some x
              | None => Some x
              end
  end.

Definition matches_at (s : str) (pos : nat) (kv : str * spec) : bool :=
  Nat.ltb 0 (length (fst kv)) && startswith_at s (fst kv) pos.

(** test_for_specials: all specials of all categories in order, those that
    match at [pos], the first of maximal length *)
Definition s_test (s : sdb) (txt : str) (pos : nat) : ans :=
  ATest (match first_longest (filter (matches_at txt pos) (concat (map sc_s (s_cats s)))) with
         | Some kv => Some (snd kv)
         | None => None
         end).

(** iter_*_specs(categories): values of each named category in the order
    given; an unregistered name raises after what was yielded so far *)
Fixpoint s_iter (cats : list scat) (k : kind) (cs : list cat) : list spec * bool :=
  match cs with
  | [] => ([], false)
  | c :: r => match find (fun sc => cat_eqb c (sc_name sc)) cats with
              | None => ([], true)
              | Some sc => let (l, b) := s_iter cats k r in (dict_values (sel k sc) ++ l, b)
              end
  end.

Definition spec_query (s : sdb) (q : query) : ans :=
  match q with
  | QFrozen => AFrozen (s_frozen s)
  | QCats => ACats (map sc_name (s_cats s))
  | QLookup k n => s_lookup s k n
  | QTest txt pos => s_test s txt pos
  | QIter k None => AIter (concat (map (fun c => dict_values (sel k c)) (s_cats s))) false
  | QIter k (Some cs) => let (l, b) := s_iter (s_cats s) k cs in AIter l b
  end.

(** * What the operations mean on the abstract database *)

(** [keep_which]: empty means all three kinds *)
Definition keeps (which : list kind) (k : kind) : bool :=
  match which with
  | [] => true
  | _ => existsb (fun k' => match k, k' with KM, KM | KE, KE | KS, KS => true | _, _ => false end) which
  end.

(** [keep_categories] / [exclude_categories]: empty means no restriction *)
Definition cat_selected (keep excl : list cat) (c : cat) : bool :=
  (match keep with [] => true | _ => mem_cat c keep end)
  && (match excl with [] => true | _ => negb (mem_cat c excl) end).

(** an optional keyword argument overriding an inherited unknown-spec *)
Definition ovr (o : option (option spec)) (dflt : option spec) : option spec :=
  match o with Some v => v | None => dflt end.

(** add_context_category: the new category goes to the documented index *)
Definition s_add_cat (s : sdb) (c : cat) (ms es ss : list spec) (pl : placement) : sdb :=
  mksdb (insert_at (place_index (map sc_name (s_cats s)) pl)
                   (mkscat c (dict_of_specs ms) (dict_of_specs es) (dict_of_specs ss)) (s_cats s))
        (s_unk_m s) (s_unk_e s) (s_unk_s s) (s_frozen s).

(** extended_with, new category in front *)
Definition s_extend_new (s : sdb) (c : cat) (ms es ss : list spec) (um ue us : option (option spec)) : sdb :=
  mksdb (mkscat c (dict_of_specs ms) (dict_of_specs es) (dict_of_specs ss) :: s_cats s)
        (ovr um (s_unk_m s)) (ovr ue (s_unk_e s)) (ovr us (s_unk_s s)) true.

(** extended_with merging into the leading auto-generated category *)
Definition s_extend_merge (s : sdb) (ms es ss : list spec) (um ue us : option (option spec)) : sdb :=
  mksdb (match s_cats s with
         | c0 :: r => mkscat (sc_name c0) (dict_update (sc_m c0) (dict_of_specs ms))
                             (dict_update (sc_e c0) (dict_of_specs es))
                             (dict_update (sc_s c0) (dict_of_specs ss)) :: r
         | [] => []
         end)
        (ovr um (s_unk_m s)) (ovr ue (s_unk_e s)) (ovr us (s_unk_s s)) true.

(** filtered_context: the selected categories in the same order, each dict
    rebuilt from its values (keyed by the names the spec objects carry) or
    emptied when its kind is not kept; unknown-specs inherited; not frozen *)
Definition s_filter (s : sdb) (keep excl : list cat) (which : list kind) : sdb :=
  let cp k c := if keeps which k then dict_of_specs (dict_values (sel k c)) else dict_of_specs [] in
  mksdb (map (fun c => mkscat (sc_name c) (cp KM c) (cp KE c) (cp KS c))
             (filter (fun c => cat_selected keep excl (sc_name c)) (s_cats s)))
        (s_unk_m s) (s_unk_e s) (s_unk_s s) false.
