(** Executable heap-machine model of [pylatexenc/macrospec/_latexcontextdb.py:
    LatexContextDb] (with fixes/C14-*.diff applied), faithful to the
    container sharing of the Python code.

    Python containers are heap objects addressed by location:
    - [OList]  a [category_list] (list of category names);
    - [ODict]  a macros / environments / specials dict (name -> spec object);
    - [OCatD]  a [category_dicts] dict [{'macros':m,'environments':e,'specials':s}]
               (three locations);
    - [OD]     a [d] dict (category name -> location of its [OCatD]);
    - [OChain] a [collections.ChainMap]: its [.maps] list of dict locations
               (the list is created by the ChainMap constructor and owned by it).
    A database object holds locations ([category_list], [d], the three chain
    maps of [lookup_chain_maps]) plus its scalar attributes.  Databases are
    themselves mutable objects addressed by a handle (creation order).

    What is shared in the code is shared here: [extended_with] aliases the
    source's [category_list] (merge branch), copies [d] shallowly (so the
    [OCatD] and [ODict] objects are shared between source and derived
    database) and builds chain maps over the *same* dict objects. *)
From Coq Require Import NArith List Bool Arith.
From PLV Require Import Base.PyStr Ctx.CtxSpec.
Import ListNotations.

Definition loc := nat.

Inductive obj :=
| OList (l : list cat)
| ODict (d : dict)
| OCatD (m e s : loc)
| OD (d : list (cat * loc))
| OChain (maps : list loc).

Definition heap := list obj.

Definition hget (hp : heap) (l : loc) : option obj := nth_error hp l.

(** [l[i] = x] for [i < len(l)] (no effect otherwise) *)
Fixpoint set_nth {A} (l : list A) (i : nat) (x : A) : list A :=
  match l, i with
  | [], _ => []
  | _ :: r, O => x :: r
  | y :: r, S j => y :: set_nth r j x
  end.

(** mutation of the object at a location *)
Definition hset (hp : heap) (l : loc) (o : obj) : heap := set_nth hp l o.

Definition get_list (hp : heap) (l : loc) : option (list cat) :=
  match hget hp l with Some (OList x) => Some x | _ => None end.
Definition get_dict (hp : heap) (l : loc) : option dict :=
  match hget hp l with Some (ODict x) => Some x | _ => None end.
Definition get_catd (hp : heap) (l : loc) : option (loc * loc * loc) :=
  match hget hp l with Some (OCatD m e s) => Some (m, e, s) | _ => None end.
Definition get_d (hp : heap) (l : loc) : option (list (cat * loc)) :=
  match hget hp l with Some (OD x) => Some x | _ => None end.
Definition get_chain (hp : heap) (l : loc) : option (list loc) :=
  match hget hp l with Some (OChain x) => Some x | _ => None end.

(** the [d] dict: lookup and assignment (position of an existing key kept) *)
Fixpoint d_get (d : list (cat * loc)) (c : cat) : option loc :=
  match d with
  | [] => None
  | (c', l) :: r => if cat_eqb c c' then Some l else d_get r c
  end.
Fixpoint d_set (d : list (cat * loc)) (c : cat) (l : loc) : list (cat * loc) :=
  match d with
  | [] => [(c, l)]
  | (c', l') :: r => if cat_eqb c c' then (c', l) :: r else (c', l') :: d_set r c l
  end.

(** * Database objects and the world *)

Record db := mkdb {
  cl : loc;                                   (* self.category_list *)
  dd : loc;                                   (* self.d *)
  cm_m : loc; cm_e : loc; cm_s : loc;         (* self.lookup_chain_maps[...] *)
  unk_m : option spec; unk_e : option spec; unk_s : option spec;
  frozen : bool;
  counter : nat }.                            (* self._autogen_category_counter *)

Record world := mkw { w_heap : heap; w_dbs : list db }.

Definition init_world : world := mkw [] [].

Inductive exn := RuntimeError | ValueError.
Inductive result :=
| ROk                      (* returned None *)
| RNew (h : nat)           (* returned a new database, now handle h *)
| RRaise (e : exn)
| RNoSuchDb                (* the operation names a handle that does not exist (not a Python behaviour) *)
| RStuck.                  (* a location did not hold the expected kind of object (never happens, see
                              C14_never_stuck) *)

Definition chain_of (k : kind) (d : db) : loc :=
  match k with KM => cm_m d | KE => cm_e d | KS => cm_s d end.
Definition unk_of (k : kind) (d : db) : option spec :=
  match k with KM => unk_m d | KE => unk_e d | KS => unk_s d end.

Definition set_unk (k : kind) (v : option spec) (d : db) : db :=
  match k with
  | KM => mkdb (cl d) (dd d) (cm_m d) (cm_e d) (cm_s d) v (unk_e d) (unk_s d) (frozen d) (counter d)
  | KE => mkdb (cl d) (dd d) (cm_m d) (cm_e d) (cm_s d) (unk_m d) v (unk_s d) (frozen d) (counter d)
  | KS => mkdb (cl d) (dd d) (cm_m d) (cm_e d) (cm_s d) (unk_m d) (unk_e d) v (frozen d) (counter d)
  end.
Definition set_frozen (d : db) : db :=
  mkdb (cl d) (dd d) (cm_m d) (cm_e d) (cm_s d) (unk_m d) (unk_e d) (unk_s d) true (counter d).
Definition set_counter (n : nat) (d : db) : db :=
  mkdb (cl d) (dd d) (cm_m d) (cm_e d) (cm_s d) (unk_m d) (unk_e d) (unk_s d) (frozen d) n.

(** [LatexContextDb.__init__]: eight fresh containers.  [ChainMap({})] is a
    chain whose only map is a fresh empty dict (a ChainMap always has at least
    one map). *)
Definition init_db (hp : heap) : heap * db :=
  let b := length hp in
  (hp ++ [OList []; OD [];
          ODict []; OChain [b + 2];
          ODict []; OChain [b + 4];
          ODict []; OChain [b + 6]],
   mkdb b (b + 1) (b + 3) (b + 5) (b + 7) None None None false 0).

(** [_get_new_autogen_category]: advance the counter while the generated name
    is taken.  At most [length cats] names are taken, so [S (length cats)]
    rounds always suffice ([fresh_auto_fresh] in the proofs). *)
Fixpoint fresh_auto_f (fuel : nat) (cats : list cat) (n : nat) : nat :=
  match fuel with
  | O => n
  | S f => if mem_cat (CAuto n) cats then fresh_auto_f f cats (S n) else n
  end.
Definition fresh_auto (cats : list cat) (n : nat) : nat := fresh_auto_f (S (length cats)) cats n.

(** * add_context_category

    [allow_reserved] is the private flag by which [filtered_context] may
    re-register an auto-generated category name (fixes/C14-filter-autogen). *)
(** the part of [add_context_category] after the category name is settled *)
Definition add_named (hp : heap) (d : db) (c' : cat) (ms es ss : list spec) (pl : placement)
  : heap * db * result :=
  match get_list hp (cl d), get_d hp (dd d),
        get_chain hp (cm_m d), get_chain hp (cm_e d), get_chain hp (cm_s d) with
  | Some cats, Some ddl, Some mm, Some me, Some ms_ =>
    if mem_cat c' cats then (hp, d, RRaise ValueError) else
    let b := length hp in
    let hp1 := hp ++ [ODict (dict_of_specs ms); ODict (dict_of_specs es); ODict (dict_of_specs ss);
                      OCatD b (b + 1) (b + 2)] in
    (* every placement is an insertion at an explicit index of the category
       list, so that the placeholder dict of each ChainMap stays last *)
    let i := place_index cats pl in
    let hp2 := hset hp1 (cl d) (OList (insert_at i c' cats)) in
    let hp3 := hset hp2 (cm_m d) (OChain (insert_at i b mm)) in
    let hp4 := hset hp3 (cm_e d) (OChain (insert_at i (b + 1) me)) in
    let hp5 := hset hp4 (cm_s d) (OChain (insert_at i (b + 2) ms_)) in
    let hp6 := hset hp5 (dd d) (OD (d_set ddl c' (b + 3))) in
    (hp6, d, ROk)
  | _, _, _, _, _ => (hp, d, RStuck)
  end.

Definition do_add (allow_reserved : bool) (hp : heap) (d : db)
           (c : option cat) (ms es ss : list spec) (pl : placement) : heap * db * result :=
  if frozen d then (hp, d, RRaise RuntimeError) else
  if (match c with Some (CAuto _) => negb allow_reserved | _ => false end)
  then (hp, d, RRaise ValueError) else
  match c with
  | Some c' => add_named hp d c' ms es ss pl
  | None =>
    match get_list hp (cl d) with
    | Some cats => let n := fresh_auto cats (counter d) in
                   add_named hp (set_counter (S n) d) (CAuto n) ms es ss pl
    | None => (hp, d, RStuck)
    end
  end.

(** * filtered_context: what is read from the source *)

Definition values_at (hp : heap) (keep : bool) (l : loc) : option (list spec) :=
  if keep then match get_dict hp l with Some x => Some (dict_values x) | None => None end
  else Some [].

Fixpoint snapshot (hp : heap) (ddl : list (cat * loc)) (keep excl : list cat) (which : list kind)
         (cats : list cat) : option (list (cat * (list spec * list spec * list spec))) :=
  match cats with
  | [] => Some []
  | c :: r =>
    if cat_selected keep excl c then
      match d_get ddl c with
      | Some lcd =>
        match get_catd hp lcd with
        | Some (lm, le, ls) =>
          match values_at hp (keeps which KM) lm, values_at hp (keeps which KE) le,
                values_at hp (keeps which KS) ls, snapshot hp ddl keep excl which r with
          | Some vm, Some ve, Some vs, Some rest => Some ((c, (vm, ve, vs)) :: rest)
          | _, _, _, _ => None
          end
        | None => None
        end
      | None => None
      end
    else snapshot hp ddl keep excl which r
  end.

(** * extended_with *)

(** returns the heap, the (possibly counter-advanced) source, the new database *)
Definition do_extend (hp : heap) (d : db) (c : option cat) (ms es ss : list spec)
           (um ue us : option (option spec)) : heap * db * option db * result :=
  match get_list hp (cl d), get_d hp (dd d),
        get_chain hp (cm_m d), get_chain hp (cm_e d), get_chain hp (cm_s d) with
  | Some cats, Some ddl, Some mm, Some me, Some ms_ =>
    if (match c with Some c' => mem_cat c' cats | None => false end)
    then (hp, d, None, RRaise ValueError) else
    if negb (frozen d) then (hp, d, None, RRaise RuntimeError) else
    (* new_context = create_class(): its own containers are allocated and then replaced *)
    let (hp0, n0) := init_db hp in
    let b := length hp0 in
    (* new_category_dicts *)
    let nm := dict_of_specs ms in let ne := dict_of_specs es in let ns := dict_of_specs ss in
    let hp1 := hp0 ++ [ODict nm; ODict ne; ODict ns; OCatD b (b + 1) (b + 2)] in
    let um' := ovr um (unk_m d) in let ue' := ovr ue (unk_e d) in let us' := ovr us (unk_s d) in
    match c, cats with
    | None, CAuto a :: _ =>
      (* merge into the leading auto-generated category *)
      match d_get ddl (CAuto a) with
      | Some lcd =>
        match get_catd hp lcd with
        | Some (lm, le, ls) =>
          match get_dict hp lm, get_dict hp le, get_dict hp ls with
          | Some om, Some oe, Some os =>
            let b1 := length hp1 in
            let hp2 := hp1 ++ [ODict (dict_update om nm); ODict (dict_update oe ne);
                               ODict (dict_update os ns); OCatD b1 (b1 + 1) (b1 + 2);
                               OD (d_set ddl (CAuto a) (b1 + 3));
                               OChain (b1 :: tl mm); OChain ((b1 + 1) :: tl me);
                               OChain ((b1 + 2) :: tl ms_)] in
            (hp2, d,
             Some (mkdb (cl d) (b1 + 4) (b1 + 5) (b1 + 6) (b1 + 7) um' ue' us' true (counter d)),
             ROk)
          | _, _, _ => (hp, d, None, RStuck)
          end
        | None => (hp, d, None, RStuck)
        end
      | None => (hp, d, None, RStuck)
      end
    | _, _ =>
      let '(c', d1, cnt') :=
        match c with
        | Some c' => (c', d, counter d)
        | None => let a := fresh_auto cats (counter d) in (CAuto a, set_counter a d, S a)
        end in
      if mem_cat c' cats then (hp, d1, None, RStuck) (* only if the counter loop ran out of fuel *) else
      let b1 := length hp1 in
      let hp2 := hp1 ++ [OD (d_set ddl c' (b + 3)); OList (c' :: cats);
                         OChain (b :: mm); OChain ((b + 1) :: me); OChain ((b + 2) :: ms_)] in
      (hp2, d1,
       Some (mkdb (b1 + 1) b1 (b1 + 2) (b1 + 3) (b1 + 4) um' ue' us' true cnt'),
       ROk)
    end
  | _, _, _, _, _ => (hp, d, None, RStuck)
  end.

(** * Operations *)

Inductive op :=
| ONew
| OAdd (h : nat) (c : option cat) (ms es ss : list spec) (pl : placement)
| OSetUnk (h : nat) (k : kind) (v : option spec)
| OFreeze (h : nat)
| OFilter (h : nat) (keep excl : list cat) (which : list kind)
| OExtend (h : nat) (c : option cat) (ms es ss : list spec) (um ue us : option (option spec)).

Definition w_add (allow : bool) (w : world) (h : nat) (c : option cat) (ms es ss : list spec)
           (pl : placement) : world * result :=
  match nth_error (w_dbs w) h with
  | None => (w, RNoSuchDb)
  | Some d => let '(hp', d', r) := do_add allow (w_heap w) d c ms es ss pl in
              (mkw hp' (set_nth (w_dbs w) h d'), r)
  end.

Definition w_new (w : world) : world * result :=
  let (hp', d) := init_db (w_heap w) in
  (mkw hp' (w_dbs w ++ [d]), RNew (length (w_dbs w))).

Fixpoint filter_adds (w : world) (h : nat)
         (items : list (cat * (list spec * list spec * list spec))) : world * result :=
  match items with
  | [] => (w, ROk)
  | (c, (vm, ve, vs)) :: r =>
    let (w', res) := w_add true w h (Some c) vm ve vs PAppend in
    match res with ROk => filter_adds w' h r | _ => (w', res) end
  end.

Definition w_filter (w : world) (h : nat) (keep excl : list cat) (which : list kind)
  : world * result :=
  match nth_error (w_dbs w) h with
  | None => (w, RNoSuchDb)
  | Some d =>
    match get_list (w_heap w) (cl d), get_d (w_heap w) (dd d) with
    | Some cats, Some ddl =>
      match snapshot (w_heap w) ddl keep excl which cats with
      | Some items =>
        let n := length (w_dbs w) in
        let (hp', nd) := init_db (w_heap w) in
        let nd' := mkdb (cl nd) (dd nd) (cm_m nd) (cm_e nd) (cm_s nd)
                        (unk_m d) (unk_e d) (unk_s d) false 0 in
        let (w', res) := filter_adds (mkw hp' (w_dbs w ++ [nd'])) n items in
        match res with
        | ROk => (w', RNew n)
        | _ => (mkw (w_heap w') (firstn n (w_dbs w')), res)    (* new_context is dropped *)
        end
      | None => (w, RStuck)
      end
    | _, _ => (w, RStuck)
    end
  end.

Definition db_step (w : world) (o : op) : world * result :=
  match o with
  | ONew => w_new w
  | OAdd h c ms es ss pl => w_add false w h c ms es ss pl
  | OSetUnk h k v =>
    match nth_error (w_dbs w) h with
    | None => (w, RNoSuchDb)
    | Some d => if frozen d then (w, RRaise RuntimeError)
                else (mkw (w_heap w) (set_nth (w_dbs w) h (set_unk k v d)), ROk)
    end
  | OFreeze h =>
    match nth_error (w_dbs w) h with
    | None => (w, RNoSuchDb)
    | Some d => (mkw (w_heap w) (set_nth (w_dbs w) h (set_frozen d)), ROk)
    end
  | OFilter h keep excl which => w_filter w h keep excl which
  | OExtend h c ms es ss um ue us =>
    match nth_error (w_dbs w) h with
    | None => (w, RNoSuchDb)
    | Some d =>
      let '(hp', d', nd, r) := do_extend (w_heap w) d c ms es ss um ue us in
      match nd with
      | Some nd => (mkw hp' (set_nth (w_dbs w) h d' ++ [nd]), RNew (length (w_dbs w)))
      | None => (mkw hp' (set_nth (w_dbs w) h d'), r)
      end
    end
  end.

Definition run (ops : list op) : world := fold_left (fun w o => fst (db_step w o)) ops init_world.

(** * Queries, as the code answers them (reading through the heap) *)

(** [ChainMap.__getitem__]: the first map that has the key; [Some None] = KeyError *)
Fixpoint chain_get (hp : heap) (maps : list loc) (n : str) : option (option spec) :=
  match maps with
  | [] => Some None
  | l :: r => match get_dict hp l with
              | Some d => match dict_get d n with
                          | Some v => Some (Some v)
                          | None => chain_get hp r n
                          end
              | None => None
              end
  end.

(** [self.d[cat][which]] *)
Definition cat_dict (hp : heap) (ddl : list (cat * loc)) (k : kind) (c : cat) : option dict :=
  match d_get ddl c with
  | Some lcd => match get_catd hp lcd with
                | Some (lm, le, ls) => get_dict hp (match k with KM => lm | KE => le | KS => ls end)
                | None => None
                end
  | None => None
  end.

(** inner loop of [test_for_specials] over the keys of one category *)
Fixpoint test_keys (txt : str) (pos : nat) (keys : dict) (best : nat * option spec)
  : nat * option spec :=
  match keys with
  | [] => best
  | (k, v) :: r =>
    test_keys txt pos r
      (if Nat.ltb (fst best) (length k) && startswith_at txt k pos then (length k, Some v) else best)
  end.

Fixpoint test_cats (hp : heap) (ddl : list (cat * loc)) (txt : str) (pos : nat) (cats : list cat)
         (best : nat * option spec) : option (nat * option spec) :=
  match cats with
  | [] => Some best
  | c :: r => match cat_dict hp ddl KS c with
              | Some d => test_cats hp ddl txt pos r (test_keys txt pos d best)
              | None => None
              end
  end.

(** the generator body of [iter_*_specs] *)
Fixpoint iter_cats (hp : heap) (ddl : list (cat * loc)) (cats : list cat) (k : kind) (cs : list cat)
  : option (list spec * bool) :=
  match cs with
  | [] => Some ([], false)
  | c :: r =>
    if mem_cat c cats then
      match cat_dict hp ddl k c with
      | Some d => match iter_cats hp ddl cats k r with
                  | Some (l, b) => Some (dict_values d ++ l, b)
                  | None => None
                  end
      | None => None
      end
    else Some ([], true)
  end.

(** [None] = stuck *)
Definition db_query (hp : heap) (d : db) (q : query) : option ans :=
  match q with
  | QFrozen => Some (AFrozen (frozen d))
  | QCats => match get_list hp (cl d) with Some l => Some (ACats l) | None => None end
  | QLookup k n =>
    match get_chain hp (chain_of k d) with
    | Some maps => match chain_get hp maps n with
                   | Some (Some v) => Some (ALookup true (Some v))
                   | Some None => Some (ALookup false (unk_of k d))
                   | None => None
                   end
    | None => None
    end
  | QTest txt pos =>
    match get_list hp (cl d), get_d hp (dd d) with
    | Some cats, Some ddl => match test_cats hp ddl txt pos cats (0, None) with
                             | Some (_, v) => Some (ATest v)
                             | None => None
                             end
    | _, _ => None
    end
  | QIter k cs =>
    match get_list hp (cl d), get_d hp (dd d) with
    | Some cats, Some ddl =>
      match iter_cats hp ddl cats k (match cs with Some x => x | None => cats end) with
      | Some (l, b) => Some (AIter l b)
      | None => None
      end
    | _, _ => None
    end
  end.

Definition run_query (w : world) (h : nat) (q : query) : option ans :=
  match nth_error (w_dbs w) h with
  | Some d => db_query (w_heap w) d q
  | None => None
  end.

(** * The abstraction function: what a database object means

    Reads [category_list] and [d] only — the chain maps do not enter, so that
    "lookups through the chain maps agree with the meaning" is a theorem. *)
Fixpoint abs_cats (hp : heap) (ddl : list (cat * loc)) (cats : list cat) : option (list scat) :=
  match cats with
  | [] => Some []
  | c :: r =>
    match cat_dict hp ddl KM c, cat_dict hp ddl KE c, cat_dict hp ddl KS c, abs_cats hp ddl r with
    | Some m, Some e, Some s, Some rest => Some (mkscat c m e s :: rest)
    | _, _, _, _ => None
    end
  end.

Definition abs_db (hp : heap) (d : db) : option sdb :=
  match get_list hp (cl d), get_d hp (dd d) with
  | Some cats, Some ddl =>
    match abs_cats hp ddl cats with
    | Some sc => Some (mksdb sc (unk_m d) (unk_e d) (unk_s d) (frozen d))
    | None => None
    end
  | _, _ => None
  end.

Definition abs (w : world) (h : nat) : option sdb :=
  match nth_error (w_dbs w) h with
  | Some d => abs_db (w_heap w) d
  | None => None
  end.
