#!/bin/sh
# keep_seed.sh <seed_dir> <seed-id> <PID...> : confirm a seeded change, run checks, store under /verif/seeded/<seed-id>/
set -e
SD=$1; ID=$2; shift 2
mkdir -p /verif/seeded/$ID
cp $SD/patch.diff $SD/demo.py /verif/seeded/$ID/
/venv/bin/python /verif/harness/run_seed.py $SD "$@" > /verif/seeded/$ID/run.json 2>/dev/null || true
/venv/bin/python - <<PY
import json
m=json.load(open('$SD/meta.json'))
r=json.load(open('/verif/seeded/$ID/run.json'))
m['confirmed']={'patch_applies':r.get('patch_applies'),'existing_tests':r.get('tests'),'demo_exit_without_change':r.get('demo_without_change'),'demo_exit_with_change':r.get('demo_with_change')}
m['what_we_ran']=['git worktree of /repo HEAD + git apply patch.diff','pytest (286 tests)','demo.py with and without the change']+['VERIF_REPO=<worktree> ./check %s'%p for p in r.get('checks',{})]
m['our_checks']={p:{'exit':c['exit'],'caught':bool(c['violation_lines']),'first':c['detail'][:2]} for p,c in r.get('checks',{}).items()}
json.dump(m,open('/verif/seeded/$ID/meta.json','w'),indent=1)
print('$ID', m['confirmed'], {p:(c['caught'], [d.get('signature') or d.get('broken') for d in c['first']]) for p,c in m['our_checks'].items()})
PY
# a seeded change to a data table leaves regenerated coq/Gen/*.v (and their objects) behind: rebuild from /repo
[ -n "$KEEP_SEED_NO_REBUILD" ] || (cd /verif && ./setup.sh > /dev/null 2>&1) || echo "WARNING: rebuild after seed failed"
