"""Document grammar for C02 (and C03/C08): abstract documents derived from a
context's argument signatures, laid out to concrete LaTeX with random but
structure-preserving whitespace / comments, and the structure the document was
written with (computed from the abstract document, never from a parser).

Abstract items:
  ('text', s)                       s over TEXT_ALPHA, non-empty, no whitespace
  ('space',)                        inter-word whitespace (no paragraph break)
  ('par',)                          paragraph break
  ('comment', text)
  ('group', items)
  ('math', open, items)
  ('macro', name, args)             args: one entry per declared slot
  ('env', name, args, items)
  ('specials', chars, args)
  ('verbmacro', delim, text)        \\verb
  ('verbenv', name, opt, text)      verbatim / lstlisting
argument entries: None (absent) | ('chars', c) | ('brace', items) | ('tok', item) |
                  ('delim', o, items, c) | ('verb', o, text, c)
"""
import random

TEXT_ALPHA = 'abcdefghijklmnopqrstuvwxyzABCXYZ0123456789.,;:'
CLOSE = {'$': '$', '\\(': '\\)', '$$': '$$', '\\[': '\\]'}


# ---------------------------------------------------------------------------
# signatures from a decoded context (ctxwire.decode_db)

class Sig:
    def __init__(self, cx):
        self.cx = cx
        self.macros = {}
        for n, sp in cx['macros']:
            self.macros.setdefault(n, sp)
        self.envs = {}
        for n, sp in cx['envs']:
            self.envs.setdefault(n, sp)
        self.specials = {}
        for n, sp in cx['specials']:
            self.specials.setdefault(n, sp)
        self.has_par = '\n\n' in self.specials
        self.unk_macro = cx['unk_macro']
        self.unk_env = cx['unk_env']

    def macro_sig(self, name):
        return self.macros.get(name, self.unk_macro)

    def env_sig(self, name):
        return self.envs.get(name, self.unk_env)


# ---------------------------------------------------------------------------
# generation of abstract documents

class DocGen:
    def __init__(self, rnd, sig, macro_pool, env_pool, specials_pool, zero_arg_macros):
        self.r = rnd
        self.sig = sig
        self.macro_pool = macro_pool
        self.env_pool = env_pool
        self.specials_pool = specials_pool
        self.zero = zero_arg_macros
        self.dstack = []            # delimiters of the enclosing delimited arguments ('[]', '()', '<>')

    def text(self, forbid=None):
        r = self.r
        if forbid == '' and self.dstack and r.random() < 0.35:
            # inside a child construct (group, math, brace argument, environment body) of a delimited argument
            # the argument's own delimiters are ordinary characters again
            ds = ''.join(self.dstack)
            return ('text', r.choice('abxy') + ''.join(r.choice(ds) for _ in range(r.randint(1, 2))) + r.choice('abxy'))
        return ('text', ''.join(r.choice(TEXT_ALPHA) for _ in range(r.randint(1, 5))))

    def items(self, depth=0, math=False, forbid=''):
        r = self.r
        out = []
        n = r.randint(0 if depth else 1, 4 if depth < 2 else 2)
        for _ in range(n):
            it = self.item(depth, math, forbid)
            if it is None:
                continue
            if it[0] == 'specials' and out and out[-1][0] == 'specials':
                it = self.text()            # adjacent specials could fuse into a longer one ('--' '-')
            out.append(it)
            if it[0] == 'macro' and forbid == '' and it[2] and it[2][-1] is None and r.random() < 0.6:
                # an optional argument that must follow WITHOUT whitespace (the line-break macro): after whitespace
                # the same characters are ordinary text
                sp = self.sig.macro_sig(it[1])
                if sp and sp['args'][0] == 'std' and sp['args'][1]:
                    k = sp['args'][1][-1]['kind']
                    if k[0] == 'group' and k[3] and not k[4]:
                        out.append(('space',))
                        out.append(('text', k[1] + r.choice(['x', '1pt', 'ab']) + k[2]))
        return out

    def item(self, depth, math, forbid):
        r = self.r
        k = r.random()
        if k < 0.28 or depth >= 4:
            return self.text(forbid)
        if k < 0.38:
            return ('space',)
        if k < 0.43 and not math and self.sig.has_par and depth == 0:
            return ('par',)
        if k < 0.50:
            return ('comment', ''.join(r.choice('abc xyz{$') for _ in range(r.randint(0, 5))))
        if k < 0.58:
            return ('group', self.items(depth + 1, math, ''))
        if k < 0.67 and not math:
            op = r.choice(['$', '\\(', '$$', '\\['])
            if forbid and any(ch in op + CLOSE[op] for ch in forbid):
                return self.text()
            body = self.items(depth + 1, True, '')
            if op == '$' and not body:
                body = [self.text()]            # '$$' would be the display delimiter
            return ('math', op, body)
        if k < 0.86:
            name = r.choice(self.macro_pool)
            return self.macro(name, depth, math, forbid)
        if k < 0.94 and self.env_pool:
            name = r.choice(self.env_pool)
            sp = self.sig.env_sig(name)
            if sp['args'][0] == 'verbenv':
                txt = ''.join(r.choice('ab %{$\\\n') for _ in range(r.randint(0, 6)))
                opt = None
                if sp['args'][2] and r.random() < 0.5:
                    opt = ''.join(r.choice('abc=,') for _ in range(r.randint(0, 4)))
                return ('verbenv', name, opt, txt)
            return ('env', name, self.args(sp, depth, math, forbid), self.items(depth + 1, math or sp['body_math'], ''))
        if self.specials_pool:
            ch = r.choice(self.specials_pool)
            if forbid and any(c in ch for c in forbid):
                return self.text()
            return ('specials', ch, self.args(self.sig.specials[ch], depth, math, forbid))
        return self.text()

    def macro(self, name, depth, math, forbid):
        sp = self.sig.macro_sig(name)
        if sp['args'][0] == 'verbmacro':
            d = self.r.choice('|+!/')
            return ('verbmacro', d, ''.join(self.r.choice('ab %{$\\') for _ in range(self.r.randint(0, 5))))
        return ('macro', name, self.args(sp, depth, math, forbid))

    def args(self, sp, depth, math, forbid):
        for _ in range(20):
            out = self._args(sp, depth, math, forbid)
            if sp['args'][0] != 'std' or self._unambiguous(sp['args'][1], out):
                return out
        # give up on absent optionals: write every delimited argument
        return [a if a is not None or s['kind'][0] != 'group' else ('delim', s['kind'][1], [], s['kind'][2])
                for a, s in zip(out, sp['args'][1])]

    @staticmethod
    def _unambiguous(specs, args):
        """an absent optional delimited argument must not be followed by a written argument
        that starts with its opening delimiter"""
        blocked = set()
        for a, s in zip(args, specs):
            if a is None:
                if s['kind'][0] == 'group':
                    blocked.add(s['kind'][1])
                continue
            first = {'chars': lambda: a[1], 'brace': lambda: '{', 'delim': lambda: a[1], 'verb': lambda: a[1],
                     'tok': lambda: None}[a[0]]()
            if first in blocked:
                return False
            blocked = set()
        return True

    def _args(self, sp, depth, math, forbid):
        r = self.r
        out = []
        if sp['args'][0] != 'std':
            return out
        for a in sp['args'][1]:
            k = a['kind']
            if k[0] == 'expr':
                if r.random() < 0.7:
                    out.append(('brace', self.items(depth + 1, math, '')))
                else:
                    if r.random() < 0.5 or not self.zero:
                        out.append(('tok', ('text', r.choice('abcxyz0123'))))
                    else:
                        out.append(('tok', ('macro', r.choice(self.zero), [])))
            elif k[0] == 'group':
                o, c, optional = k[1], k[2], k[3]
                if optional and r.random() < 0.5:
                    out.append(None)
                else:
                    self.dstack.append(o + c)
                    out.append(('delim', o, self.items(depth + 1, math, forbid + c), c))
                    self.dstack.pop()
            elif k[0] == 'chars':
                out.append(('chars', k[1]) if r.random() < 0.5 else None)
            elif k[0] == 'verb':
                if k[1] is None:
                    o, c = r.choice([('{', '}'), ('|', '|'), ('+', '+'), ('(', ')')])
                else:
                    o, c = k[1]
                txt = ''.join(r.choice('ab %$\\') for _ in range(r.randint(0, 5)))
                out.append(('verb', o, txt, c))
            else:
                raise ValueError(k)
        return out


# ---------------------------------------------------------------------------
# layout: abstract document -> string

class Layout:
    def __init__(self, rnd, sig):
        self.r = rnd
        self.sig = sig

    def ws(self, allow_empty=True):
        return self.r.choice((['', ''] if allow_empty else []) + [' ', '  ', '\n', ' \n ', '\t'])

    def be_gap(self):
        """whitespace between \\begin / \\end and the braced name: any amount, line breaks included"""
        k = self.r.random()
        if k < 0.88:
            return ''
        if k < 0.95:
            return self.r.choice([' ', '\n', '\t ', '  ', ' \n '])
        return self.r.choice([' ' * 56, ' ' * 57, ' ' * 64, '\n' + ' ' * 70, '\t' * 130, ' \n' * 40])

    def prearg(self, aps, comments_ok=True):
        """filler between a call token / previous argument and the next argument (only the
        expression parser skips comments)"""
        if not aps:
            return ''
        r = self.r
        k = r.random()
        if k < 0.6:
            return ''
        if k < 0.9 or not comments_ok:
            return self.ws(False)
        return r.choice([' ', '']) + '%' + r.choice(['', 'c', 'x{']) + '\n' + r.choice(['', ' '])

    def items(self, items, closing=''):
        """closing: the text that follows the list (for follow conditions)"""
        out = ''
        for i, it in enumerate(items):
            s = self.item(it)
            nxt_text = (i + 1 < len(items) and items[i + 1][0] == 'text') or (i + 1 == len(items) and closing[:1].isalpha())
            if self._ends_with_control_word(s) and nxt_text:
                s += self.r.choice([' ', '\n', '  '])
            if it[0] == 'space':
                # two newlines in one whitespace run would be a paragraph break
                tail = out[len(out.rstrip()):] if out.strip() or not out else out
                if (tail + s).count('\n') >= 2 or (not out and closing == '' and False):
                    s = ' '
            out += s
        return out

    @staticmethod
    def _ends_with_control_word(s):
        import re
        m = re.search(r'(\\+)([A-Za-z]+)$', s)
        return bool(m) and len(m.group(1)) % 2 == 1

    def item(self, it):
        r = self.r
        k = it[0]
        if k == 'text':
            return it[1]
        if k == 'space':
            return self.ws(False)
        if k == 'par':
            return r.choice(['\n\n', '\n \n', ' \n\n ', '\n\n\n', '\n\t\n'])
        if k == 'comment':
            return '%' + it[1] + '\n' + r.choice(['', ' ', '  '])
        if k == 'group':
            return '{' + self.items(it[1], '}') + '}'
        if k == 'math':
            return it[1] + self.items(it[2], CLOSE[it[1]]) + CLOSE[it[1]]
        if k == 'macro':
            return '\\' + it[1] + self.args(self.sig.macro_sig(it[1]), it[2], control_word=it[1][-1:].isalpha())
        if k == 'specials':
            return it[1] + self.args(self.sig.specials[it[1]], it[2], control_word=False)
        if k == 'env':
            sp = self.sig.env_sig(it[1])
            head = '\\begin%s{%s}' % (self.be_gap(), it[1]) + self.args(sp, it[2], control_word=False)
            if self._ends_with_control_word(head) and it[3] and it[3][0][0] == 'text':
                head += ' '
            return head + self.items(it[3], '\\') + '\\end%s{%s}' % (self.be_gap(), it[1])
        if k == 'verbmacro':
            return '\\verb' + it[1] + it[2].replace(it[1], '') + it[1]
        if k == 'verbenv':
            o = '' if it[2] is None else '[' + it[2] + ']'
            return '\\begin{%s}%s%s\\end{%s}' % (it[1], o, it[3], it[1])
        raise ValueError(it)

    def args(self, sp, args, control_word):
        out = ''
        if sp is None or sp['args'][0] != 'std':
            return out
        specs = sp['args'][1]
        last_cw = control_word              # does the text so far end with a control word?
        for a, spec in zip(args, specs):
            aps = spec['kind'][-1] if spec['kind'][0] == 'expr' else (spec['kind'][4] if spec['kind'][0] == 'group'
                                                                       else (spec['kind'][2] if spec['kind'][0] == 'chars' else True))
            if a is None:
                continue
            pre = self.prearg(aps, comments_ok=(spec['kind'][0] == 'expr'))
            if a[0] == 'chars':
                s = a[1]
            elif a[0] == 'brace':
                s = '{' + self.items(a[1], '}') + '}'
            elif a[0] == 'tok':
                s = self.item(a[1])
                if last_cw and not pre and s[:1].isalpha():
                    pre = ' '
            elif a[0] == 'delim':
                s = a[1] + self.items(a[2], a[3]) + a[3]
            elif a[0] == 'verb':
                s = a[1] + a[2].replace(a[3], '').replace(a[1], '') + a[3]
                if spec['kind'][1] is None and a[1] in '{(':
                    s = a[1] + a[2].replace(a[3], '').replace(a[1], '') + a[3]
            else:
                raise ValueError(a)
            out += pre + s
            last_cw = Layout._ends_with_control_word(out) if out else last_cw
        return out


def unparse(rnd, sig, items):
    return Layout(rnd, sig).items(items)


# ---------------------------------------------------------------------------
# the structure a document was written with

def norm(s):
    return ' '.join(s.split())


def expected(sig, items):
    out = []
    run = None
    last_par = False
    for it in items:
        k = it[0]
        if k in ('text', 'space'):
            run = (run or '') + (it[1] if k == 'text' else ' ')
            if k == 'text':
                last_par = False
            continue
        if run is not None:
            if norm(run):
                out.append(('C', norm(run)))
            run = None
        e = exp_item(sig, it)
        if e == ('S', '\n\n', []) and out and out[-1] == e and last_par:
            continue                        # adjacent paragraph breaks are one whitespace run
        out.append(e)
        last_par = (e == ('S', '\n\n', []))
    if run is not None and norm(run):
        out.append(('C', norm(run)))
    return out


def exp_args(sig, sp, args):
    if sp is None:
        return []
    if sp['args'][0] != 'std':
        return None
    out = []
    for a, spec in zip(args, sp['args'][1]):
        k = spec['kind']
        if a is None:
            out.append(None)
        elif a[0] == 'chars':
            out.append([('C', a[1])] if (k[0] == 'chars' and k[3]) else ('C', a[1]))
        elif a[0] == 'brace':
            out.append(('G', '{', '}', expected(sig, a[1])))
        elif a[0] == 'tok':
            t = a[1]
            out.append(('C', t[1]) if t[0] == 'text' else ('M', t[1], []))
        elif a[0] == 'delim':
            out.append(('G', a[1], a[3], expected(sig, a[2])))
        elif a[0] == 'verb':
            txt = a[2].replace(a[3], '').replace(a[1], '')
            out.append(('G', a[1], a[3], [('C', norm(txt))] if norm(txt) else []))
    return out


def exp_item(sig, it):
    k = it[0]
    if k == 'par':
        return ('S', '\n\n', [])
    if k == 'comment':
        return ('#', it[1])
    if k == 'group':
        return ('G', '{', '}', expected(sig, it[1]))
    if k == 'math':
        return ('$', it[1] in ('$$', '\\['), it[1], CLOSE[it[1]], expected(sig, it[2]))
    if k == 'macro':
        return ('M', it[1], exp_args(sig, sig.macro_sig(it[1]), it[2]))
    if k == 'specials':
        return ('S', it[1], exp_args(sig, sig.specials[it[1]], it[2]))
    if k == 'env':
        return ('E', it[1], exp_args(sig, sig.env_sig(it[1]), it[2]), expected(sig, it[3]))
    if k == 'verbmacro':
        return ('M', 'verb', [('C', norm(it[2].replace(it[1], '')))])
    if k == 'verbenv':
        args = []
        if sig.env_sig(it[1])['args'][2]:
            args.append(None if it[2] is None else ('G', '[', ']', [('C', norm(it[2]))] if norm(it[2]) else []))
        args.append(('C', norm(it[3])))
        return ('E', it[1], args, [])
    raise ValueError(it)


# ---------------------------------------------------------------------------
# structure of a REAL tree (harness/treedump kinds)

def struct(n):
    import treedump
    k = treedump.kind(n)
    if k is None:
        return None
    if k == 'L':
        out = []
        for x in (n if isinstance(n, (list, tuple)) else n.nodelist):
            s = struct(x)
            if s is not None and s[0] == 'C' and not s[1]:
                continue                    # whitespace-only chars node
            out.append(s)
        return out
    if k == 'C':
        return ('C', norm(n.chars))
    if k == '#':
        return ('#', n.comment)
    if k == 'G':
        d = n.delimiters or ('', '')
        return ('G', d[0] or '', d[1] or '', struct(n.nodelist) if n.nodelist is not None else None)
    if k == '$':
        return ('$', n.displaytype == 'display', n.delimiters[0], n.delimiters[1],
                struct(n.nodelist) if n.nodelist is not None else None)
    pa = n.nodeargd
    args = None if pa is None else [struct(a) if a is not None else None for a in (pa.argnlist or [])]
    if k == 'M':
        return ('M', n.macroname, args)
    if k == 'S':
        return ('S', n.specials_chars, args)
    if k == 'E':
        return ('E', n.environmentname, args, struct(n.nodelist) if n.nodelist is not None else None)
    return ('?',)


def canon(x):
    """tuples/lists -> JSON-able nested lists for comparison and reporting"""
    if isinstance(x, (list, tuple)):
        return [canon(y) for y in x]
    return x
