"""Pristine-interpreter server for the C09 oracle.

This process imports pylatexenc (and the default specification tables) but
NEVER parses and never builds a context database.  For every request line
{"id": .., "job": {"ctx": name, "s": str, "tolerant": bool}} (or {"id": ..,
"history": [jobs]}: all of them in ONE child, in order) it forks a child;
the child builds the job's context database from scratch, runs exactly that one
parse and reports the canonical dump; the parent prints {"id": .., "out": ..}.
So every answer is the result of the job as the FIRST AND ONLY parse of an
interpreter: empty standard-argument-parser cache, no lazily created inner
parsers, untouched specification objects."""
import os, sys, json, logging
sys.path.insert(0, os.path.dirname(os.path.abspath(__file__)))
logging.disable(logging.CRITICAL)
sys.setrecursionlimit(10000)
import pylatexenc.latexwalker, pylatexenc.macrospec, pylatexenc.latexnodes.parsers   # noqa
import pylatexenc.latexwalker._defaultspecs                                           # noqa  (spec objects exist, unused)
import parseharness
import props.c09 as C
C.PRISTINE = True


def run_one(job):
    if job['ctx'] == 'default':
        db = None
    elif job['ctx'] in ('custom', 'custom-nofallback', 'bare', 'chained'):
        import docgen
        db = docgen.make_db(job['ctx'])
    else:
        db = C.build_family(job['ctx'])[job['ctx']]
    return C.run_job(job, db)


def main():
    for line in sys.stdin:
        line = line.strip()
        if not line:
            continue
        req = json.loads(line)
        r, w = os.pipe()
        pid = os.fork()
        if pid == 0:
            os.close(r)
            try:
                if 'history' in req:      # a whole history from the pristine state (causality confirmation)
                    out = '\x1f'.join(C.run_job(j) for j in req['history'])
                else:
                    out = run_one(req['job'])
            except RecursionError:
                out = '!RECURSION'
            except BaseException as e:            # reported, never silently equal to a dump
                out = '!PRISTINE-EXC %s %s' % (type(e).__name__, str(e)[:200])
            with os.fdopen(w, 'w') as f:
                f.write(out)
            os._exit(0)
        os.close(w)
        with os.fdopen(r) as f:
            out = f.read()
        os.waitpid(pid, 0)
        sys.stdout.write(json.dumps({'id': req['id'], 'out': out}) + '\n')
        sys.stdout.flush()


if __name__ == '__main__':
    main()
