"""Real-code side of the latex2text correspondence."""
import treedump
from common import w_str, w_bool, show_str

MATH = {'text': 0, 'with-delimiters': 1, 'verbatim': 2, 'remove': 3}
SLS = {  # option value -> (bmc, blc, ac, ineq)
    None: (False, False, False, 0),
    False: (True, True, False, 2),
    'macros': (True, True, False, 2),
    'off': (True, True, False, 2),
    True: (True, True, True, 1),
    'on': (True, True, True, 1),
    'based-on-source': (False, False, False, 0),
    'except-in-equations': (True, True, True, 2),
}
# custom policies given as a dictionary (missing keys default to False / None)
SLS_DICTS = [
    {'between-macro-and-chars': True},
    {'between-latex-constructs': True, 'after-comment': True},
    {'between-macro-and-chars': False, 'between-latex-constructs': True, 'in-equations': True},
    {'after-comment': True, 'in-equations': 'based-on-source'},
    {'between-macro-and-chars': True, 'between-latex-constructs': False, 'after-comment': True, 'in-equations': None},
]
SLS_VALUES = [False, 'based-on-source', 'except-in-equations', True, None, 'macros'] + SLS_DICTS


def sls_tuple(v):
    """option value -> (bmc, blc, ac, ineq) with ineq 0 = no swap inside equations, 1 = all strict, 2 = based-on-source"""
    if isinstance(v, dict):
        ie = v.get('in-equations')
        return (bool(v.get('between-macro-and-chars', False)), bool(v.get('between-latex-constructs', False)),
                bool(v.get('after-comment', False)), {None: 0, True: 1, 'based-on-source': 2}[ie])
    return SLS[v]
MATH_VALUES = ['text', 'with-delimiters', 'verbatim', 'remove']


def w_opts(o):
    sl = sls_tuple(o.get('strict_latex_spaces', False))
    return ([MATH[o.get('math_mode', 'text')]] + w_bool(o.get('keep_comments', False))
            + w_bool(sl[0]) + w_bool(sl[1]) + w_bool(sl[2]) + [sl[3]]
            + w_bool(o.get('keep_braced_groups', False)) + [o.get('keep_braced_groups_minlen', 2)])


_today = None


def mask(txt):
    """\\today is a string computed at import time; \\maketitle calls _latex_today() when used:
    the former is masked in the output, the latter is patched to return the mask itself."""
    global _today
    if _today is None:
        import pylatexenc.latex2text._defaultspecs as D
        _today = D._latex_today()
        D._latex_today = lambda: '@TODAY@'
    return txt.replace(_today, '@TODAY@')


def outcome(fn):
    mask('')
    try:
        r = fn()
    except RecursionError:
        raise
    except Exception as e:
        return 'exn ' + type(e).__name__
    if not isinstance(r, str):
        return 'nonstr ' + type(r).__name__
    return 'ok ' + show_str(mask(r))


def l2t_tree(o, s, tol):
    """parse with the real parser, convert the real tree; returns (wire for the model, real outcome)"""
    from pylatexenc.latexwalker import LatexWalker
    from pylatexenc.latexnodes.parsers import LatexGeneralNodesParser
    from pylatexenc.latex2text import LatexNodes2Text
    w = LatexWalker(s, tolerant_parsing=tol)
    nl, _ = w.parse_content(LatexGeneralNodesParser())
    wire = [300] + w_opts(o) + w_str(s) + treedump.wire(nl)
    return wire, outcome(lambda: LatexNodes2Text(**o).nodelist_to_text(nl))


def l2t_e2e(o, s, tol):
    from pylatexenc.latex2text import LatexNodes2Text
    return outcome(lambda: LatexNodes2Text(**o).latex_to_text(s, tolerant_parsing=tol))


def w_e2e(o, s, tol):
    return [301] + w_opts(o) + w_str(s) + w_bool(tol)


_custom = {}


def custom_dbs(discards=True):
    """(parser database, converter database) declaring \\weblink{url}{text} and the environment derivation through the
    public API, on top of the default databases; with `discards`, the converter database also re-declares \\mathrm and
    \\textsc as discarded in categories inserted before the defining ones"""
    if discards not in _custom:
        from pylatexenc.latexwalker import get_default_latex_context_db as wdef
        from pylatexenc.latex2text import get_default_latex_context_db as tdef, MacroTextSpec, EnvironmentTextSpec
        from pylatexenc.macrospec import MacroSpec, EnvironmentSpec, ParsingStateDeltaExtendLatexContextDb
        from pylatexenc.latexnodes import (LatexArgumentSpec, ParsingStateDelta, ParsingStateDeltaChained,
                                           ParsingStateDeltaEnterMathMode)
        w = wdef()
        w.add_context_category('verif-custom', prepend=True, macros=[
            MacroSpec('weblink', [LatexArgumentSpec('{', parsing_state_delta=ParsingStateDelta(
                set_attributes=dict(enable_comments=False, enable_math=False))), LatexArgumentSpec('{')])],
            environments=[EnvironmentSpec('derivation', '', body_parsing_state_delta=ParsingStateDeltaChained([
                ParsingStateDeltaExtendLatexContextDb(extend_latex_context=dict(macros=[MacroSpec('why', '{')])),
                ParsingStateDeltaEnterMathMode()]))])
        t = tdef()
        t.add_context_category('verif-custom', prepend=True, macros=[MacroTextSpec('why', discard=True), MacroTextSpec('weblink', simplify_repl='%s <%s>')],
                               environments=[EnvironmentTextSpec('derivation', discard=False)])
        # a second category registered IN FRONT OF an existing one by name (not with prepend=True): it re-declares
        # \\mathrm (defined in latex-base) and \\textsc (defined in latex-approximations) as discarded
        if discards:
            t.add_context_category('verif-discard-a', insert_before='latex-base', macros=[MacroTextSpec('mathrm', discard=True)])
            t.add_context_category('verif-discard-b', insert_before='latex-approximations', macros=[MacroTextSpec('textsc', discard=True)])
        _custom[discards] = (w, t)
    return _custom[discards]
