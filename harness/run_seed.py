"""Confirm a seeded change (patch.diff + demo.py + meta.json) and run our checks against it.
usage: run_seed.py <seed_dir> <PID> [more PIDs]   (works on a scratch worktree; /repo is not touched)"""
import sys, os, json, subprocess, shutil, tempfile


def sh(cmd, **kw):
    p = subprocess.run(cmd, shell=True, stdout=subprocess.PIPE, stderr=subprocess.STDOUT, text=True, **kw)
    return p.returncode, p.stdout


def main():
    sd = os.path.abspath(sys.argv[1])
    pids = sys.argv[2:]
    wt = tempfile.mkdtemp(prefix='seedwt_', dir='/tmp')
    os.rmdir(wt)
    res = {'seed': sd, 'checks': {}}
    try:
        rc, out = sh('git -C /repo worktree add -q %s HEAD' % wt)
        assert rc == 0, out
        env = dict(os.environ, PYTHONPATH=wt, PYTHONHASHSEED='0')
        rc0, out0 = sh('/venv/bin/python %s/demo.py' % sd, env=env, cwd=wt, timeout=600)
        res['demo_without_change'] = rc0
        rc, out = sh('git -C %s apply %s/patch.diff' % (wt, sd))
        res['patch_applies'] = (rc == 0)
        if rc != 0:
            res['apply_output'] = out[-500:]
            return res
        rc, out = sh('cd %s && /venv/bin/python -m pytest -q -p no:cacheprovider test 2>&1 | tail -2' % wt, env=env, timeout=1800)
        res['tests'] = out.strip().split('\n')[-1]
        rc1, out1 = sh('/venv/bin/python %s/demo.py' % sd, env=env, cwd=wt, timeout=600)
        res['demo_with_change'] = rc1
        res['demo_output'] = out1[-600:]
        for pid in pids:
            rc, out = sh('cd /verif && VERIF_REPO=%s ./check %s 2>/dev/null' % (wt, pid), timeout=3600)
            lines = [l for l in out.split('\n') if l.startswith('VIOLATION') or l.startswith('KNOWN-FINDING')]
            detail = []
            for l in lines:
                if 'replay=' in l:
                    f = l.split('replay=')[1].split()[0]
                    try:
                        d = json.load(open(f))
                        detail.append({'signature': d.get('signature'), 'kind': d.get('kind'),
                                       'input': json.dumps(d.get('input'))[:300] if d.get('input') is not None else None,
                                       'broken': [b.get('what') for b in d.get('broken', [])] or None})
                    except Exception as e:
                        detail.append({'error': str(e)})
            res['checks'][pid] = {'exit': rc, 'violation_lines': [l for l in lines if l.startswith('VIOLATION')][:6], 'detail': detail[:6]}
    finally:
        sh('git -C /repo worktree remove --force %s' % wt)
        shutil.rmtree(wt, ignore_errors=True)
    return res


if __name__ == '__main__':
    r = main()
    print(json.dumps(r, indent=1))
