"""Writes /verif/MANIFEST.json from the per-property registry below."""
import json, os
V = os.path.dirname(os.path.dirname(os.path.abspath(__file__)))
BASE_NOTE = ('Trusted: Coq 8.16.1 kernel (vm_compute used, native_compute not), the hand-written Gallina model as '
             'validated by the differential correspondence of every run, harness/gen_tables.py, ExtrOcamlBasic '
             'extraction + coq/Extract/driver.ml (cross-checked against vm_compute each run), the Python harness. ')
CHECKS = {
 'C20': dict(
   text=('Theorems (Coq, closed under the global context) that the model of LineNumbersCalculator / '
         'pos_to_lineno_colno equals the declarative line/column (number of newlines before the position; distance '
         'to the nearest preceding newline) for every string, position and offset setting, with the inverse reading '
         'of the property as a corollary; the model is tied to /repo by exhaustive correspondence over all strings to '
         'length 6 (8 thorough) over {a,\\n,\\r,space} x all positions x offset settings and by strict-mode error '
         'reports on random faulty documents. Unbounded proof is the right level because the property is a pure '
         'arithmetic law over all strings.'),
   note=BASE_NOTE + 'bisect.bisect_right is modelled by its specification on sorted lists.',
   technique='Coq proof (induction over the string) + differential correspondence model vs implementation',
   design='6/C20'),
}
NOT_YET = {}
ALL = ['C%02d' % i for i in range(1, 21)]

def main():
    checks = []
    for pid in ALL:
        if pid not in CHECKS:
            continue
        c = CHECKS[pid]
        checks.append({
            'property_id': pid,
            'quick_cmd': './check %s --tier quick' % pid,
            'thorough_cmd': './check %s --tier thorough' % pid,
            'evidence_file': '/verif/evidence/%s.json' % pid,
            'replay_cmd_template': './check %s --replay {path}' % pid,
            'engine': 'coq-model',
            'level_claimed': {'category': 'proof', 'text': c['text'], 'design_ref': 'DESIGN.md section ' + c['design']},
            'level_note': c['note'],
            'technique': c['technique'],
        })
    na = [{'property_id': p, 'reason': NOT_YET.get(p, 'check not built yet in this phase (model and theorems in progress; see DESIGN.md section 10) - machine-checked proof does apply')}
          for p in ALL if p not in CHECKS]
    m = {
        'version': 1,
        'setup_cmd': './setup.sh',
        'hooks': {'guard': 'PYLATEXENC_VERIF', 'enable': 'no hooks are needed: every observable is reachable through the public API (guard unused)',
                  'baseline_off_cmd': 'cd /repo && /venv/bin/python -m pytest -ra -q -p no:cacheprovider --timeout=900 --continue-on-collection-errors',
                  'source_commits': FIX_COMMITS, 'add_only': True},
        'engines': [{'name': 'coq-model', 'path': '/verif/coq', 'serves_properties': [c['property_id'] for c in checks],
                     'kind_free_text': 'Coq 8.16 development: executable Gallina model + theorems; extracted to OCaml (build/modelrun) for the differential correspondence driven by harness/check.py'}],
        'checks': checks,
        'not_applicable': na,
        'notes': 'See DESIGN.md. Each check: regenerate tables from /repo, full .vo build, Print Assumptions accounting, model-vs-implementation correspondence, property oracle on the real code, evidence.',
    }
    json.dump(m, open(os.path.join(V, 'MANIFEST.json'), 'w'), indent=1)

FIX_COMMITS = []
if __name__ == '__main__':
    main()
