"""Writes /verif/MANIFEST.json from the per-property registry below."""
import json, os
V = os.path.dirname(os.path.dirname(os.path.abspath(__file__)))
BASE_NOTE = ('Trusted: Coq 8.16.1 kernel (vm_compute used, native_compute not), the hand-written Gallina model as '
             'validated by the differential correspondence of every run, harness/gen_tables.py, ExtrOcamlBasic '
             'extraction + coq/Extract/driver.ml (cross-checked against vm_compute each run), the Python harness. ')
def load_checks():
    d = os.path.join(V, 'harness', 'manifest.d')
    out = {}
    for f in sorted(os.listdir(d)):
        if f.endswith('.json'):
            c = json.load(open(os.path.join(d, f)))
            c['note'] = BASE_NOTE + c.get('note', '')
            out[f[:-5]] = c
    return out
CHECKS = load_checks()
NOT_YET = {}
ALL = ['C%02d' % i for i in range(1, 21)]

def main():
    checks = []
    for pid in ALL:
        if pid not in CHECKS:
            continue
        c = CHECKS[pid]
        checks.append({
            'property_id': pid,
            'quick_cmd': './check %s --tier quick' % pid,
            'thorough_cmd': './check %s --tier thorough' % pid,
            'evidence_file': '/verif/evidence/%s.json' % pid,
            'replay_cmd_template': './check %s --replay {path}' % pid,
            'engine': 'coq-model',
            'level_claimed': {'category': 'proof', 'text': c['text'], 'design_ref': 'DESIGN.md section ' + c['design']},
            'level_note': c['note'],
            'technique': c['technique'],
        })
    na = [{'property_id': p, 'reason': NOT_YET.get(p, 'check not built yet in this phase (model and theorems in progress; see DESIGN.md section 10) - machine-checked proof does apply')}
          for p in ALL if p not in CHECKS]
    m = {
        'version': 1,
        'setup_cmd': './setup.sh',
        'hooks': {'guard': 'PYLATEXENC_VERIF', 'enable': 'no hooks are needed: every observable is reachable through the public API (guard unused)',
                  'baseline_off_cmd': 'cd /repo && /venv/bin/python -m pytest -ra -q -p no:cacheprovider --timeout=900 --continue-on-collection-errors',
                  'source_commits': FIX_COMMITS, 'add_only': True},
        'engines': [{'name': 'coq-model', 'path': '/verif/coq', 'serves_properties': [c['property_id'] for c in checks],
                     'kind_free_text': 'Coq 8.16 development: executable Gallina model + theorems; extracted to OCaml (build/modelrun) for the differential correspondence driven by harness/check.py'}],
        'checks': checks,
        'not_applicable': na,
        'notes': 'See DESIGN.md. Each check: regenerate tables from /repo, full .vo build, Print Assumptions accounting, model-vs-implementation correspondence, property oracle on the real code, evidence.',
    }
    json.dump(m, open(os.path.join(V, 'MANIFEST.json'), 'w'), indent=1)

FIX_COMMITS = []
if __name__ == '__main__':
    main()
