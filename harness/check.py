"""./check Cxx [--tier quick|thorough] [--replay file]

1. regenerate coq/Gen/*.v from /repo, build the Coq development (full .vo) and
   the extracted model binary;
2. grep gate + compile Properties/Cxx.v, account every Print Assumptions;
3. correspondence: run the extracted model and the real implementation on the
   property's case stream, diff the canonical dumps; vm_compute cross-check;
4. evaluate the property itself on the real code over the same cases (the
   search for a concrete failing input);
5. report (VIOLATION / KNOWN-FINDING lines, replay files, evidence)."""
import os, sys, json, time, importlib, argparse, collections

sys.path.insert(0, os.path.dirname(os.path.abspath(__file__)))
import common
from common import log


def main():
    ap = argparse.ArgumentParser()
    ap.add_argument('pid')
    ap.add_argument('--tier', default=os.environ.get('VERIF_TIER') or 'quick')
    ap.add_argument('--replay')
    ap.add_argument('--no-build', action='store_true')
    a = ap.parse_args()
    pid = a.pid.upper()
    tier = a.tier if a.tier in ('quick', 'thorough') else 'quick'
    seed = common.get_seed()
    common.STREAM_BUDGET = 400.0 if tier == 'quick' else 1500.0
    sys.path.insert(0, common.REPO)
    import logging
    logging.disable(logging.CRITICAL)
    mod = importlib.import_module('props.' + pid.lower())

    if a.replay:
        return replay(mod, pid, a.replay)

    rep = common.Report(pid, tier, seed)
    # ---- 1. build
    if not a.no_build:
        ok, out = common.build()
        if not ok:
            rep.broken('build', {'output': out[-3000:]})
    bad = common.grep_gate()
    if bad:
        rep.broken('grep-gate', {'forbidden': bad[:20]})
    # ---- 2. proof obligations
    nob, ndis, details, raw = common.compile_property(pid)
    rep.cov['obligations'] = nob
    rep.cov['discharged'] = ndis
    rep.cov['obligation_details'] = details
    rep.cov['checker_cmd'] = 'cd coq && make (full .vo build) && coqc -Q . PLV Properties/%s.v' % pid
    if ndis != nob or nob == 0:
        rep.broken('proof', {'details': [d for d in details if d.get('status') != 'closed'], 'coqc': raw[-3000:]})
    if tier == 'thorough' and hasattr(mod, 'COQCHK') and not os.environ.get('VERIF_NO_COQCHK'):
        rc, out = common.sh('timeout 1500 coqchk -silent -o -Q . PLV PLV.Properties.%s 2>&1 | tail -40' % pid,
                            cwd=common.COQ, timeout=1600)
        rep.cov['coqchk'] = out[-2000:]
        if 'Fatal' in out or 'Error' in out:
            rep.broken('coqchk', {'output': out[-2000:]})

    # ---- 3/4. correspondence + property on the real code
    t0 = time.time()
    try:
        cases = mod.gen_cases(seed, tier)
    except Exception as e:
        import traceback
        rep.broken('case-generation', {'exception': type(e).__name__, 'traceback': traceback.format_exc()[-2500:]})
        cases = []
    if common.TRANSLATOR_ERRORS:
        rep.broken('translator', {'refusals': list(common.TRANSLATOR_ERRORS)})
    log('[%s] %d cases generated in %.1fs' % (pid, len(cases), time.time() - t0))
    t0 = time.time()
    secs = getattr(mod, 'CASE_TIMEOUT', 5.0)
    impl_out = common.pmap(mod.impl, cases, secs=secs)
    impl_suspect = set(common.SUSPECT)
    log('[%s] implementation ran in %.1fs' % (pid, time.time() - t0))
    t0 = time.time()
    model_out = common.run_model([c['wire'] for c in cases])
    log('[%s] model ran in %.1fs' % (pid, time.time() - t0))
    disagreements = []
    cmp = getattr(mod, 'same', lambda m, i, c: m == i)
    rechecked = 0
    for k, (c, m, i) in enumerate(zip(cases, model_out, impl_out)):
        if isinstance(i, tuple):
            i = '!' + ':'.join(map(str, i[:2]))
        if not cmp(m, i, c) and k in impl_suspect and rechecked < common.RECHECK_LIMIT:
            # computed in a worker one of whose earlier cases was interrupted: evaluate it again, alone
            rechecked += 1
            i = common.fresh_eval(mod.impl, c, secs * 4)
            impl_out[k] = i
            if isinstance(i, tuple):
                i = '!' + ':'.join(map(str, i[:2]))
        if not cmp(m, i, c):
            disagreements.append({'case': c.get('desc'), 'model': m[:600], 'implementation': i[:600]})
    if disagreements:
        disagreements.sort(key=lambda d: len(json.dumps(d['case'], default=str)))
        rep.broken('correspondence', {'projection': getattr(mod, 'PROJECTION', '?'),
                                      'count': len(disagreements), 'smallest': disagreements[:5]})
    ok, nvm, out = common.vm_crosscheck(pid, [c['wire'] for c in cases], model_out,
                                        limit=100 if tier == 'quick' else 300)
    rep.cov['vm_compute_crosschecked'] = nvm
    if not ok:
        rep.broken('vm_compute-crosscheck', {'output': out[-1500:]})

    t0 = time.time()
    ocases = list(cases)
    if hasattr(mod, 'extra_search') and (rep.unproved or tier == 'thorough' or getattr(mod, 'ALWAYS_SEARCH', False)):
        ocases += mod.extra_search(seed, tier, bool(rep.unproved))
    orc = common.pmap(mod.oracle, ocases, secs=secs)
    orc_suspect = set(common.SUSPECT)
    n_re = 0
    for k in sorted(orc_suspect):
        if orc[k] is not None and n_re < common.RECHECK_LIMIT:
            n_re += 1
            orc[k] = common.fresh_eval(mod.oracle, ocases[k], secs * 4)
    log('[%s] property oracle on the real code ran in %.1fs over %d cases' % (pid, time.time() - t0, len(ocases)))
    fails = []
    for c, r in zip(ocases, orc):
        if r is None:
            continue
        if isinstance(r, tuple) and r and r[0] in ('TIMEOUT', 'RECURSION', 'HARNESS-EXC'):
            r = ('harness:' + r[0], {'harness': list(r)})
        sig, detail = r
        fails.append((len(json.dumps(c.get('desc'), default=str)), sig, dict(detail, input=c.get('desc'))))
    fails.sort(key=lambda x: x[0])
    for _, sig, detail in fails:
        rep.violation(sig, detail)

    # ---- coverage accounting
    nt = [c for c in cases if c.get('nt')]
    distinct = len({json.dumps(c['wire']) for c in nt})
    rep.cov['evaluations'] = len(cases) + (len(ocases) - len(cases))
    rep.cov['traces_validated_against_impl'] = len(cases) - len(disagreements)
    rep.cov['distinct_nontrivial'] = distinct
    rep.cov['rule'] = getattr(mod, 'RULE', '')
    rep.cov['exhaustive'] = bool(getattr(mod, 'EXHAUSTIVE', {}).get(tier))
    rep.cov['samples'] = [c.get('desc') for c in cases[:: max(1, len(cases) // 6)]][:8]
    if hasattr(mod, 'distribution'):
        rep.cov['distribution'] = mod.distribution(cases, impl_out)
    rep.cov['partial'] = getattr(mod, 'PARTIAL', [])
    rep.cov['refuted'] = getattr(mod, 'REFUTED', [])
    rep.assumptions = getattr(mod, 'ASSUMPTIONS', [])
    return rep.finish('proof')


def replay(mod, pid, path):
    d = json.load(open(path))
    print(json.dumps(d, indent=1)[:3000])
    if d.get('kind') != 'failing-input' or not hasattr(mod, 'case_from_desc'):
        return 0
    c = mod.case_from_desc(d['input'])
    print('implementation:', common._pool_call((mod.impl, c, 10.0)))
    print('model         :', common.run_model([c['wire']]))
    print('oracle        :', common._pool_call((mod.oracle, c, 10.0)))
    return 0


if __name__ == '__main__':
    sys.exit(main())
