"""Generates coq/Gen/GenL2TCtx.v: the default latex2text database (text specs
with their replacement strings or whitelisted callables), the NFC / upper-case
/ math-style tables the replacement callables need.  Fail-closed: an unknown
callable, a changed callable (code hash), or a replacement template outside the
modelled %-grammar raises."""
import os, re, json, hashlib, unicodedata, types

HERE = os.path.dirname(os.path.abspath(__file__))
HASHES = os.path.join(HERE, 'l2t_callable_hashes.json')


class Unsupported(Exception):
    pass


def code_hash(f):
    def h(code):
        parts = [code.co_code, repr(code.co_names).encode(), repr(code.co_varnames).encode()]
        for c in code.co_consts:
            parts.append(h(c).encode() if isinstance(c, types.CodeType) else repr(c).encode())
        return hashlib.sha256(b'|'.join(parts)).hexdigest()[:16]
    d = getattr(f, '__defaults__', None)
    return h(f.__code__)


def c_str(s):
    return '[' + ';'.join(str(ord(c)) for c in s) + ']%N'


def valid_template(t):
    """the %-grammar of L2T.parse_fmt"""
    i = 0
    while i < len(t):
        if t[i] != '%':
            i += 1
            continue
        if t.startswith('%%', i) or t.startswith('%s', i):
            i += 2
            continue
        m = re.match(r'%\(([^)]*)\)s', t[i:])
        if m:
            i += m.end()
            continue
        return False
    return True


STYLES = ['bold', 'italic', 'bold-italic', 'script', 'bold-script', 'fraktur', 'doublestruck', 'bold-fraktur', 'sans',
          'sans-bold', 'sans-italic', 'sans-bold-italic', 'monospace']
SECTION_PREFIX = {'part': ('PART: ', True), 'chapter': ('CHAPTER: ', True), 'section': ('§ ', True),
                  'subsection': (' §.§ ', False), 'subsubsection': ('  §.§.§ ', False),
                  'paragraph': ('  ', False), 'subparagraph': ('    ', False)}


def classify(kind, name, f, hashes, record):
    """-> Coq callable term"""
    import pylatexenc.latex2text as L
    import pylatexenc.latex2text._defaultspecs as D
    key = None
    term = None
    nm = getattr(f, '__name__', '')
    if f is L.fmt_equation_environment:
        key, term = 'fmt_equation_environment', 'CEqEnv'
    elif f is L.fmt_matrix_environment_node:
        key, term = 'fmt_matrix_environment_node', 'CMatrix'
    elif f is L.fmt_input_macro:
        key, term = 'fmt_input_macro', 'CInput'
    elif f is D._format_uebung:
        key, term = '_format_uebung', 'CUebung'
    elif nm == 'formatter' and f.__defaults__ and f.__defaults__[0] in STYLES:
        key, term = '_mathxx_formatter', 'CMathStyle %d' % STYLES.index(f.__defaults__[0])
    elif nm == '<lambda>' and 'make_accented_char' in f.__code__.co_names and f.__defaults__:
        key, term = 'accent_lambda', 'CAccent %d' % ord(f.__defaults__[0])
    elif nm == '<lambda>' and '_do_fmt_placeholder_node' in f.__code__.co_names and f.__defaults__:
        block = f.__closure__[0].cell_contents if f.__closure__ else True
        txt = '< ' + ' '.join(f.__defaults__[0]) + ' >'
        key, term = 'placeholder_lambda', 'CPlaceholder %s %s' % (c_str(txt), 'true' if block else 'false')
    elif nm == '<lambda>' and kind == 'macro':
        if name in SECTION_PREFIX:
            pf, up = SECTION_PREFIX[name]
            key, term = 'lambda:' + name, 'CSection %s %s' % (c_str(pf), 'true' if up else 'false')
        elif name == 'title':
            key, term = 'lambda:title', 'CSetTitle'
        elif name == 'author':
            key, term = 'lambda:author', 'CSetAuthor'
        elif name == 'date':
            key, term = 'lambda:date', 'CSetDate'
        elif name == 'maketitle':
            key, term = 'lambda:maketitle', 'CMakeTitle %s' % c_str('@TODAY@')
        elif name == 'item':
            key, term = 'lambda:item', 'CItem'
        elif name == 'href':
            key, term = 'lambda:href', 'CHref'
        elif name == 'texorpdfstring':
            key, term = 'lambda:texorpdfstring', 'CTexorpdf'
        elif name == '%':
            key, term = 'lambda:%', 'CConst %s' % c_str('%')
    if key is None:
        raise Unsupported('replacement callable of %s %r: %r' % (kind, name, f))
    hv = code_hash(f)
    if record is not None:
        record[key] = hv
    elif hashes.get(key) != hv:
        raise Unsupported('replacement callable %s changed (code hash %s, validated %s): the model of this callable '
                          'must be re-validated' % (key, hv, hashes.get(key)))
    return term


def spec_term(kind, name, sp, hashes, record, today):
    r = getattr(sp, 'simplify_repl', None)
    disc = getattr(sp, 'discard', None)
    if kind == 'specials':
        disc = True if disc is None else disc
    if r is None:
        rt = 'RNone'
    elif isinstance(r, str):
        if kind == 'macro' and name == 'today':
            r = '@TODAY@'
        if '%' in r and len(r) != 1 and not valid_template(r):
            raise Unsupported('replacement template %r of %s %r' % (r, kind, name))
        rt = '(RStr %s)' % c_str(r)
    elif callable(r):
        rt = '(RCall (%s))' % classify(kind, name, r, hashes, record)
    else:
        raise Unsupported('simplify_repl %r' % (r,))
    return '{| t_repl := %s; t_discard := %s |}' % (rt, 'true' if disc else 'false')


def universe(db):
    chars = set(chr(c) for c in range(32, 127))
    for m in db.iter_macro_specs():
        if isinstance(m.simplify_repl, str):
            chars.update(m.simplify_repl)
    for m in db.iter_specials_specs():
        if isinstance(m.simplify_repl, str):
            chars.update(m.simplify_repl)
    chars.update('ıȷ')
    return sorted(chars)


def generate(coq_dir, record_hashes=False):
    import pylatexenc.latex2text as L
    import pylatexenc.latex2text._defaultspecs as D
    db = L.get_default_latex_context_db()
    hashes = json.load(open(HASHES)) if os.path.exists(HASHES) else {}
    record = {} if record_hashes else None
    out = {'macro': [], 'environment': [], 'specials': []}
    seen = {'macro': set(), 'environment': set(), 'specials': set()}
    for cat in db.category_list:
        d = db.d[cat]
        for k, kind in (('macros', 'macro'), ('environments', 'environment'), ('specials', 'specials')):
            for name, sp in d[k].items():
                if name in seen[kind]:
                    continue
                seen[kind].add(name)
                out[kind].append((name, spec_term(kind, name, sp, hashes, record, None)))
    for kind, getter in (('macro', db.get_macro_spec), ('environment', db.get_environment_spec),
                         ('specials', db.get_specials_spec)):
        for cat in db.category_list:
            key = {'macro': 'macros', 'environment': 'environments', 'specials': 'specials'}[kind]
            for name, sp in db.d[cat][key].items():
                first = [db.d[c][key][name] for c in db.category_list if name in db.d[c][key]][0]
                if getter(name) is not first:
                    raise Unsupported('lookup order of %s %r differs from category order' % (kind, name))
    if db.unknown_macro_spec is not None or db.unknown_environment_spec is not None or db.unknown_specials_spec is not None:
        raise Unsupported('unknown-spec set on the latex2text database')
    if record_hashes:
        json.dump(record, open(HASHES, 'w'), indent=1, sort_keys=True)
    combs = sorted({c for _, c in D.unicode_accents_list})
    uni = universe(db)
    nfc = []
    lvl1 = set()
    for b in uni:
        for c in combs:
            lvl1.update(unicodedata.normalize('NFC', b + c))
    # bases: the universe, the combining marks themselves (an accent macro applied to an accent macro:
    # NFC reorders marks by combining class) and the characters composed at the first level
    for b in sorted(set(uni) | set(combs) | lvl1):
        for c in combs:
            r = unicodedata.normalize('NFC', b + c)
            if r != b + c:
                nfc.append('(%d, %d, %s)' % (ord(b), ord(c), c_str(r)))
    upper = []
    composed = set()
    for b in uni:
        for c in combs:
            composed.update(unicodedata.normalize('NFC', b + c))
    for b in sorted(set(uni) | composed):
        u = b.upper()
        if u != b and not ('a' <= b <= 'z'):
            upper.append('(%d, %s)' % (ord(b), c_str(u)))
    styles = []
    for i, st in enumerate(STYLES):
        up, lo = L._fmt_math_style_offsets[st]
        exc = L._fmt_math_style_exceptions.get(st, {})
        styles.append('(%d%%nat, (%d, %d), [%s])' % (i, up, lo, '; '.join('(%d, %d)' % (k, ord(v)) for k, v in sorted(exc.items()))))
    if set(L._fmt_math_style_offsets) != set(STYLES):
        raise Unsupported('math styles changed')

    def lst(l):
        return '[\n   ' + ';\n   '.join('(%s, %s)' % (c_str(n), t) for n, t in l) + ']'

    def chunks(name, typ, items, n=150):
        defs = []
        for i in range(0, max(len(items), 1), n):
            defs.append('Definition %s_%d : %s := [\n   %s].' % (name, i // n, typ, ';\n   '.join(items[i:i + n])))
        defs.append('Definition %s : %s := %s.' % (name, typ, ' ++ '.join('%s_%d' % (name, i) for i in range(len(defs)))))
        return '\n'.join(defs)
    txt = ('(** GENERATED by harness/gen_l2tctx.py from pylatexenc.latex2text.get_default_latex_context_db(). *)\n'
           'From Coq Require Import NArith List.\nFrom PLV Require Import Base.PyStr L2T.L2T.\n'
           'Import ListNotations.\n\n'
           + chunks('l2t_macros', 'list (str * tspec)', ['(%s, %s)' % (c_str(n), t) for n, t in out['macro']]) + '\n\n'
           + chunks('l2t_envs', 'list (str * tspec)', ['(%s, %s)' % (c_str(n), t) for n, t in out['environment']]) + '\n\n'
           + chunks('l2t_specials', 'list (str * tspec)', ['(%s, %s)' % (c_str(n), t) for n, t in out['specials']]) + '\n\n'
           + chunks('l2t_nfc', 'list (N * N * str)', ['%s%%N' % x if False else x for x in nfc]) + '\n\n'
           + chunks('l2t_upper', 'list (N * str)', upper) + '\n\n'
           + 'Definition l2t_styles : list (nat * (N * N) * list (N * N)) := [\n   ' + ';\n   '.join(styles) + '].\n\n'
           'Definition default_l2tctx : l2tctx :=\n'
           '  {| lt_macros := l2t_macros; lt_envs := l2t_envs; lt_specials := l2t_specials;\n'
           '     lt_nfc := l2t_nfc; lt_upper := l2t_upper; lt_styles := l2t_styles |}.\n')
    txt = txt.replace('Import ListNotations.\n\n', 'Import ListNotations.\nOpen Scope N_scope.\n\n', 1)
    p = os.path.join(coq_dir, 'Gen', 'GenL2TCtx.v')
    if not os.path.exists(p) or open(p, encoding='utf-8').read() != txt:
        open(p, 'w', encoding='utf-8').write(txt)
        return ['GenL2TCtx.v']
    return []


if __name__ == '__main__':
    import sys
    generate(os.path.join(os.path.dirname(HERE), 'coq'), record_hashes='--record' in sys.argv)
