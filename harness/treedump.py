"""Canonical dump / wire encoding of real pylatexenc node trees, mirroring
coq/Parse/Nodes.v (show_node / rd_onode)."""
from common import show_str, show_opt, show_bool, w_str, w_opt, w_list, w_bool


def _mode(n):
    ps = getattr(n, 'parsing_state', None)
    if ps is None:
        return (False, None)
    return (bool(getattr(ps, 'in_math_mode', False)), getattr(ps, 'math_mode_delimiter', None))


def _show_mode(m):
    return ('M' if m[0] else 't') + show_opt(m[1], show_str)


def _argspec_chars(pa):
    out = []
    for arg in (pa.arguments_spec_list or []):
        if isinstance(arg, str):
            out.append(arg)
            continue
        parser = getattr(arg, 'parser', None)
        if parser is not None:
            if isinstance(parser, str):
                out.append(parser)
            else:
                a = getattr(parser, 'arg_spec', '?')
                out.append(a if isinstance(a, str) else '?')
        else:
            out.append('?')
    return out


def kind(n):
    from pylatexenc.latexnodes import nodes as N
    if n is None:
        return None
    if isinstance(n, (N.LatexNodeList, list, tuple)):
        return 'L'
    for cls, k in ((N.LatexCharsNode, 'C'), (N.LatexCommentNode, '#'), (N.LatexGroupNode, 'G'),
                   (N.LatexMacroNode, 'M'), (N.LatexEnvironmentNode, 'E'), (N.LatexSpecialsNode, 'S'),
                   (N.LatexMathNode, '$')):
        if isinstance(n, cls):
            return k
    return '?'


def _items(l):
    return ','.join(dump(x) for x in l)


def _args(pa):
    if pa is None:
        return '!'
    return '<[' + ','.join(show_str(s) for s in _argspec_chars(pa)) + ']|' + _items(pa.argnlist or []) + '>'


def _delims(n):
    d = getattr(n, 'delimiters', None)
    if d is None:
        return ('', '')
    a, b = d
    return (a or '', b or '')


def dump(n):
    k = kind(n)
    if k is None:
        return '_'
    if k == 'L':
        if isinstance(n, (list, tuple)):
            return 'L(-,-,[' + _items(n) + '])'
        return 'L(%s,%s,[%s])' % (show_opt(n.pos), show_opt(n.pos_end), _items(n.nodelist))
    # a node without a span is dumped with '-' (never produced by the model: it shows as a disagreement / violation)
    hd = '%s(%s,%s,%s' % (k, '-' if n.pos is None else '%d' % n.pos, '-' if n.pos_end is None else '%d' % n.pos_end,
                          _show_mode(_mode(n)))
    if k == 'C':
        return hd + ',' + show_str(n.chars) + ')'
    if k == '#':
        return hd + ',' + show_str(n.comment) + ',' + show_str(n.comment_post_space or '') + ')'
    if k == 'G':
        dl, dr = _delims(n)
        return hd + ',' + show_str(dl) + ',' + show_str(dr) + ',' + dump(n.nodelist) + ')'
    if k == 'M':
        return hd + ',' + show_str(n.macroname) + ',' + show_str(n.macro_post_space or '') + ',' + _args(n.nodeargd) + ')'
    if k == 'E':
        return hd + ',' + show_str(n.environmentname) + ',' + _args(n.nodeargd) + ',' + dump(n.nodelist) + ')'
    if k == 'S':
        return hd + ',' + show_str(n.specials_chars) + ',' + _args(n.nodeargd) + ')'
    if k == '$':
        dl, dr = _delims(n)
        return (hd + ',' + show_bool(n.displaytype == 'display') + ',' + show_str(dl) + ',' + show_str(dr)
                + ',' + dump(n.nodelist) + ')')
    return '?(%r)' % (n,)


def _wmode(m):
    return w_bool(m[0]) + w_opt(m[1], w_str)


def _wargs(pa):
    if pa is None:
        return [0]
    return [1] + w_list(_argspec_chars(pa), w_str) + w_list(pa.argnlist or [], wire)


def wire(n):
    k = kind(n)
    if k is None:
        return [0]
    if k == 'L':
        if isinstance(n, (list, tuple)):
            return [8, 0, 0] + w_list(list(n), wire)
        return [8] + w_opt(n.pos) + w_opt(n.pos_end) + w_list(list(n.nodelist), wire)
    tag = {'C': 1, '#': 2, 'G': 3, 'M': 4, 'E': 5, 'S': 6, '$': 7}[k]
    hd = [tag, n.pos, n.pos_end] + _wmode(_mode(n))
    if k == 'C':
        return hd + w_str(n.chars)
    if k == '#':
        return hd + w_str(n.comment) + w_str(n.comment_post_space or '')
    if k == 'G':
        dl, dr = _delims(n)
        return hd + w_str(dl) + w_str(dr) + wire(n.nodelist)
    if k == 'M':
        return hd + w_str(n.macroname) + w_str(n.macro_post_space or '') + _wargs(n.nodeargd)
    if k == 'E':
        return hd + w_str(n.environmentname) + _wargs(n.nodeargd) + wire(n.nodelist)
    if k == 'S':
        return hd + w_str(n.specials_chars) + _wargs(n.nodeargd)
    if k == '$':
        dl, dr = _delims(n)
        return hd + w_bool(n.displaytype == 'display') + w_str(dl) + w_str(dr) + wire(n.nodelist)
    raise ValueError('cannot encode node %r' % (n,))


def iter_nodes(n):
    """all nodes reachable through bodies and arguments (pre-order)"""
    k = kind(n)
    if k is None:
        return
    if k == 'L':
        for x in (n if isinstance(n, (list, tuple)) else n.nodelist):
            yield from iter_nodes(x)
        return
    yield n
    pa = getattr(n, 'nodeargd', None)
    if pa is not None and getattr(pa, 'argnlist', None):
        for x in pa.argnlist:
            yield from iter_nodes(x)
    if k in ('G', 'E', '$'):
        yield from iter_nodes(n.nodelist)
