#!/venv/bin/python
"""mk_seed_round.py <round-dir> <extra-text-file> : one scratch worktree of /repo HEAD per property under <round-dir>
(outside /repo and /verif), each holding PROPERTY.txt (the property text only) and <round-dir>/Cxx.prompt (the brief
for the engineer who seeds changes there).  Nothing from /verif is copied."""
import json, os, subprocess, sys
rd, extra = sys.argv[1], open(sys.argv[2]).read().strip()
tmpl = open('/verif/seeded/PROMPT.txt').read()
os.makedirs(rd, exist_ok=True)
for l in open('/verif/properties.jsonl'):
    p = json.loads(l)
    pid = p['id']
    d = os.path.join(rd, pid)
    subprocess.run(['git', '-C', '/repo', 'worktree', 'add', '-q', '--detach', d, 'HEAD'], check=True)
    a = p['anchors']
    txt = 'Property %s: %s\n\nStatement: %s\n\nQuantifier: %s\n\nWhy the existing tests cannot settle it: %s\n\nAnchored files: %s\n\n' % (
        pid, p['title'], p['statement'], p['quantifier']['text'], p['why_tests_cant'], ', '.join(a['files']))
    txt += 'Mechanisms meant to make it hold:\n' + ''.join('  - %s\n' % json.dumps(m) for m in a.get('mechanism', []))
    txt += '\nObserved at: ' + '; '.join(a.get('observe_at', [])) + '\n'
    open(os.path.join(d, 'PROPERTY.txt'), 'w').write(txt)
    open(os.path.join(rd, pid + '.prompt'), 'w').write(
        tmpl.replace('__DIR__', d).replace('__ID__', pid).replace('__EXTRA__', extra))
print('ok')
