"""Real-code side of the parser correspondence: parse with LatexWalker and
dump the outcome in the format of coq/Parse/ParseWire.v (show_res)."""
import treedump
from common import w_str, w_bool

EXN = {'ReachedStoppingCondition': 1, 'KeyError': 2, 'TypeError': 3, 'AttributeError': 4}


def outcome(fn):
    """fn() -> (nodes, reader_pos)"""
    from pylatexenc.latexwalker import LatexWalkerParseError
    from pylatexenc.latexnodes import LatexWalkerEndOfStream
    try:
        nodes, pos = fn()
    except LatexWalkerParseError as e:
        return 'err ' + ('-' if e.pos is None else str(e.pos))
    except LatexWalkerEndOfStream:
        return 'eos'
    except RecursionError:
        raise
    except Exception as e:
        n = type(e).__name__
        return 'exn ' + (str(EXN[n]) if n in EXN else '?' + n)
    return 'ok ' + treedump.dump(nodes) + '@%d' % pos


def parse_top(s, tol, db=None, wkw=None, state=None):
    from pylatexenc.latexwalker import LatexWalker
    from pylatexenc.latexnodes.parsers import LatexGeneralNodesParser
    kw = {} if db is None else {'latex_context': db}
    kw.update(wkw or {})
    w = LatexWalker(s, tolerant_parsing=tol, **kw)
    tr = w.make_token_reader()
    pkw = {}
    if state:
        pkw['parsing_state'] = w.make_parsing_state().sub_context(**state)

    def go():
        nodes, _ = w.parse_content(LatexGeneralNodesParser(), token_reader=tr, **pkw)
        return nodes, tr.cur_pos()
    return outcome(go)


def w_parse_default(s, tol):
    return [100] + w_str(s) + w_bool(tol)


def w_parse_custom(cxwire, s, tol):
    return [101] + cxwire + w_str(s) + w_bool(tol)
