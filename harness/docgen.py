"""Case generators shared by the parser / latex2text properties: custom
contexts, token soups, bounded-exhaustive strings, structured documents and
single-fault injection.  Every random choice derives from the rnd passed in."""
import itertools, random

# ---------------------------------------------------------------------------
# contexts

_ctx_cache = {}


def _dm_after(parsed_node, *args, **kwargs):
    from pylatexenc.macrospec import MacroSpec, ParsingStateDeltaExtendLatexContextDb
    try:
        name = parsed_node.nodeargd.argnlist[0].nodelist[0].chars
    except Exception:
        return None
    return ParsingStateDeltaExtendLatexContextDb(extend_latex_context=dict(macros=[MacroSpec(name, '{')]))


def make_db(name):
    """name -> LatexContextDb (None for the default walker context)"""
    if name == 'default':
        return None
    if name in _ctx_cache:
        return _ctx_cache[name]
    from pylatexenc.macrospec import LatexContextDb, MacroSpec, EnvironmentSpec, SpecialsSpec
    from pylatexenc.latexnodes import (LatexArgumentSpec, ParsingStateDeltaEnterMathMode,
                                       ParsingStateDeltaLeaveMathMode)
    from pylatexenc.latexnodes.parsers import LatexStandardArgumentParser
    db = LatexContextDb()
    if name in ('custom', 'custom-nofallback'):
        db.add_context_category('a', macros=[
            MacroSpec('ma', '*[{'),
            MacroSpec('mb', 'mo'),
            MacroSpec('mc', ['s', 't+', '{']),
            MacroSpec('md', ['r()', 'd<>']),
            MacroSpec('mv', 'v'),
            MacroSpec('mw', ['v{}', '[']),
            MacroSpec('mz', ''),
            MacroSpec('\\', [LatexArgumentSpec('*'),
                             LatexArgumentSpec(LatexStandardArgumentParser('[', allow_pre_space=False))]),
            MacroSpec('mt', [LatexArgumentSpec('{', parsing_state_delta=ParsingStateDeltaLeaveMathMode())]),
            MacroSpec('mm', [LatexArgumentSpec('[', parsing_state_delta=ParsingStateDeltaEnterMathMode()),
                             LatexArgumentSpec('{', parsing_state_delta=ParsingStateDeltaEnterMathMode())]),
            MacroSpec('m2', '{{'),
            # a mode-changing argument FOLLOWED by a plain one (the plain one inherits the macro's own mode)
            MacroSpec('mx', [LatexArgumentSpec('{', parsing_state_delta=ParsingStateDeltaLeaveMathMode()),
                             LatexArgumentSpec('{')]),
            MacroSpec('my', [LatexArgumentSpec('{', parsing_state_delta=ParsingStateDeltaEnterMathMode()),
                             LatexArgumentSpec('[')]),
            MacroSpec('mp', [LatexArgumentSpec('{'),       # second mandatory argument must follow WITHOUT whitespace
                             LatexArgumentSpec(LatexStandardArgumentParser('{', allow_pre_space=False))]),
            MacroSpec('mk', ['t~', '{']),     # a token marker that is also a specials sequence of this context
            MacroSpec(',', ['r()']),          # required delimited argument after a NON-alphabetic macro name:
                                              # whitespace in front of the argument is not swallowed by the macro token
        ], environments=[
            EnvironmentSpec('ea', '[{'),
            EnvironmentSpec('eb', ''),
            EnvironmentSpec('em', '', is_math_mode=True),
            EnvironmentSpec('e*', '*'),
        ], specials=[
            SpecialsSpec('~'), SpecialsSpec('!!', '[{'), SpecialsSpec('@', '*'), SpecialsSpec('--'),
            SpecialsSpec('---'), SpecialsSpec('\n\n'),
        ])
        # the later category re-declares a macro and two specials sequences with OTHER signatures: the first one wins
        db.add_context_category('b', macros=[MacroSpec('ma', '{'), MacroSpec('mq', '[')],
                                specials=[SpecialsSpec('&'), SpecialsSpec('!!', '{'), SpecialsSpec('~', '[')])
        if name == 'custom':
            db.set_unknown_macro_spec(MacroSpec(''))
            db.set_unknown_environment_spec(EnvironmentSpec(''))
    elif name == 'commasep':
        # real code only (the comma-separated list parser is outside the model): a macro taking such an argument
        from pylatexenc.latexnodes.parsers import LatexCharsCommaSeparatedListParser
        db.add_context_category('c', macros=[
            MacroSpec('cs', [LatexArgumentSpec(LatexCharsCommaSeparatedListParser())]),
            MacroSpec('ck', [LatexArgumentSpec(LatexCharsCommaSeparatedListParser(keep_empty_parts=True)), LatexArgumentSpec('{')]),
        ])
        db.set_unknown_macro_spec(MacroSpec(''))
        db.set_unknown_environment_spec(EnvironmentSpec(''))
    elif name == 'legacyverb':
        # real code only: pylatexenc-2 verbatim parsers with regular arguments in front of the verbatim one
        from pylatexenc.macrospec import VerbatimArgsParser
        db.add_context_category('v', macros=[
            MacroSpec('lstinline', args_parser=VerbatimArgsParser(verbatim_arg_type='verb-macro', verbatim_argspec='[')),
            MacroSpec('vb', args_parser=VerbatimArgsParser(verbatim_arg_type='verb-macro', verbatim_argspec='*[')),
        ], environments=[
            EnvironmentSpec('lst', args_parser=VerbatimArgsParser(verbatim_arg_type='verbatim-environment', verbatim_argspec='[{')),
        ])
        db.set_unknown_macro_spec(MacroSpec(''))
        db.set_unknown_environment_spec(EnvironmentSpec(''))
    elif name == 'chained':
        # real code only: chained parsing-state deltas (the model knows enter / leave math mode only)
        from pylatexenc.latexnodes import ParsingStateDeltaChained, ParsingStateDelta
        other = lambda: ParsingStateDelta(set_attributes={'enable_comments': False})
        db.add_context_category('h', macros=[
            MacroSpec('ct', [LatexArgumentSpec('{', parsing_state_delta=ParsingStateDeltaChained(
                [ParsingStateDeltaLeaveMathMode(), other()]))]),
            MacroSpec('cm', [LatexArgumentSpec('{', parsing_state_delta=ParsingStateDeltaChained(
                [other(), ParsingStateDeltaEnterMathMode(), other()])), LatexArgumentSpec('{')]),
            MacroSpec('cn', [LatexArgumentSpec('{', parsing_state_delta=ParsingStateDeltaChained(
                [ParsingStateDeltaEnterMathMode(), ParsingStateDeltaLeaveMathMode()]))]),
            # a tokenisation-changing (not mode-changing) delta on the FIRST argument only
            MacroSpec('link', [LatexArgumentSpec('{', parsing_state_delta=ParsingStateDelta(
                set_attributes=dict(enable_comments=False, enable_math=False, enable_specials=False))), LatexArgumentSpec('{')]),
            MacroSpec('linko', [LatexArgumentSpec('[', parsing_state_delta=ParsingStateDelta(
                set_attributes=dict(enable_comments=False, enable_math=False, enable_specials=False))), LatexArgumentSpec('{')]),
            MacroSpec('plain', ['{']),
        ], environments=[
            EnvironmentSpec('cmath', '', body_parsing_state_delta=ParsingStateDeltaChained(
                [ParsingStateDeltaEnterMathMode(), other()])),
        ], specials=[SpecialsSpec('~')])
        db.set_unknown_macro_spec(MacroSpec(''))
        db.set_unknown_environment_spec(EnvironmentSpec(''))
    elif name in ('chain2', 'chain2-ref'):
        # real code only, a TWIN pair: the same specifications, each carrying a chain of parsing-state changes,
        # written (chain2) with the library's ParsingStateDeltaChained and (chain2-ref) with the harness's own
        # delta object applying the same steps one after the other.  Every document means the same under both.
        from pylatexenc.latexnodes import ParsingStateDeltaChained, ParsingStateDelta
        from pylatexenc.macrospec import ParsingStateDeltaExtendLatexContextDb
        prim = {
            'leave': lambda: ParsingStateDeltaLeaveMathMode(),
            'enter': lambda: ParsingStateDeltaEnterMathMode(),
            'nocomments': lambda: ParsingStateDelta(set_attributes={'enable_comments': False}),
            'nospecials': lambda: ParsingStateDelta(set_attributes={'enable_specials': False}),
            'nomath': lambda: ParsingStateDelta(set_attributes={'enable_math': False}),
            'math-on': lambda: ParsingStateDelta(set_attributes={'enable_math': True}),
            'comments-on': lambda: ParsingStateDelta(set_attributes={'enable_comments': True}),
            'why': lambda: ParsingStateDeltaExtendLatexContextDb(extend_latex_context=dict(macros=[MacroSpec('why', '{')])),
            'none': lambda: None,
        }

        class _Seq(ParsingStateDelta):
            def __init__(self, steps):
                super(_Seq, self).__init__()
                self.steps = steps

            def get_updated_parsing_state(self, parsing_state, latex_walker):
                ps = parsing_state
                for st in self.steps:
                    if st is not None:
                        ps = st.get_updated_parsing_state(ps, latex_walker)
                return ps
        if name == 'chain2':
            mk = lambda names: None if names is None else ParsingStateDeltaChained([prim[n]() for n in names])
        else:
            mk = lambda names: None if names is None else _Seq([prim[n]() for n in names])
        db.add_context_category('k', macros=[
            MacroSpec(m, [LatexArgumentSpec('{', parsing_state_delta=mk(ch)) for ch in args])
            for m, args in sorted(CHAIN2_MACROS.items())
        ], environments=[
            EnvironmentSpec(e, '', body_parsing_state_delta=mk(ch)) for e, ch in sorted(CHAIN2_ENVS.items())
        ], specials=[SpecialsSpec('~')])
        db.set_unknown_macro_spec(MacroSpec(''))
        db.set_unknown_environment_spec(EnvironmentSpec(''))
    elif name == 'defs':
        # real code only: the default database plus \\dm{name}, which DEFINES \\name (one mandatory argument) for the
        # rest of the enclosing scope (a context-extending change of the parsing state after the macro)
        from pylatexenc.latexwalker import get_default_latex_context_db
        db = get_default_latex_context_db()
        db.add_context_category('verif-defs', prepend=True,
                                macros=[MacroSpec('dm', '{', make_after_parsing_state_delta=_dm_after)])
    elif name == 'embell':
        # real code only: embellishment arguments (e{^_}: any of the markers, each followed by one expression, in any
        # order and any number of times) and the one-character token argument t+
        db.add_context_category('e', macros=[MacroSpec('ten', ['{', 'e{^_}']), MacroSpec('tb', ['e{^_}', '{']),
                                             MacroSpec('op', ['t+', '[', '{']), MacroSpec('tq', ["e{^_'}"])])
        db.set_unknown_macro_spec(MacroSpec(''))
        db.set_unknown_environment_spec(EnvironmentSpec(''))
    elif name in ('legacyspell', 'legacyspell-ref'):
        # real code only: the same signatures declared through the pylatexenc-2 spelling (args_parser=
        # MacroStandardArgsParser(argspec)) and - the reference the documents are generated from - as argument lists
        from pylatexenc.macrospec import MacroStandardArgsParser
        if name == 'legacyspell':
            mk = lambda n, a: MacroSpec(n, args_parser=MacroStandardArgsParser(a))
            mke = lambda n, a: EnvironmentSpec(n, args_parser=MacroStandardArgsParser(a))
        else:
            mk = lambda n, a: MacroSpec(n, list(a))
            mke = lambda n, a: EnvironmentSpec(n, list(a))
        db.add_context_category('l', macros=[mk(n, a) for n, a in LEGACYSPELL_MACROS] + [mk('!', '*[')],
                                environments=[mke(n, a) for n, a in LEGACYSPELL_ENVS], specials=[SpecialsSpec('~')])
        db.set_unknown_macro_spec(MacroSpec(''))
        db.set_unknown_environment_spec(EnvironmentSpec(''))
    elif name == 'bare':
        db.set_unknown_macro_spec(MacroSpec(''))
        db.set_unknown_environment_spec(EnvironmentSpec(''))
    else:
        raise ValueError(name)
    db.freeze()
    _ctx_cache[name] = db
    return db


_baseline = []


def _tup(x):
    if isinstance(x, list):
        return tuple(_tup(y) for y in x)
    return x


def baseline_default_cx():
    """the RECORDED declarations of the default parser context (baseline_walkerctx.json), in the shape of
    ctxwire.decode_db"""
    if not _baseline:
        import json, os
        cx = json.load(open(os.path.join(os.path.dirname(os.path.dirname(os.path.abspath(__file__))), 'baseline_walkerctx.json')))['cx']

        def spec(sp):
            if sp is None:
                return None
            sp = dict(sp)
            a = sp['args']
            if a[0] == 'std':
                sp['args'] = ('std', [dict(x, kind=_tup(x['kind'])) for x in a[1]])
            else:
                sp['args'] = _tup(a)
            return sp
        _baseline.append({'macros': [(n, spec(sp)) for n, sp in cx['macros']], 'envs': [(n, spec(sp)) for n, sp in cx['envs']],
                          'specials': [(n, spec(sp)) for n, sp in cx['specials']],
                          'unk_macro': spec(cx['unk_macro']), 'unk_env': spec(cx['unk_env'])})
    return _baseline[0]


_wire_cache = {}


def ctx_wire(name):
    if name not in _wire_cache:
        import ctxwire
        _wire_cache[name] = ctxwire.w_ctx(ctxwire.decode_db(make_db(name)))
    return _wire_cache[name]


CONTEXTS = ['default', 'custom', 'custom-nofallback', 'bare']
UNMODELLED_CONTEXTS = ['commasep', 'legacyverb', 'chained', 'chain2', 'chain2-ref', 'defs', 'embell', 'legacyspell', 'legacyspell-ref']          # wire entry 999 does not exist: model and implementation dump both say BADIN
SYM_LEGACYVERB = ['\\lstinline', '\\vb', '[o]', '*', '|', 'x', ' ', '{a}', '+a b+', '\n', '\\begin{lst}', '\\end{lst}', '%c\n', '[', '$']
# what the 'chained' context's specifications MEAN for the mode of each argument / body ('T' text, 'M' math, '=' inherit),
# written down here and not read back from the delta objects of the library
CHAINED_EFFECTS = {'ct': ['T'], 'cm': ['M', '='], 'cn': ['T'], 'link': ['=', '='], 'linko': ['=', '='], 'plain': ['='],
                   'cmath': 'M'}
SYM_CHAINED = ['\\ct', '\\cm', '\\cn', '{', '}', 'a', ' ', '$', '\\begin{cmath}', '\\end{cmath}', '%c\n', '\\(', '\\)', '{x}']
# the twin contexts chain2 / chain2-ref: per macro, the chain of steps on each argument (None: no delta); per
# environment, the chain on its body
CHAIN2_MACROS = {'raw': [['nocomments', 'nospecials']], 'rawm': [['nocomments', 'enter']], 'tm': [['leave', 'nospecials']],
                 'cx': [['enter', 'leave']], 'two': [['leave', 'nocomments'], None], 'normal': [['math-on', 'comments-on']],
                 'wm': [['why', 'enter']], 'one': [['none', 'nomath', 'none']], 'three': [['nocomments', 'nomath', 'nospecials']]}
CHAIN2_ENVS = {'deriv': ['why', 'enter'], 'rawtext': ['nocomments', 'nomath'], 'evm': ['nospecials', 'enter']}
SYM_CHAIN2 = (['\\' + m for m in sorted(CHAIN2_MACROS)] + ['\\why', '{', '}', 'a', ' ', '$', '$$', '%c\n', '~', '\\(', '\\)', '\\[', '\\]', '{x}',
                                                           '{5% of a~b}', '\n', '{$y$}']
              + ['\\begin{%s}' % e for e in sorted(CHAIN2_ENVS)] + ['\\end{%s}' % e for e in sorted(CHAIN2_ENVS)])


def chain2_strings(rnd, n):
    """documents for the twin contexts: random symbol strings and well-formed shapes (a chained macro around a body
    that contains the characters whose reading the chain's steps change)"""
    bodies = ['5% of a~b', '$x$', 'a~b', 'p %c\n q', '\\why{z}', '\\why{$w$}', 'x$y$z~%d\n', '\\(u\\)', '{$}', 'a', '',
              '\\normal{$m$ %e\n}', '\\raw{%}', '$$d$$', '\\[e\\]']
    out = []
    for _ in range(n):
        k = rnd.random()
        if k < 0.45:
            out.append(''.join(rnd.choice(SYM_CHAIN2) for _ in range(rnd.randint(1, 9))))
            continue
        parts = []
        for _ in range(rnd.randint(1, 3)):
            b = rnd.choice(bodies)
            j = rnd.random()
            if j < 0.6:
                m = rnd.choice(sorted(CHAIN2_MACROS))
                t = '\\' + m + ''.join('{' + (b if i == 0 or rnd.random() < 0.7 else rnd.choice(bodies)) + '}'
                                        for i in range(len(CHAIN2_MACROS[m])))
            else:
                e = rnd.choice(sorted(CHAIN2_ENVS))
                t = '\\begin{%s}%s\\end{%s}' % (e, b, e)
            w = rnd.random()
            if w < 0.15:
                t = '$' + t + '$'
            elif w < 0.3:
                e = rnd.choice(sorted(CHAIN2_ENVS))
                t = '\\begin{%s}%s\\end{%s}' % (e, t, e)
            elif w < 0.4:
                t = '{' + t + '}'
            parts.append(t + rnd.choice(['', ' ', ' t ', '~', '%k\n']))
        out.append(''.join(parts))
    return out


SYM_EMBELL = ['\\ten', '\\tb', '\\op', '\\tq', '{T}', '^', '_', "'", '{a}', 'x', ' ', '^{c}', '_b', '+', '[o]', '\\z', '$', '%c\n', '\n']
LEGACYSPELL_MACROS = [('la', '{*{'), ('lb', '[*{'), ('lc', '*[{'), ('ld', '{*['), ('le', '{[{'), ('lf', '*{{'), ('lz', '')]
LEGACYSPELL_ENVS = [('ea', '*{'), ('eb', '[*'), ('ec', '')]
SYM_COMMASEP = ['\\cs', '\\ck', '{', '}', ',', ',,', 'a', ' ', 'b,', '{c}', '%x\n', '$', '\\cs{', '\n\n', '[', '\\z']

# ---------------------------------------------------------------------------
# alphabets (symbols may be multi-character)

SYM_CORE = ['a', ' ', '\n', '\\', '{', '}', '[', ']', '$', '%', '~', '-', '&', '*', '\r\n', '\r', '\x0c']   # bare CR and form feed are whitespace too
SYM_MULTI = ['\\(', '\\)', '\\[', '\\]', '\\begin{e}', '\\end{e}', '\\m']
SYM_DEFAULT_EXTRA = ['\\textbf', '\\frac', '\\item', '\\\\', '\\verb', '|', '\\begin{itemize}', '\\end{itemize}',
                     '\\begin{equation}', '\\end{equation}', '\\begin{verbatim}', '\\end{verbatim}', '$$', '\n\n',
                     '%c\n', '\\sqrt', '\\text', '\\ensuremath', '``', "''", '\\begin', '\\end', 'b',
                     '\\begin{lstlisting}', '\\end{lstlisting}', '\\section', '\\newcommand', '\\includegraphics',
                     '\\\'', '\\"', '\\begin{tabular}', '\\end{tabular}', '\\begin{align*}', '\\end{align*}',
                     '\\left', '\\right', '(', ')', '\t', '\\documentclass', '\\ ', '\\hspace']
SYM_CUSTOM_EXTRA = ['\\,', '\\mp', '\\mx', '\\my', '\\ma', '\\mb', '\\mc', '\\md', '\\mv', '\\mw', '\\mz', '\\mt', '\\mm', '\\m2', '\\mq', '\\\\',
                    '\\begin{ea}', '\\end{ea}', '\\begin{eb}', '\\end{eb}', '\\begin{em}', '\\end{em}',
                    '\\begin{e*}', '\\end{e*}', '!!', '@', '--', '---', '+', '(', ')', '<', '>', '|', '\n\n', '$$',
                    '%c\n', 'b', '!', '\\unknown', '\\begin{zz}', '\\end{zz}']


def symbols_for(ctx):
    if ctx == 'default':
        return SYM_CORE + SYM_MULTI + SYM_DEFAULT_EXTRA
    if ctx.startswith('custom'):
        return SYM_CORE + SYM_MULTI + SYM_CUSTOM_EXTRA
    return SYM_CORE + SYM_MULTI + ['\\unknown', '\\begin{zz}', '\\end{zz}', '$$', '\n\n', '%c\n']


def exhaustive(symbols, maxlen):
    for n in range(maxlen + 1):
        for t in itertools.product(symbols, repeat=n):
            yield ''.join(t)


def soup(rnd, symbols, nmin=1, nmax=14):
    return ''.join(rnd.choice(symbols) for _ in range(rnd.randint(nmin, nmax)))


# ---------------------------------------------------------------------------
# structured, mostly well-formed documents (strings only; the AST-carrying
# generator for C02 lives in docast.py)

def gen_doc(rnd, ctx, depth=0, math=False):
    parts = []
    for _ in range(rnd.randint(1, 5 if depth < 2 else 2)):
        parts.append(gen_item(rnd, ctx, depth, math))
    return ''.join(parts)


def _maybe_ws(rnd):
    return rnd.choice(['', '', '', ' ', '\n', '  ', ' %c\n', '\t', '\r\n'])


def gen_arg(rnd, ctx, depth, math):
    r = rnd.random()
    if r < 0.6:
        return '{' + gen_doc(rnd, ctx, depth + 1, math) + '}'
    if r < 0.8:
        return rnd.choice(['a', 'b', '1', '\\alpha' if ctx == 'default' else '\\mz'])
    return _maybe_ws(rnd) + '{' + gen_doc(rnd, ctx, depth + 1, math) + '}'


def gen_item(rnd, ctx, depth, math):
    deep = depth >= 3
    k = rnd.random()
    if k < 0.25 or deep:
        return rnd.choice(['a', 'ab', 'b c', ' ', 'x ', ' y', '1', ',', 'a-b', "it's", '\n', 'word\n'])
    if k < 0.32:
        return rnd.choice(['\n\n', '\n \n', ' \n\n ', '\n\n\n', '\r\n\r\n', '\x0c\n\n'])
    if k < 0.40:
        return '%' + rnd.choice(['', 'c', ' com{ment', 'x $ y']) + rnd.choice(['\n', '\n  ', '\n\n'])
    if k < 0.50:
        return '{' + gen_doc(rnd, ctx, depth + 1, math) + '}'
    if k < 0.62 and not math:
        d = rnd.choice([('$', '$'), ('\\(', '\\)'), ('$$', '$$'), ('\\[', '\\]')])
        return d[0] + gen_doc(rnd, ctx, depth + 1, True) + d[1]
    if ctx == 'default':
        if k < 0.80:
            m = rnd.choice(['\\textbf', '\\emph', '\\frac', '\\sqrt', '\\section', '\\item', '\\\\', '\\text',
                            '\\ensuremath', '\\mbox', '\\alpha', '\\unknownmacro', '\\hspace', '\\label', '\\\'',
                            '\\newcommand', '\\includegraphics', '\\ ', '\\%', '\\&'])
            sig = {'\\textbf': '{', '\\emph': '{', '\\frac': '{{', '\\sqrt': '[{', '\\section': '*[{', '\\item': '[',
                   '\\\\': '*[', '\\text': '{', '\\ensuremath': '{', '\\mbox': '{', '\\hspace': '*{', '\\label': '{',
                   '\\\'': '{', '\\newcommand': '*{[[{', '\\includegraphics': '[{'}.get(m, '')
            out = m
            if m[-1].isalpha() and not sig:
                out += rnd.choice([' ', '{}', '\n', ''])
                if out == m:
                    out += rnd.choice(['1', ' ', '{}', '.'])
            for a in sig:
                if a == '*':
                    out += rnd.choice(['*', '', ''])
                elif a == '[':
                    if rnd.random() < 0.5:
                        out += (_maybe_ws(rnd) if m != '\\\\' else '') + '[' + gen_doc(rnd, ctx, depth + 1, math).replace(']', '') + ']'
                else:
                    g = gen_arg(rnd, ctx, depth, math)
                    if out[-1].isalpha() and g[0].isalpha():
                        g = ' ' + g
                    out += g
            return out
        if k < 0.90:
            e = rnd.choice(['itemize', 'center', 'equation', 'align*', 'tabular', 'unknownenv', 'verbatim',
                            'lstlisting', 'array', 'pmatrix', 'enumerate'])
            if e == 'verbatim':
                return '\\begin{verbatim}' + rnd.choice(['x % { $', '', '\n a \\b \n']) + '\\end{verbatim}'
            if e == 'lstlisting':
                return '\\begin{lstlisting}' + rnd.choice(['', '[opt]', '\n']) + rnd.choice(['x % {', 'y']) + '\\end{lstlisting}'
            args = {'tabular': '{cc}', 'array': '{c}'}.get(e, '')
            return ('\\begin{%s}%s' % (e, args) + gen_doc(rnd, ctx, depth + 1, math or e in ('equation', 'align*'))
                    + '\\end{%s}' % e)
        if k < 0.95:
            return rnd.choice(['~', '``', "''", '--', '---', '&'])
        return '\\verb' + rnd.choice(['|x|', '+a b+', ' !q!', '|%{|'])
    else:
        if k < 0.80:
            m = rnd.choice(['\\ma', '\\mb', '\\mc', '\\md', '\\mv', '\\mw', '\\mz', '\\mt', '\\mm', '\\m2', '\\mq',
                            '\\\\', '\\unk', '\\,', '\\mp', '\\mx', '\\my'])
            sig = {'\\ma': '*[{', '\\mb': '{[', '\\mc': '*+{', '\\md': '(<', '\\mv': 'v', '\\mw': 'V[', '\\mt': '{',
                   '\\mm': '[{', '\\m2': '{{', '\\mq': '[', '\\\\': '*[', '\\,': '(', '\\mp': '{{', '\\mx': '{{', '\\my': '{['}.get(m, '')
            out = m
            if not sig and m[-1].isalpha():
                out += rnd.choice([' ', '{}', '\n'])
            for a in sig:
                if a == '*':
                    out += rnd.choice(['*', '', ' *'])
                elif a == '+':
                    out += rnd.choice(['+', ''])
                elif a == '[':
                    if rnd.random() < 0.5:
                        out += (_maybe_ws(rnd) if m != '\\\\' else '') + '[' + gen_doc(rnd, ctx, depth + 1, math).replace(']', '') + ']'
                elif a == '(':
                    out += (_maybe_ws(rnd) if m == '\\,' else '') + '(' + rnd.choice(['a', 'a b', '']) + ')'
                elif a == '<':
                    out += rnd.choice(['<a>', '', '<>'])
                elif a == 'v':
                    out += rnd.choice(['|a%{|', '{a{b}c}', '+x+', ' (a(b))', '<a<b>>'])
                elif a == 'V':
                    out += rnd.choice(['{a%b}', '{a{b}}', '{}'])
                else:
                    g = gen_arg(rnd, ctx, depth, math)
                    if out[-1].isalpha() and g[0].isalpha():
                        g = ' ' + g
                    out += g
            return out
        if k < 0.92:
            e = rnd.choice(['ea', 'eb', 'em', 'e*', 'zz'])
            args = {'ea': rnd.choice(['{a}', '[o]{a}', ' [o] {a}']), 'e*': rnd.choice(['*', ''])}.get(e, '')
            return '\\begin{%s}%s' % (e, args) + gen_doc(rnd, ctx, depth + 1, math or e == 'em') + '\\end{%s}' % e
        return rnd.choice(['~', '!!{a}', '!![o]{a}', '@', '@*', '--', '---', '&'])


FAULTS = ['{', '}', '$', '$$', '\\(', '\\)', '\\[', '\\]', '\\begin{e}', '\\end{e}', '\\end{itemize}', ']']


def inject_fault(rnd, s):
    """insert one unmatched structural token at a random token-ish boundary"""
    if not s:
        return rnd.choice(FAULTS)
    cands = [i for i in range(len(s) + 1) if i == 0 or i == len(s) or not (s[i - 1].isalpha() and s[i].isalpha())]
    i = rnd.choice(cands)
    return s[:i] + rnd.choice(FAULTS) + s[i:]
