"""Case streams, projections and tree oracles shared by the parser properties
(C01, C05, C06, C10, ...)."""
import re, random, collections
import docgen, parseharness as P
from common import w_str, w_bool, w_list


def mk_state_case(ctx, state, s, tol, origin):
    """a parse that starts from the walker's default state updated by one sub_context(**state) call"""
    import tokharness as T
    upd = w_list(list(state.items()), lambda kv: [T.UPDATE_TAG[kv[0]]] + T.w_value(kv[0], kv[1]))
    try:
        wire = [102] + ([0] if ctx == 'default' else [1] + docgen.ctx_wire(ctx)) + upd + w_str(s) + w_bool(tol)
    except Exception as e:              # translator refusal: see mk_case
        import common
        msg = '%s: %s' % (type(e).__name__, str(e)[:200])
        if msg not in common.TRANSLATOR_ERRORS:
            common.TRANSLATOR_ERRORS.append(msg)
        wire = [999]
    return {'wire': wire, 'desc': {'ctx': ctx, 's': s, 'tolerant': tol, 'origin': origin, 'state': state}, 'nt': None}


# parsing-state configurations other than the walker's default (one sub_context call)
STATES = [
    {'latex_inline_math_delimiters': [['$', '$'], ['<<', '>>']]},
    {'latex_inline_math_delimiters': [['$`', '`$'], ['\\(', '\\)']], 'latex_display_math_delimiters': [['$$', '$$']]},
    {'latex_display_math_delimiters': [['[[', ']]'], ['$$', '$$']], 'latex_inline_math_delimiters': [['$', '$']]},
    {'latex_group_delimiters': [['{', '}'], ['[', ']']]},
    {'enable_comments': False}, {'enable_math': False}, {'enable_groups': False}, {'enable_specials': False},
    {'enable_environments': False}, {'enable_macros': False}, {'enable_double_newline_paragraphs': False},
    {'macro_escape_char': '!', 'comment_start': '#'}, {'in_math_mode': True, 'math_mode_delimiter': '$'},
    {'in_math_mode': True}, {'forbidden_characters': '&~'},
]
STATE_SYMS = ['<<', '>>', '$`', '`$', '[[', ']]', '!m', '!begin{e}', '!end{e}', '#c\n', '!', '#']


def state_stream(rnd, n, contexts=('default', 'custom'), modes=(False, True)):
    out = []
    for _ in range(n):
        ctx = rnd.choice(contexts)
        st = rnd.choice(STATES)
        syms = docgen.symbols_for(ctx) + STATE_SYMS
        s = docgen.soup(rnd, syms, 1, 9) if rnd.random() < 0.6 else docgen.gen_doc(rnd, ctx)
        for tol in modes:
            out.append(mk_state_case(ctx, st, s, tol, 'state'))
    return out


def _state_kwargs(state):
    kw = {}
    for k, v in (state or {}).items():
        kw[k] = [tuple(x) for x in v] if k.startswith('latex_') else v
    return kw


def mk_case(ctx, s, tol, origin):
    if ctx in docgen.UNMODELLED_CONTEXTS:
        return {'wire': [999], 'desc': {'ctx': ctx, 's': s, 'tolerant': tol, 'origin': origin}, 'nt': None}
    if ctx == 'default':
        wire = P.w_parse_default(s, tol)
    else:
        try:
            wire = P.w_parse_custom(docgen.ctx_wire(ctx), s, tol)
        except Exception as e:
            # the fail-closed context translator refuses this database (something it relies on has changed): the tie
            # between model and code is broken for it; the case still goes to the property oracle on the real code
            import common
            msg = '%s: %s' % (type(e).__name__, str(e)[:200])
            if msg not in common.TRANSLATOR_ERRORS:
                common.TRANSLATOR_ERRORS.append(msg)
            wire = [999]
    return {'wire': wire, 'desc': {'ctx': ctx, 's': s, 'tolerant': tol, 'origin': origin}, 'nt': None}


def case_from_desc(d):
    if d.get('state'):
        c = mk_state_case(d['ctx'], d['state'], d['s'], d['tolerant'], d.get('origin', 'replay'))
    else:
        c = mk_case(d['ctx'], d['s'], d['tolerant'], d.get('origin', 'replay'))
    for k in ('wkw', 'base', 'fault', 'at'):
        if k in d:
            c['desc'][k] = d[k]
    return c


WKW = [{'line_number_offset': None}, {'first_line_column_offset': None}, {'column_offset': None},
       {'line_number_offset': 0}, {'first_line_column_offset': 7, 'column_offset': 2},
       {'line_number_offset': 10, 'first_line_column_offset': 3}, {'column_offset': 5},
       {'line_number_offset': None, 'first_line_column_offset': None, 'column_offset': None}]


def expected_linecol(d, s, p):
    """line / column of position p under the walker options of the case (documented defaults 1, 0, 0)"""
    kw = d.get('wkw') or {}
    lo = kw.get('line_number_offset'); lo = 1 if lo is None else lo
    fo = kw.get('first_line_column_offset'); fo = 0 if fo is None else fo
    co = kw.get('column_offset'); co = 0 if co is None else co
    k = s.count('\n', 0, p)
    col = p - (s.rfind('\n', 0, p) + 1)
    return (k + lo, col + (fo if k == 0 else co))


def stream(seed, tier, modes=(False, True), contexts=None, exh_len=None, n_soup=None, n_doc=None, n_fault=None,
           corpus=()):
    """The standard stream: corpus, bounded-exhaustive strings, token soups, structured documents,
    single-fault documents; for each context and parse mode."""
    rnd = random.Random(seed)
    quick = tier == 'quick'
    contexts = contexts or docgen.CONTEXTS
    exh_len = exh_len if exh_len is not None else (2 if quick else 3)
    n_soup = n_soup if n_soup is not None else (500 if quick else 8000)
    n_doc = n_doc if n_doc is not None else (500 if quick else 8000)
    n_fault = n_fault if n_fault is not None else (300 if quick else 5000)
    cases = []
    for c in corpus:
        for tol in modes:
            cases.append(mk_case(c.get('ctx', 'default'), c['s'], tol, 'corpus'))
    for ctx in contexts:
        syms = docgen.symbols_for(ctx)
        core = docgen.SYM_CORE + docgen.SYM_MULTI
        for s in docgen.exhaustive(syms, min(exh_len, 2)):
            for tol in modes:
                cases.append(mk_case(ctx, s, tol, 'exhaustive'))
        if exh_len >= 3 and ctx in ('default', 'custom'):
            for s in docgen.exhaustive(core, 3):
                if len(s) >= 3:
                    for tol in modes:
                        cases.append(mk_case(ctx, s, tol, 'exhaustive3'))
        k = 1.0 if ctx in ('default', 'custom') else 0.3
        for _ in range(int(n_soup * k)):
            s = docgen.soup(rnd, syms)
            for tol in modes:
                cases.append(mk_case(ctx, s, tol, 'soup'))
        if ctx != 'bare':
            for _ in range(int(n_doc * k)):
                s = docgen.gen_doc(rnd, ctx)
                for tol in modes:
                    cases.append(mk_case(ctx, s, tol, 'doc'))
            for _ in range(int(n_fault * k)):
                s = docgen.inject_fault(rnd, docgen.gen_doc(rnd, ctx))
                for tol in modes:
                    cases.append(mk_case(ctx, s, tol, 'fault'))
    # position-reporting options: explicit None (documented as 'use the default'), zero, unequal column offsets
    for j, c in enumerate(cases):
        if j % 7 == 3:
            c['desc']['wkw'] = WKW[(j // 7) % len(WKW)]
    for c in cases:
        c['nt'] = sum(1 for ch in c['desc']['s'] if ch in '\\{$[%') >= 1 and len(c['desc']['s']) >= 3
    return cases


def impl_parse(c):
    d = c['desc']
    if d['ctx'] in docgen.UNMODELLED_CONTEXTS or c.get('wire') == [999]:
        return 'BADIN'
    return P.parse_top(d['s'], d['tolerant'], docgen.make_db(d['ctx']), d.get('wkw'), _state_kwargs(d.get('state')))


# ---- projections of the dump line -------------------------------------------------
_MODE = re.compile(r',(?:t|M)(?:-|"[0-9.]*")')


def proj_spans(line):
    """drop the parsing-state mode fields (C01, C05, C06 do not talk about them)"""
    return _MODE.sub('', line)


def proj_outcome(line):
    if line.startswith('ok '):
        return 'ok'
    return line


# ---- walking a real tree ------------------------------------------------------------
def real_parse(d):
    """-> ('ok', nodelist, walker) | ('err', exc) | ('exn', exc)"""
    from pylatexenc.latexwalker import LatexWalker, LatexWalkerParseError
    from pylatexenc.latexnodes.parsers import LatexGeneralNodesParser
    db = docgen.make_db(d['ctx'])
    kw = {} if db is None else {'latex_context': db}
    kw.update(d.get('wkw') or {})          # position-reporting options of the walker (None = "use the default")
    w = LatexWalker(d['s'], tolerant_parsing=d['tolerant'], **kw)
    pkw = {}
    if d.get('state'):
        pkw['parsing_state'] = w.make_parsing_state().sub_context(**_state_kwargs(d['state']))
    try:
        nl, _ = w.parse_content(LatexGeneralNodesParser(), **pkw)
    except LatexWalkerParseError as e:
        return ('err', e, w)
    except Exception as e:
        return ('exn', e, w)
    return ('ok', nl, w)


def distribution(cases, impl_out):
    o = collections.Counter()
    kinds = collections.Counter()
    for c, i in zip(cases, impl_out):
        d = c['desc']
        key = (d['origin'], 'tol' if d['tolerant'] else 'strict')
        res = 'other'
        if isinstance(i, str):
            res = i.split(' ', 1)[0]
            if res == 'ok':
                for k in 'G M E S $ #'.split():
                    if k + '(' in i:
                        kinds[k] += 1
        o['%s/%s/%s' % (key[0], key[1], res)] += 1
    return {'cases_by_origin_mode_outcome': dict(o), 'accepted_trees_containing_node_kind': dict(kinds),
            'contexts': dict(collections.Counter(c['desc']['ctx'] for c in cases))}


# ---- twin contexts (real code only): a chain of parsing-state changes means its steps applied in order ---------------
def twin_cases(rnd, n, tolerant=(False,)):
    out = []
    for i, s in enumerate(docgen.chain2_strings(rnd, n)):
        out.append({'wire': [999], 'nt': True,
                    'desc': {'ctx': 'chain2', 's': s, 'tolerant': tolerant[i % len(tolerant)], 'origin': 'chained-twin'}})
    return out


def oracle_twin(d):
    """the document parsed under the specifications written with ParsingStateDeltaChained and under the same
    specifications whose chains are applied step by step by the harness's own delta object: same outcome line"""
    a = P.parse_top(d['s'], d['tolerant'], docgen.make_db('chain2'))
    b = P.parse_top(d['s'], d['tolerant'], docgen.make_db('chain2-ref'))
    if a != b:
        return ('chained-state-changes-not-applied-in-sequence', {'with_chain': a[:400], 'step_by_step': b[:400]})
    return None


# ---- nesting -------------------------------------------------------------------------------------------------------
DEEP = [('{', '}', 1), ('\\textbf{', '}', 1), ('\\begin{itemize}\\item ', '\\end{itemize}', 1), ('\\mbox{$', '$}', 2),
        ('\\frac{a}{', '}', 1), ('$\\text{', '}$', 2), ('\\begin{center}{', '}\\end{center}', 2)]


def deep_cases(tol):
    """nested constructs well inside the interpreter's stack (modelled: the parser must do them like any other input),
    and four documents nested deeper than the interpreter's stack allows (real code only; known finding)"""
    out = []
    for op, cl, per in DEEP:
        for levels in (10, 18, 26, 32):
            n = levels // per
            out.append(mk_case('default', op * n + 'a' + cl * n, tol, 'deep-nesting'))
            out.append(mk_case('default', op * n + 'a' + cl * (n - 1), tol, 'deep-nesting'))     # one closing short
    # a long environment name that is never closed (the name matcher has to fail, in linear time)
    for name in ('a' * 24, 'a' * 40, 'ab ' * 14, 'center This whole line is meant to be centered on the page', 'x.y:z/' * 8):
        for tail in ('', ',', '=b}', '\n', '\\x', ' '):
            out.append(mk_case('default', 'z\\begin{' + name + tail, tol, 'deep-nesting'))
            out.append(mk_case('default', '\\end{' + name + tail + ' q', tol, 'deep-nesting'))
    for op, cl, per in DEEP[:4]:
        out.append({'wire': [999], 'nt': True,
                    'desc': {'ctx': 'default', 's': op * 400 + 'a' + cl * 400, 'tolerant': tol,
                             'origin': 'nesting-beyond-interpreter-stack'}})
    return out
