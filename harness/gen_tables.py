"""Regenerate coq/Gen/*.v from the working tree of the repository under
verification (imported through PYTHONPATH).  Each property's generator lives in
its own module and is called from here; files are written only if changed."""
import os, sys

HERE = os.path.dirname(os.path.abspath(__file__))
sys.path.insert(0, HERE)
COQ = os.path.join(os.path.dirname(HERE), 'coq')


def main():
    changed = []
    import gen_c04
    changed += gen_c04.generate(COQ)
    if changed:
        print('gen_tables: rewrote ' + ', '.join(changed))
    return 0


if __name__ == '__main__':
    sys.exit(main())
