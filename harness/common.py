"""Shared machinery of the checks: build, model execution, proof-obligation
accounting, correspondence diffing, violation / known-finding reporting and
evidence writing.  Runs under /venv/bin/python with PYTHONPATH=/repo."""
import os, sys, json, time, subprocess, hashlib, re, random, signal, traceback, multiprocessing

VERIF = os.path.dirname(os.path.dirname(os.path.abspath(__file__)))
COQ = os.path.join(VERIF, 'coq')
BUILD = os.path.join(VERIF, 'build')
EVID = os.path.join(VERIF, 'evidence')
REPLAY = os.path.join(EVID, 'replay')
REPO = os.environ.get('VERIF_REPO', '/repo')
NPROC = int(os.environ.get('VERIF_JOBS', '16'))

FORBIDDEN = re.compile(
    r'\b(Admitted|admit|Axiom|Axioms|Parameter|Parameters|Conjecture|Conjectures|Hypothesis|Hypotheses|Variable|Variables)\b'
    r'|Unset\s+Guard|bypass_check|type-in-type|impredicative-set|Admit\s+Obligations|Unset\s+Positivity|Unset\s+Universe')

TRUSTED_BASE = [
    'Coq 8.16.1 kernel (coqc); vm_compute used for table sweeps and witnesses; native_compute not used',
    'hand-written Gallina model of the Python logic (tied to /repo only by the differential correspondence run here)',
    'harness/gen_tables.py (data translator, regenerates coq/Gen/*.v from the live /repo objects)',
    'extraction: ExtrOcamlBasic only, no Extract Constant; OCaml 4.13.1; coq/Extract/driver.ml; cross-checked against vm_compute on a sample each run',
    'the Python harness: case generators, canonical dumpers, differ',
]


def log(*a):
    print(*a, file=sys.stderr, flush=True)


def sh(cmd, timeout=1200, cwd=None, env=None):
    p = subprocess.run(cmd, shell=isinstance(cmd, str), cwd=cwd, env=env, timeout=timeout,
                       stdout=subprocess.PIPE, stderr=subprocess.STDOUT, text=True)
    return p.returncode, p.stdout


# ----------------------------------------------------------------------------
# build

def grep_gate():
    """No Admitted / Axiom / Parameter / unchecked guards anywhere under coq/."""
    bad = []
    for root, _, files in os.walk(COQ):
        for f in files:
            if not f.endswith('.v'):
                continue
            p = os.path.join(root, f)
            txt = open(p, encoding='utf-8').read()
            # strip comments (non-nested is enough for our sources; nested handled by loop)
            prev = None
            while prev != txt:
                prev = txt
                txt = re.sub(r'\(\*(?:(?!\(\*|\*\)).)*\*\)', ' ', txt, flags=re.S)
            for m in FORBIDDEN.finditer(txt):
                w = m.group(0)
                # 'Variable'/'Hypothesis' are allowed inside a Section only
                if w.split()[0] in ('Variable', 'Variables', 'Hypothesis', 'Hypotheses'):
                    before = txt[:m.start()]
                    opened = len(re.findall(r'\bSection\s+\w+', before))
                    closed = len(re.findall(r'\bEnd\s+\w+\s*\.', before)) - len(re.findall(r'\bModule\s+\w+', before))
                    if opened > max(closed, 0):
                        continue
                bad.append('%s: %s' % (os.path.relpath(p, VERIF), w))
    return bad


def gen_tables():
    """Regenerate coq/Gen/*.v from the working tree of /repo (write-if-changed)."""
    gt = os.path.join(VERIF, 'harness', 'gen_tables.py')
    if not os.path.exists(gt):
        return 0, ''
    env = dict(os.environ, PYTHONPATH=REPO, PYTHONHASHSEED='0')
    return sh([sys.executable, gt], env=env, timeout=600)


def write_coqproject():
    """_CoqProject = every .v under coq/ except Properties/ (compiled afresh by each check)."""
    files = []
    for root, _, fs in os.walk(COQ):
        rel = os.path.relpath(root, COQ)
        if rel.startswith('Properties') or rel.startswith('scratch'):
            continue
        for f in sorted(fs):
            if f.endswith('.v'):
                files.append(os.path.normpath(os.path.join(rel, f)))
    files.sort()
    txt = ('-Q . PLV\n-arg -w -arg -notation-overridden,-deprecated-hint-without-locality,'
           '-deprecated-instance-without-locality,-ambiguous-paths\n' + '\n'.join(files) + '\n')
    p = os.path.join(COQ, '_CoqProject')
    if not os.path.exists(p) or open(p).read() != txt:
        open(p, 'w').write(txt)


def make_all(targets=None):
    write_coqproject()
    rc, out = sh('coq_makefile -f _CoqProject -o Makefile >/dev/null 2>&1; timeout 3000 make -j%d %s 2>&1 | tail -40'
                 % (NPROC, ' '.join(targets or [])), cwd=COQ, timeout=3100)
    ok = (re.search(r'(?m)^Error|Error:', out) is None) and ('***' not in out)
    if ok:
        rc2, out2 = sh('./build_modelrun.sh 2>&1', cwd=COQ, timeout=600)
        if rc2 != 0:
            return False, out + out2
    return ok, out


_LOCK = os.path.join(BUILD, '.lock')


def build():
    """gen tables + make + modelrun, serialized across concurrently running checks."""
    import fcntl
    os.makedirs(BUILD, exist_ok=True)
    with open(_LOCK, 'w') as lk:
        fcntl.flock(lk, fcntl.LOCK_EX)
        rc, out = gen_tables()
        if rc != 0:
            return False, 'gen_tables failed (fail-closed translator):\n' + out
        ok, out2 = make_all()
        return ok, out2


def compile_property(pid):
    """Compile Properties/<pid>.v afresh; return (obligations, discharged, details, raw)."""
    import fcntl
    src = os.path.join(COQ, 'Properties', pid + '.v')
    if not os.path.exists(src):
        return 1, 0, [{'theorem': '?', 'status': 'no Properties/%s.v' % pid}], ''
    with open(_LOCK, 'w') as lk:
        fcntl.flock(lk, fcntl.LOCK_EX)
        rc, out = sh('timeout 900 coqc -Q . PLV Properties/%s.v 2>&1' % pid, cwd=COQ, timeout=1000)
    txt = open(src, encoding='utf-8').read()
    names = re.findall(r'^Print Assumptions\s+(\w+)\s*\.', txt, flags=re.M)
    stated = re.findall(r'^(?:Theorem|Corollary)\s+(\w+)', txt, flags=re.M)
    details = []
    if rc != 0:
        return len(stated) or 1, 0, [{'theorem': '?', 'status': 'compile-error'}], out
    # split the output into one block per Print Assumptions
    blocks = re.split(r'(?m)^(?=Closed under the global context|Axioms:)', out)
    blocks = [b for b in blocks if b.startswith('Closed under') or b.startswith('Axioms:')]
    discharged = 0
    for i, n in enumerate(names):
        b = blocks[i] if i < len(blocks) else ''
        if b.startswith('Closed under'):
            details.append({'theorem': n, 'status': 'closed'})
            discharged += 1
        elif b.startswith('Axioms:'):
            axs = re.findall(r'(?m)^(\S+)\s*:', b[len('Axioms:'):])
            allowed = all(a in ALLOWED_AXIOMS for a in axs)
            details.append({'theorem': n, 'status': 'axioms', 'axioms': axs, 'allowed': allowed})
            if allowed:
                discharged += 1
        else:
            details.append({'theorem': n, 'status': 'missing-output'})
    missing = [s for s in stated if s not in names]
    for s in missing:
        details.append({'theorem': s, 'status': 'no-Print-Assumptions'})
    return len(names) + len(missing), discharged, details, out


# axioms the Coq standard library itself declares and that we accept if they appear
ALLOWED_AXIOMS = {
    'functional_extensionality_dep', 'FunctionalExtensionality.functional_extensionality_dep',
    'Eqdep.Eq_rect_eq.eq_rect_eq', 'eq_rect_eq', 'JMeq_eq', 'JMeq.JMeq_eq',
    'proof_irrelevance', 'ProofIrrelevance.proof_irrelevance', 'classic', 'Classical_Prop.classic',
}


# ----------------------------------------------------------------------------
# model execution

def run_model(wires, timeout=1800):
    """wires: list of int lists (entry id first).  Returns list of output lines."""
    if not wires:
        return []
    exe = os.path.join(BUILD, 'modelrun')
    chunks = [wires[i::NPROC] for i in range(NPROC)] if len(wires) > 2000 else [wires]
    procs = []
    for ch in chunks:
        if not ch:
            procs.append(None)
            continue
        data = '\n'.join(' '.join(map(str, w)) for w in ch) + '\n'
        p = subprocess.Popen(['/bin/sh', '-c', 'ulimit -s unlimited 2>/dev/null; exec "%s"' % exe],
                             stdin=subprocess.PIPE, stdout=subprocess.PIPE, text=True)
        procs.append((p, data))
    # feed & collect (threads to avoid pipe deadlock)
    import threading
    outs = [None] * len(chunks)

    def work(i):
        if procs[i] is None:
            outs[i] = []
            return
        p, data = procs[i]
        try:
            o, _ = p.communicate(data, timeout=timeout)
        except subprocess.TimeoutExpired:
            p.kill()
            o = ''
        outs[i] = o.split('\n')[:-1] if o else []
    ths = [threading.Thread(target=work, args=(i,)) for i in range(len(chunks))]
    [t.start() for t in ths]
    [t.join() for t in ths]
    if len(chunks) == 1:
        res = outs[0]
    else:
        res = [None] * len(wires)
        for i, o in enumerate(outs):
            idxs = list(range(i, len(wires), NPROC))
            for j, k in enumerate(idxs):
                res[k] = o[j] if j < len(o) else 'MODEL-CRASH'
    if len(res) < len(wires):
        res = res + ['MODEL-CRASH'] * (len(wires) - len(res))
    return res


def vm_crosscheck(pid, wires, outs, limit=150):
    """Evaluate a sample of the same cases by vm_compute inside coqc and let Coq
    itself compare with what the extracted binary printed."""
    import fcntl
    idx = list(range(len(wires)))
    rnd = random.Random(12345)
    rnd.shuffle(idx)
    idx = [i for i in idx if len(wires[i]) < 400 and '\\u{' not in outs[i] and outs[i] != 'MODEL-CRASH'][:limit]
    if not idx:
        return True, 0, ''

    def zl(l):
        return '[' + ';'.join(('(%d)' % x) if x < 0 else str(x) for x in l) + ']'
    cases = ';\n '.join('(%d, %s)' % (wires[i][0], zl(wires[i][1:])) for i in idx)
    exps = ';\n '.join(zl([ord(c) for c in outs[i]]) for i in idx)
    d = os.path.join(BUILD, 'vm')
    os.makedirs(d, exist_ok=True)
    fn = os.path.join(d, 'cases_%s_%d.v' % (pid, os.getpid()))
    with open(fn, 'w') as f:
        f.write('From Coq Require Import ZArith List.\nFrom PLV Require Import Extract.Entries.\n'
                'Import ListNotations.\nOpen Scope Z_scope.\n'
                'Definition cases : list (Z * list Z) := [\n %s].\n'
                'Definition expected : list (list Z) := [\n %s].\n'
                'Goal map (fun c => model_dispatch (fst c) (snd c)) cases = expected.\n'
                'Proof. vm_compute. reflexivity. Qed.\n' % (cases, exps))
    rc, out = sh('timeout 600 coqc -Q %s PLV %s 2>&1' % (COQ, fn), cwd=d, timeout=700)
    for ext in ('.v', '.vo', '.vok', '.vos', '.glob'):
        try:
            os.remove(fn[:-2] + ext)
        except OSError:
            pass
    try:
        os.remove(os.path.join(d, '.' + os.path.basename(fn)[:-2] + '.aux'))
    except OSError:
        pass
    return rc == 0, len(idx), out


# ----------------------------------------------------------------------------
# running the implementation safely

class CaseTimeout(Exception):
    pass


def _alarm(signum, frame):
    raise CaseTimeout()


def with_timeout(fn, arg, secs=5.0):
    """Run fn(arg) in this process with an interval timer (pure-Python loops only)."""
    old = signal.signal(signal.SIGALRM, _alarm)
    signal.setitimer(signal.ITIMER_REAL, secs)
    try:
        return fn(arg)
    finally:
        signal.setitimer(signal.ITIMER_REAL, 0)
        signal.signal(signal.SIGALRM, old)


_timeouts_in_a_row = 0
GIVE_UP_AFTER = 40          # consecutive per-case timeouts in one worker: the code under test hangs / blows up wholesale


def _pool_init(limit_memory=True):
    import logging
    logging.disable(logging.CRITICAL)
    sys.setrecursionlimit(10000)
    if not limit_memory:
        return
    try:                    # a code change that makes shared state grow without bound must not exhaust the machine
        import resource
        resource.setrlimit(resource.RLIMIT_AS, (8 << 30, 8 << 30))
    except Exception:
        pass


_tainted = False            # a case of this worker was interrupted: library-level state may be half-updated


class _Tainted(object):
    """result computed in a worker after one of its cases was interrupted by the timer"""
    def __init__(self, r):
        self.r = r


def _pool_call(a):
    r = _pool_call_raw(a)
    return _Tainted(r) if _tainted and not (isinstance(r, tuple) and r and r[0] == 'TIMEOUT') else r


def _pool_call_raw(a):
    global _timeouts_in_a_row, _tainted
    fn, arg, secs = a
    if _timeouts_in_a_row >= GIVE_UP_AFTER:
        return ('TIMEOUT', 'worker gave up after %d consecutive timeouts' % GIVE_UP_AFTER)
    try:
        r = with_timeout(fn, arg, secs)
        _timeouts_in_a_row = 0
        return r
    except CaseTimeout:
        _timeouts_in_a_row += 1
        _tainted = True
        return ('TIMEOUT',)
    except MemoryError:
        _timeouts_in_a_row += 1
        _tainted = True
        return ('TIMEOUT', 'MemoryError (address-space limit of the worker)')
    except RecursionError:
        return ('RECURSION',)
    except Exception as e:  # harness-level failure, reported as such
        return ('HARNESS-EXC', type(e).__name__, str(e)[:300], traceback.format_exc()[-1500:])


STREAM_BUDGET = 1500.0      # seconds per stream; check.py lowers it for the quick tier


def _pool_chunk(chunk):
    return [_pool_call(a) for a in chunk]


def pmap(fn, args, secs=5.0, procs=None):
    """Parallel map of a top-level function over cases with a per-case timeout."""
    args = list(args)
    if not args:
        return []
    procs = procs or NPROC
    if len(args) < 64 or procs == 1:
        _pool_init(limit_memory=False)
        return [_pool_call_raw((fn, a, secs)) for a in args]
    # wall-clock budget for one stream: a code change that makes every case slow (but not hang) must not keep the
    # check running for hours; what is not evaluated in time is reported as TIMEOUT (a harness-level failure)
    budget = float(os.environ.get('VERIF_STREAM_BUDGET') or STREAM_BUDGET)
    items = [(fn, a, secs) for a in args]
    cs = max(1, len(items) // (procs * 16))
    chunks = [items[i:i + cs] for i in range(0, len(items), cs)]
    out = []
    t0 = time.time()
    with multiprocessing.get_context('fork').Pool(procs, initializer=_pool_init) as pool:
        it = pool.imap(_pool_chunk, chunks, chunksize=1)
        for _ in chunks:
            left = budget - (time.time() - t0)
            try:
                out += it.next(timeout=max(1.0, left))
            except multiprocessing.TimeoutError:
                pool.terminate()
                out += [('TIMEOUT', 'stream budget of %d s exhausted' % int(budget))] * (len(items) - len(out))
                break
    return _settle(fn, args, secs, out)


TRANSLATOR_ERRORS = []      # fail-closed translator refusals met while cases were generated (reported as a broken tie)
SUSPECT = set()             # indices (of the last pmap call) whose result comes from a tainted worker
RECHECK_LIMIT = 200


def fresh_eval(fn, arg, secs):
    """evaluate one case in a brand-new process (no state left over from other cases)"""
    with multiprocessing.get_context('fork').Pool(1, initializer=_pool_init) as pool:
        try:
            r = pool.apply_async(_pool_call_raw, ((fn, arg, secs),)).get(timeout=secs + 30)
        except multiprocessing.TimeoutError:
            pool.terminate()
            r = ('TIMEOUT', 'also in a fresh process with %d s' % int(secs))
    return r


def _settle(fn, args, secs, out):
    """unwrap results; a case that timed out in the pool (machine load, or state damaged by an earlier interruption)
    is evaluated once more, alone, in a fresh process with four times the time"""
    global SUSPECT
    SUSPECT = set()
    res = []
    for i, r in enumerate(out):
        if isinstance(r, _Tainted):
            SUSPECT.add(i)
            r = r.r
        res.append(r)
    again = [i for i, r in enumerate(res) if isinstance(r, tuple) and r and r[0] == 'TIMEOUT'
             and not (len(r) > 1 and 'budget' in str(r[1]))][:RECHECK_LIMIT]
    still = 0
    for i in again[:20]:
        res[i] = fresh_eval(fn, args[i], secs * 4)
        still = still + 1 if isinstance(res[i], tuple) and res[i] and res[i][0] == 'TIMEOUT' else 0
        if still >= 3:
            break               # it hangs on its own, not because of the load: no point in waiting for the rest
    return res


# ----------------------------------------------------------------------------
# wire encoding helpers (mirror of coq/Base/Wire.v)

def w_str(s):
    cps = [ord(c) for c in s] if isinstance(s, str) else list(s)
    return [len(cps)] + cps


def w_opt(x, f=lambda v: [v]):
    return [0] if x is None else [1] + f(x)


def w_list(l, f=lambda v: [v]):
    out = [len(l)]
    for x in l:
        out += f(x)
    return out


def w_bool(b):
    return [1 if b else 0]


def show_str(s):
    """same rendering as Wire.show_str"""
    return '"' + '.'.join(str(ord(c)) for c in s) + '"'


def show_opt(x, f=str):
    return '-' if x is None else f(x)


def show_bool(b):
    return 'T' if b else 'F'


def show_list(l, f=str):
    return '[' + ','.join(f(x) for x in l) + ']'


# ----------------------------------------------------------------------------
# known findings, violations, evidence

def load_known():
    p = os.path.join(VERIF, 'known_findings.json')
    if not os.path.exists(p):
        return []
    return json.load(open(p)).get('findings', [])


def match_known(pid, signature, known):
    for k in known:
        if k.get('property') == pid and k.get('status', 'open') == 'open' and k.get('signature') == signature:
            return k
    return None


class Report:
    """Collects what a check run found and turns it into stdout lines, replay
    files, the evidence file and the exit status."""

    def __init__(self, pid, tier, seed):
        self.pid, self.tier, self.seed = pid, tier, seed
        self.t0 = time.time()
        self.violations = []      # dicts with 'signature', 'input', ...
        self.unproved = []        # broken obligations / correspondence without failing input
        self.known_hits = {}
        self.cov = {}
        self.assumptions = []
        self.known = load_known()

    def violation(self, signature, detail):
        k = match_known(self.pid, signature, self.known)
        if k is not None:
            self.known_hits.setdefault(signature, (k, detail))
        else:
            self.violations.append(dict(detail, signature=signature))

    def broken(self, what, detail):
        self.unproved.append(dict(detail, what=what))

    def finish(self, level='proof'):
        os.makedirs(REPLAY, exist_ok=True)
        import glob
        for old in glob.glob(os.path.join(REPLAY, '%s-*.json' % self.pid)):
            try:
                os.remove(old)
            except OSError:
                pass
        lines = []
        for sig, (k, detail) in sorted(self.known_hits.items()):
            lines.append('KNOWN-FINDING: property=%s %s [%s]' % (self.pid, k.get('what', ''), sig))
        # known findings listed in the file but not reproduced are still announced
        for k in self.known:
            if k.get('property') == self.pid and k.get('status', 'open') == 'open' and k['signature'] not in self.known_hits:
                lines.append('KNOWN-FINDING: property=%s %s [%s] (listed; not re-triggered by this run\'s cases)'
                             % (self.pid, k.get('what', ''), k['signature']))
        nviol = 0
        seen = set()
        for v in self.violations:
            if v['signature'] in seen:
                continue
            seen.add(v['signature'])
            nviol += 1
            if nviol > 5:
                continue
            fn = os.path.join(REPLAY, '%s-%d.json' % (self.pid, nviol))
            json.dump(dict(v, property=self.pid, kind='failing-input',
                           how_to_replay='./check %s --replay %s' % (self.pid, fn)),
                      open(fn, 'w'), indent=1, default=str)
            lines.append('VIOLATION property=%s replay=%s' % (self.pid, fn))
        if self.unproved and nviol == 0:
            fn = os.path.join(REPLAY, '%s-unproved.json' % self.pid)
            json.dump({'property': self.pid, 'kind': 'proof-or-correspondence-break',
                       'broken': self.unproved[:10]}, open(fn, 'w'), indent=1, default=str)
            lines.append('VIOLATION property=%s replay=%s no-failing-input-found' % (self.pid, fn))
            nviol += 1
        cov = dict(self.cov)
        cov.setdefault('trusted_base', TRUSTED_BASE)
        ev = {
            'property_id': self.pid, 'tier': self.tier, 'seed': self.seed, 'level': level,
            'coverage': cov, 'assumptions': self.assumptions,
            'wall_s': round(time.time() - self.t0, 2), 'violations': nviol,
            'known_findings_reported': sorted(self.known_hits),
        }
        os.makedirs(EVID, exist_ok=True)
        json.dump(ev, open(os.path.join(EVID, self.pid + '.json'), 'w'), indent=1, default=str)
        for l in lines:
            print(l)
        sys.stdout.flush()
        return 1 if nviol else 0


def get_seed():
    try:
        return int(os.environ.get('VERIF_SEED', '0'))
    except ValueError:
        return 0
