"""Real-code side of the tokenizer / parsing-state correspondence (C11, C17):
build ParsingState objects from field dicts and sub_context chains, run reader
scripts, dump tokens and cached tables in the format of coq/Tok/TokWire.v."""
from common import w_str, w_opt, w_list, w_bool, show_str, show_opt, show_list

DEFAULT_ALPHA = ''.join(chr(ord('a') + j) for j in range(26)) + ''.join(chr(ord('A') + j) for j in range(26))

DEFAULT_FIELDS = dict(
    ctx=None, in_math_mode=False, math_mode_delimiter=None,
    latex_group_delimiters=[('{', '}')],
    latex_inline_math_delimiters=[('$', '$'), ('\\(', '\\)')],
    latex_display_math_delimiters=[('$$', '$$'), ('\\[', '\\]')],
    enable_double_newline_paragraphs=True, enable_macros=True, enable_environments=True,
    enable_comments=True, enable_groups=True, enable_specials=True, enable_math=True,
    macro_alpha_chars=DEFAULT_ALPHA, macro_escape_char='\\', comment_start='%', forbidden_characters='')

FIELD_ORDER = ['ctx', 'in_math_mode', 'math_mode_delimiter', 'latex_group_delimiters',
               'latex_inline_math_delimiters', 'latex_display_math_delimiters',
               'enable_double_newline_paragraphs', 'enable_macros', 'enable_environments', 'enable_comments',
               'enable_groups', 'enable_specials', 'enable_math', 'macro_alpha_chars', 'macro_escape_char',
               'comment_start', 'forbidden_characters']
UPDATE_TAG = {'in_math_mode': 0, 'math_mode_delimiter': 1, 'latex_group_delimiters': 2,
              'latex_inline_math_delimiters': 3, 'latex_display_math_delimiters': 4,
              'enable_double_newline_paragraphs': 5, 'enable_macros': 6, 'enable_environments': 7,
              'enable_comments': 8, 'enable_groups': 9, 'enable_specials': 10, 'enable_math': 11,
              'macro_alpha_chars': 12, 'macro_escape_char': 13, 'comment_start': 14,
              'forbidden_characters': 15, 'ctx': 16}


def w_delims(d):
    return w_list(d, lambda p: w_str(p[0]) + w_str(p[1]))


def w_value(k, v):
    if k == 'ctx':
        # UNKNOWN_FALLBACK is not a specials sequence: it asks make_ctx for a database with an unknown-specials
        # fallback specification (which the tokenizer never consults: the model's context is the list of sequences)
        return w_opt(v, lambda l: w_list([x for x in l if x != UNKNOWN_FALLBACK], w_str))
    if k == 'math_mode_delimiter':
        return w_opt(v, w_str)
    if k.startswith('latex_'):
        return w_delims(v)
    if isinstance(v, bool):
        return w_bool(v)
    return w_str(v)


def w_fields(f):
    out = []
    for k in FIELD_ORDER:
        out += w_value(k, f[k])
    return out


def w_chain(chain):
    return w_list(chain, lambda kw: w_list(list(kw.items()), lambda kv: [UPDATE_TAG[kv[0]]] + w_value(kv[0], kv[1])))


def w_case(fields, chain, s, tol, dump_caches, ops, entry=1100):
    return [entry] + w_fields(fields) + w_chain(chain) + w_str(s) + w_bool(tol) + w_bool(dump_caches) + w_list(ops)


def w_delta(d):
    """wire form of a parsing-state delta description (coq/Tok/Delta.v: rd_delta).  A description is None (a None
    entry of a chain) or {'t': 'set', 'kw': {...}} | {'t': 'enter', 'd': None | str} | {'t': 'leave'} |
    {'t': 'chain', 'l': [descriptions]}"""
    if d is None:
        return [4]
    t = d['t']
    if t == 'set':
        return [0] + w_list(list(d['kw'].items()), lambda kv: [UPDATE_TAG[kv[0]]] + w_value(kv[0], kv[1]))
    if t == 'enter':
        return [1] + w_opt(d['d'], w_str)
    if t == 'leave':
        return [2]
    if t == 'chain':
        return [3] + w_list(d['l'], w_delta)
    raise ValueError(t)


def w_case_delta(fields, delta, s, tol, dump_caches, ops, entry=1703):
    return [entry] + w_fields(fields) + w_delta(delta) + w_str(s) + w_bool(tol) + w_bool(dump_caches) + w_list(ops)


def make_delta(d, s):
    """the REAL delta object of a description (None for None)"""
    from pylatexenc.latexnodes import (ParsingStateDelta, ParsingStateDeltaEnterMathMode,
                                       ParsingStateDeltaLeaveMathMode, ParsingStateDeltaChained)
    if d is None:
        return None
    t = d['t']
    if t == 'set':
        return ParsingStateDelta(set_attributes=_py_kwargs(d['kw'], s))
    if t == 'enter':
        return ParsingStateDeltaEnterMathMode(math_mode_delimiter=d['d'])
    if t == 'leave':
        return ParsingStateDeltaLeaveMathMode()
    if t == 'chain':
        return ParsingStateDeltaChained([make_delta(x, s) for x in d['l']])
    raise ValueError(t)


def apply_delta(fields, d, s):
    """ParsingState(fields) and the state the real delta object makes of it, with a plain LatexWalker (default
    parsing-state event handler).  Returns (result, base state, delta object, walker)."""
    from pylatexenc.latexnodes import ParsingState
    from pylatexenc.latexwalker import LatexWalker
    base = ParsingState(s=s, **_py_kwargs(fields, s))
    lw = LatexWalker(s)
    delta = make_delta(d, s)
    return delta.get_updated_parsing_state(base, lw), base, delta, lw


_ctx_cache = {}


UNKNOWN_FALLBACK = '\x00unknown-fallback'


def make_ctx(specials):
    """A LatexContextDb whose specials, in lookup order, are the given strings."""
    if specials is None:
        return None
    key = tuple(specials)
    if key not in _ctx_cache:
        from pylatexenc.macrospec import LatexContextDb, SpecialsSpec
        db = LatexContextDb()
        for i, sc in enumerate(specials):
            if sc == UNKNOWN_FALLBACK:
                from pylatexenc.macrospec import MacroSpec, EnvironmentSpec
                db.set_unknown_specials_spec(SpecialsSpec(''))
                db.set_unknown_macro_spec(MacroSpec(''))
                db.set_unknown_environment_spec(EnvironmentSpec(''))
                continue
            db.add_context_category('c%d' % i, specials=[SpecialsSpec(sc)])
        db.freeze()
        _ctx_cache[key] = db
    return _ctx_cache[key]


def _py_kwargs(d, s):
    kw = {}
    for k, v in d.items():
        if k == 'ctx':
            kw['latex_context'] = make_ctx(v)
        elif k.startswith('latex_'):
            kw[k] = [tuple(p) for p in v]
        else:
            kw[k] = v
    return kw


def make_state(fields, chain, s):
    from pylatexenc.latexnodes import ParsingState
    ps = ParsingState(s=s, **_py_kwargs(fields, s))
    states = [ps]
    for kw in chain:
        ps = ps.sub_context(**_py_kwargs(kw, s))
        states.append(ps)
    return ps, states


KIND = {'char': 'c', 'macro': 'm', 'begin_environment': 'b', 'end_environment': 'e', 'comment': '#',
        'brace_open': '{', 'brace_close': '}', 'mathmode_inline': '$', 'mathmode_display': 'D', 'specials': 's'}


def tok_arg(t):
    a = t.arg
    if t.tok == 'specials':
        return a.specials_chars
    return a


def dump_token(t):
    return '%s(%s,%d,%d,%s,%s)' % (KIND[t.tok], show_str(tok_arg(t)), t.pos, t.pos_end,
                                   show_str(t.pre_space or ''), show_str(getattr(t, 'post_space', '') or ''))


ERRKIND = {'token_forbidden_character': 'f', 'token_end_of_stream_immediately_after_escape_character': 'x',
           'token_error_parse_beginend_environment_name': 'n'}


def _tokres(fn):
    from pylatexenc.latexnodes import LatexWalkerEndOfStream, LatexWalkerTokenParseError
    try:
        return dump_token_and(fn())
    except LatexWalkerEndOfStream as e:
        return ('EOS(%s)' % show_str(e.final_space or ''), None)
    except LatexWalkerTokenParseError as e:
        return ('ERR(%s,%d)' % (ERRKIND.get((e.error_type_info or {}).get('what'), '?'), e.pos), None)


def dump_token_and(t):
    return (dump_token(t), t)


def dump_caches(ps):
    def kd(tok):
        return KIND[tok]
    go = sorted(set(ps._latex_group_delimchars_by_open.keys()))
    gc = sorted(set(ps._latex_group_delimchars_close))
    bl = sorted(ps._math_all_delims_by_len, key=lambda x: (-len(x[0]), x[0]))
    bo = sorted(ps._math_delims_info_by_open.items())
    mc = sorted(set(ps._math_delims_close))
    ex = ps._math_expecting_close_delim_info
    return ';'.join([
        show_list(go, show_str), show_list(gc, show_str), show_str(ps._math_delims_info_startchars),
        show_list(bl, lambda x: show_str(x[0]) + kd(x[1])),
        show_list(bo, lambda kv: show_str(kv[0]) + ':' + show_str(kv[1]['close_delim']) + kd(kv[1]['tok'])),
        show_list(mc, show_str),
        show_opt(ex, lambda e: show_str(e['close_delim']) + kd(e['tok']))])


def run_script(ps, s, tol, ops, with_caches):
    from pylatexenc.latexnodes import LatexTokenReader, LatexWalkerEndOfStream, LatexWalkerTokenParseError
    tr = LatexTokenReader(s, tolerant_parsing=tol)
    out = []
    if with_caches:
        out.append(dump_caches(ps))
    last = None
    for op in ops:
        if op in (0, 1):
            txt, t = _tokres((lambda: tr.peek_token(ps)) if op == 0 else (lambda: tr.next_token(ps)))
            if t is not None:
                last = t
            out.append(txt + '@%d' % tr.cur_pos())
        elif op == 6:
            toks = []
            p0 = tr.cur_pos()
            res = None
            for _ in range(len(s) + 1):
                try:
                    toks.append(tr.next_token(ps))
                except LatexWalkerEndOfStream as e:
                    res = show_list(toks, dump_token) + show_str(e.final_space or '')
                    break
                except LatexWalkerTokenParseError as e:
                    res = 'ERR(%s,%d)' % (ERRKIND.get((e.error_type_info or {}).get('what'), '?'), e.pos)
                    break
            if res is None:
                res = 'OOF'
            tr.move_to_pos_chars(p0)
            out.append(res)
        else:
            if last is None:
                out.append('-')
                continue
            if op == 2:
                tr.move_to_token(last)
            elif op == 3:
                tr.move_to_token(last, rewind_pre_space=False)
            elif op == 4:
                tr.move_past_token(last)
            else:
                tr.move_past_token(last, fastforward_post_space=False)
            out.append('@%d' % tr.cur_pos())
    return ' '.join(out)


def w_case_multi(states, s, tol, ops, entry=1101):
    """states: list of (fields, chain); ops: list of (op, state index)"""
    return ([entry] + w_list(states, lambda fc: w_fields(fc[0]) + w_chain(fc[1])) + w_str(s) + w_bool(tol)
            + w_list(ops, lambda o: [o[0], o[1]]))


def run_script_multi(states, s, tol, ops):
    """one reader, a TRANSIENT parsing-state object for every operation (built, used once, dropped)"""
    import gc
    from pylatexenc.latexnodes import LatexTokenReader
    tr = LatexTokenReader(s, tolerant_parsing=tol)
    out = []
    last = None
    for op, k in ops:
        ps, _ = make_state(states[k][0], states[k][1], s)
        if op in (0, 1):
            txt, t = _tokres((lambda: tr.peek_token(ps)) if op == 0 else (lambda: tr.next_token(ps)))
            if t is not None:
                last = t
            out.append(txt + '@%d' % tr.cur_pos())
        elif op == 6:
            sub = run_script_from(tr, ps, s)
            out.append(sub)
        else:
            if last is None:
                out.append('-')
            else:
                if op == 2:
                    tr.move_to_token(last)
                elif op == 3:
                    tr.move_to_token(last, rewind_pre_space=False)
                elif op == 4:
                    tr.move_past_token(last)
                else:
                    tr.move_past_token(last, fastforward_post_space=False)
                out.append('@%d' % tr.cur_pos())
        del ps
    return ' '.join(out)


def run_script_from(tr, ps, s):
    from pylatexenc.latexnodes import LatexWalkerEndOfStream, LatexWalkerTokenParseError
    toks = []
    p0 = tr.cur_pos()
    res = None
    for _ in range(len(s) + 1):
        try:
            toks.append(tr.next_token(ps))
        except LatexWalkerEndOfStream as e:
            res = show_list(toks, dump_token) + show_str(e.final_space or '')
            break
        except LatexWalkerTokenParseError as e:
            res = 'ERR(%s,%d)' % (ERRKIND.get((e.error_type_info or {}).get('what'), '?'), e.pos)
            break
    if res is None:
        res = 'OOF'
    tr.move_to_pos_chars(p0)
    return res
