"""Structural decoding of live pylatexenc context databases into the parser
model's [context] (coq/Parse/Parser.v), its wire encoding and its Coq literal.
Fail-closed: anything not understood raises Unsupported."""
from common import w_str, w_opt, w_list, w_bool


class Unsupported(Exception):
    pass


def _delta(d):
    from pylatexenc.latexnodes import ParsingStateDeltaEnterMathMode, ParsingStateDeltaLeaveMathMode
    if d is None:
        return 0
    if type(d) is ParsingStateDeltaEnterMathMode:
        if d.walker_event_kwargs.get('math_mode_delimiter') is not None:
            raise Unsupported('enter-math delta with delimiter')
        return 1
    if type(d) is ParsingStateDeltaLeaveMathMode:
        return 2
    raise Unsupported('parsing state delta %r' % (d,))


def argkind_of(arg_spec, aps=True, rfl=False, sterr=True):
    """mirror of LatexStandardArgumentParser.get_arg_parser_instance"""
    if not sterr:
        raise Unsupported('expression_single_token_requiring_arg_is_error=False')
    a = arg_spec
    if a in ('m', '{'):
        if rfl:
            raise Unsupported('return_full_node_list for expression argument')
        return ('expr', aps)
    if a in ('o', '['):
        return ('group', '[', ']', True, aps)
    if a in ('s', '*'):
        return ('chars', '*', aps, rfl)
    if a.startswith('t') and len(a) == 2:
        return ('chars', a[1], aps, True)
    if a.startswith('r') and len(a) == 3:
        return ('group', a[1], a[2], False, aps)
    if a.startswith('d') and len(a) == 3:
        return ('group', a[1], a[2], True, aps)
    if a == 'v':
        return ('verb', None)
    if a.startswith('v') and len(a) == 3:
        return ('verb', (a[1], a[2]))
    raise Unsupported('argument specification %r' % (a,))


def decode_arg(arg):
    from pylatexenc.latexnodes import LatexArgumentSpec
    from pylatexenc.latexnodes.parsers import LatexStandardArgumentParser
    if isinstance(arg, str):
        return {'spec': arg, 'kind': argkind_of(arg), 'delta': 0}
    if not isinstance(arg, LatexArgumentSpec):
        raise Unsupported('argument %r' % (arg,))
    p = arg.parser
    if isinstance(p, str):
        return {'spec': p, 'kind': argkind_of(p), 'delta': _delta(arg.parsing_state_delta)}
    if type(p) is LatexStandardArgumentParser:
        return {'spec': p.arg_spec,
                'kind': argkind_of(p.arg_spec, p.allow_pre_space, p.return_full_node_list,
                                   p.expression_single_token_requiring_arg_is_error),
                'delta': _delta(arg.parsing_state_delta)}
    raise Unsupported('argument parser %r' % (p,))


def decode_spec(spec):
    from pylatexenc.macrospec._argumentsparser import (LatexArgumentsParser, LatexNoArgumentsParser,
                                                       _LegacyPyltxenc2MacroArgsParserWrapper)
    from pylatexenc.macrospec import VerbatimArgsParser
    from pylatexenc.latexnodes import ParsingStateDeltaEnterMathMode
    ap = spec.arguments_parser
    legacy = False
    if type(ap) is LatexNoArgumentsParser:
        args = ('std', [])
    elif type(ap) is LatexArgumentsParser:
        args = ('std', [decode_arg(a) for a in ap.arguments_spec_list])
    elif type(ap) is _LegacyPyltxenc2MacroArgsParserWrapper:
        legacy = True
        lp = ap.args_parser
        if not isinstance(lp, VerbatimArgsParser):
            raise Unsupported('legacy args parser %r' % (lp,))
        if lp.verbatim_arg_type == 'verb-macro' and not lp.verbatim_argspec:
            args = ('verbmacro',)
        elif lp.verbatim_arg_type == 'verbatim-environment' and lp.verbatim_argspec in ('', '['):
            args = ('verbenv', lp.verbatim_environment_name, lp.verbatim_argspec == '[')
        else:
            raise Unsupported('legacy verbatim parser %r' % (lp,))
    else:
        raise Unsupported('arguments parser %r' % (ap,))
    for fn in ('_fn_make_arguments_parsing_state_delta', '_fn_make_body_parser', '_fn_finalize_node'):
        if hasattr(spec, fn):
            raise Unsupported('%s on %r' % (fn, spec))
    if not legacy:
        for fn in ('_fn_make_body_parsing_state_delta', '_fn_make_after_parsing_state_delta'):
            if hasattr(spec, fn):
                raise Unsupported('%s on %r' % (fn, spec))
    bd = spec.body_parsing_state_delta
    if bd is None:
        body_math = False
    elif type(bd) is ParsingStateDeltaEnterMathMode and bd.walker_event_kwargs.get('math_mode_delimiter') is None:
        body_math = True
    else:
        raise Unsupported('body delta %r' % (bd,))
    return {'args': args, 'body_math': body_math}


def decode_db(db):
    """-> {'macros': [(name, spec)], 'envs': [...], 'specials': [...], 'unk_macro': spec|None, 'unk_env': ...}
    in lookup order (category order, then definition order; the first entry for a name wins)."""
    out = {'macros': [], 'envs': [], 'specials': []}
    for cat in db.category_list:
        d = db.d[cat]
        for k, key in (('macros', 'macros'), ('environments', 'envs'), ('specials', 'specials')):
            for name, spec in d[k].items():
                out[key].append((name, decode_spec(spec)))
    out['unk_macro'] = None if db.unknown_macro_spec is None else decode_spec(db.unknown_macro_spec)
    out['unk_env'] = None if db.unknown_environment_spec is None else decode_spec(db.unknown_environment_spec)
    if db.unknown_specials_spec is not None:
        raise Unsupported('unknown_specials_spec')
    # the effective lookups must agree with "first entry wins" (the model's assoc)
    for key, getter in (('macros', db.get_macro_spec), ('envs', db.get_environment_spec),
                        ('specials', db.get_specials_spec)):
        seen = {}
        for name, sp in out[key]:
            seen.setdefault(name, sp)
        for name, sp in seen.items():
            if decode_spec(getter(name)) != sp:
                raise Unsupported('lookup order of %s %r differs from category order' % (key, name))
    return out


# ---------------------------------------------------------------- wire
def w_kind(k):
    if k[0] == 'expr':
        return [0] + w_bool(k[1])
    if k[0] == 'group':
        return [1] + w_str(k[1]) + w_str(k[2]) + w_bool(k[3]) + w_bool(k[4])
    if k[0] == 'chars':
        return [2] + w_str(k[1]) + w_bool(k[2]) + w_bool(k[3])
    if k[0] == 'verb':
        return [3] + w_opt(k[1], lambda p: w_str(p[0]) + w_str(p[1]))
    raise ValueError(k)


def w_arg(a):
    return w_str(a['spec']) + w_kind(a['kind']) + [a['delta']]


def w_spec(sp):
    a = sp['args']
    if a[0] == 'std':
        ap = [0] + w_list(a[1], w_arg)
    elif a[0] == 'verbmacro':
        ap = [1]
    else:
        ap = [2] + w_str(a[1]) + w_bool(a[2])
    return ap + w_bool(sp['body_math'])


def w_ctx(cx):
    named = lambda ns: w_str(ns[0]) + w_spec(ns[1])
    return (w_list(cx['macros'], named) + w_list(cx['envs'], named) + w_list(cx['specials'], named)
            + w_opt(cx['unk_macro'], w_spec) + w_opt(cx['unk_env'], w_spec))


# ---------------------------------------------------------------- Coq literal
def c_str(s):
    return '[' + ';'.join(str(ord(c)) for c in s) + ']%N'


def c_bool(b):
    return 'true' if b else 'false'


def c_kind(k):
    if k[0] == 'expr':
        return '(AKExpr %s)' % c_bool(k[1])
    if k[0] == 'group':
        return '(AKGroup %s %s %s %s)' % (c_str(k[1]), c_str(k[2]), c_bool(k[3]), c_bool(k[4]))
    if k[0] == 'chars':
        return '(AKChars %s %s %s)' % (c_str(k[1]), c_bool(k[2]), c_bool(k[3]))
    if k[1] is None:
        return '(AKVerb None)'
    return '(AKVerb (Some (%s, %s)))' % (c_str(k[1][0]), c_str(k[1][1]))


def c_arg(a):
    return '{| a_spec := %s; a_kind := %s; a_delta := %s |}' % (
        c_str(a['spec']), c_kind(a['kind']), ['ADNone', 'ADEnterMath', 'ADLeaveMath'][a['delta']])


def c_spec(sp):
    a = sp['args']
    if a[0] == 'std':
        ap = '(APStd [%s])' % '; '.join(c_arg(x) for x in a[1])
    elif a[0] == 'verbmacro':
        ap = '(APLegacy LVerbMacro)'
    else:
        ap = '(APLegacy (LVerbEnv %s %s))' % (c_str(a[1]), c_bool(a[2]))
    return '{| sp_args := %s; sp_body_math := %s |}' % (ap, c_bool(sp['body_math']))


def c_named_list(l):
    return '[\n   ' + ';\n   '.join('(%s, %s)' % (c_str(n), c_spec(sp)) for n, sp in l) + ']'


def c_opt(o):
    return 'None' if o is None else '(Some %s)' % c_spec(o)
