"""C11 — tokenizer is lossless, always advances, and peeking has no effect."""
import itertools, random, collections
import tokharness as T

PID = 'C11'
PROJECTION = 'tokens'
RULE = ('all strings up to length L (symbols) over a per-configuration alphabet of LaTeX-significant symbols '
        '(single characters plus \\(, \\[, \\begin{e}, \\end{e}, \\m as symbols) x ~50 parsing-state configurations '
        '(math mode x delimiter, every enable_* switch, extra group delimiters, custom escape/comment/alpha/forbidden, '
        'custom math delimiters, with/without context db incl. paragraph specials) x strict and tolerant reader; '
        'each case runs a reader script (read-all, then peek,peek,next,rewind,next ... with all four move variants); '
        'plus random longer strings. Non-trivial: the string yields at least two tokens.')
EXHAUSTIVE = {'quick': True, 'thorough': True}
ASSUMPTIONS = ['str.isspace() table taken from the running interpreter (coq/Gen/GenUnicode.v)',
               're \\s agrees with str.isspace (validated by correspondence only)',
               'ps_wf: escape and group delimiters are single characters, math delimiters and comment start are non-empty '
               '(the assumptions the source states in comments)']
PARTIAL = []
REFUTED = []
CASE_TIMEOUT = 10.0

BASE = ['a', ' ', '\n', '\\', '{', '}', '$', '%']
SPECIALS = ['~', '-', '--', '---', '``', "''", '&']


def D(**kw):
    f = dict(T.DEFAULT_FIELDS)
    f.update(kw)
    return f


def configs():
    c = []
    c.append(('default-noctx', D(), BASE + ['[', ']', '~', '-', '&', '*', '\\(', '\\[', '\\)', '\\]', '\\begin{e}', '\\end{e}', '\\m', 'b']))
    c.append(('ctx', D(ctx=SPECIALS), BASE + ['~', '-', '`', "'", '&']))
    # a database that registers a specials specification with EMPTY characters (a placeholder): it never matches
    c.append(('ctx-emptyspecials', D(ctx=['', '~', '--']), ['a', '~', '-', ' ', '\n', '\\', '$', '%']))
    # a database with fallback specifications for unknown macros / environments / SPECIALS (a placeholder with empty
    # characters): the tokenizer looks for declared sequences only
    c.append(('ctx-unknown-fallback', D(ctx=[T.UNKNOWN_FALLBACK, '~', '--']), ['a', '~', '-', ' ', '\n', '\\', '$', '%']))
    c.append(('ctx-par', D(ctx=SPECIALS + ['\n\n']), ['a', ' ', '\n', '\\', '%', '-', '\t']))
    c.append(('ctx-par-nodnp', D(ctx=SPECIALS + ['\n\n'], enable_double_newline_paragraphs=False), ['a', ' ', '\n', '\\', '%']))
    c.append(('ctx-nospecials', D(ctx=SPECIALS, enable_specials=False), ['a', '~', '-', '\n', ' ']))
    for md in ['$', '$$', '\\(', '\\[', None, 'x']:
        c.append(('math-%s' % md, D(in_math_mode=True, math_mode_delimiter=md),
                  ['a', ' ', '$', '\\(', '\\)', '\\[', '\\]', '\\', '{', '}']))
    c.append(('nomath', D(enable_math=False), ['a', '$', '\\(', '\\[', '\\', ' ']))
    c.append(('nomath-inmath', D(enable_math=False, in_math_mode=True, math_mode_delimiter='$'), ['a', '$', '\\(', ' ']))
    c.append(('nomacros', D(enable_macros=False), BASE + ['\\begin{e}', '\\m']))
    c.append(('noenvs', D(enable_environments=False), ['a', ' ', '\\begin{e}', '\\end{e}', '\\begin', '\\', '{', '\n']))
    c.append(('nomacros-noenvs', D(enable_macros=False, enable_environments=False), ['a', '\\', '\\begin{e}', '%', '{', ' ']))
    c.append(('nocomments', D(enable_comments=False), ['a', '%', '\n', ' ', '\\']))
    c.append(('nogroups', D(enable_groups=False), ['a', '{', '}', ' ', '\\']))
    c.append(('nodnp', D(enable_double_newline_paragraphs=False), ['a', ' ', '\n', '%', '\\m', '\t']))
    c.append(('dnp', D(), ['a', ' ', '\n', '%', '\\m', '\t', '\r']))
    c.append(('groups2', D(latex_group_delimiters=[('{', '}'), ('[', ']')]), ['a', '{', '}', '[', ']', ' ']))
    c.append(('groups-angle', D(latex_group_delimiters=[('<', '>')]), ['a', '{', '}', '<', '>', ' ']))
    c.append(('escape-at', D(macro_escape_char='@'), ['a', '@', '\\', ' ', '@begin{e}', '{', '\n']))
    c.append(('comment-hash', D(comment_start='#'), ['a', '#', '%', '\n', ' ']))
    c.append(('comment-2', D(comment_start='%%'), ['a', '%', '\n', ' ', '\\']))
    c.append(('forbidden', D(forbidden_characters='#$a'), ['a', 'b', '#', '$', ' ', '\\', '{']))
    c.append(('forbidden-nomath', D(forbidden_characters='$', enable_math=False), ['a', '$', ' ']))
    c.append(('alpha-at', D(macro_alpha_chars=T.DEFAULT_ALPHA + '@'), ['a', '@', '\\', ' ', '1', '\n']))
    c.append(('alpha-digits', D(macro_alpha_chars='ab1'), ['a', 'b', 'c', '1', '\\', ' ', '\\begin', '\\end']))
    c.append(('mathdelims-custom', D(latex_inline_math_delimiters=[('$', '$'), ('<<', '>>')],
                                     latex_display_math_delimiters=[('$$$', '$$$')]),
              ['a', '$', '<', '>', ' ', '\\']))
    c.append(('mathdelims-custom-in', D(latex_inline_math_delimiters=[('$', '!')], latex_display_math_delimiters=[('$', '?')],
                                        in_math_mode=True, math_mode_delimiter='$'),
              ['a', '$', '!', '?', ' ']))
    c.append(('mathdelims-overlap', D(latex_inline_math_delimiters=[('$', '$')], latex_display_math_delimiters=[('$', '$'), ('$$', '$$')]),
              ['a', '$', ' ']))
    c.append(('envnames', D(), ['\\begin', '\\end', '{', '}', 'a', ' ', '*', '!', '\n', '\\begin{a b}', '#']))
    c.append(('begin-alpha', D(), ['\\begin', '\\end', 'a', '{', 'x}', ' ', '\\beginx', '\\ending{']))
    c.append(('unispace', D(), ['a', ' ', ' ', '\x1c', '\x85', '\n', '\\m', '%', '​']))
    c.append(('trailing', D(), ['\\', 'a', ' ', '\\begin', '\\end', '\\begin{', '%']))
    c.append(('noctx-inmath-env', D(in_math_mode=True, math_mode_delimiter=None), ['a', '$', '\\]', '\\begin{e}', ' ']))
    return c


SCRIPT_TAIL = [0, 0, 1, 2, 1, 3, 5, 4]


def _script(n):
    return [6] + SCRIPT_TAIL * (n + 1)


def _case(name, fields, s, tol, ops=None):
    if ops is None:
        ops = _script(min(len(s), 6))
    return {'wire': T.w_case(fields, [], s, tol, False, ops),
            'desc': {'config': name, 'fields': _diff(fields), 's': s, 'tolerant': tol, 'ops': ops},
            'nt': None}


def _diff(f):
    return {k: v for k, v in f.items() if v != T.DEFAULT_FIELDS[k]}


def case_from_desc(d):
    if d['config'] == 'multi':
        return {'wire': T.w_case_multi(_multi_states(d), d['s'], d['tolerant'], [tuple(o) for o in d['ops']]), 'desc': d, 'nt': True}
    f = dict(T.DEFAULT_FIELDS)
    f.update(d['fields'])
    for k in list(f):
        if k.startswith('latex_'):
            f[k] = [tuple(p) for p in f[k]]
    return _case(d['config'], f, d['s'], d['tolerant'], d['ops'])


def gen_cases(seed, tier):
    L = 3 if tier == 'quick' else 4
    rnd = random.Random(seed)
    cases = []
    for name, f, alpha in configs():
        LL = L if len(alpha) <= 12 else L - (1 if tier == 'quick' else 1)
        if name == 'default-noctx':
            LL = L
        for n in range(LL + 1):
            for t in itertools.product(alpha, repeat=n):
                s = ''.join(t)
                for tol in (False, True):
                    cases.append(_case(name, f, s, tol))
        for _ in range(40 if tier == 'quick' else 400):
            s = ''.join(rnd.choice(alpha) for _ in range(rnd.randint(5, 30)))
            tol = rnd.random() < 0.5
            ops = [rnd.choice([0, 1, 1, 1, 2, 3, 4, 5, 6]) for _ in range(rnd.randint(5, 40))]
            cases.append(_case(name, f, s, tol, ops))
    # several parsing states used alternately on ONE reader, each through a transient state object
    cf = configs()
    groups = [['default-noctx', 'nomath', 'math-$', 'nogroups'], ['ctx', 'ctx-nospecials', 'nocomments'],
              ['default-noctx', 'nomacros', 'noenvs', 'escape-at'], ['dnp', 'nodnp', 'comment-hash']]
    byname = {n: f for n, f, _ in cf}
    for _ in range(400 if tier == 'quick' else 6000):
        g = rnd.choice(groups)
        states = [(byname[n], []) for n in g]
        if rnd.random() < 0.5:
            states.append((byname[g[0]], [{'enable_math': False}]))
            states.append((byname[g[0]], [{'in_math_mode': True, 'math_mode_delimiter': '$'}]))
        alpha = ['a', ' ', '$', '{', '}', '%', '\\', '~', '-', '@', '#', '\n', '\\(', '\\begin{e}', '\\m']
        s = ''.join(rnd.choice(alpha) for _ in range(rnd.randint(2, 12)))
        ops = []
        for _ in range(rnd.randint(4, 24)):
            k = rnd.randrange(len(states))
            r = rnd.random()
            if r < 0.45:
                # peek under one state, then peek / read under another at the same position
                ops.append((0, k))
                ops.append((rnd.choice([0, 1]), rnd.randrange(len(states))))
            else:
                ops.append((rnd.choice([0, 1, 1, 2, 3, 4, 5, 6]), k))
        cases.append({'wire': T.w_case_multi(states, s, rnd.random() < 0.5, ops) if False else None,
                      'desc': {'config': 'multi', 'states': [[_diff(f), ch] for f, ch in states], 's': s,
                               'tolerant': None, 'ops': [list(o) for o in ops]}, 'nt': None})
        tol = rnd.random() < 0.5
        cases[-1]['desc']['tolerant'] = tol
        cases[-1]['wire'] = T.w_case_multi(states, s, tol, ops)
    for c in cases:
        c['nt'] = sum(1 for ch in c['desc']['s'] if not ch.isspace()) >= 2
    return cases


def _ps(d):
    f = dict(T.DEFAULT_FIELDS)
    f.update(d['fields'])
    ps, _ = T.make_state(f, [], d['s'])
    return ps


def _multi_states(d):
    out = []
    for fd, ch in d['states']:
        f = dict(T.DEFAULT_FIELDS)
        f.update(fd)
        for k in list(f):
            if k.startswith('latex_'):
                f[k] = [tuple(p) for p in f[k]]
        out.append((f, ch))
    return out


def impl(c):
    d = c['desc']
    if d['config'] == 'multi':
        return T.run_script_multi(_multi_states(d), d['s'], d['tolerant'], [tuple(o) for o in d['ops']])
    return T.run_script(_ps(d), d['s'], d['tolerant'], d['ops'], False)


def oracle(c):
    """The four relations of the property on the real reader."""
    from pylatexenc.latexnodes import LatexTokenReader, LatexWalkerEndOfStream, LatexWalkerTokenParseError
    d = c['desc']
    if d['config'] == 'multi':
        return _oracle_multi(d)
    s, tol = d['s'], d['tolerant']
    ps = _ps(d)
    tr = LatexTokenReader(s, tolerant_parsing=tol)
    acc = ''
    n = 0
    while True:
        p0 = tr.cur_pos()
        try:
            pk = tr.peek_token(ps)
        except LatexWalkerEndOfStream as e:
            if tr.cur_pos() != p0:
                return ('peek-moves-at-eos', {'pos': p0, 'after': tr.cur_pos()})
            acc += (e.final_space or '')
            if acc != s:
                return ('not-lossless', {'reconstructed': acc})
            return None
        except LatexWalkerTokenParseError as e:
            if tol:
                return ('tolerant-token-error-raised', {'pos': p0})
            if tr.cur_pos() != p0:
                return ('peek-moves-on-error', {'pos': p0, 'after': tr.cur_pos()})
            # a token that cannot be read is an error for the None-returning variant too, not "end of stream"
            try:
                r = tr.peek_token_or_none(ps)
            except LatexWalkerTokenParseError:
                return None
            except Exception as e2:
                return ('peek_token_or_none-raised-%s' % type(e2).__name__, {'pos': p0})
            return ('peek_token_or_none-hides-token-error', {'pos': p0, 'returned': None if r is None else T.dump_token(r)})
        except Exception as e:            # anything but a token error / end of stream escaping from a read
            return ('token-read-raised-%s' % type(e).__name__, {'pos': p0, 'message': str(e)[:200]})
        if tr.cur_pos() != p0:
            return ('peek-moves', {'pos': p0, 'after': tr.cur_pos(), 'token': T.dump_token(pk)})
        # the None-returning variant sees the same token (None only at the end of the stream)
        try:
            pkn = tr.peek_token_or_none(ps)
        except Exception as e:
            return ('peek_token_or_none-raised-where-peek-returns', {'pos': p0, 'exception': type(e).__name__})
        if pkn is None or T.dump_token(pkn) != T.dump_token(pk) or tr.cur_pos() != p0:
            return ('peek_token_or_none-differs-from-peek', {'pos': p0, 'peek': T.dump_token(pk),
                                                             'or_none': None if pkn is None else T.dump_token(pkn)})
        pk2 = tr.peek_token(ps)
        if T.dump_token(pk2) != T.dump_token(pk):
            return ('peek-not-idempotent', {'pos': p0, 'first': T.dump_token(pk), 'second': T.dump_token(pk2)})
        t = tr.next_token(ps)
        if T.dump_token(t) != T.dump_token(pk):
            return ('peek-differs-from-next', {'pos': p0, 'peek': T.dump_token(pk), 'next': T.dump_token(t)})
        p1 = tr.cur_pos()
        if not p1 > p0:
            return ('no-progress', {'pos': p0, 'after': p1, 'token': T.dump_token(t)})
        if p1 != t.pos_end:
            return ('position-not-token-end', {'pos': p0, 'after': p1, 'token': T.dump_token(t)})
        if not (p0 <= t.pos - len(t.pre_space) and t.pos <= t.pos_end <= len(s)):
            return ('token-span-out-of-range', {'token': T.dump_token(t)})
        if t.pos - len(t.pre_space) != p0:
            return ('token-does-not-start-at-reader', {'pos': p0, 'token': T.dump_token(t)})
        acc += t.pre_space + s[t.pos:t.pos_end]
        n += 1
        if n > len(s):
            return ('too-many-tokens', {'count': n})
        # the four ways of moving relative to a token land where documented
        ps_len = len(getattr(t, 'post_space', '') or '')
        for how, want in ((lambda: tr.move_past_token(t), t.pos_end),
                          (lambda: tr.move_past_token(t, fastforward_post_space=False), t.pos_end - ps_len),
                          (lambda: tr.move_to_token(t, rewind_pre_space=False), t.pos),
                          (lambda: tr.move_to_token(t), t.pos - len(t.pre_space))):
            how()
            if tr.cur_pos() != want:
                return ('move-relative-to-token-lands-elsewhere', {'token': T.dump_token(t), 'expected': want,
                                                                   'observed': tr.cur_pos()})
        # rewind and read again
        tr.move_to_token(t)
        if tr.cur_pos() != p0:
            return ('rewind-position', {'pos': p0, 'after': tr.cur_pos()})
        t2 = tr.next_token(ps)
        if T.dump_token(t2) != T.dump_token(t) or tr.cur_pos() != p1:
            return ('rewind-differs', {'first': T.dump_token(t), 'second': T.dump_token(t2)})


def _oracle_multi(d):
    """whatever was peeked or read before with other (transient) states, a peek / read under a state returns what a
    FRESH reader placed at the same position returns under that state, and a peek does not move"""
    import gc
    from pylatexenc.latexnodes import LatexTokenReader
    s, tol = d['s'], d['tolerant']
    states = _multi_states(d)
    tr = LatexTokenReader(s, tolerant_parsing=tol)
    last = None
    for op, k in d['ops']:
        ps, _ = T.make_state(states[k][0], states[k][1], s)
        p0 = tr.cur_pos()
        if op in (0, 1):
            fr = LatexTokenReader(s, tolerant_parsing=tol)
            fr.move_to_pos_chars(p0)
            want, _t = T._tokres((lambda: fr.peek_token(ps)) if op == 0 else (lambda: fr.next_token(ps)))
            got, t = T._tokres((lambda: tr.peek_token(ps)) if op == 0 else (lambda: tr.next_token(ps)))
            if got != want or tr.cur_pos() != fr.cur_pos():
                return ('reader-history-changes-token', {'op': op, 'state': k, 'pos': p0, 'used_reader': got,
                                                         'fresh_reader': want, 'positions': [tr.cur_pos(), fr.cur_pos()]})
            if t is not None:
                last = t
        elif op != 6 and last is not None:
            if op == 2:
                tr.move_to_token(last)
            elif op == 3:
                tr.move_to_token(last, rewind_pre_space=False)
            elif op == 4:
                tr.move_past_token(last)
            else:
                tr.move_past_token(last, fastforward_post_space=False)
        del ps
    return None


def distribution(cases, impl_out):
    k = collections.Counter(c['desc']['config'] for c in cases)
    kinds = collections.Counter()
    errs = 0
    for o in impl_out:
        if isinstance(o, str):
            first = o.split(' ', 1)[0]
            if first.startswith('ERR'):
                errs += 1
            for ch in 'cmbe#{}$Ds':
                if ch + '("' in first:
                    kinds[ch] += 1
    return {'cases_per_config': dict(k), 'cases_whose_full_read_hit_a_token_error': errs,
            'cases_containing_token_kind': dict(kinds),
            'tolerant': sum(1 for c in cases if c['desc']['tolerant'])}
