"""C14 — context database lookups follow category order under every build history.

Cases are operation histories over real `LatexContextDb` objects.  `impl` drives
the real objects and dumps, after every operation, its outcome and the answers
of every live database (the text the Coq heap model prints).  `oracle` checks
the property itself on the real objects: (b) every lookup is the definition of
the first category, in `categories()` order, whose `iter_*_specs([cat])`
contains the name, else the unknown-spec; `test_for_specials` is the longest
match, ties to the earlier category; (c) the answers equal those of an
independent ordered-list-of-dicts specification of the history; (d) operations
on one database never change the answers of another, and deriving never changes
the source; (e) frozen databases refuse modification."""
import itertools, random, collections
from common import w_str, w_opt, w_list

PID = 'C14'
PROJECTION = 'dbobs'
RULE = ('operation histories over LatexContextDb (new, add_context_category with append/prepend/insert_before/'
        'insert_after and explicit or auto-generated name, set_unknown_*_spec, freeze, filtered_context, extended_with '
        'both branches) over categories {A,B,C,auto}, macros {m,n}, environment {e}, specials {-,--}; after every '
        'operation every live database is asked categories(), every lookup, test_for_specials at every position of '
        '"a--", iter_* with and without category lists. Streams: A = every sequence of length L_A over the full '
        'placement alphabet on one database (and its derivations); B = every sequence of length L_B over a reduced '
        'alphabet targeting every live database; sequences are cut after an operation that raises (it leaves the '
        'state unchanged). Plus seeded random histories up to length 25. Non-trivial: at least two operations succeed '
        'after the first `new`.')
EXHAUSTIVE = {'quick': True, 'thorough': True}
ASSUMPTIONS = [
    'collections.ChainMap semantics (first map that has the key; new_child prepends; .maps is a plain list) modelled from its documentation',
    'dict preserves insertion order and keeps the position of a re-assigned key (Python >= 3.7)',
    'the model reads the source of filtered_context once up front (sound because adding to the new database cannot mutate the source: theorem C14_sources_undisturbed)',
    'model tracks /repo WITH fixes/C14-chainmap-index.diff and fixes/C14-filter-autogen.diff applied',
]
PARTIAL = []
REFUTED = []
CASE_TIMEOUT = 10.0
ALWAYS_SEARCH = False

PREFIX = '__lctxdb_cat_'
USERCATS = 'ABCDEFGH'
MACROS = ['m', 'n']
ENVS = ['e']
SPECIALS = ['-', '--']
TESTS = [('a--', [0, 1, 2, 3])]
ITERS = [[('u', 0)], [('a', 0), ('u', 1)]]
KINDS = ['macros', 'environments', 'specials']


# ---------------------------------------------------------------------------------------------
# wire encoding (mirror of coq/Entry/E14.v)

def _w_cat(c):
    return [0 if c[0] == 'u' else 1, c[1]]


def _w_spec(s):
    return w_str(s[0]) + [s[1]]


def _w_pl(pl):
    if pl[0] == 'append':
        return [0]
    if pl[0] == 'prepend':
        return [1]
    return [2 if pl[0] == 'before' else 3] + _w_cat(pl[1])


def _w_oo(x):
    # option (option spec): absent -> 0 ; ['set', None] -> 1 0 ; ['set', spec] -> 1 1 spec
    if x is None:
        return [0]
    return [1] + w_opt(x[1], _w_spec)


def _w_op(o):
    t = o[0]
    if t == 'new':
        return [0]
    if t == 'add':
        _, h, c, ms, es, ss, pl = o
        return [1, h] + w_opt(c, _w_cat) + w_list(ms, _w_spec) + w_list(es, _w_spec) + w_list(ss, _w_spec) + _w_pl(pl)
    if t == 'setunk':
        _, h, k, v = o
        return [2, h, k] + w_opt(v, _w_spec)
    if t == 'freeze':
        return [3, o[1]]
    if t == 'filter':
        _, h, keep, excl, which = o
        return [4, h] + w_list(keep, _w_cat) + w_list(excl, _w_cat) + w_list(which)
    if t == 'extend':
        _, h, c, ms, es, ss, um, ue, us = o
        return ([5, h] + w_opt(c, _w_cat) + w_list(ms, _w_spec) + w_list(es, _w_spec) + w_list(ss, _w_spec)
                + _w_oo(um) + _w_oo(ue) + _w_oo(us))
    raise ValueError(t)


_UNI = (w_list(MACROS, w_str) + w_list(ENVS, w_str) + w_list(SPECIALS, w_str)
        + w_list(TESTS, lambda t: w_str(t[0]) + w_list(t[1]))
        + w_list(ITERS, lambda cs: w_list(cs, _w_cat)))


def _tup(x):
    """JSON round trip turns tuples into lists; normalise to tuples for cats/specs."""
    if isinstance(x, list):
        return tuple(_tup(y) for y in x)
    return x


def _case(ops, src):
    ops = [list(o) for o in ops]
    # non-trivial: besides the first `new`, at least two operations that succeed (on the specification)
    sd, good = [], 0
    for o in ops:
        if not apply_spec(sd, _norm_op(o))[0].isupper():
            good += 1
    return {'wire': [1400] + _UNI + w_list(ops, _w_op), 'desc': {'ops': ops, 'src': src},
            'nt': good >= 3}


def case_from_desc(d):
    return _case([_norm_op(o) for o in d['ops']], d.get('src', 'replay'))


def _norm_op(o):
    o = list(o)

    def cat(c):
        return None if c is None else (c[0], c[1])

    def specs(l):
        return [(s[0], s[1]) for s in l]
    t = o[0]
    if t == 'add':
        pl = list(o[6])
        if len(pl) > 1:
            pl[1] = cat(pl[1])
        return ['add', o[1], cat(o[2]), specs(o[3]), specs(o[4]), specs(o[5]), pl]
    if t == 'setunk':
        return ['setunk', o[1], o[2], None if o[3] is None else (o[3][0], o[3][1])]
    if t == 'filter':
        return ['filter', o[1], [cat(c) for c in o[2]], [cat(c) for c in o[3]], list(o[4])]
    if t == 'extend':
        def oo(x):
            if x is None:
                return None
            return ['set', None if x[1] is None else (x[1][0], x[1][1])]
        return ['extend', o[1], cat(o[2]), specs(o[3]), specs(o[4]), specs(o[5]), oo(o[6]), oo(o[7]), oo(o[8])]
    return o


# ---------------------------------------------------------------------------------------------
# driving the real objects

class Sp(object):
    """a spec object: carries its name under all three attribute names and an identity"""
    __slots__ = ('macroname', 'environmentname', 'specials_chars', 'i')

    def __init__(self, name, i):
        self.macroname = self.environmentname = self.specials_chars = name
        self.i = i

    def __repr__(self):
        return 'Sp(%r,%d)' % (self.macroname, self.i)


def _catname(c):
    if c is None:
        return None
    return USERCATS[c[1]] if c[0] == 'u' else PREFIX + str(c[1])


def _showcat(name):
    if name.startswith(PREFIX):
        return 'a' + name[len(PREFIX):]
    return 'u%d' % USERCATS.index(name)


def _mk(s):
    return None if s is None else Sp(s[0], s[1])


def _sid(v):
    return '-' if v is None else str(v.i)


def apply_real(dbs, o):
    """apply one operation to the list of real databases; returns the result text"""
    from pylatexenc.macrospec import LatexContextDb
    t = o[0]
    try:
        if t == 'new':
            dbs.append(LatexContextDb())
            return 'n%d' % (len(dbs) - 1)
        db = dbs[o[1]]
        if t == 'add':
            _, h, c, ms, es, ss, pl = o
            kw = {}
            if pl[0] == 'prepend':
                kw['prepend'] = True
            elif pl[0] == 'before':
                kw['insert_before'] = _catname(pl[1])
            elif pl[0] == 'after':
                kw['insert_after'] = _catname(pl[1])
            # the specifications are handed over as one-shot iterables / tuples as well as lists (documented: "iterable")
            wrap = [list, iter, tuple, lambda l: (x for x in l)][(len(ms) + 2 * len(es) + len(ss) + len(dbs)) % 4]
            db.add_context_category(_catname(c), macros=wrap([_mk(s) for s in ms]), environments=wrap([_mk(s) for s in es]),
                                    specials=wrap([_mk(s) for s in ss]), **kw)
            return 'ok'
        if t == 'setunk':
            _, h, k, v = o
            [db.set_unknown_macro_spec, db.set_unknown_environment_spec, db.set_unknown_specials_spec][k](_mk(v))
            return 'ok'
        if t == 'freeze':
            db.freeze()
            return 'ok'
        if t == 'filter':
            _, h, keep, excl, which = o
            n = db.filtered_context(keep_categories=[_catname(c) for c in keep],
                                    exclude_categories=[_catname(c) for c in excl],
                                    keep_which=[KINDS[k] for k in which])
            dbs.append(n)
            return 'n%d' % (len(dbs) - 1)
        if t == 'extend':
            _, h, c, ms, es, ss, um, ue, us = o
            kw = {}
            for key, x in (('unknown_macro_spec', um), ('unknown_environment_spec', ue), ('unknown_specials_spec', us)):
                if x is not None:
                    kw[key] = _mk(x[1])
            wrap = [list, iter, tuple][(len(ms) + len(es) + len(ss) + len(dbs)) % 3]
            n = db.extended_with(category=_catname(c), macros=wrap([_mk(s) for s in ms]), environments=wrap([_mk(s) for s in es]),
                                 specials=wrap([_mk(s) for s in ss]), **kw)
            dbs.append(n)
            return 'n%d' % (len(dbs) - 1)
    except (RuntimeError, ValueError, KeyError, TypeError, IndexError, AttributeError) as e:
        return type(e).__name__
    raise ValueError(t)


_GETTERS = ['get_macro_spec', 'get_environment_spec', 'get_specials_spec']
_ITERS = ['iter_macro_specs', 'iter_environment_specs', 'iter_specials_specs']


def _lookup(db, k, name):
    """(found, value): found iff raise_if_not_found=True does not raise"""
    g = getattr(db, _GETTERS[k])
    try:
        return True, g(name, raise_if_not_found=True)
    except KeyError:
        return False, g(name)


def _iter(db, k, cats):
    out, raised = [], False
    try:
        for s in getattr(db, _ITERS[k])(cats):
            out.append(s)
    except ValueError:
        raised = True
    return out, raised


def answers(db):
    """the list of answer strings of one database, in the order of E14.queries"""
    a = ['T' if db.frozen else 'F', '[' + ','.join(_showcat(c) for c in db.categories()) + ']']
    for k, names in enumerate((MACROS, ENVS, SPECIALS)):
        for n in names:
            f, v = _lookup(db, k, n)
            a.append(_sid(v) if f else '~' + _sid(v))
    for s, ps in TESTS:
        for p in ps:
            a.append(_sid(db.test_for_specials(s, p)))
    for k in range(3):
        l, r = _iter(db, k, None)
        a.append('[' + ','.join(_sid(x) for x in l) + ']' + ('!' if r else ''))
    for cs in ITERS:
        for k in range(3):
            l, r = _iter(db, k, [_catname(c) for c in cs])
            a.append('[' + ','.join(_sid(x) for x in l) + ']' + ('!' if r else ''))
    return a


def _ops(c):
    return [_norm_op(o) for o in c['desc']['ops']]


def impl(c):
    dbs, out = [], []
    for o in _ops(c):
        r = apply_real(dbs, o)
        out.append(r + ''.join('{' + ','.join(answers(db)) + '}' for db in dbs))
    return '|'.join(out)


# ---------------------------------------------------------------------------------------------
# the independent specification: an ordered list of (name, {macros}, {environments}, {specials})

class SpecDb(object):
    def __init__(self):
        self.cats = []            # [name, [dict, dict, dict]]
        self.unk = [None, None, None]
        self.frozen = False
        self.counter = 0

    def names(self):
        return [c[0] for c in self.cats]

    def fresh(self):
        n = self.counter
        while ('a', n) in self.names():
            n += 1
        return n

    def lookup(self, k, name):
        for c in self.cats:
            if name in c[1][k]:
                return True, c[1][k][name]
        return False, self.unk[k]

    def test(self, s, pos):
        best = None
        for c in self.cats:
            for key, v in c[1][2].items():
                if key and s.startswith(key, pos) and (best is None or len(key) > len(best[0])):
                    best = (key, v)
        return None if best is None else best[1]

    def iter(self, k, cats):
        out = []
        for name in (self.names() if cats is None else cats):
            for c in self.cats:
                if c[0] == name:
                    out += list(c[1][k].values())
                    break
            else:
                return out, True
        return out, False

    def answers(self):
        sid = lambda v: '-' if v is None else str(v[1])
        a = ['T' if self.frozen else 'F', '[' + ','.join('%s%d' % c for c in self.names()) + ']']
        for k, names in enumerate((MACROS, ENVS, SPECIALS)):
            for n in names:
                f, v = self.lookup(k, n)
                a.append(sid(v) if f else '~' + sid(v))
        for s, ps in TESTS:
            for p in ps:
                a.append(sid(self.test(s, p)))
        for cs in [None] + ITERS:
            for k in range(3):
                l, r = self.iter(k, cs)
                a.append('[' + ','.join(sid(x) for x in l) + ']' + ('!' if r else ''))
        return a


def _dict_of(specs):
    d = {}
    for s in specs:
        d[s[0]] = s
    return d


def apply_spec(sdbs, o):
    """what the operation means on the specification; returns the result text"""
    t = o[0]
    if t == 'new':
        sdbs.append(SpecDb())
        return 'n%d' % (len(sdbs) - 1)
    s = sdbs[o[1]]
    if t == 'add':
        _, h, c, ms, es, ss, pl = o
        if s.frozen:
            return 'RuntimeError'
        if c is not None and c[0] == 'a':
            return 'ValueError'
        if c is None:
            n = s.fresh()
            c = ('a', n)
            s.counter = n + 1
        names = s.names()
        if c in names:
            return 'ValueError'
        if pl[0] == 'append':
            i = len(names)
        elif pl[0] == 'prepend':
            i = 0
        elif pl[0] == 'before':
            i = names.index(pl[1]) if pl[1] in names else 0
        else:
            i = names.index(pl[1]) + 1 if pl[1] in names else len(names)
        s.cats.insert(i, [c, [_dict_of(ms), _dict_of(es), _dict_of(ss)]])
        return 'ok'
    if t == 'setunk':
        if s.frozen:
            return 'RuntimeError'
        s.unk[o[2]] = o[3]
        return 'ok'
    if t == 'freeze':
        s.frozen = True
        return 'ok'
    if t == 'filter':
        _, h, keep, excl, which = o
        n = SpecDb()
        n.unk = list(s.unk)
        for c in s.cats:
            if keep and c[0] not in keep:
                continue
            if excl and c[0] in excl:
                continue
            n.cats.append([c[0], [dict(c[1][k]) if (not which or k in which) else {} for k in range(3)]])
        sdbs.append(n)
        return 'n%d' % (len(sdbs) - 1)
    if t == 'extend':
        _, h, c, ms, es, ss, um, ue, us = o
        if c is not None and c in s.names():
            return 'ValueError'
        if not s.frozen:
            return 'RuntimeError'
        n = SpecDb()
        n.unk = [x[1] if x is not None else dflt for x, dflt in zip((um, ue, us), s.unk)]
        n.frozen = True
        new = [_dict_of(ms), _dict_of(es), _dict_of(ss)]
        if c is None and s.cats and s.cats[0][0][0] == 'a':
            merged = [dict(s.cats[0][1][k]) for k in range(3)]
            for k in range(3):
                merged[k].update(new[k])
            n.cats = [[s.cats[0][0], merged]] + [[x[0], x[1]] for x in s.cats[1:]]
            n.counter = s.counter
        else:
            if c is None:
                a = s.fresh()
                c = ('a', a)
                n.counter = a + 1
            else:
                n.counter = s.counter
            n.cats = [[c, new]] + [[x[0], x[1]] for x in s.cats]
        sdbs.append(n)
        return 'n%d' % (len(sdbs) - 1)
    raise ValueError(t)


# ---------------------------------------------------------------------------------------------
# the property on the real objects

def _self_consistency(db):
    """lookup = first category in categories() order whose iter_*([cat]) has the name; test_for_specials = longest,
    ties to the earlier category.  Uses only the public API of the real object."""
    cats = db.categories()
    per = []
    for c in cats:
        per.append([_iter(db, k, [c])[0] for k in range(3)])
    attr = ['macroname', 'environmentname', 'specials_chars']
    unk = [db.unknown_macro_spec, db.unknown_environment_spec, db.unknown_specials_spec]
    for k, names in enumerate((MACROS, ENVS, SPECIALS)):
        for n in names:
            exp, expf = unk[k], False
            for ci, c in enumerate(cats):
                hit = [s for s in per[ci][k] if getattr(s, attr[k]) == n]
                if hit:
                    exp, expf = hit[-1], True
                    break
            f, v = _lookup(db, k, n)
            if v is not exp or f != expf:
                return ('lookup-not-first-category',
                        {'kind': KINDS[k], 'name': n, 'categories': cats, 'observed': repr(v), 'expected': repr(exp)})
            v2 = getattr(db, _GETTERS[k])(n)
            if v2 is not exp:
                return ('lookup-not-first-category', {'kind': KINDS[k], 'name': n, 'categories': cats,
                                                      'observed': repr(v2), 'expected': repr(exp)})
    for s, ps in TESTS:
        for p in ps:
            best = None
            for ci, c in enumerate(cats):
                for sp in per[ci][2]:
                    key = sp.specials_chars
                    if key and s.startswith(key, p) and (best is None or len(key) > len(best.specials_chars)):
                        best = sp
            got = db.test_for_specials(s, p)
            if got is not best:
                return ('specials-not-longest-first', {'s': s, 'pos': p, 'categories': cats,
                                                       'observed': repr(got), 'expected': repr(best)})
    return None


_MUTATORS = ('add', 'setunk', 'freeze')


def oracle(c):
    dbs, sdbs = [], []
    prev = []
    for step, o in enumerate(_ops(c)):
        t = o[0]
        tgt = None if t == 'new' else o[1]
        was_frozen = (tgt is not None and dbs[tgt].frozen)
        r = apply_real(dbs, o)
        e = apply_spec(sdbs, o)
        cur = [answers(db) for db in dbs]
        where = {'step': step, 'op': o}
        # (b) the property's first sentence, on the public API alone
        for h, db in enumerate(dbs):
            x = _self_consistency(db)
            if x is not None:
                return (x[0], dict(x[1], db=h, **where))
        # (e) frozen refuses
        if was_frozen and t in ('add', 'setunk'):
            if r != 'RuntimeError':
                return ('frozen-accepted-modification', dict(where, observed=r))
            if cur[tgt] != prev[tgt]:
                return ('frozen-changed', dict(where, before=prev[tgt], after=cur[tgt]))
        # (d) nobody else is disturbed; deriving does not disturb the source either
        for h in range(len(prev)):
            if (h != tgt or t in ('filter', 'extend')) and cur[h] != prev[h]:
                return ('other-database-disturbed:' + t, dict(where, db=h, before=prev[h], after=cur[h]))
        # (a) outcome
        if r != e:
            if t in ('filter', 'extend') and not e[0].isupper():
                return ('derive-raised:%s:%s' % (t, r), dict(where, observed=r, expected=e))
            return ('op-outcome:%s:%s-for-%s' % (t, r, e), dict(where, observed=r, expected=e))
        # (c) answers are those of the specification of the history
        for h, s in enumerate(sdbs):
            sa = s.answers()
            if sa != cur[h]:
                i = [j for j in range(len(sa)) if sa[j] != cur[h][j]][0]
                kind = 'categories' if i == 1 else ('frozen' if i == 0 else 'answers')
                return ('%s-differ-from-history' % kind, dict(where, db=h, observed=cur[h], expected=sa))
        prev = cur
    return None


# ---------------------------------------------------------------------------------------------
# case streams

A, B, C = ('u', 0), ('u', 1), ('u', 2)


def _content(t, v):
    """three content variants; spec ids are unique per (step, slot)"""
    i = 10 * (t + 1)
    if v == 0:
        return [('m', i)], [], [('-', i + 1)]
    if v == 1:
        return [('m', i), ('n', i + 2)], [('e', i + 3)], [('--', i + 1)]
    return [('n', i)], [], [('-', i + 1), ('--', i + 2)]


def _alphabet_A(t, h):
    ops = []
    pls = [['append'], ['prepend']] + [[w, x] for w in ('before', 'after') for x in (A, B, C)]
    ms, es, ss = _content(t, t % 3)
    for c in (A, B, C, None):
        for pl in pls:
            ops.append(['add', h, c, ms, es, ss, pl])
    ops.append(['setunk', h, 0, ('m', 10 * (t + 1) + 9)])
    ops.append(['freeze', h])
    ops.append(['filter', h, [], [], []])
    ops.append(['filter', h, [], [A], [0, 2]])
    ops.append(['extend', h, None, ms, es, ss, None, None, None])
    ops.append(['extend', h, C, ms, es, ss, None, None, None])
    return ops


def _alphabet_B(t, h):
    ops = []
    ms, es, ss = _content(t, t % 3)
    for c in (A, B, None):
        for pl in (['append'], ['prepend'], ['before', A], ['after', A]):
            ops.append(['add', h, c, ms, es, ss, pl])
    ops.append(['setunk', h, 0, ('m', 10 * (t + 1) + 9)])
    ops.append(['freeze', h])
    ops.append(['filter', h, [], [], []])
    ops.append(['filter', h, [], [A], [0, 2]])
    ops.append(['extend', h, None, ms, es, ss, None, None, None])
    ops.append(['extend', h, C, ms, es, ss, None, None, ['set', ('-', 10 * (t + 1) + 8)]])
    return ops


def _copy_spec(sdbs):
    out = []
    for s in sdbs:
        n = SpecDb()
        n.cats = [[c[0], c[1]] for c in s.cats]      # the dicts themselves are never mutated in place
        n.unk = list(s.unk)
        n.frozen, n.counter = s.frozen, s.counter
        out.append(n)
    return out


def _enumerate(alpha, L, targets, prefix_ops):
    """all sequences of exactly <= L further operations (every prefix is also emitted as a case only through its
    extensions: observations are per step, so only maximal sequences are emitted); a sequence is cut after an
    operation that raises on the specification."""
    out = []
    s0 = []
    for o in prefix_ops:
        apply_spec(s0, o)

    def rec(seq, sdbs, t):
        if t == L:
            out.append(list(seq))
            return
        hs = targets(len(sdbs))
        for h in hs:
            for o in alpha(len(seq), h):
                s2 = _copy_spec(sdbs)
                r = apply_spec(s2, o)
                seq.append(o)
                if r[0].isupper():
                    out.append(list(seq))          # raising operation: leaf
                else:
                    rec(seq, s2, t + 1)
                seq.pop()
    rec(list(prefix_ops), s0, 0)
    return out


def _random_history(rnd, n):
    ops = [['new']]
    ndb = 1
    frozen = {0: False}
    sid = [100]

    def spec(names):
        sid[0] += 1
        return (rnd.choice(names), sid[0])

    def specs(names, p=0.6):
        l = []
        while rnd.random() < p and len(l) < 3:
            l.append(spec(names))
        return l

    def cat(allow_none=True):
        r = rnd.random()
        if allow_none and r < 0.25:
            return None
        if r < 0.29:
            return ('a', rnd.randint(0, 2))
        return ('u', rnd.randint(0, 3))
    for _ in range(n - 1):
        h = rnd.randrange(ndb)
        r = rnd.random()
        if frozen[h]:
            # mostly derive from frozen databases
            r = 0.62 + 0.38 * r if rnd.random() < 0.8 else r
        if r < 0.45:
            plr = rnd.random()
            pl = (['append'] if plr < 0.25 else ['prepend'] if plr < 0.45 else
                  ['before', cat(False)] if plr < 0.72 else ['after', cat(False)])
            ops.append(['add', h, cat(), specs(MACROS), specs(ENVS, 0.3), specs(SPECIALS, 0.5), pl])
        elif r < 0.52:
            ops.append(['setunk', h, rnd.randrange(3), None if rnd.random() < 0.2 else spec(['u'])])
        elif r < 0.62:
            ops.append(['freeze', h])
            frozen[h] = True
        elif r < 0.70 and ndb < 7:
            ops.append(['new'])
            frozen[ndb] = False
            ndb += 1
        elif r < 0.82 and ndb < 7:
            keep = [cat(False) for _ in range(rnd.randint(0, 2))] if rnd.random() < 0.4 else []
            excl = [cat(False) for _ in range(rnd.randint(0, 2))] if rnd.random() < 0.4 else []
            which = rnd.sample([0, 1, 2], rnd.randint(1, 2)) if rnd.random() < 0.3 else []
            ops.append(['filter', h, keep, excl, which])
            frozen[ndb] = False
            ndb += 1                                     # (if it raises the handle is simply never created:
            #                                              later operations on it are then out of range; avoided
            #                                              below by replaying on the specification)
        elif ndb < 7:
            oo = lambda: (None if rnd.random() < 0.7 else ['set', None if rnd.random() < 0.3 else spec(['u'])])
            ops.append(['extend', h, cat(), specs(MACROS), specs(ENVS, 0.3), specs(SPECIALS, 0.5), oo(), oo(), oo()])
            frozen[ndb] = True
            ndb += 1
        else:
            ops.append(['freeze', h])
            frozen[h] = True
        # keep the handle count in step with what really exists
        sd = []
        for o in ops:
            apply_spec(sd, o)
        ndb = len(sd)
        frozen = {i: s.frozen for i, s in enumerate(sd)}
    return ops


def _alphabet_Bq(t, h):
    """stream B of the quick tier: stream B's alphabet without the category name B"""
    return [o for o in _alphabet_B(t, h) if not (o[0] == 'add' and o[2] == B)]


def _first_last(n):
    return [0] if n == 1 else [0, n - 1]


def gen_cases(seed, tier):
    rnd = random.Random(seed)
    cases = []
    quick = tier == 'quick'
    # stream A: full placement alphabet (4 names x 8 placements + derive/freeze/unknown) on the first and the
    # newest database; thorough: the same after a first category A
    for seq in _enumerate(_alphabet_A, 3, _first_last, [['new']]):
        cases.append(_case(seq, 'A'))
    if not quick:
        for seq in _enumerate(_alphabet_A, 3, _first_last,
                              [['new'], ['add', 0, A, [('m', 1)], [], [('-', 2)], ['append']]]):
            cases.append(_case(seq, 'A'))
    # stream B: reduced alphabet; quick: length 4 on first + newest database; thorough: length 4 on every live
    # database and length 5 on the newest
    if quick:
        for seq in _enumerate(_alphabet_Bq, 4, _first_last, [['new']]):
            cases.append(_case(seq, 'B'))
    else:
        for seq in _enumerate(_alphabet_B, 4, lambda n: list(range(n)), [['new']]):
            cases.append(_case(seq, 'B'))
        for seq in _enumerate(_alphabet_B, 5, lambda n: [n - 1], [['new']]):
            cases.append(_case(seq, 'B'))
    # stream C: hand-written histories (the shapes behind the defects found while building the check)
    for seq in CORPUS:
        cases.append(_case(seq, 'corpus'))
    # stream R: random histories
    for _ in range(1500 if quick else 20000):
        cases.append(_case(_random_history(rnd, rnd.randint(5, 25)), 'rnd'))
    return cases


CORPUS = [
    # F4: insert_after lands one too early in the chain maps
    [['new'], ['add', 0, A, [('m', 1)], [], [], ['append']], ['add', 0, C, [('m', 3)], [], [], ['append']],
     ['add', 0, B, [('m', 2)], [], [], ['after', A]]],
    # F4: insert_after a missing name
    [['new'], ['add', 0, A, [('m', 1)], [], [], ['append']], ['add', 0, B, [('m', 2)], [], [], ['after', C]],
     ['add', 0, C, [('m', 3)], [], [], ['before', B]]],
    # filter after extend (auto-generated category name)
    [['new'], ['add', 0, A, [('m', 1)], [], [], ['append']], ['freeze', 0],
     ['extend', 0, None, [('n', 5)], [], [], None, None, None], ['filter', 1, [], [], []],
     ['freeze', 2], ['extend', 2, None, [('m', 7)], [], [('--', 8)], None, None, None],
     ['extend', 3, None, [('m', 9)], [], [], ['set', None], None, None], ['filter', 4, [], [A], [0]]],
    # auto-generated first category built by hand, then the merge branch
    [['new'], ['add', 0, None, [('m', 1)], [], [('-', 2)], ['append']], ['add', 0, A, [('m', 3)], [], [('--', 4)], ['append']],
     ['add', 0, None, [('n', 5)], [], [], ['after', A]], ['freeze', 0],
     ['extend', 0, None, [('m', 6), ('m', 7)], [('e', 8)], [('-', 9)], None, None, None],
     ['extend', 1, B, [], [], [], None, None, None], ['extend', 2, None, [('n', 10)], [], [], None, None, None],
     ['filter', 3, [('a', 0), B], [], []]],
]


def distribution(cases, impl_out):
    src = collections.Counter(c['desc']['src'] for c in cases)
    lens = collections.Counter(min(len(c['desc']['ops']), 26) for c in cases)
    opk = collections.Counter(o[0] for c in cases for o in c['desc']['ops'])
    outcomes = collections.Counter()
    maxdb = collections.Counter()
    for c, i in zip(cases, impl_out):
        if not isinstance(i, str):
            continue
        steps = i.split('|')
        for s in steps:
            outcomes[s.split('{')[0].rstrip('0123456789') or 'n'] += 1
        maxdb[steps[-1].count('{')] += 1
    return {'stream': dict(src), 'history_length': dict(lens), 'operations': dict(opk),
            'operation_outcomes': dict(outcomes), 'live_databases_at_end': dict(maxdb)}
