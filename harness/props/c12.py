"""C12 — latex2text content filters: comments, math modes, discards."""
import random, collections
import l2tharness as H

PID = 'C12'
PROJECTION = 'text (tolerant end-to-end with the default databases)'
RULE = ('generated documents in which every comment, formula and discarded construct carries a unique marker word, placed '
        'at every nesting position (top level, inside mandatory and optional arguments, groups, list / unknown / center '
        'environments, after bare macros, as last token without newline; formulas as $..$, \\(..\\), $$..$$, \\[..\\], '
        'equation / align* environments; about one formula in eight has a body that renders to NOTHING - blank, a comment, a '
        'discarded macro - and stands between two marker words: with-delimiters must still show its delimiters, verbatim its '
        'source; discarded constructs \\label \\documentclass \\usepackage \\hspace \\cite \\ref '
        'and unknown macros with arguments), x 4 math modes x keep_comments x 6 whitespace policies x keep_braced_groups '
        '(model and real code) x fill_text (real code only). Non-trivial: the document has at least one comment and one '
        'formula.')
EXHAUSTIVE = {'quick': False, 'thorough': False}
ASSUMPTIONS = ['with math_mode=verbatim the SOURCE of a formula is reproduced, comments inside it included (the second clause '
               'of the property wins over the first); a comment between a macro and its argument is in no node (the '
               'expression parser consumes it): generated, and its absence under keep_comments is the known finding '
               'kept-comment-missing:before-argument',
               'fill_text is exercised on the real code only (textwrap is an oracle)']
PARTIAL = ['C12_comments_kept_covered_partial: presence of every kept comment is proved for the covered positions (lists, '
           'groups, transparent environments, argument-concatenating macros, positional and keyed replacement templates, '
           'formula bodies for markers without trailing blank/newline); not for arguments of replacement callables '
           '(\\section, \\href, \\item[..], accents, math alphabets: several strip / re-case / re-style their argument) '
           'and matrix cells',
           'C12_math_verbatim_covered_partial: presence of the source of every verbatim formula, same covered positions',
           'C12_comments_kept_covered2_partial, C12_math_verbatim_covered2_partial (Proofs/Covered2.v): the covered set extended by '
           'the arguments of the replacement callables that pass an argument through unchanged or wrapped (both arguments of '
           '\\href, the optional argument of \\item, the title of \\subsection / \\subsubsection / \\paragraph / '
           '\\subparagraph, both arguments of the uebung formatter, the rendered argument of \\texorpdfstring) and by matrix '
           'cells (markers without blank at the ends / newline); still partial: presence is FALSE (vm_compute witnesses '
           'C12_comments_kept_not_covered_witness / C12_math_verbatim_not_covered_witness, each replayed on the real code) for '
           'accents, math alphabets, the upper-casing \\part / \\chapter / \\section, \\title / \\author / \\date '
           'without \\maketitle, arguments a template does not mention (\\footnote[..], \\sqrt[..]), arguments of '
           'environments, and a comment written IN FRONT OF an argument (consumed by the expression parser: not in the tree)',
           'C12_source_level_partial (DESIGN 6/C12 C12_source_level, composed with C02_parse_unparse_partial): documents '
           'of the CORE grammar of C02 (text, groups, macros with mandatory braced arguments, $..$ \\(..\\) \\[..\\], '
           'comments, paragraph breaks) differing only in comment text convert equally for keep_comments=False and '
           'math_mode text / with-delimiters / remove; C12_source_level_all_modes_partial: the same for ALL four math modes '
           '(verbatim included) when the formulas of the two documents are identical (comments inside a formula are '
           'reproduced with its source in verbatim mode); not stated: the rest of the document grammar (environments, '
           'optional arguments, specials, $$..$$); the tree-level non-interference theorems are complete',
           'C12_source_level2_partial, C12_source_level2_all_modes_partial (composed with C02_parse_unparse2_partial, '
           'Proofs/Compose2Comments.v): the same over the EXTENDED document grammar (environments with arguments and math '
           'bodies, $$..$$, specials, optional / star / single-token / verbatim arguments, comments IN FRONT OF arguments): '
           'documents differing only in comment text (anywhere) convert equally for keep_comments=False and a non-verbatim '
           'math mode; for ALL four math modes when formulas and equation environments (those rendered from their source) are '
           'identical - comments inside any other environment remain free (C12_relational2 refines C12_relational: the '
           'source slice of an environment matters only for equation environments). Partial only in that the extended '
           'grammar is not the whole of LaTeX (see notes/C02.md)',
           'C12_source_level3_partial, C12_source_level3_all_modes_partial (composed with C02_parse_unparse3_partial, '
           'Proofs/Compose3Comments.v; tree level, EVERY context: C12_trees_same_but_comments3): the same over the THIRD '
           'document grammar - the extended grammar (C12_same_but_comments2_embeds: the grammar-2 theorems are instances) plus '
           'a paragraph break as the single-token argument of a call (PArg3), delimited groups written directly in the body '
           'of a delimited argument (BGrp3: text, COMMENTS and nested groups - the texts of those comments are free too) and, '
           'at tree level only, whitespace runs with two or more newlines in a context without the paragraph specials (WPar3; '
           'the default context has these specials, so no document with such a run satisfies ok_doc3 there). Partial only '
           'in that the third grammar is not the whole of LaTeX (see notes/C02.md)']
REFUTED = ['"with keep_comments every comment appears" is false for a comment written between a macro and its argument (C12_comments_kept_not_covered_witness, row \\textbf%c{x}; known finding kept-comment-missing:before-argument)']
CASE_TIMEOUT = 10.0


# the environments the converter's documentation lists as equations (written down here, not read from its tables)
EQUATION_ENVS = ['equation', 'equation*', 'eqnarray', 'eqnarray*', 'align', 'align*', 'multline', 'multline*', 'gather', 'gather*']


class Gen:
    def __init__(self, rnd, custom=False):
        self.rnd = rnd
        self.custom = custom    # also constructs declared by _custom_dbs() (real code only)
        self.k = 0
        self.comments = []      # (marker, visible_when_kept, in_math_id or None)
        self.maths = []         # (marker, source, open, close, display, visible)
        self.discards = []
        self.emaths = []        # (marker before, marker after, source, open, close, visible, marker inside a discarded macro or None): formulas whose body renders to nothing
        self.nobr = 0           # inside an optional [...] argument: nothing containing ']' may be generated

    def mk(self, p):
        self.k += 1
        return '%s%dQ' % (p, self.k)

    def comment(self, visible, in_math=None, last=False):
        m = self.mk('CMT')
        self.comments.append((m, visible, in_math))
        return '%' + m + ('' if last else self.rnd.choice(['\n', '\n ', '\n\n']))

    def math(self, visible):
        m = self.mk('MTH')
        r = self.rnd
        kind = r.choice(['$', '\\(', '$$', 'equation', 'align*', r.choice(EQUATION_ENVS)] + ([] if self.nobr else ['\\[']))
        body = m
        cm = None
        if r.random() < 0.12:
            # a formula whose body renders to NOTHING (blank, a comment, a discarded macro): it is still a formula --
            # 'with-delimiters' keeps its delimiters, 'verbatim' its source; the markers stand around it, not in it
            k2 = r.random()
            dm = None
            if k2 < 0.3:
                body = r.choice([' ', '  ', '\n'])
            elif k2 < 0.6:
                body = self.comment(False, in_math=m).rstrip(' ').replace('\n\n', '\n')
            else:
                body = r.choice(['', ' ']) + self.discard() + r.choice(['', ' '])
                dm = self.discards.pop()        # reproduced with the source under 'verbatim': judged with the formula
            if kind in EQUATION_ENVS:
                op, cl = '\\begin{%s}' % kind, '\\end{%s}' % kind
            else:
                op, cl = kind, {'$': '$', '\\(': '\\)', '$$': '$$', '\\[': '\\]'}[kind]
            src = op + body + cl
            self.emaths.append((m, m[:-1] + 'E', src, op, cl, visible, dm))
            return m + ' ' + src + ' ' + m[:-1] + 'E'
        if r.random() < 0.25:
            body = m + ' ' + self.comment(False, in_math=m) + 'x'
        elif r.random() < 0.2:
            # line separators other than a bare newline inside the formula source
            body = m + r.choice(['\r\nx', '\ry', ' \x0cz', '\x0bw', '\r\n y \r\nz', 'a\nb'])
        if kind in EQUATION_ENVS:
            src = '\\begin{%s}%s\\end{%s}' % (kind, body, kind)
            self.maths.append((m, src, '\\begin{%s}' % kind, '\\end{%s}' % kind, True, visible))
        else:
            cl = {'$': '$', '\\(': '\\)', '$$': '$$', '\\[': '\\]'}[kind]
            src = kind + body + cl
            self.maths.append((m, src, kind, cl, kind in ('$$', '\\['), visible))
        return src

    def discard(self):
        m = self.mk('DSC')
        self.discards.append(m)
        shapes = ['\\label{%s}', '\\usepackage{%s}', '\\hspace{%s}', '\\cite{%s}', '\\ref{%s}', '\\vspace*{%s}',
                  '\\hspace*{%s}', '\\selectlanguage{%s}']
        if not self.nobr:
            shapes += ['\\documentclass[%s]{article}', '\\usepackage[%s]{pkg}']
        return self.rnd.choice(shapes) % m

    def items(self, depth, visible):
        r = self.rnd
        out = []
        for _ in range(r.randint(1, 4 if depth < 2 else 2)):
            out.append(self.item(depth, visible))
        return ''.join(out)

    def item(self, depth, visible):
        r = self.rnd
        k = r.random()
        if k < 0.22 or depth >= 3:
            return r.choice(['word ', 'a b', ' text', 'x', '. ', 'two words ', '\n', 'ab\n'])
        if self.custom and r.random() < 0.3:
            if r.random() < 0.6 and not self.nobr:
                # \weblink{url}{text}: comments and formulas are switched off in the url ONLY; the text is ordinary
                url = r.choice(['http://a.b/c%d', 'x$y', 'u~v%w', 'plain', 'a%b$c', ''])
                return '\\weblink{' + url + '}' + r.choice(['', ' ', '\n']) + '{' + self.items(depth + 1, visible) + '}'
            m = self.mk('DSC')
            self.discards.append(m)
            if r.random() < 0.4:
                # macros the converter database re-declares as discarded in a category inserted before the defining one
                return r.choice(['\\mathrm{', '\\textsc{']) + m + r.choice(['', ' x', ' $y$']) + '}'
            # a formula environment whose body first declares \why{..} (discarded on output), then enters math mode
            return '\\begin{derivation}x \\why{' + m + r.choice(['', ' $y$', ' z']) + '} = w\\end{derivation}'
        if k < 0.36:
            return self.comment(visible)
        if k < 0.50:
            return self.math(visible)
        if k < 0.58:
            return self.discard()
        if k < 0.66:
            return '{' + self.items(depth + 1, visible) + '}'
        if k < 0.78:
            m = r.choice(['\\textbf', '\\emph', '\\textit', '\\text', '\\mbox'])
            pre = ''
            if r.random() < 0.12:
                # a comment between the macro and its argument: the expression parser skips it, it is in no node
                # (known finding kept-comment-missing:before-argument)
                pre = r.choice(['', ' ']) + self.comment(visible, in_math='PREARG').rstrip(' ').replace('\n\n', '\n')
            return m + pre + '{' + self.items(depth + 1, visible and m != '\\mbox') + '}'
        if k < 0.84 and not self.nobr:
            self.nobr += 1
            inner = self.items(depth + 1, visible)
            self.nobr -= 1
            return '\\item[' + inner + '] '
        if k < 0.92:
            e = r.choice(['itemize', 'center', 'enumerate', 'unknownenvq', 'flushleft'])
            return '\\begin{%s}' % e + self.items(depth + 1, visible) + '\\end{%s}' % e
        if k < 0.96:
            # also macros that share their name with an environment (looked up separately)
            return r.choice(['\\alpha ', '\\S{}', '\\ldots ', '\\LaTeX ', '\\alpha', '\\equation ', '\\itemize ',
                             '\\center ', '\\align ', '\\enumerate '])
        return '\\footnote{' + self.items(depth + 1, visible) + '}'


def _opts(rnd):
    if rnd.random() < 0.12:         # exactly the two flags the deprecated entry points know
        return {'math_mode': rnd.choice(['text', 'verbatim']), 'keep_comments': rnd.random() < 0.6}
    o = {'math_mode': rnd.choice(H.MATH_VALUES), 'keep_comments': rnd.random() < 0.5,
         'strict_latex_spaces': rnd.choice(H.SLS_VALUES)}
    if rnd.random() < 0.3:
        o['keep_braced_groups'] = True
        if rnd.random() < 0.5:
            o['keep_braced_groups_minlen'] = rnd.choice([0, 1, 2, 3])
    if rnd.random() < 0.2:
        o['fill_text'] = rnd.choice([True, 30])
    return o


def _case(s, o, meta, custom=False):
    modelled = 'fill_text' not in o and not custom
    d = {'s': s, 'opts': o, 'modelled': modelled, 'meta': meta}
    if custom:
        d['custom'] = True
    return {'wire': H.w_e2e(o, s, True) if modelled else [399], 'desc': d,
            'nt': bool(meta['comments']) and bool(meta['maths'])}


def case_from_desc(d):
    return _case(d['s'], d['opts'], d['meta'], d.get('custom', False))


_custom_dbs = H.custom_dbs


def gen_cases(seed, tier):
    rnd = random.Random(seed)
    cases = []
    for _ in range(2500 if tier == 'quick' else 40000):
        g = Gen(rnd)
        s = g.items(0, True)
        if rnd.random() < 0.2:
            s += g.comment(True, last=True)
        meta = {'comments': g.comments, 'maths': g.maths, 'discards': g.discards, 'emaths': g.emaths}
        cases.append(_case(s, _opts(rnd), meta))
    # specifications declared through the public API (per-argument and chained changes of the parsing state): real code only
    r2 = random.Random(seed + 1201)
    for _ in range(600 if tier == 'quick' else 10000):
        g = Gen(r2, custom=True)
        s = g.items(0, True)
        if '\\weblink' not in s and '{derivation}' not in s and '\\mathrm' not in s and '\\textsc' not in s:
            continue
        meta = {'comments': g.comments, 'maths': g.maths, 'discards': g.discards, 'emaths': g.emaths}
        cases.append(_case(s, _opts(r2), meta, custom=True))
    return cases


def impl(c):
    d = c['desc']
    if not d['modelled']:
        return 'BADIN'
    return H.l2t_e2e(d['opts'], d['s'], True)


_prelude_done = False


def _prelude():
    """once per worker process, BEFORE any judged conversion: another converter object is created and its own
    database customised in place through the public API (equation and \\hspace no longer hidden).  Converters
    created afterwards must not be affected: every LatexNodes2Text() gets a database of its own."""
    global _prelude_done
    if _prelude_done:
        return
    _prelude_done = True
    from pylatexenc.latex2text import LatexNodes2Text, EnvironmentTextSpec, MacroTextSpec
    try:
        other = LatexNodes2Text()
        other.latex_context.add_context_category(
            'verif-other-converter', prepend=True,
            environments=[EnvironmentTextSpec('equation', discard=False), EnvironmentTextSpec('align*', discard=False)],
            macros=[MacroTextSpec('hspace', discard=False), MacroTextSpec('label', discard=False)])
        other.latex_to_text('\\begin{equation}x\\end{equation}\\hspace{1cm}')
    except Exception:
        pass


def oracle(c):
    from pylatexenc.latex2text import LatexNodes2Text
    _prelude()
    d = c['desc']
    o = d['opts']
    try:
        if d.get('custom'):
            wdb, tdb = _custom_dbs()
            out = LatexNodes2Text(latex_context=tdb, **o).latex_to_text(d['s'], latex_context=wdb)
        else:
            out = LatexNodes2Text(**o).latex_to_text(d['s'])
    except Exception as e:
        return ('latex_to_text-raised-%s' % type(e).__name__, {})
    meta = d['meta']
    mm = o.get('math_mode', 'text')
    # the deprecated module-level entry points take the same two flags and must give what the class gives
    if set(o) <= {'math_mode', 'keep_comments'} and mm in ('text', 'verbatim') and not d.get('custom'):
        import warnings
        from pylatexenc import latex2text as L2T
        kim, kc = (mm == 'verbatim'), bool(o.get('keep_comments'))
        try:
            with warnings.catch_warnings():
                warnings.simplefilter('ignore')
                legacy = L2T.latex2text(d['s'], tolerant_parsing=True, keep_inline_math=kim, keep_comments=kc)
                cls = L2T.LatexNodes2Text(keep_inline_math=kim, keep_comments=kc).latex_to_text(d['s'], tolerant_parsing=True)
        except Exception as e:
            return ('legacy-latex2text-raised-%s' % type(e).__name__, {})
        if legacy != cls:
            return ('legacy-latex2text-differs-from-class', {'legacy': legacy[:300], 'class': cls[:300],
                                                             'keep_inline_math': kim, 'keep_comments': kc})
    fill = 'fill_text' in o
    squeeze = (lambda x: ' '.join(x.split())) if fill else (lambda x: x)
    outq = squeeze(out)
    mathsrc = {m[0]: m for m in meta['maths']}
    known = None
    for m, visible, in_math in meta['comments']:
        present = m in out
        if in_math == 'PREARG':
            if not o.get('keep_comments'):
                if present:
                    return ('comment-leaks', {'marker': m})
            elif visible and not present:
                known = ('kept-comment-missing:before-argument', {'marker': m})
            continue
        if in_math is not None:
            # inside a formula: visible exactly when the formula's source is reproduced
            if mm in ('remove',) and present:
                return ('comment-in-removed-formula-leaks', {'marker': m})
            if mm in ('text', 'with-delimiters') and not o.get('keep_comments') and present:
                return ('comment-leaks', {'marker': m})
            continue
        if not o.get('keep_comments'):
            if present:
                return ('comment-leaks', {'marker': m})
        elif visible and not present:
            return ('kept-comment-missing', {'marker': m})
    for m, src, op, cl, display, visible in meta['maths']:
        present = m in out
        if mm == 'remove':
            if present:
                return ('removed-formula-leaks', {'marker': m})
            continue
        if not visible:
            continue
        if mm == 'verbatim':
            if squeeze(src) not in outq:
                return ('verbatim-formula-source-missing', {'marker': m, 'source': src})
        elif mm == 'with-delimiters':
            if not present:
                return ('formula-missing', {'marker': m})
            i = out.find(m)
            before, after = out[:i], out[i + len(m):]
            if op not in before or cl not in after:
                return ('formula-delimiters-missing', {'marker': m, 'open': op, 'close': cl})
        else:
            if not present:
                return ('formula-missing', {'marker': m})
    for m, me, src, op, cl, visible, dm in meta.get('emaths', []):
        if dm and mm != 'verbatim' and dm in out:
            return ('discarded-construct-leaks', {'marker': dm})
        i = out.find(m)
        j = out.find(me, i + 1) if i >= 0 else -1
        if not visible or i < 0 or j < 0:
            continue
        seg = out[i + len(m):j]
        if mm == 'verbatim':
            if squeeze(src) not in squeeze(seg):
                return ('verbatim-formula-source-missing:empty-body', {'marker': m, 'source': src})
        elif mm == 'with-delimiters':
            a = seg.find(op)
            if a < 0 or cl not in seg[a + len(op):]:
                return ('formula-delimiters-missing:empty-body', {'marker': m, 'open': op, 'close': cl, 'between-markers': seg[:200]})
    for m in meta['discards']:
        if m in out:
            return ('discarded-construct-leaks', {'marker': m})
    return known


def distribution(cases, impl_out):
    return {'math_mode': dict(collections.Counter(c['desc']['opts'].get('math_mode') for c in cases)),
            'keep_comments': sum(1 for c in cases if c['desc']['opts'].get('keep_comments')),
            'with_fill_text(real code only)': sum(1 for c in cases if not c['desc']['modelled']),
            'markers': {'comments': sum(len(c['desc']['meta']['comments']) for c in cases),
                        'formulas': sum(len(c['desc']['meta']['maths']) for c in cases),
                        'discards': sum(len(c['desc']['meta']['discards']) for c in cases)}}
