"""C03 — latex2text renders the core sublanguage by its documented rules, compositionally."""
import random, unicodedata, collections
import l2tharness as H

PID = 'C03'
PROJECTION = 'text (strict end-to-end with the default databases)'
RULE = ('documents derived from the core-sublanguage grammar (plain text, whitespace, paragraph breaks, comments, groups, '
        'font/formatting macros, symbol macros, accent macros over one letter (braced or as a token), over 2-3 letters, over '
        'a symbol macro or over a short item list (\\vec{ab} \\hat{\\alpha} \\dot{\\phi} \\tilde{\\epsilon}), \\frac \\sqrt, '
        'specials ~ -- --- `` \'\' &, itemize/enumerate with '
        '\\item, center and unknown environments, inline and display math with all four delimiter pairs) with explicit '
        'whitespace at every boundary (after bare macros, between constructs, after comments, inside and outside equations); '
        'x 6 strict_latex_spaces values x 4 math modes x keep_braced_groups (with keep_braced_groups_minlen 0..3 or the '
        'default) x keep_comments; plus pairs of self-contained '
        'blocks joined by a paragraph break or a space. Non-trivial: the document contains a bare macro or a comment or math '
        'next to whitespace.')
EXHAUSTIVE = {'quick': False, 'thorough': False}
ASSUMPTIONS = ['the expected text is computed by an independent renderer written from the documented rules (render() in this '
               'file); the meaning of symbol / specials macros is read from the latex2text table (the agreement of that table '
               'with the encoder table is C08\'s obligation)',
               'fill_text is excluded, as in the property']
PARTIAL = ['C03_end_to_end_partial / C03_doc_tree_core_partial / C03_doc_cores_par_partial / '
           'C03_compositional_par_source_partial / C03_compositional_space_source_partial (composition of C03_tree_level with '
           'C02_parse_unparse_partial): for every '
           'document of the CORE document grammar of C02 (text, groups, macros with mandatory braced arguments, $..$ '
           '\\(..\\) \\[..\\], comments, paragraph breaks) that is ok_doc and core (doc_cores: bare symbol macros, '
           'transparent / accent macros with one braced argument), latex_to_text = render of the computed core items for '
           'every option set, and the paragraph-break and space joins at string level; environments, specials other than the '
           'paragraph break, \\item, single-token accent arguments are outside that grammar (tree level + '
           'correspondence only); C03_compositional_space_source_partial: the space join at string level, same grammar',
           'C03_end_to_end2_partial / C03_tree_level2 / C03_node_level2 (Proofs/Compose2Render.v, composition with '
           'C02_parse_unparse2_partial): end to end over the EXTENDED document grammar (environments - transparent and '
           'wrapping -, specials, $$..$$, optional / single-token arguments ...): for every ok_doc2 document whose meaning '
           'tree_of2 is recognised by abstract2 (decidable; computes the core items), latex_to_text = render of those items. '
           'abstract2 maps \\frac, \\sqrt[..]{..}, \\footnote and every other %-template macro into the UNCHANGED spec '
           'language (KTransparent [literal characters as KSpecials, each %s / %(i)s as the transparent contents of its '
           'argument]) and \\item[label] into KTransparent [KSpecials "\\n  "; KTransparent label]; partial: \\item[..] '
           'only with keep_braced_groups off (with it the label keeps its brackets, which Render.core cannot express), a '
           'template macro without argument nodes is not recognised, the extended grammar is not all of LaTeX; '
           'C03_end_to_end2_doc_partial / C03_doc_tree_core2_partial (Proofs/Compose2RenderDoc.v): the same with the SYNTACTIC '
           'side condition doc_cores2 (computed from the document alone, no positions: comments, paragraph breaks, groups, the '
           'four kinds of formulas, transparent / wrapping environments, specials, symbols, formatting and accent macros with '
           'one argument - also after comments, accents also with a one-character token -, \\item with or (keep_braced_groups '
           'off) without label, %-template macros with group / optional / absent / one-character arguments); not core there: '
           'verbatim constructs, control-sequence or specials tokens as arguments',
           'a formatting macro is core only with exactly one braced argument (\\textbf x with a bare token argument is not)']
REFUTED = []
CASE_TIMEOUT = 10.0
TXT = 'abcdefghxyzABC0123456789.,;:'
FMT = ['textbf', 'emph', 'textit', 'text', 'textrm', 'textsc', 'mathrm']
SYM = ['alpha', 'beta', 'Gamma', 'infty', 'times', 'ldots', 'S', 'ae', 'LaTeX', 'zzunknown', 'cdot', 'to', 'phi', 'ell',
       'epsilon']
ACC = ["'", '`', '"', '^', '~', 'c', 'v', 'hat', 'bar', 'vec', 'dot', 'tilde', '=', '.', 'u', 'H', 'r', 'k', 'b', 'd',
       'check', 'breve', 'acute', 'grave', 'ddot']
# accent macro -> combining character, as LaTeX defines them (written down here; NOT read from the converter's table)
ACC_TABLE = {"'": '\u0301', '`': '\u0300', '"': '\u0308', 'c': '\u0327', '^': '\u0302', '~': '\u0303', 'H': '\u030b',
             'k': '\u0328', '=': '\u0304', 'b': '\u0331', '.': '\u0307', 'd': '\u0323', 'r': '\u030a', 'u': '\u0306',
             'v': '\u030c', 'vec': '\u20d7', 'dot': '\u0307', 'hat': '\u0302', 'check': '\u030c', 'breve': '\u0306',
             'acute': '\u0301', 'grave': '\u0300', 'tilde': '\u0303', 'bar': '\u0305', 'ddot': '\u0308'}
ACCSYM = ['alpha', 'phi', 'ell', 'epsilon', 'beta', 'Gamma', 'i', 'j', 'i', 'in', 'ne', 'o', 'ae']      # symbol macros used as accent arguments
SPC = ['~', '--', '---', '``', "''", '&']
CLOSE = {'$': '$', '\\(': '\\)', '$$': '$$', '\\[': '\\]'}


class G:
    def __init__(self, rnd):
        self.r = rnd

    def txt(self):
        return ('t', ''.join(self.r.choice(TXT) for _ in range(self.r.randint(1, 4))))

    def ws(self):
        return self.r.choice([' ', ' ', '  ', '\n', ' \n'])

    def items(self, depth=0, math=False, inlist=False):
        r = self.r
        raw = [self.item(depth, math, inlist) for _ in range(r.randint(1, 5 if depth < 2 else 2))]
        return normalize(raw)

    def item(self, depth, math, inlist):
        r = self.r
        k = r.random()
        if k < 0.26 or depth >= 3:
            return self.txt()
        if k < 0.40:
            return ('w', self.ws())
        if k < 0.45 and not math and depth == 0:
            return ('par', r.choice(['\n\n', '\n \n', ' \n\n', '\n\n\n']))
        if k < 0.52:
            return ('cmt', ''.join(r.choice('abc {$') for _ in range(r.randint(0, 4))), r.choice(['\n', '\n ', '\n  ']))
        if k < 0.58:
            return ('grp', self.items(depth + 1, math))
        if k < 0.68:
            return ('fmt', r.choice(FMT), self.items(depth + 1, math), r.choice(['', '', ' ']))
        if k < 0.78:
            return ('sym', r.choice(SYM), r.choice(['', ' ', '  ', '\n']))
        if k < 0.83:
            # ('acc', name, argument, token form): the argument is one letter (a string; braced or, in token
            # form, bare), or - always braced - an item list: 2-3 letters, a symbol macro, any short item list
            a = r.choice(ACC)
            q = r.random()
            if q < 0.45:
                return ('acc', a, r.choice('aeiouncszAEO'), r.random() < 0.4)
            if q < 0.70:
                return ('acc', a, [('t', ''.join(r.choice('abeiouxyAE') for _ in range(r.randint(2, 3))))], False)
            if q < 0.90:
                # a symbol macro as argument, braced or as a single token directly after the accent (\\'\\i)
                return ('acc', a, [('sym', r.choice(ACCSYM), '')], r.random() < 0.45)
            return ('acc', a, self.items(depth + 1, math), False)
        if k < 0.87:
            return ('frac', [self.txt()], [self.txt()]) if r.random() < 0.5 else ('sqrt', None if r.random() < 0.5 else [self.txt()], self.items(depth + 1, math))
        if k < 0.91:
            return ('spc', r.choice(SPC))
        if k < 0.96 and not math:
            return ('math', r.choice(['$', '\\(', '$$', '\\[']), self.items(depth + 1, True) or [self.txt()])
        if not math and depth < 2:
            e = r.choice(['itemize', 'enumerate', 'center', 'zzunknownenv'])
            body = []
            if e in ('itemize', 'enumerate'):
                for _ in range(r.randint(1, 3)):
                    body.append(('sym', 'item', r.choice([' ', ' ', '\n', ''])))
                    body += self.items(depth + 1, math)
                body = normalize(body)
            else:
                body = self.items(depth + 1, math)
            return ('env', e, body)
        return self.txt()


def normalize(raw):
    """keep the grammar unambiguous: whitespace after a bare control word or a comment belongs to that
    token, adjacent whitespace runs would merge, a control word must not run into following letters"""
    out = []
    for it in raw:
        prev = out[-1] if out else None
        if prev is not None:
            if prev[0] in ('w', 'par') and it[0] in ('w', 'par'):
                continue
            if prev[0] in ('sym', 'cmt') and it[0] in ('w', 'par'):
                continue
            if prev[0] == 'sym' and not prev[2] and it[0] == 't' and prev[1][-1].isalpha():
                out[-1] = ('sym', prev[1], ' ')
            if prev[0] == 'spc' and it[0] == 'spc':
                continue
            if prev[0] == 'acc' and prev[3] and not isinstance(prev[2], str) and it[0] in ('t', 'w', 'par'):
                # a control word as token argument would swallow the whitespace / join the letters: brace it instead
                out[-1] = ('acc', prev[1], prev[2], False)
            elif prev[0] == 'acc' and prev[3] and it[0] == 't':
                out.append(('w', ' '))
        out.append(it)
    return out


def lay(items):
    return ''.join(lay1(it) for it in items)


def lay1(it):
    k = it[0]
    if k == 't':
        return it[1]
    if k in ('w', 'par'):
        return it[1]
    if k == 'cmt':
        return '%' + it[1] + it[2]
    if k == 'grp':
        return '{' + lay(it[1]) + '}'
    if k == 'fmt':
        return '\\' + it[1] + it[3] + '{' + lay(it[2]) + '}'
    if k == 'sym':
        return '\\' + it[1] + it[2]
    if k == 'acc':
        if it[3] and not isinstance(it[2], str):
            return '\\' + it[1] + lay(it[2])
        if it[3]:
            return '\\' + it[1] + (' ' if it[1][-1].isalpha() else '') + it[2]
        return '\\' + it[1] + '{' + (it[2] if isinstance(it[2], str) else lay(it[2])) + '}'
    if k == 'frac':
        return '\\frac{' + lay(it[1]) + '}{' + lay(it[2]) + '}'
    if k == 'sqrt':
        return '\\sqrt' + ('' if it[1] is None else '[' + lay(it[1]) + ']') + '{' + lay(it[2]) + '}'
    if k == 'spc':
        return it[1]
    if k == 'math':
        return it[1] + lay(it[2]) + CLOSE[it[1]]
    if k == 'env':
        return '\\begin{%s}' % it[1] + lay(it[2]) + '\\end{%s}' % it[1]
    if k == 'item':
        return '\\item'
    raise ValueError(it)


# ---- the documented rules -----------------------------------------------------------
PRESETS = {
    None: dict(bmc=False, blc=False, ac=False, ineq=None),
    'based-on-source': dict(bmc=False, blc=False, ac=False, ineq=None),
    False: dict(bmc=True, blc=True, ac=False, ineq='based-on-source'),
    'macros': dict(bmc=True, blc=True, ac=False, ineq='based-on-source'),
    'except-in-equations': dict(bmc=True, blc=True, ac=True, ineq='based-on-source'),
    True: dict(bmc=True, blc=True, ac=True, ineq=True),
}
_tab = {}


def table():
    if not _tab:
        from pylatexenc.latex2text import get_default_latex_context_db
        import pylatexenc.latex2text._defaultspecs as D
        db = get_default_latex_context_db()
        _tab['db'] = db
        _tab['acc'] = dict(ACC_TABLE)
    return _tab


def segment(items):
    """whitespace ownership: text and whitespace runs become character nodes exactly as documented: whitespace
    before a construct joins the preceding text, or stands alone between constructs"""
    nodes = []
    pend = ''
    wsb = ''
    for it in items:
        k = it[0]
        if k == 't':
            pend += wsb + it[1]
            wsb = ''
            continue
        if k == 'w':
            wsb += it[1]
            continue
        pre = wsb
        tail = ''
        if k == 'par':
            s = wsb + it[1]
            i, j = s.find('\n'), s.rfind('\n')
            pre, tail = s[:i], s[j + 1:]
        if pend:
            nodes.append(('C', pend + pre))
            pend = ''
        elif pre:
            nodes.append(('C', pre))
        wsb = tail
        nodes.append(it)
    if pend or wsb:
        nodes.append(('C', pend + wsb))
    return nodes


def policy(v):
    if isinstance(v, dict):
        return dict(bmc=bool(v.get('between-macro-and-chars', False)), blc=bool(v.get('between-latex-constructs', False)),
                    ac=bool(v.get('after-comment', False)), ineq=v.get('in-equations'))
    return PRESETS[v]


def render(items, o, sl=None, math=False):
    sl = sl or policy(o.get('strict_latex_spaces', False))
    nodes = segment(items)
    out = ''
    prev = None
    for n in nodes:
        if prev is not None and prev[0] == 'sym' and n[0] == 'C' and not sl['bmc']:
            out += prev[2]
        out += render1(n, o, sl)
        prev = n
    return out


def push_eq(sl):
    if sl['ineq'] is None:
        return sl
    return PRESETS[sl['ineq']]


def render1(n, o, sl):
    t = table()
    k = n[0]
    if k == 'C':
        return '' if (not sl['blc'] and not n[1].strip()) else n[1]
    if k == 'par':
        return '\n\n'
    if k == 'cmt':
        if o.get('keep_comments'):
            return '%' + n[1] + ('\n' if sl['ac'] else n[2])
        return '' if sl['ac'] else n[2]
    if k == 'grp':
        # a group is transparent; with keep_braced_groups its braces are kept when the contents are at least
        # keep_braced_groups_minlen (default 2) characters long
        c = render(n[1], o, sl)
        return '{' + c + '}' if (o.get('keep_braced_groups') and len(c) >= o.get('keep_braced_groups_minlen', 2)) else c
    if k == 'fmt':
        return render(n[2], o, sl)
    if k == 'sym':
        if n[1] == 'item':
            return '\n  * '
        sp = t['db'].get_macro_spec(n[1])
        return '' if sp is None else (sp.simplify_repl or '')
    if k == 'acc':
        # the accent goes over every character of the (stripped) text of the argument's CONTENTS: the braces of
        # a braced argument delimit the argument, they are not a group (never kept, whatever keep_braced_groups
        # says); a dotless i / j takes the accent as i / j
        c = n[2] if isinstance(n[2], str) else render(n[2], o, sl)
        comb = t['acc'][n[1]]
        return ''.join(unicodedata.normalize('NFC', {'\u0131': 'i', '\u0237': 'j'}.get(ch, ch) + comb) for ch in c.strip())
    if k == 'frac':
        return render(n[1], o, sl) + '/' + render(n[2], o, sl)
    if k == 'sqrt':
        return '√(' + render(n[2], o, sl) + ')'
    if k == 'spc':
        sp = t['db'].get_specials_spec(n[1])
        return n[1] if sp is None else sp.simplify_repl
    if k == 'math':
        mm = o.get('math_mode', 'text')
        disp = n[1] in ('$$', '\\[')
        src = lay1(n)
        if mm == 'remove':
            return ''
        if mm == 'verbatim':
            return '\n' + src + '\n' if disp else src
        c = render(n[2], o, push_eq(sl)).strip()
        if mm == 'with-delimiters':
            return n[1] + '\n' + c + '\n' + CLOSE[n[1]] if disp else n[1] + c + CLOSE[n[1]]
        return '\n    ' + c.replace('\n', '\n    ') + '\n' if disp else c
    if k == 'env':
        body = render(n[2], o, sl)
        return '\n' + body + '\n' if n[1] == 'center' else body
    if k == 'item':
        return '\n  * '
    raise ValueError(n)


# ---- cases ---------------------------------------------------------------------------
def _opts(rnd):
    o = {'strict_latex_spaces': rnd.choice(H.SLS_VALUES), 'math_mode': rnd.choice(H.MATH_VALUES)}
    if rnd.random() < 0.3:
        o['keep_braced_groups'] = True
        if rnd.random() < 0.6:
            o['keep_braced_groups_minlen'] = rnd.choice([0, 1, 2, 3])
    if rnd.random() < 0.3:
        o['keep_comments'] = True
    return o


def _case(doc, o, kind, extra=None):
    s = lay(doc) if kind == 'doc' else extra['s']
    return {'wire': H.w_e2e(o, s, False), 'desc': dict({'s': s, 'opts': o, 'kind': kind, 'doc': doc if kind == 'doc' else None}, **(extra or {})),
            'nt': ('\\' in s or '%' in s or '$' in s) and (' ' in s or '\n' in s)}


def case_from_desc(d):
    return {'wire': [399] if d.get('kind') == 'custom-arg' else H.w_e2e(d['opts'], d['s'], False), 'desc': d, 'nt': True}


def gen_cases(seed, tier):
    rnd = random.Random(seed)
    quick = tier == 'quick'
    g = G(rnd)
    cases = []
    for _ in range(2500 if quick else 40000):
        cases.append(_case(g.items(0), _opts(rnd), 'doc'))
    for _ in range(800 if quick else 10000):
        a, b = g.items(0), g.items(0)
        # self-contained blocks: start and end with text
        a = normalize([g.txt()] + a + [g.txt()])
        b = normalize([g.txt()] + b + [g.txt()])
        o = _opts(rnd)
        sep = rnd.choice(['\n\n', ' ', '\n \n', '  '])
        cases.append(_case(None, o, 'join', {'s': lay(a) + sep + lay(b), 'a': lay(a), 'b': lay(b), 'sep': sep}))
    # a macro declared through the public API whose FIRST argument is read with comments and formulas switched off:
    # its second argument is an ordinary one and converts like the same block on its own (real code only)
    for _ in range(300 if quick else 5000):
        a = normalize([g.txt()] + g.items(0) + [g.txt()])
        o = _opts(rnd)
        o.pop('keep_braced_groups', None)
        o.pop('keep_braced_groups_minlen', None)
        url = rnd.choice(['plain', 'a%b', 'x$y', 'http://u.v/w%20z', ''])
        c = _case(None, o, 'custom-arg', {'s': '\\weblink{' + url + '}' + rnd.choice(['', ' ', '\n']) + '{' + lay(a) + '}',
                                          'body': a, 'url': url})
        c['wire'] = [399]
        cases.append(c)
    return cases


def impl(c):
    d = c['desc']
    if d['kind'] == 'custom-arg':
        return 'BADIN'
    return H.l2t_e2e(d['opts'], d['s'], False)


def _real(o, s):
    from pylatexenc.latex2text import LatexNodes2Text
    return LatexNodes2Text(**o).latex_to_text(s, tolerant_parsing=False)


def _tuples(x):
    if isinstance(x, list):
        y = [_tuples(v) for v in x]
        if y and isinstance(y[0], str) and y[0] in ('t', 'w', 'par', 'cmt', 'grp', 'fmt', 'sym', 'acc', 'frac', 'sqrt', 'spc', 'math', 'env', 'item'):
            return tuple(y)
        return y
    return x


def oracle(c):
    d = c['desc']
    o = d['opts']
    if d['kind'] == 'custom-arg':
        from pylatexenc.latex2text import LatexNodes2Text
        wdb, tdb = H.custom_dbs(discards=False)
        try:
            got = LatexNodes2Text(latex_context=tdb, **o).latex_to_text(d['s'], latex_context=wdb, tolerant_parsing=False)
        except Exception as e:
            return ('latex_to_text-raised-%s' % type(e).__name__, {'message': str(e)[:200]})
        want = d['url'] + ' <' + render(_tuples(d['body']), o) + '>'
        if want != got:
            return ('argument-after-a-state-changing-argument-rendered-differently', {'expected': want, 'observed': got})
        return None
    try:
        got = _real(o, d['s'])
    except Exception as e:
        return ('latex_to_text-raised-%s' % type(e).__name__, {'message': str(e)[:200]})
    if d['kind'] == 'doc':
        want = render(_tuples(d['doc']), o)
        if want != got:
            i = next((j for j in range(min(len(want), len(got))) if want[j] != got[j]), min(len(want), len(got)))
            return ('rendering-differs-from-documented-rules', {'expected': want, 'observed': got, 'first_difference_at': i})
        return None
    try:
        ta, tb = _real(o, d['a']), _real(o, d['b'])
    except Exception as e:
        return None
    sep = '\n\n' if '\n\n' in d['sep'] or d['sep'].count('\n') >= 2 else d['sep']
    if got != ta + sep + tb:
        return ('conversion-not-compositional', {'whole': got, 'parts': [ta, sep, tb]})
    return None


def distribution(cases, impl_out):
    return {'kinds': dict(collections.Counter(c['desc']['kind'] for c in cases)),
            'strict_latex_spaces': dict(collections.Counter(str(c['desc']['opts']['strict_latex_spaces']) for c in cases)),
            'math_mode': dict(collections.Counter(c['desc']['opts']['math_mode'] for c in cases)),
            'accepted_by_strict_parser': sum(1 for i in impl_out if isinstance(i, str) and i.startswith('ok'))}
