"""C02 — parsing recovers the structure a well-formed document was written with."""
import random, collections
import docgen, docast, ctxwire, treedump
import parsecommon as PC

PID = 'C02'
PROJECTION = 'structure (+ full trees for the model/implementation correspondence)'
RULE = ('random derivations of the document grammar (text, whitespace, paragraph breaks, comments, groups, inline/display '
        'math with all four delimiter pairs, macro calls / environments / specials with arguments written per their '
        'declared signature: star, t<c>, optional and required delimited arguments, mandatory arguments as groups or single '
        'tokens, verbatim arguments, \\verb, verbatim environments), under the default context and the custom contexts '
        '(every standard argument kind, with and without unknown-macro fallback); each abstract document is laid out twice '
        'with different inter-construct whitespace and comments. Non-trivial: the document contains a call with at least '
        'one written argument, or math, or an environment.')
EXHAUSTIVE = {'quick': False, 'thorough': False}
ASSUMPTIONS = ['the expected structure is computed from the abstract document by harness/docast.py (never from a parser); '
               'whitespace-only character nodes and the exact whitespace inside text runs are not part of the structure',
               'documents are generated unambiguous (follow conditions enforced by the layout: a control word is not followed '
               'by a letter; text never contains active characters)']
PARTIAL = ['C02_parse_unparse_partial / C02_items_simulation_partial / C02_whitespace_irrelevant_partial / '
           'C02_tree_whitespace_irrelevant_partial: proved for the CORE sub-grammar of coq/Doc/DocGrammar.v (stages a-d, e2): '
           'text runs of inert characters, non-paragraph whitespace before every item / closing delimiter / end of input, '
           'nested braced groups, macro calls (control words with post-space, control symbols) whose signature is made only '
           'of mandatory brace arguments written as braced groups directly after the name (any math-mode delta), inline math '
           '$..$ and \\(..\\), display math \\[..\\] and $$..$$ outside math mode, comments (% text newline whitespace), '
           'paragraph breaks (whitespace run with >= 2 newlines ending with its last newline, context with the \\n\\n '
           'specials); all documents of that grammar, all contexts.',
           'C02_parse_unparse2_partial / C02_parse_unparse2_modes_partial (strict AND tolerant mode) / C02_items_simulation2_partial / C02_whitespace_irrelevant2_partial / '
           'C02_tree_whitespace_irrelevant2_partial: the same for the EXTENDED grammar of coq/Doc/DocGrammar2.v = the core '
           'grammar with PRECISE text characters (a character is text when no specials sequence of the context matches at it, so '
           'a-b / don\'t / Hi! are text under the default context) plus (e1) environments \\begin{name} args body \\end{name} (known to the context or covered by its '
           'unknown-environment fallback, mandatory brace arguments, body in math mode when declared so, whitespace allowed '
           'between \\begin / \\end and the brace), (e3) the specials sequences of the context (longest match, with arguments if '
           'declared), (e4) arguments per slot of the declared signature: braced group with whitespace in front where the '
           'slot allows it, delimited argument [..] (any single-character delimiter pair) written or - when optional - absent, '
           'marker character * written or absent; side conditions: an absent argument is not followed (after whitespace) by '
           'its opening character, the two delimiter characters are not text directly in the body of a delimited argument '
           '(no bound on the number of absent arguments per call: the model\'s fuel len*(8+max_args cx)+40+max_args cx is computed '
           'from the context and pays for every declared slot), (e5) a mandatory argument '
           'written as one token: a character, a control sequence (its own arguments are not parsed), a specials sequence, '
           '(e6) a comment that ends with the input, a paragraph break followed by indentation, (e7) verbatim: \\verb<c>text<c> and '
           'the verbatim environments (verbatim; lstlisting with its optional argument written or absent), the verbatim argument '
           'kind of custom signatures.',
           'C02_parse_unparse3_partial / C02_parse_unparse3_modes_partial (strict AND tolerant mode) / C02_items_simulation3_partial: '
           'the same for the THIRD grammar of coq/Doc/DocGrammar3.v = the extended grammar (C02_extended_grammar_embeds: up2_doc keeps '
           'the side conditions - the two predicates are equal -, the written form and the meaning, so these theorems subsume the '
           'ones above) plus (b) WPar3: a whitespace run with two or more newlines (ending with its last newline, possibly followed by '
           'indentation) in a context WITHOUT the paragraph specials - one character token, pending characters like text -, anywhere '
           'an item may stand (top level, groups, math, environment bodies, delimited arguments); (c) PArg3: a paragraph break as the '
           'single-token argument of a mandatory slot of a macro / environment / specials call - the \\n\\n specials node without '
           'arguments where the context has these specials (whatever their signature; whitespace in front always allowed), a '
           'characters node in a context without them (whitespace in front only where the slot allows it); (a\') BGrp3: a delimited '
           'group [..] written DIRECTLY in the body of a delimited argument with the same delimiter pair (\\item[see [1, [2]]]), whose '
           'body is made of text (the two delimiters excluded), comments and nested groups of the same kind, to any depth. '
           'NOT covered by any theorem (only by the differential correspondence and the structure oracle): ' + """inside a delimited group written directly in the body of a delimited argument: macro calls, environments, math, braced groups, specials and paragraph breaks (all children of such a group are read in the extended parsing state, which is not a state of the grammar); a whitespace run with two or more newlines in a context whose paragraph specials takes arguments"""]
REFUTED = []
CASE_TIMEOUT = 10.0
case_from_desc = None
distribution = None

DEFAULT_MACROS = ['textbf', 'emph', 'frac', 'sqrt', 'section', 'item', '\\', 'text', 'ensuremath', 'mbox', 'hspace',
                  'label', 'newcommand', 'includegraphics', 'footnote', 'textcolor', 'alpha', 'zzunknown', 'verb', 'cite',
                  'documentclass', 'chapter', 'texorpdfstring', 'mathbf', 'url', 'ldots', '%', '&', ',', ' ']
DEFAULT_ENVS = ['itemize', 'center', 'equation', 'align*', 'tabular', 'zzunknownenv', 'verbatim', 'lstlisting', 'array',
                'enumerate', 'figure', 'alignat', 'zz' + 'long.name-' * 7]
CUSTOM_MACROS = ['ma', 'mb', 'mc', 'md', 'mv', 'mw', 'mz', 'mt', 'mm', 'mq', 'mk', '\\', 'unk']
CUSTOM_ENVS = ['ea', 'eb', 'em', 'e*', 'zz', 'zz' + 'q' * 61, 'zz' + 'w' * 130]

_sig_cache = {}


def _sig(ctx):
    if ctx == 'default' and ctx not in _sig_cache:
        # the signatures documents for the default context are written for: the RECORDED declarations
        # (baseline_walkerctx.json), not whatever the live database says today
        _sig_cache[ctx] = docast.Sig(docgen.baseline_default_cx())
    if ctx not in _sig_cache:
        db = docgen.make_db('legacyspell-ref' if ctx == 'legacyspell' else ctx)
        if db is None:
            from pylatexenc.latexwalker import get_default_latex_context_db
            db = get_default_latex_context_db()
        _sig_cache[ctx] = docast.Sig(ctxwire.decode_db(db))
    return _sig_cache[ctx]


def _pools(ctx, sig):
    if ctx == 'default':
        # every environment the default context declares, and a rotating sample of all its macros
        envs = DEFAULT_ENVS + [n for n in sorted(sig.envs) if n not in DEFAULT_ENVS and sig.envs[n]['args'][0] == 'std']
        more = [n for n in sorted(sig.macros) if n not in DEFAULT_MACROS and sig.macros[n]['args'][0] == 'std'
                and n.isalpha() and n not in ('begin', 'end')]
        return (DEFAULT_MACROS + more, envs, ['~', '``', "''", '--', '---', '&'],
                ['alpha', 'beta', 'zz', 'i', 'in', 'ne', 'e', 'nd', 'gin', 'ben'])
    if ctx == 'default-old':
        # zero-argument macros usable as single-token arguments; several names are fragments of 'begin' / 'end'
        return DEFAULT_MACROS, DEFAULT_ENVS, ['~', '``', "''", '--', '---', '&'], ['alpha', 'beta', 'zz', 'i', 'in', 'ne', 'e',
                                                                                   'nd', 'gin', 'ben']
    mac = [m for m in CUSTOM_MACROS if ctx == 'custom' or m != 'unk']
    env = [e for e in CUSTOM_ENVS if ctx == 'custom' or not e.startswith('zz')]
    return mac, env, ['~', '!!', '@', '--', '---', '&'], (['mz', 'e', 'nd', 'in'] if ctx == 'custom' else ['mz'])


def _case(ctx, doc, seed_layout):
    sig = _sig(ctx)
    s = docast.unparse(random.Random(seed_layout), sig, doc)
    c = PC.mk_case(ctx, s, False, 'grammar')
    c['desc']['doc'] = docast.canon(doc)
    c['desc']['layout_seed'] = seed_layout
    return c


def case_from_desc(d):
    c = PC.mk_case(d['ctx'], d['s'], False, 'grammar')
    c['desc'].update(doc=d.get('doc'), layout_seed=d.get('layout_seed'))
    return c


def _has(doc, kinds):
    for it in doc:
        if isinstance(it, (list, tuple)) and it:
            if it[0] in kinds:
                return True
            if any(_has(x, kinds) for x in it[1:] if isinstance(x, (list, tuple))):
                return True
    return False


def gen_cases(seed, tier):
    rnd = random.Random(seed)
    cases = []
    n = 1200 if tier == 'quick' else 20000
    for ctx in ('default', 'custom', 'custom-nofallback'):
        sig = _sig(ctx)
        mac, env, spc, zero = _pools(ctx, sig)
        g = docast.DocGen(rnd, sig, mac, env, spc, zero)
        for _ in range(n if ctx != 'custom-nofallback' else n // 3):
            doc = g.items(0)
            for _ in range(2):
                c = _case(ctx, doc, rnd.randint(0, 10**9))
                c['nt'] = _has(doc, ('macro', 'env', 'math', 'specials'))
                cases.append(c)
    # an argument whose parsing-state delta changes TOKENISATION (comments, math, specials off) must not affect the
    # arguments after it: the body argument of \\link{url}{BODY} parses like the only argument of \\plain{BODY} (real code only)
    bodies = ['$x$', 'a%c\nb', 'a~b', '{$y$} z', 'p $q$ %r\n s~t', '\\plain{$w$}', 'a']
    for b in bodies:
        for head in ('\\link{u}', '\\link{u%v}', '\\linko[u]', '\\linko', '\\link{$}'):
            cases.append({'wire': [999], 'nt': True,
                          'desc': {'ctx': 'chained', 's': head + '{' + b + '}', 'tolerant': False, 'origin': 'argument-delta',
                                   'twin': '\\plain{' + b + '}'}})
    cases += PC.twin_cases(rnd, 250 if tier == 'quick' else 4000)
    # signatures declared through the pylatexenc-2 spelling (real code only): documents generated from the same
    # signatures given as argument lists must come back with the structure they were written with
    sig = _sig('legacyspell')
    g = docast.DocGen(rnd, sig, [n for n, _ in docgen.LEGACYSPELL_MACROS] + ['!', 'unk'], [n for n, _ in docgen.LEGACYSPELL_ENVS] + ['zz'],
                      ['~'], ['lz'])
    for _ in range(400 if tier == 'quick' else 6000):
        doc = g.items(0)
        c = _case('legacyspell', doc, rnd.randint(0, 10**9))
        c['nt'] = _has(doc, ('macro', 'env'))
        cases.append(c)
    return cases


def impl(c):
    return PC.proj_spans(PC.impl_parse(c))


def same(m, i, c):
    return PC.proj_spans(m) == i


def _tuplify(x):
    if isinstance(x, list):
        return [_tuplify(y) for y in x]
    return x


def _oracle_argdelta(d):
    import re, treedump
    ra = PC.real_parse(d)
    rb = PC.real_parse(dict(d, s=d['twin']))
    if ra[0] != 'ok' or rb[0] != 'ok':
        bad = ra if ra[0] != 'ok' else rb
        return ('well-formed-document-rejected', {'error': type(bad[1]).__name__, 'message': str(bad[1])[:200]})
    strip = lambda x: re.sub(r'\((\d+|-),(\d+|-),', '(', x)
    a = strip(treedump.dump(ra[1][0].nodeargd.argnlist[-1]))
    b = strip(treedump.dump(rb[1][0].nodeargd.argnlist[-1]))
    if a != b:
        return ('argument-parsed-under-another-arguments-state', {'after_delta_argument': a[:300], 'alone': b[:300]})
    return None


def oracle(c):
    d = c['desc']
    if d.get('origin') == 'argument-delta':
        return _oracle_argdelta(d)
    if d.get('origin') == 'chained-twin':
        return PC.oracle_twin(d)
    if d.get('doc') is None:
        return None
    r = PC.real_parse(d)
    if r[0] != 'ok':
        e = r[1]
        return ('well-formed-document-rejected', {'error': type(e).__name__, 'pos': getattr(e, 'pos', None),
                                                  'message': str(getattr(e, 'msg', e))[:200]})
    sig = _sig(d['ctx'])
    doc = _to_tuples(d['doc'])
    want = docast.canon(docast.expected(sig, doc))
    got = docast.canon(docast.struct(r[1]))
    if d['ctx'] == 'legacyspell':
        # documented difference of the pylatexenc-2 arguments parser: a macro or specials read as a single-token
        # argument has no parsed-arguments object (C16, normalisation N1) - "no arguments" on both sides here
        want, got = _n1(want), _n1(got)
    if want != got:
        return ('structure-differs', {'expected': _first_diff(want, got)[0], 'observed': _first_diff(want, got)[1]})
    return None


def _n1(x):
    if isinstance(x, list):
        if len(x) == 3 and x[0] in ('M', 'S') and isinstance(x[1], str) and x[2] in (None, []):
            return [x[0], x[1], []]
        return [_n1(y) for y in x]
    return x


def _to_tuples(x):
    if isinstance(x, list):
        y = [_to_tuples(v) for v in x]
        if y and isinstance(y[0], str) and y[0] in ('text', 'space', 'par', 'comment', 'group', 'math', 'macro', 'env',
                                                     'specials', 'verbmacro', 'verbenv', 'chars', 'brace', 'tok', 'delim', 'verb'):
            return tuple(y)
        return y
    return x


def _first_diff(a, b, depth=0):
    if isinstance(a, list) and isinstance(b, list):
        for x, y in zip(a, b):
            if x != y:
                return _first_diff(x, y, depth + 1)
        if len(a) != len(b):
            return (a[len(b):][:2] if len(a) > len(b) else '<end>', b[len(a):][:2] if len(b) > len(a) else '<end>')
    return (str(a)[:300], str(b)[:300])


def distribution(cases, impl_out):
    k = collections.Counter()
    for c in cases:
        for kind in ('macro', 'env', 'math', 'specials', 'comment', 'par', 'group', 'verbmacro', 'verbenv'):
            if c['desc'].get('doc') is not None and _has(c['desc']['doc'], (kind,)):
                k[kind] += 1
    acc = sum(1 for i in impl_out if isinstance(i, str) and i.startswith('ok'))
    return {'documents_containing': dict(k), 'accepted_by_strict_parser': acc, 'total': len(cases),
            'contexts': dict(collections.Counter(c['desc']['ctx'] for c in cases))}
