"""C09 — parsing is a pure function of input, context and flags.

A case is a HISTORY: 2-5 parse jobs run in order in one (long-lived) worker
process, sharing the context database objects, their specification objects,
the explicit parser objects placed on specifications and the module-level
cache of standard argument parsers.

impl(history)   : one dump line per job (joined by ' | '), compared with the
                  model (coq/Parse/Stateful.v through entry 900).
oracle(history) : the property itself on the real code — every in-history
                  result equals the result of the same job in a PRISTINE
                  interpreter state (harness/c09_pristine.py: a server process
                  that imported pylatexenc but never parsed; it forks one child
                  per job); every context database used is structurally
                  identical before and after the history (deep fingerprint of
                  everything reachable from it, lazily created inner parsers
                  aside); every standard-argument-parser instance (cached or
                  explicit) still is what its constructor makes, its inner
                  parser being absent or identical to a freshly created one;
                  parsing adds only argument-spec STRINGS as cache keys and
                  never replaces an entry."""
import os, sys, json, random, itertools, subprocess, collections, atexit, types, functools
import docgen, ctxwire, parseharness as P
from common import w_str, w_opt, w_list, w_bool

PID = 'C09'
PROJECTION = 'structure+positions per call, over call histories'
RULE = ('(plus, on the real code only: histories over a database whose first category is auto-named and holds a macro that extends the context while parsing) histories of 2-5 parse jobs run in one reused worker process: all orderings of small document sets (2-3 jobs, '
        'also with a repeated job) and random interleavings (2-5 jobs, duplicates forced in half of them), over the '
        'shared default walker database (one db object per process, or a new db per walker over the shared spec objects), '
        "docgen's 'custom' database (every standard argument kind incl. v and v{}), a database whose arguments are "
        'get_standard_argument_parser(spec, **kwargs) instances (cache keys with keywords), two databases sharing explicit '
        'LatexStandardArgumentParser objects, freshly rebuilt copies of those, and a database with argument specifications '
        'that raise ValueError; strict and tolerant; documents: structured, token soups, single faults, unterminated '
        'verbatim arguments. Each in-history result is compared with the model and with the same job in a pristine '
        'interpreter. Non-trivial: at least 2 jobs and a macro call in some job.')
EXHAUSTIVE = {'quick': False, 'thorough': False}
ASSUMPTIONS = [
    'model of the state (cache + lazily created inner parsers) and of the parser validated only by this correspondence',
    'the model resolves every argument of the context before parsing, the code when the argument is reached '
    '(the theorems hold from every state satisfying Inv, which covers both); a ValueError specification is always reached '
    'by the generated documents',
    '"parsing never modifies the context database" and "no other hidden state" are not theorems: checked on the real '
    'objects by a deep structural fingerprint before/after every history and by comparison with a pristine interpreter',
    'expression_single_token_requiring_arg_is_error is left at its default; e{..}, AnyDelimited* and '
    'm/{ with return_full_node_list=True are outside the modelled fragment (the spelling decoder fails closed)',
    'C09_counter_on_instance_refuted is about the code BEFORE fix 9295ac7 (kept as documentation), not a refuted clause',
]
PARTIAL = []
REFUTED = []
CASE_TIMEOUT = 30.0
SEP = ' | '

# ---------------------------------------------------------------------------
# context databases (beyond docgen's): built per process, shared by all histories

_KW_MACROS = 'ka kb kc kd ke kv kw kr'.split()


def _build_kw(freeze=True):
    """arguments obtained from get_standard_argument_parser WITH keywords (tuple cache keys)"""
    from pylatexenc.macrospec import LatexContextDb, MacroSpec, EnvironmentSpec
    from pylatexenc.latexnodes import LatexArgumentSpec, ParsingStateDeltaEnterMathMode
    from pylatexenc.latexnodes.parsers import get_standard_argument_parser as G
    A = LatexArgumentSpec
    db = LatexContextDb()
    db.add_context_category('kw', macros=[
        MacroSpec('ka', [A(G('{', allow_pre_space=False))]),
        MacroSpec('kb', ['{']),
        MacroSpec('kc', [A(G('*', return_full_node_list=True)), A('{')]),
        MacroSpec('kd', ['*', '{']),
        MacroSpec('ke', [A(G('[', allow_pre_space=False)), A(G('{', allow_pre_space=True))]),
        MacroSpec('kv', ['v']),
        MacroSpec('kw', [A(G('t+', allow_pre_space=False)), A('[')]),
        MacroSpec('kr', ['r()', A(G('d<>', allow_pre_space=False), parsing_state_delta=ParsingStateDeltaEnterMathMode())]),
    ], environments=[EnvironmentSpec('kenv', [A(G('[', allow_pre_space=False)), A('{')])])
    db.set_unknown_macro_spec(MacroSpec(''))
    db.set_unknown_environment_spec(EnvironmentSpec(''))
    if freeze:
        db.freeze()
    return {'c9kw': db}


def _build_obj(freeze=True):
    """two databases sharing explicit LatexStandardArgumentParser objects"""
    from pylatexenc.macrospec import LatexContextDb, MacroSpec, EnvironmentSpec, SpecialsSpec
    from pylatexenc.latexnodes import LatexArgumentSpec as A
    from pylatexenc.latexnodes.parsers import LatexStandardArgumentParser as S
    o1 = S('[', allow_pre_space=False)
    o2 = S('{', allow_pre_space=False)
    o3 = S('v')
    o4 = S('*', return_full_node_list=True)
    db = LatexContextDb()
    db.add_context_category('obj', macros=[
        MacroSpec('oa', [A(o1), A(o2)]),
        MacroSpec('ob', [A(o1), A('{')]),
        MacroSpec('ov', [A(o3)]),
        MacroSpec('ow', [A(o3), A(o3)]),
        MacroSpec('os', [A(o4), A(o2)]),
    ], specials=[SpecialsSpec('!', [A(o1)])])
    db.set_unknown_macro_spec(MacroSpec(''))
    if freeze:
        db.freeze()
    db2 = LatexContextDb()
    db2.add_context_category('obj2', macros=[
        MacroSpec('ov', [A(o3), A(o1)]),          # same name, other signature, same objects
        MacroSpec('pb', [A('v'), A(o2)]),
    ])
    db2.set_unknown_macro_spec(MacroSpec(''))
    db2.set_unknown_environment_spec(EnvironmentSpec(''))
    if freeze:
        db2.freeze()
    return {'c9obj': db, 'c9obj2': db2}


def _build_bad(freeze=True):
    from pylatexenc.macrospec import LatexContextDb, MacroSpec
    db = LatexContextDb()
    db.add_context_category('bad', macros=[MacroSpec('bad', ['q']), MacroSpec('bt', ['{', 't']),
                                           MacroSpec('ok', ['{'])])
    db.set_unknown_macro_spec(MacroSpec(''))
    if freeze:
        db.freeze()
    return {'c9bad': db}


def _build_default(freeze=True):
    from pylatexenc.latexwalker import get_default_latex_context_db
    db = get_default_latex_context_db()
    if freeze:
        db.freeze()
    return {'default': db}


def _defmacro_after(parsed_node, *args, **kwargs):
    """\\defmacro{\\name}: from here on \\name is a macro with one mandatory argument"""
    from pylatexenc.macrospec import MacroSpec, ParsingStateDeltaExtendLatexContextDb
    try:
        name = parsed_node.nodeargd.argnlist[0].nodelist[0].macroname
    except Exception:
        return None
    return ParsingStateDeltaExtendLatexContextDb(extend_latex_context=dict(macros=[MacroSpec(name, '{')]))


def _build_def(freeze=True):
    """a database whose FIRST category is auto-named and holds a macro that extends the context while parsing
    (the model has no context-extending deltas: these histories are run on the real code only)"""
    from pylatexenc.latexwalker import get_default_latex_context_db
    from pylatexenc.macrospec import MacroSpec
    from pylatexenc.macrospec import EnvironmentSpec, ParsingStateDeltaExtendLatexContextDb
    db = get_default_latex_context_db()
    # environments whose (shared) body delta both extends the context and sets attributes
    enumx = EnvironmentSpec('enumx', '', body_parsing_state_delta=ParsingStateDeltaExtendLatexContextDb(
        extend_latex_context=dict(macros=[MacroSpec('itemx', '[')]), set_attributes=dict(enable_comments=True)))
    descx = EnvironmentSpec('descx', '', body_parsing_state_delta=ParsingStateDeltaExtendLatexContextDb(
        extend_latex_context=dict(macros=[MacroSpec('term', '{')]), set_attributes=dict(enable_specials=True)))
    db.add_context_category(None, macros=[MacroSpec('defmacro', '{', make_after_parsing_state_delta=_defmacro_after)],
                            environments=[enumx, descx], prepend=True)
    if freeze:
        db.freeze()
    return {'c9def': db}


_vb_parser = []


def _build_verb(freeze=True):
    """an environment whose verbatim body parser is ONE object owned by the specification and reused by every parse
    (the pylatexenc-3 verbatim-environment parser; real code only: custom body parsers are outside the model)"""
    from pylatexenc.macrospec import LatexContextDb, MacroSpec, EnvironmentSpec
    from pylatexenc.latexnodes.parsers import LatexVerbatimEnvironmentContentsParser
    if not _vb_parser:
        _vb_parser.append(LatexVerbatimEnvironmentContentsParser(environment_name='vb'))
    shared = _vb_parser[0]
    db = LatexContextDb()
    db.add_context_category('vb', macros=[MacroSpec('ok', '{')],
                            environments=[EnvironmentSpec('vb', '', make_body_parser=lambda *a, **k: shared)])
    db.set_unknown_macro_spec(MacroSpec(''))
    db.set_unknown_environment_spec(EnvironmentSpec(''))
    if freeze:
        db.freeze()
    return {'c9verb': db}


UNMODELLED = ('c9def', 'c9verb', 'chained')
_FAMILIES = {'c9verb': _build_verb, 'c9def': _build_def, 'c9kw': _build_kw, 'c9obj': _build_obj, 'c9obj2': _build_obj, 'c9bad': _build_bad,
             'default': _build_default}
_shared = {}


def build_family(name, freeze=True):
    """a NEW family of databases containing [name]; freeze=False leaves freezing to LatexWalker.__init__"""
    if name in ('custom', 'custom-nofallback', 'bare', 'chained'):
        raise ValueError('docgen contexts are only used shared')
    return _FAMILIES[name](freeze)


def shared_db(name):
    """the per-process database object of that name"""
    if name in ('custom', 'custom-nofallback', 'bare', 'chained'):
        return docgen.make_db(name)
    if name not in _shared:
        _shared.update(build_family(name))
    return _shared[name]


CONTEXTS = ['default', 'custom', 'c9kw', 'c9obj', 'c9obj2', 'c9bad']

# ---------------------------------------------------------------------------
# spelling decoder (live database -> Stateful.sctx), fail closed


def _key_of(k):
    """cache key -> (spec, aps|None, full|None)"""
    if isinstance(k, str):
        return (k, None, None)
    d = dict(k)
    extra = set(d) - {'arg_spec', 'allow_pre_space', 'return_full_node_list'}
    if extra or 'arg_spec' not in d:
        raise ctxwire.Unsupported('cache key %r' % (k,))
    for f in ('allow_pre_space', 'return_full_node_list'):
        if f in d and not isinstance(d[f], bool):
            raise ctxwire.Unsupported('cache key %r' % (k,))
    return (d['arg_spec'], d.get('allow_pre_space'), d.get('return_full_node_list'))


def _modelled(spec, full):
    if spec in ('m', '{'):
        return not full
    if spec.startswith('e') or spec in ('AnyDelimited', 'AnyDelimitedOptional'):
        return False
    return True


def spell_arg(arg):
    """-> (('key', spec, aps, full) | ('obj', python-object), delta)"""
    from pylatexenc.latexnodes import LatexArgumentSpec
    from pylatexenc.latexnodes.parsers import LatexStandardArgumentParser, _stdarg
    if not isinstance(arg, LatexArgumentSpec):
        raise ctxwire.Unsupported('argument %r' % (arg,))
    delta = ctxwire._delta(arg.parsing_state_delta)
    p = arg.parser
    if isinstance(p, str):
        if not _modelled(p, False):
            raise ctxwire.Unsupported('argument specification %r' % (p,))
        return (('key', p, None, None), delta)
    if type(p) is not LatexStandardArgumentParser:
        raise ctxwire.Unsupported('argument parser %r' % (p,))
    if p.expression_single_token_requiring_arg_is_error is not True or not isinstance(p.arg_spec, str) \
            or not _modelled(p.arg_spec, p.return_full_node_list):
        raise ctxwire.Unsupported('standard argument parser %r' % (vars(p),))
    for k, inst in _stdarg._std_arg_parser_instances.items():
        if inst is p:
            return (('key',) + _key_of(k), delta)
    return (('obj', p), delta)


def spell_spec(spec):
    """like ctxwire.decode_spec, the arguments as spellings (the live objects are only read)"""
    from pylatexenc.macrospec._argumentsparser import LatexArgumentsParser
    from pylatexenc.latexnodes import ParsingStateDeltaEnterMathMode
    ap = spec.arguments_parser
    if type(ap) is not LatexArgumentsParser:
        return ctxwire.decode_spec(spec)     # no arguments / legacy verbatim parsers: no spellings inside
    for fn in ('_fn_make_arguments_parsing_state_delta', '_fn_make_body_parser', '_fn_finalize_node',
               '_fn_make_body_parsing_state_delta', '_fn_make_after_parsing_state_delta'):
        if hasattr(spec, fn):
            raise ctxwire.Unsupported('%s on %r' % (fn, spec))
    bd = spec.body_parsing_state_delta
    if bd is None:
        body_math = False
    elif type(bd) is ParsingStateDeltaEnterMathMode and bd.walker_event_kwargs.get('math_mode_delimiter') is None:
        body_math = True
    else:
        raise ctxwire.Unsupported('body delta %r' % (bd,))
    return {'args': ('std', [spell_arg(a) for a in ap.arguments_spec_list]), 'body_math': body_math}


_spell_cache = {}


def spell_db(db):
    if id(db) in _spell_cache and _spell_cache[id(db)][0] is db:
        return _spell_cache[id(db)][1]
    out = {'macros': [], 'envs': [], 'specials': []}
    for cat in db.category_list:
        d = db.d[cat]
        for k, key in (('macros', 'macros'), ('environments', 'envs'), ('specials', 'specials')):
            for name, spec in d[k].items():
                out[key].append((name, spell_spec(spec)))
    out['unk_macro'] = None if db.unknown_macro_spec is None else spell_spec(db.unknown_macro_spec)
    out['unk_env'] = None if db.unknown_environment_spec is None else spell_spec(db.unknown_environment_spec)
    if db.unknown_specials_spec is not None:
        raise ctxwire.Unsupported('unknown_specials_spec')
    for key, getter in (('macros', db.get_macro_spec), ('envs', db.get_environment_spec),
                        ('specials', db.get_specials_spec)):
        seen = {}
        for name, sp in out[key]:
            seen.setdefault(name, sp)
        for name, sp in seen.items():
            if spell_spec(getter(name)) != sp:
                raise ctxwire.Unsupported('lookup order of %s %r differs from category order' % (key, name))
    _spell_cache[id(db)] = (db, out)
    return out


class _Objs:
    """explicit parser objects of one history, by identity"""

    def __init__(self):
        self.objs = []

    def ident(self, o):
        for i, x in enumerate(self.objs):
            if x is o:
                return i
        self.objs.append(o)
        return len(self.objs) - 1

    def wire(self):
        return w_list(self.objs, lambda o: w_str(o.arg_spec) + w_bool(o.allow_pre_space) + w_bool(o.return_full_node_list))


def _w_sarg(a, objs):
    sp, delta = a
    if sp[0] == 'key':
        return [0] + w_str(sp[1]) + w_opt(sp[2], w_bool) + w_opt(sp[3], w_bool) + [delta]
    return [1, objs.ident(sp[1]), delta]


def _w_sspec(sp, objs):
    a = sp['args']
    if a[0] == 'std':
        ap = [0] + w_list(a[1], lambda x: _w_sarg(x, objs))
    elif a[0] == 'verbmacro':
        ap = [1]
    else:
        ap = [2] + w_str(a[1]) + w_bool(a[2])
    return ap + w_bool(sp['body_math'])


def w_sctx(cx, objs):
    named = lambda ns: w_str(ns[0]) + _w_sspec(ns[1], objs)
    return (w_list(cx['macros'], named) + w_list(cx['envs'], named) + w_list(cx['specials'], named)
            + w_opt(cx['unk_macro'], lambda s: _w_sspec(s, objs)) + w_opt(cx['unk_env'], lambda s: _w_sspec(s, objs)))


# ---------------------------------------------------------------------------
# cases

def mk_case(jobs, origin):
    """jobs: [{'ctx': name, 's': str, 'tolerant': bool, 'db': 'shared'|'fresh'}]"""
    if any(j['ctx'] in UNMODELLED for j in jobs):
        # outside the modelled fragment (entry 999 does not exist: model and impl both answer BADIN); the oracle
        # (pristine interpreter, database fingerprint) is what decides these histories
        return {'wire': [999], 'desc': {'jobs': jobs, 'origin': origin, 'unmodelled': True}, 'nt': True}
    objs = _Objs()
    ctxs = []          # wire of each distinct context value
    index = {}
    raw = []
    for j in jobs:
        if j.get('db', 'shared') == 'fresh' and j['ctx'] != 'default':
            db = build_family(j['ctx'])[j['ctx']]          # same structure the worker will build
            ci = len(ctxs)
            ctxs.append(w_sctx(spell_db(db), objs))
        else:
            # 'default' + fresh = a new db object over the SAME module-level spec objects: same spellings
            if j['ctx'] not in index:
                index[j['ctx']] = len(ctxs)
                ctxs.append(w_sctx(spell_db(shared_db(j['ctx'])), objs))
            ci = index[j['ctx']]
        raw.append([ci] + w_str(j['s']) + w_bool(j['tolerant']))
    wire = [900] + objs.wire() + [len(ctxs)] + [x for c in ctxs for x in c] + [len(raw)] + [x for r in raw for x in r]
    nt = len(jobs) >= 2 and any('\\' in j['s'] for j in jobs)
    return {'wire': wire, 'desc': {'jobs': jobs, 'origin': origin}, 'nt': nt}


def case_from_desc(d):
    return mk_case(d['jobs'], d.get('origin', 'replay'))


CURATED = {
    'default': ['\\textbf{a}', '\\textbf {a}', '\\\\*[1pt] x', '\\\\ [x]', '\\section*{A}b', '\\verb|x{|y', '\\item[a] b',
                '\\begin{verbatim}a{\\end{verbatim}', '\\frac{a}{b}$x$', '\\textbf{a', '\\sqrt[3]{x}}', '\\textbf',
                '\\begin{itemize}\\item a', 'a\n\nb%c\n', '\\begin{equation}x\\text{a $y$}\\end{equation}'],
    'custom': ['\\mv{a{b}c}d', '\\mv{a{b', '\\mv|a{|b', '\\mw{a{b}}[x]', '\\mw{a{b', '\\mv (a(b))c', '\\md(a)<b>c',
               '\\mc*+{a}', '\\mc +{a}', '\\ma*[o]{a}', '\\\\*[x]', '\\\\ [x]', '\\mb a[b]', '\\mm[a]{b}', '!![o]{a}',
               '\\begin{ea}[o]{a}b\\end{ea}', '\\mv{a{b}c}}', '\\mv<a<b>c', '\\mw[a]',
               "\\mv`ls -l` or 'quit'", '\\mv<a|b>c'],
    'c9kw': ['\\ka{a}b', '\\ka {a}b', '\\kb {a}b', '\\kc*{a}', '\\kc *{a}', '\\kd*{a}', '\\kd{a}', '\\ke[o]{a}',
             '\\ke [o] {a}', '\\ke{a}', '\\kv{a{b}c}d', '\\kv{a{b', '\\kw+[o]', '\\kw +[o]', '\\kw[o]', '\\kr(a)<b>c',
             '\\kr(a) <b>', '\\begin{kenv}[o]{a}x\\end{kenv}', '\\begin{kenv} [o]{a}\\end{kenv}', '\\ka', '\\kr', '\\kz{a}'],
    'c9obj': ['\\oa[o]{a}', '\\oa [o] {a}', '\\oa{a}', '\\ob[o] {a}', '\\ob {a}', '\\ov{a{b}c}d', '\\ov{a{b',
              '\\ow{a}|b|c', '\\ow{a{b}}{c{d}}', '\\os*{a}', '\\os {a}', '![o]x', '! [o]x', '\\oa', '\\ov'],
    'c9obj2': ['\\ov{a{b}c}[o]d', '\\ov{a} [o]d', '\\pb{a{b}}{c}', '\\pb|x| {c}', '\\pb{a{', '\\ov{a{b'],
    'c9bad': ['\\bad', '\\bad{a}', '\\bt{a}+', '\\bad x\\ok{a}', '\\bt{a}', '\\bt x+'],   # the bad argument is always reached
}
_SOUP = {
    'c9kw': ['\\ka', '\\kb', '\\kc', '\\kd', '\\ke', '\\kv', '\\kw', '\\kr', '\\begin{kenv}', '\\end{kenv}', '{', '}', '[',
             ']', '(', ')', '<', '>', '*', '+', ' ', 'a', 'b', '\n', '$', '%c\n', '|', '\\z'],
    'c9obj': ['\\oa', '\\ob', '\\ov', '\\ow', '\\os', '!', '{', '}', '[', ']', '*', ' ', 'a', 'b', '\n', '$', '%c\n', '|'],
    'c9obj2': ['\\ov', '\\pb', '{', '}', '[', ']', ' ', 'a', 'b', '|', '\n', '$'],
}


def gen_doc_for(rnd, ctx):
    r = rnd.random()
    if ctx == 'c9bad':
        return rnd.choice(CURATED['c9bad'])
    if r < 0.35:
        return rnd.choice(CURATED[ctx])
    if ctx in ('default', 'custom'):
        if r < 0.65:
            return docgen.gen_doc(rnd, ctx)
        if r < 0.8:
            return docgen.inject_fault(rnd, docgen.gen_doc(rnd, ctx))
        return docgen.soup(rnd, docgen.symbols_for(ctx), 1, 10)
    if r < 0.6:
        return ''.join(rnd.choice(CURATED[ctx]) for _ in range(rnd.randint(1, 3)))
    return docgen.soup(rnd, _SOUP[ctx], 1, 10)


def gen_job(rnd, ctx=None):
    ctx = ctx or rnd.choice(CONTEXTS)
    db = 'shared'
    if ctx not in ('custom',) and rnd.random() < 0.2:
        db = 'fresh'
    return {'ctx': ctx, 's': gen_doc_for(rnd, ctx), 'tolerant': rnd.random() < 0.4, 'db': db}


GROUPS = [['default'], ['custom'], ['c9kw'], ['c9obj', 'c9obj2'], ['default', 'c9kw'], ['custom', 'c9obj', 'c9kw'],
          CONTEXTS]


def gen_cases(seed, tier):
    rnd = random.Random(seed * 7919 + 9)
    quick = tier == 'quick'
    cases = []
    # the documented history of the repaired defect, first
    v = {'ctx': 'custom', 's': '\\mv{a{b}c}d', 'tolerant': False, 'db': 'shared'}
    cases.append(mk_case([v, dict(v)], 'corpus'))
    cases.append(mk_case([dict(v, s='\\mv{a{b', tolerant=True), v, dict(v, tolerant=True)], 'corpus'))
    cases.append(mk_case([{'ctx': 'c9obj', 's': '\\ov{a{b}c}d', 'tolerant': False, 'db': 'shared'},
                          {'ctx': 'c9obj2', 's': '\\ov{a{b}c}[o]d', 'tolerant': False, 'db': 'shared'},
                          {'ctx': 'c9kw', 's': '\\kv{a{b}c}d', 'tolerant': False, 'db': 'shared'}], 'corpus'))
    # a database extended while parsing (document-defined macros): real code only
    edocs = ['\\begin{enumx}\\itemx[a] b\\term{V}\\end{enumx}',
             '\\begin{descx}\\term{T}\\begin{enumx}\\itemx[a]\\term{U}\\end{enumx}\\itemx[q]\\end{descx}',
             '\\term{W}\\itemx[r] \\begin{descx}\\term{X}\\end{descx}']
    for n in (2, 3):
        for docs in itertools.permutations(edocs, n):
            for tol in (False, True):
                cases.append(mk_case([{'ctx': 'c9def', 's': s, 'tolerant': tol, 'db': 'shared'} for s in docs], 'extending-body-delta'))
    ddocs = ['\\defmacro{\\foo} then \\foo{x}.', 'here \\foo{x} y', '\\defmacro{\\baz}\\baz{q}\\foo{x}', '{\\defmacro{\\foo}}\\foo{x}',
             '\\defmacro{\\textbf}\\textbf{a}']
    for n in (2, 3):
        for docs in itertools.permutations(ddocs, n):
            if n == 3 and rnd.random() < (0.8 if quick else 0.0):
                continue
            for tol in (False, True):
                cases.append(mk_case([{'ctx': 'c9def', 's': s, 'tolerant': tol, 'db': 'shared'} for s in docs], 'defining-macro'))
    # chained / attribute-setting deltas stored on shared specification objects: every application counts
    cdocs = ['\\cm{a%b\n}{c} \\cm{d%e\n}{f}', '$\\ct{x%y\n}$ \\begin{cmath}u\\end{cmath}', '\\begin{cmath}v%w\n\\end{cmath}\\cn{z}',
             '\\link{p%q}{r%s\n}', '\\cm{g}{h}']
    for n in (2, 3):
        for docs in itertools.permutations(cdocs, n):
            if n == 3 and rnd.random() < (0.7 if quick else 0.0):
                continue
            for tol in (False, True):
                cases.append(mk_case([{'ctx': 'chained', 's': s, 'tolerant': tol, 'db': 'shared'} for s in docs], 'chained-deltas'))
    # one verbatim-body parser object, parses whose states differ in the escape character
    vdocs = [('\\', 'a \\begin{vb}x{y\\end{vb} b\\ok{c}'), ('!', 'u !begin{vb}p\\end{vb}q!end{vb} v!ok{w}'),
             ('\\', '\\begin{vb}!end{vb}\\end{vb}z'), ('!', '!begin{vb}!end{vb}\\end{vb}')]
    for n in (2, 3):
        for docs in itertools.permutations(vdocs, n):
            for tol in (False, True):
                cases.append(mk_case([{'ctx': 'c9verb', 's': s, 'tolerant': tol, 'db': 'shared', 'esc': e} for e, s in docs],
                                     'shared-body-parser'))
    cases.append(mk_case([{'ctx': 'c9def', 's': ddocs[1], 'tolerant': False, 'db': 'shared'},
                          {'ctx': 'c9def', 's': ddocs[0], 'tolerant': False, 'db': 'fresh'},
                          {'ctx': 'c9def', 's': ddocs[1], 'tolerant': False, 'db': 'shared'}], 'defining-macro'))
    # all orderings of small sets
    nsets = 36 if quick else 600
    for grp in GROUPS:
        for _ in range(nsets):
            n = rnd.choice([2, 3, 3])
            jobs = [gen_job(rnd, rnd.choice(grp)) for _ in range(n)]
            if rnd.random() < 0.4:
                jobs[-1] = dict(jobs[0])                    # the same job twice in the set
            elif rnd.random() < 0.3:
                jobs[-1] = dict(jobs[0], tolerant=not jobs[0]['tolerant'])
            seen = set()
            for perm in itertools.permutations(range(n)):
                key = json.dumps([jobs[i] for i in perm], sort_keys=True)
                if key in seen:
                    continue
                seen.add(key)
                cases.append(mk_case([dict(jobs[i]) for i in perm], 'orderings'))
    # random interleavings
    nint = 110 if quick else 3000
    for grp in GROUPS:
        for _ in range(nint):
            n = rnd.randint(2, 5)
            pool = [gen_job(rnd, rnd.choice(grp)) for _ in range(rnd.randint(1, n))]
            jobs = [dict(rnd.choice(pool)) for _ in range(n)]
            if rnd.random() < 0.5 and n >= 2:
                jobs[rnd.randrange(1, n)] = dict(jobs[0])
            cases.append(mk_case(jobs, 'interleaving'))
    return cases


# ---------------------------------------------------------------------------
# running a job on the real code

def job_db(j):
    """the database object a job parses with (None: LatexWalker builds its own default db over the shared specs)"""
    if j.get('db', 'shared') == 'fresh':
        if j['ctx'] == 'default':
            return None
        return build_family(j['ctx'], freeze=False)[j['ctx']]     # the walker freezes it
    return shared_db(j['ctx'])


PRISTINE = False            # set by the pristine-interpreter server: no prelude there
_prelude_done = False


def _prelude():
    """once per worker, before any judged parse: an unrelated verbatim parser is CONSTRUCTED with its own
    auto_delimiters option (never used for parsing).  Constructing a parser object must not change how other parser
    objects parse."""
    global _prelude_done
    if _prelude_done or PRISTINE:
        return
    _prelude_done = True
    try:
        from pylatexenc.latexnodes.parsers import LatexDelimitedVerbatimParser
        LatexDelimitedVerbatimParser(auto_delimiters={'`': "'", '<': '|'})
    except Exception:
        pass


def run_job(j, db=False):
    _prelude()
    db = job_db(j) if db is False else db
    if j.get('esc') is None:
        return P.parse_top(j['s'], j['tolerant'], db)
    # a parse whose parsing state has another escape character
    from pylatexenc.latexwalker import LatexWalker
    from pylatexenc.latexnodes.parsers import LatexGeneralNodesParser
    w = LatexWalker(j['s'], tolerant_parsing=j['tolerant'], latex_context=db)
    tr = w.make_token_reader()
    ps = w.make_parsing_state(macro_escape_char=j['esc'])

    def go():
        nodes, _ = w.parse_content(LatexGeneralNodesParser(), token_reader=tr, parsing_state=ps)
        return nodes, tr.cur_pos()
    return P.outcome(go)


def impl(c):
    if c['desc'].get('unmodelled'):
        return 'BADIN'
    return SEP.join(run_job(j) for j in c['desc']['jobs'])


# ---------------------------------------------------------------------------
# pristine interpreter server

_srv = None
_srv_n = 0
_fresh_memo = {}


def _server():
    global _srv
    if _srv is None or _srv.poll() is not None:
        here = os.path.dirname(os.path.dirname(os.path.abspath(__file__)))
        _srv = subprocess.Popen([sys.executable, os.path.join(here, 'c09_pristine.py')],
                                stdin=subprocess.PIPE, stdout=subprocess.PIPE, text=True, bufsize=1)
        atexit.register(_stop_server, _srv, os.getpid())
    return _srv


def _stop_server(p, pid):
    if os.getpid() != pid:
        return
    try:
        p.stdin.close()
        p.wait(timeout=2)
    except Exception:
        try:
            p.kill()
        except Exception:
            pass


def _ask(req):
    global _srv_n
    srv = _server()
    _srv_n += 1
    rid = '%d.%d' % (os.getpid(), _srv_n)
    srv.stdin.write(json.dumps(dict(req, id=rid)) + '\n')
    srv.stdin.flush()
    while True:
        line = srv.stdout.readline()
        if not line:
            raise RuntimeError('pristine server died')
        r = json.loads(line)
        if r['id'] == rid:                 # answers to requests abandoned by a timeout are skipped
            return r['out']


def fresh_result(j):
    """the dump of job j run as the only parse of a pristine interpreter state"""
    key = (j['ctx'], j['s'], j['tolerant'], j.get('esc'))
    if key not in _fresh_memo:
        _fresh_memo[key] = _ask({'job': {'ctx': j['ctx'], 's': j['s'], 'tolerant': j['tolerant'], 'esc': j.get('esc')}})
    return _fresh_memo[key]


def fresh_history(jobs):
    """the whole history run in one child of the pristine interpreter -> list of dumps"""
    return _ask({'history': jobs}).split('\x1f')


# ---------------------------------------------------------------------------
# deep structural fingerprint of everything reachable from an object

def fingerprint(root, skip=('_arg_parser',)):
    """flat list of 'path = value' lines; object identity/aliasing is part of it (numbered by first visit);
    dict order is part of it (lookup order depends on it)"""
    out = []
    seen = {}

    def go(o, path):
        if o is None or isinstance(o, (bool, int, float, str, bytes)):
            out.append('%s = %r' % (path, o))
            return
        if id(o) in seen:
            out.append('%s -> #%d' % (path, seen[id(o)]))
            return
        seen[id(o)] = len(seen)
        tn = type(o).__module__ + '.' + type(o).__qualname__
        if isinstance(o, (list, tuple)):
            out.append('%s : %s[%d] #%d' % (path, tn, len(o), seen[id(o)]))
            for i, x in enumerate(o):
                go(x, '%s[%d]' % (path, i))
        elif isinstance(o, dict):
            out.append('%s : %s{%d} #%d' % (path, tn, len(o), seen[id(o)]))
            for i, (k, v) in enumerate(o.items()):
                go(k, '%s{%d}.key' % (path, i))
                go(v, '%s{%d}.val' % (path, i))
        elif isinstance(o, (set, frozenset)):
            out.append('%s : %s %r' % (path, tn, sorted(map(repr, o))))
        elif isinstance(o, type):
            out.append('%s : class %s.%s' % (path, o.__module__, o.__qualname__))
        elif isinstance(o, (types.FunctionType, types.MethodType, types.BuiltinFunctionType, functools.partial)):
            out.append('%s : callable %s.%s' % (path, getattr(o, '__module__', '?'), getattr(o, '__qualname__', repr(type(o)))))
        elif hasattr(o, '__dict__'):
            out.append('%s : %s #%d' % (path, tn, seen[id(o)]))
            for k, v in vars(o).items():
                if k in skip:
                    continue
                go(v, path + '.' + k)
        else:
            out.append('%s : opaque %s' % (path, tn))
    go(root, '$')
    return out


def _first_diff(a, b):
    for i, (x, y) in enumerate(zip(a, b)):
        if x != y:
            return {'line': i, 'before': x, 'after': y}
    if len(a) != len(b):
        i = min(len(a), len(b))
        return {'line': i, 'before': a[i] if i < len(a) else None, 'after': b[i] if i < len(b) else None}
    return None


def std_instances(dbs):
    """every LatexStandardArgumentParser reachable: cached ones and explicit ones on specs"""
    from pylatexenc.latexnodes.parsers import LatexStandardArgumentParser, _stdarg
    out = [('cache[%r]' % (k,), k, p) for k, p in _stdarg._std_arg_parser_instances.items()]
    ids = {id(p) for _, _, p in out}
    for name, db in dbs:
        for cat in db.category_list:
            for kind in ('macros', 'environments', 'specials'):
                for nm, spec in db.d[cat][kind].items():
                    for ai, a in enumerate(getattr(spec.arguments_parser, 'arguments_spec_list', None) or []):
                        p = a.parser
                        if isinstance(p, LatexStandardArgumentParser) and id(p) not in ids:
                            ids.add(id(p))
                            out.append(('%s:%s[%d]' % (name, nm, ai), None, p))
    return out


def check_instance(where, key, p):
    """Inv on the real object: fields are what the constructor sets for the key; the inner parser is absent or
    indistinguishable from a freshly created one"""
    from pylatexenc.latexnodes.parsers import LatexStandardArgumentParser
    if key is not None:
        if isinstance(key, str):
            ref = LatexStandardArgumentParser(key)
        else:
            kw = dict(key)
            ref = LatexStandardArgumentParser(kw.pop('arg_spec'), **kw)
        d = _first_diff(fingerprint(ref), fingerprint(p))
        if d:
            return ('cached-instance-differs-from-its-constructor', {'where': where, 'diff': d})
    if p._arg_parser is not None:
        try:
            ref = LatexStandardArgumentParser(
                p.arg_spec, return_full_node_list=p.return_full_node_list, allow_pre_space=p.allow_pre_space,
                expression_single_token_requiring_arg_is_error=p.expression_single_token_requiring_arg_is_error
            ).get_arg_parser_instance(p.arg_spec)
        except ValueError:
            return ('inner-parser-present-for-invalid-specification', {'where': where})
        d = _first_diff(fingerprint(ref, skip=()), fingerprint(p._arg_parser, skip=()))
        if d:
            return ('inner-parser-state-differs-from-a-fresh-one', {'where': where, 'diff': d})
    return None


def oracle(c):
    from pylatexenc.latexnodes.parsers import _stdarg
    cache = _stdarg._std_arg_parser_instances
    jobs = c['desc']['jobs']
    # databases shared by this history (fresh ones are created per job and fingerprinted around their own parse)
    shared = []
    for j in jobs:
        if j.get('db', 'shared') == 'shared' and j['ctx'] not in [n for n, _ in shared]:
            shared.append((j['ctx'], shared_db(j['ctx'])))
    before = {n: fingerprint(db) for n, db in shared}
    frozen_before = {n: db.frozen for n, db in shared}
    wires_before = {n: json.dumps(spell_wire_of(db)) for n, db in shared if n not in UNMODELLED}
    # instances already off their invariant when this history starts were reported by the history that did it
    already = {id(p) for w, k, p in std_instances(shared) if check_instance(w, k, p)}
    results = []
    for ji, j in enumerate(jobs):
        db = job_db(j)                                    # building a database is not parsing
        own = None if j.get('db', 'shared') == 'shared' or db is None else _unfrozen(fingerprint(db))
        keys0 = list(cache.keys())
        vals0 = [cache[k] for k in keys0]
        out = run_job(j, db)
        results.append(out)
        keys1 = list(cache.keys())
        if keys1[:len(keys0)] != keys0 or any(cache[k] is not v for k, v in zip(keys0, vals0)):
            return ('cache-entry-removed-or-replaced', {'job': ji, 'before': list(map(repr, keys0)), 'after': list(map(repr, keys1))})
        new = keys1[len(keys0):]
        if any(not isinstance(k, str) for k in new):
            return ('cache-key-added-by-parsing-is-not-a-spec-string', {'job': ji, 'new_keys': list(map(repr, new))})
        if own is not None:
            d = _first_diff(own, _unfrozen(fingerprint(db)))
            if d:
                return ('context-database-modified-by-parse', {'job': ji, 'ctx': j['ctx'], 'diff': d})
            if not db.frozen:
                return ('context-database-not-frozen-by-walker', {'job': ji, 'ctx': j['ctx']})
    # (a) every result equals the result in a pristine interpreter
    for ji, (j, out) in enumerate(zip(jobs, results)):
        fr = fresh_result(j)
        if fr != out:
            # does this history alone (run from a pristine state) show it, or does it need what the worker did before?
            alone = fresh_history(jobs)
            detail = {'job': ji, 'in_history': out[:400], 'pristine': fr[:400],
                      'history_results': [r[:200] for r in results],
                      'history_alone_from_pristine_state': [r[:200] for r in alone]}
            if alone[ji] != fr:
                return ('result-differs-from-pristine-interpreter', detail)
            detail['earlier_jobs_of_this_worker_last_30'] = _worker_log[-30:]
            return ('result-differs-from-pristine-interpreter-after-earlier-histories', detail)
    _worker_log.extend([j['ctx'], j['s'], j['tolerant'], j.get('db', 'shared')] for j in jobs)
    # (b) the shared databases are what they were
    for n, db in shared:
        d = _first_diff(before[n], fingerprint(db))
        if d:
            return ('context-database-modified-by-parse', {'ctx': n, 'diff': d})
        if db.frozen != frozen_before[n] or not db.frozen:
            return ('context-database-frozen-flag', {'ctx': n, 'before': frozen_before[n], 'after': db.frozen})
        if n in wires_before and json.dumps(spell_wire_of(db)) != wires_before[n]:
            return ('context-database-decodes-differently', {'ctx': n})
    # (c) Inv on every real instance
    for where, key, p in std_instances(shared):
        if id(p) in already:
            continue
        r = check_instance(where, key, p)
        if r:
            return r
    return None


_worker_log = []


def _unfrozen(fp):
    """a database handed over unfrozen is frozen by LatexWalker.__init__ (by design): mask that one flag"""
    return [l for l in fp if l not in ('$.frozen = False', '$.frozen = True')]


def spell_wire_of(db):
    """decode afresh (no memo): categories, every spec structurally, the spellings"""
    _spell_cache.pop(id(db), None)
    o = _Objs()
    return [list(db.category_list), w_sctx(spell_db(db), o), o.wire()]


def distribution(cases, impl_out):
    o = collections.Counter()
    outcomes = collections.Counter()
    ctxs = collections.Counter()
    njobs = collections.Counter()
    dup = 0
    fresh = 0
    for c, i in zip(cases, impl_out):
        jobs = c['desc']['jobs']
        o[c['desc']['origin']] += 1
        njobs[len(jobs)] += 1
        keys = [(j['ctx'], j['s'], j['tolerant']) for j in jobs]
        dup += len(set(keys)) < len(keys)
        for j in jobs:
            ctxs[j['ctx']] += 1
            fresh += j.get('db') == 'fresh'
        if isinstance(i, str):
            for r in i.split(SEP):
                outcomes[' '.join(r.split(' ', 2)[:2]) if r.startswith('exn') else r.split(' ', 1)[0]] += 1
    return {'histories_by_origin': dict(o), 'jobs_per_history': dict(njobs), 'jobs_by_context': dict(ctxs),
            'histories_with_a_repeated_job': dup, 'jobs_on_a_freshly_built_database': fresh,
            'job_outcomes': dict(outcomes)}
