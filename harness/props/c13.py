"""C13 — encoded text is inert, strictly parseable LaTeX, ASCII-only when asked."""
import re, itertools, random, unicodedata, collections
from common import w_str, w_bool, show_str, show_bool, show_opt

PID = 'C13'
PROJECTION = 'latex + outcome / node kinds of the strict parse of the encoder output'
RULE = ('every ordering of the LaTeX-active ASCII characters (\\ { } $ & # ^ _ ~ %) and letters up to length 3 (4); every '
        'character with a rule in either built-in table, alone, between letters, doubled, and at the end; random mixtures '
        'incl. control, combining, astral and unassigned code points; x 5 brace-protection schemes x both built-in rule '
        'sets x 5 unknown-character policies. Non-trivial: the input contains an active ASCII character or a table character.')
EXHAUSTIVE = {'quick': True, 'thorough': True}
ASSUMPTIONS = ['inputs are NFC-normalised by the harness', 'the strict parser used on the output is the default walker database']
PARTIAL = ['C13_parses_inert_partial (kept): one-character strings under all FIVE schemes. The central clause for EVERY string is now '
           'C13_parses_inert_unbounded (not partial): any string over characters other than the 13 known findings, both tables, the four '
           'brace-protection schemes, the five named policies -> strict parse, no comment, no environment, math only from table entries '
           'containing $. Remaining outside any unbounded theorem: scheme \'none\' (documented unsafe; machine-checked counterexample '
           'C13_scheme_none_counterexample: U+0142 + "abel" -> \\label, strict parse error) where only the one-character theorem, '
           'C13_active_orderings_bounded, the correspondence and the oracle apply; callable policies / protections.']
REFUTED = []
CASE_TIMEOUT = 10.0
PROTS = ['none', 'braces', 'braces-all', 'braces-almost-all', 'braces-after-macro']
POLS = ['keep', 'replace', 'ignore', 'fail', 'unihex']
ACTIVE = '\\{}$&#^_~%'
_tabs = None


def tables():
    global _tabs
    if _tabs is None:
        from pylatexenc.latexencode._uni2latexmap import uni2latex as D
        from pylatexenc.latexencode._uni2latexmap_xml import uni2latex as X
        _tabs = (D, X)
    return _tabs


def _case(s, xml, prot, pol, origin):
    return {'wire': [1301] + w_bool(xml) + [PROTS.index(prot), POLS.index(pol)] + w_str(s),
            'desc': {'s': s, 'xml': xml, 'prot': prot, 'policy': pol, 'origin': origin}, 'nt': None}


def case_from_desc(d):
    return _case(d['s'], d['xml'], d['prot'], d['policy'], d.get('origin', 'replay'))


def gen_cases(seed, tier):
    rnd = random.Random(seed)
    quick = tier == 'quick'
    D, X = tables()
    cases = []

    def cfg():
        return rnd.random() < 0.5, rnd.choice(PROTS), rnd.choice(POLS)
    for n in range(1, (3 if quick else 4) + 1):
        for t in itertools.product(ACTIVE + 'a ', repeat=n):
            s = ''.join(t)
            x, p, q = cfg()
            cases.append(_case(s, x, p, q, 'active-orderings'))
    for xml, T in ((False, D), (True, X)):
        for c in sorted(T):
            ch = chr(c)
            if unicodedata.normalize('NFC', ch) != ch:
                continue
            for shape in ('%s', 'a%sb', '%s%s', 'x%s') if not quick else (rnd.choice(['%s', 'x%s']), rnd.choice(['a%sb', '%s%s'])):
                s = unicodedata.normalize('NFC', shape.replace('%s', ch))
                cases.append(_case(s, xml, rnd.choice(PROTS), rnd.choice(POLS), 'table-char'))
    # the pass-through boundary: every C0/C1 control, DEL and the printable ASCII range, alone and between letters,
    # under 'fail' (must raise exactly outside the pass-through range) and under a replacing policy
    for c in list(range(0, 0xA1)) + [0xAD, 0x2028, 0x2029, 0xFEFF]:
        for xml in (False, True):
            for pol in ('fail', rnd.choice(['replace', 'ignore', 'unihex', 'keep'])):
                cases.append(_case(chr(c), xml, rnd.choice(PROTS), pol, 'passthrough-boundary'))
                cases.append(_case('a' + chr(c) + 'b', xml, rnd.choice(PROTS), pol, 'passthrough-boundary'))
    # a replacement that is a control WORD, directly followed by letters that would extend it to the name of a macro
    # taking a mandatory argument (\l + "abel", \o + "verline", \i + "nput" ...), at the end of the input
    from pylatexenc.latexwalker import get_default_latex_context_db
    need_arg = sorted(m.macroname for m in get_default_latex_context_db().iter_macro_specs()
                      if m.macroname.isalpha() and any(str(getattr(a, 'parser', a)) in ('{',) or a == '{'
                                                       for a in (m.arguments_spec_list or [])))
    for xml, T in ((False, D), (True, X)):
        for c, r in sorted(T.items()):
            m = re.search(r'\\([A-Za-z]+)$', r)            # the replacement ENDS with a control word (maybe after other macros)
            if not m or len(m.group(1)) > 4:
                continue
            w = m.group(1)
            ch = chr(c)
            if unicodedata.normalize('NFC', ch) != ch:
                continue
            for name in need_arg:
                if name.startswith(w) and len(name) > len(w):
                    for p in PROTS:
                        if p == 'none':
                            continue        # documented: no protection, the control word fuses with what follows
                        cases.append(_case('see ' + ch + name[len(w):], xml, p, rnd.choice(POLS), 'fusion'))
    pool = ([chr(c) for c in sorted(D)] + list(ACTIVE) + list('ab 1.\n\t') +
            ['\x00', '\x07', '\x7f', '\x85', '́', '̋', '​', '\U0001F600', '\U000E0001', '͸', '퟿',
             '�', '\U0010FFFF', '中', 'é', 'ß'])
    for _ in range(3000 if quick else 60000):
        s = unicodedata.normalize('NFC', ''.join(rnd.choice(pool) for _ in range(rnd.randint(1, 8))))
        x, p, q = cfg()
        cases.append(_case(s, x, p, q, 'random'))
    for c in cases:
        s = c['desc']['s']
        c['nt'] = any(ch in ACTIVE or ord(ch) in D or ord(ch) in X for ch in s)
    return cases


def _encoder(d):
    from pylatexenc.latexencode import UnicodeToLatexEncoder
    return UnicodeToLatexEncoder(conversion_rules=['unicode-xml'] if d['xml'] else ['defaults'],
                                 replacement_latex_protection=d['prot'], unknown_char_policy=d['policy'],
                                 unknown_char_warning=(len(d['s']) % 2 == 0))       # with and without the warning path


def _parse(t):
    from pylatexenc.latexwalker import LatexWalker, LatexWalkerParseError
    from pylatexenc.latexnodes.parsers import LatexGeneralNodesParser
    import treedump
    try:
        nl, _ = LatexWalker(t, tolerant_parsing=False).parse_content(LatexGeneralNodesParser())
    except LatexWalkerParseError as e:
        return ('perr', e.pos, None)
    except Exception as e:
        return ('other', type(e).__name__, None)
    k = collections.Counter(treedump.kind(n) for n in treedump.iter_nodes(nl))
    return ('parsed', (k['#'], k['E'], k['$']), nl)


def impl(c):
    d = c['desc']
    try:
        t = _encoder(d).unicode_to_latex(d['s'])
    except ValueError:
        return 'valueerror'
    except Exception:
        return 'other'
    head = 'enc %s ascii=%s' % (show_str(t), show_bool(all(ord(x) < 128 for x in t)))
    r = _parse(t)
    if r[0] == 'parsed':
        return head + ' parsed %d %d %d' % r[1]
    if r[0] == 'perr':
        return head + ' perr ' + show_opt(r[1])
    return head + ' other'


def _has_rule(ch, d):
    D, X = tables()
    return ord(ch) in (X if d['xml'] else D)


def _passthrough(ch):
    o = ord(ch)
    return 32 <= o <= 127 or ch in '\n\r\t'


_prelude_done = False


def _prelude():
    """once per worker process, BEFORE any judged encoding: other encoder objects are created whose rule lists
    START with a built-in name and continue with further entries (the other built-in set, a custom rule).
    Encoders created afterwards must not be affected: every encoder expands its own rule list."""
    global _prelude_done
    if _prelude_done:
        return
    _prelude_done = True
    try:
        from pylatexenc import latexencode as le
        rule = le.UnicodeToLatexConversionRule(le.RULE_DICT, {0x2460: '(1)', ord('a'): 'A'})
        for rules in (['defaults', 'unicode-xml'], ['unicode-xml', 'defaults'], ['defaults', rule], ['unicode-xml', rule]):
            le.UnicodeToLatexEncoder(conversion_rules=rules, unknown_char_policy='keep').unicode_to_latex('a\u2460\u0328')
        # somebody asks for the built-in rule objects and customises the ones they were given (the documented
        # per-rule protection setting) for an encoder of their own
        for name in ('defaults', 'unicode-xml'):
            mine = le.get_builtin_conversion_rules(name)
            for r in mine:
                r.replacement_latex_protection = 'none'
            le.UnicodeToLatexEncoder(conversion_rules=mine).unicode_to_latex('\u0142abel')
    except Exception:
        pass


def oracle(c):
    import treedump
    _prelude()
    d = c['desc']
    s = d['s']
    enc = _encoder(d)
    needs_fail = any(not _has_rule(ch, d) and not _passthrough(ch) for ch in s)
    try:
        t = enc.unicode_to_latex(s)
    except ValueError as e:
        if d['policy'] == 'fail' and needs_fail:
            return None
        return ('unexpected-ValueError', {'message': str(e)[:200]})
    except Exception as e:
        return ('encoder-raised-%s' % type(e).__name__, {'message': str(e)[:200]})
    if d['policy'] == 'fail' and needs_fail:
        return ('fail-policy-did-not-raise', {'encoded': t})
    if d['policy'] in ('replace', 'ignore', 'unihex') and not all(ord(x) < 128 for x in t):
        return ('non-ascii-output', {'encoded': t})
    r = _parse(t)
    if r[0] != 'parsed':
        # which single character's replacement cannot stand at this place?
        culprits = []
        for ch in sorted(set(s)):
            one = enc.unicode_to_latex(ch)
            if _parse(one)[0] != 'parsed':
                culprits.append(ch)
        if len(culprits) >= 1 and all(_parse(enc.unicode_to_latex(''.join(x for x in s if x not in culprits)))[0] == 'parsed' for _ in (0,)):
            ch = culprits[0]
            return ('encoded-output-not-strictly-parseable:%s:U+%04X' % ('unicode-xml' if d['xml'] else 'defaults', ord(ch)),
                    {'encoded': t, 'replacement': enc.unicode_to_latex(ch)})
        return ('encoded-output-not-strictly-parseable:combination', {'encoded': t, 'outcome': list(r[:2])})
    ncom, nenv, nmath = r[1]
    if ncom:
        return ('comment-in-encoded-output', {'encoded': t})
    if nenv:
        return ('environment-in-encoded-output', {'encoded': t})
    if nmath:
        # math may only come from a replacement string of the table itself, never from the input's own characters
        chunks = [enc.unicode_to_latex(ch) for ch in s]
        if ''.join(chunks) != t:
            return None
        pos = 0
        spans = []
        for ch, ck in zip(s, chunks):
            spans.append((pos, pos + len(ck), ch))
            pos += len(ck)
        for n in treedump.iter_nodes(r[2]):
            if treedump.kind(n) == '$':
                inside = [ch for a, b, ch in spans if a <= n.pos and n.pos_end <= b]
                if not inside or not _has_rule(inside[0], d) or inside[0] in ACTIVE:
                    return ('math-opened-by-input-characters', {'encoded': t, 'math_span': [n.pos, n.pos_end]})
    return None


def distribution(cases, impl_out):
    out = collections.Counter()
    for i in impl_out:
        if isinstance(i, str):
            out['valueerror' if i == 'valueerror' else ('parsed' if ' parsed ' in i else ('perr' if ' perr ' in i else 'other'))] += 1
    return {'origins': dict(collections.Counter(c['desc']['origin'] for c in cases)), 'outcomes': dict(out),
            'policies': dict(collections.Counter(c['desc']['policy'] for c in cases)),
            'rule_sets': {'unicode-xml': sum(1 for c in cases if c['desc']['xml']), 'defaults': sum(1 for c in cases if not c['desc']['xml'])}}
