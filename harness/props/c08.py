"""C08 — encoding to LaTeX and converting back to text returns the original string."""
import json, os, random, unicodedata, collections, itertools
import l2tharness as H
from common import w_str, w_bool, show_str, VERIF

PID = 'C08'
PROJECTION = 'text (encode with the default rules -> strict parse -> latex2text)'
RULE = ('alphabet: every character of the default encoder table plus printable ASCII and newline, minus the committed '
        'non-invertible baseline (noninvertible_baseline.json); every single character, every ordered pair of alphabet '
        'classes (letter, digit, space, newline, ASCII punctuation, escaped ASCII, and the table characters grouped by the '
        'shape of their replacement: control word / control symbol / braced / accent with argument / \\ensuremath / text), '
        'random strings; x 4 brace-protection schemes x default and strict whitespace policy; ASCII ligature pairs '
        '(-- `` \'\' !` ?`) excluded. Non-trivial: the string contains a character with a table replacement and has length >= 2.')
EXHAUSTIVE = {'quick': False, 'thorough': False}
ASSUMPTIONS = ['inputs are NFC-normalised by the harness (unicodedata is trusted)',
               'the non-invertible baseline is a committed list (noninvertible_baseline.json, regenerated into Gen/GenBaseline.v): the documented many-to-one approximations']
PARTIAL = ['C08_roundtrip_partial is kept as a bounded instance only: the unbounded DESIGN statement is now the theorem '
           'C08_roundtrip_unbounded (every string over the alphabet, any length, 4 schemes x 2 policies, no ligature pair, no '
           'paragraph-whitespace run = the known finding) and C08_roundtrip_covered (any protection, any covered characters). '
           'Nothing of the property as configured remains unproved at model level; the exclusion par_clean2 is exactly the known '
           'finding (C08_paragraph_whitespace_refuted).']
REFUTED = ['C08_paragraph_whitespace_refuted: the unbounded round trip is false on whitespace runs with two or more newlines other than the bare blank line (known finding paragraph-whitespace-collapsed; the bare paragraph break round-trips: C08_paragraph_break_roundtrips)']
CASE_TIMEOUT = 10.0
PROTS = ['none', 'braces', 'braces-all', 'braces-almost-all', 'braces-after-macro']
SCHEMES = PROTS[1:]
LIG = ['--', '``', "''", '!`', '?`']
_alpha = None


def alphabet():
    global _alpha
    if _alpha is None:
        from pylatexenc.latexencode._uni2latexmap import uni2latex as D
        base = set(json.load(open(os.path.join(VERIF, 'noninvertible_baseline.json')))['noninvertible'])
        _alpha = ([chr(c) for c in sorted(set(D) | set(range(32, 127)) | {10}) if c not in base], D)
    return _alpha


def shape(ch, D):
    o = ord(ch)
    if o not in D:
        if ch.isalpha():
            return 'letter'
        if ch.isdigit():
            return 'digit'
        if ch == ' ':
            return 'space'
        if ch == '\n':
            return 'newline'
        return 'punct:' + ch
    r = D[o]
    if r.startswith('\\ensuremath'):
        return 'ensuremath'
    if r.endswith('}'):
        return 'braced-end'
    if r.startswith('\\') and r[1:].isalpha():
        return 'control-word'
    if r.startswith('\\') and len(r) == 2:
        return 'control-symbol:' + r
    if r.startswith('\\'):
        return 'macro-other'
    return 'text:' + r[:1]


def _case(s, prot, sl, origin):
    return {'wire': [800, PROTS.index(prot)] + H.w_opts({'strict_latex_spaces': sl})[2:6] + w_str(s),
            'desc': {'s': s, 'prot': prot, 'sls': sl, 'origin': origin}, 'nt': None}


def case_from_desc(d):
    return _case(d['s'], d['prot'], d['sls'], d.get('origin', 'replay'))


def gen_cases(seed, tier):
    rnd = random.Random(seed)
    quick = tier == 'quick'
    alpha, D = alphabet()
    cases = []
    for ch in alpha:
        for p in SCHEMES:
            for sl in ((False, True) if not quick or ord(ch) % 2 == 0 else (False,)):
                cases.append(_case(ch, p, sl, 'single'))
    classes = collections.defaultdict(list)
    for ch in alpha:
        classes[shape(ch, D)].append(ch)
    keys = sorted(classes)
    for a in keys:
        for b in keys:
            for _ in range(1 if quick else 4):
                s = rnd.choice(classes[a]) + rnd.choice(classes[b])
                if any(l in s for l in LIG):
                    continue
                cases.append(_case(s, rnd.choice(SCHEMES), rnd.choice([False, True]), 'class-pair'))
    # whitespace runs: every run of up to 3 spaces / newlines between letters, table characters and at the ends
    tab = [c for c in alpha if ord(c) in D]
    for n in (1, 2, 3):
        for ws in itertools.product(' \n', repeat=n):
            ws = ''.join(ws)
            for l, r_ in (('a', 'b'), (rnd.choice(tab), rnd.choice(tab)), ('', 'b'), ('a', ''), (rnd.choice(tab), '1')):
                cases.append(_case(unicodedata.normalize('NFC', l + ws + r_), rnd.choice(SCHEMES), rnd.choice([False, True]), 'whitespace-run'))
    asc = [c for c in alpha if ord(c) < 128]
    for _ in range(3000 if quick else 60000):
        n = rnd.randint(2, 8)
        s = ''.join(rnd.choice(alpha if rnd.random() < 0.5 else asc) for _ in range(n))
        if any(l in s for l in LIG):
            continue
        cases.append(_case(unicodedata.normalize('NFC', s), rnd.choice(SCHEMES), rnd.choice([False, True]), 'random'))
    for c in cases:
        s = c['desc']['s']
        c['nt'] = len(s) >= 2 and any(ord(ch) in D for ch in s)
    return cases


def _roundtrip(d):
    from pylatexenc.latexencode import UnicodeToLatexEncoder
    from pylatexenc.latex2text import LatexNodes2Text
    enc = UnicodeToLatexEncoder(replacement_latex_protection=d['prot'], unknown_char_policy='keep')
    latex = enc.unicode_to_latex(d['s'])
    return latex, LatexNodes2Text(strict_latex_spaces=d['sls']).latex_to_text(latex, tolerant_parsing=False)


def impl(c):
    try:
        latex, txt = _roundtrip(c['desc'])
    except Exception:
        return 'fail'
    return 'ok ' + show_str(txt)


def oracle(c):
    d = c['desc']
    s = d['s']
    if unicodedata.normalize('NFC', s) != s:
        return None
    try:
        latex, txt = _roundtrip(d)
    except Exception as e:
        return ('roundtrip-raised-%s' % type(e).__name__, {'message': str(e)[:200]})
    if txt != s:
        if txt == _para_norm(s):
            # a whitespace run with two or more newlines is a paragraph break: latex2text renders it as exactly
            # two newlines whatever stood between the first and the last one (known finding, see known_findings.json)
            return ('paragraph-whitespace-collapsed', {'encoded': latex, 'converted_back': txt})
        bad = [ch for ch in s if _single_fails(ch, d)]
        sig = 'char-not-invertible:U+%04X' % ord(bad[0]) if bad else 'neighbours-interfere'
        return (sig, {'encoded': latex, 'converted_back': txt})
    return None


def _para_norm(s):
    out, i = [], 0
    while i < len(s):
        if s[i] in ' \n':
            j = i
            while j < len(s) and s[j] in ' \n':
                j += 1
            run = s[i:j]
            if run.count('\n') >= 2:
                a, b = run.index('\n'), run.rindex('\n')
                run = run[:a] + '\n\n' + run[b + 1:]
            out.append(run)
            i = j
        else:
            out.append(s[i])
            i += 1
    return ''.join(out)


def _single_fails(ch, d):
    try:
        return _roundtrip(dict(d, s=ch))[1] != ch
    except Exception:
        return True


def distribution(cases, impl_out):
    return {'origins': dict(collections.Counter(c['desc']['origin'] for c in cases)),
            'schemes': dict(collections.Counter(c['desc']['prot'] for c in cases)),
            'alphabet_size': len(alphabet()[0]),
            'strict_policy': sum(1 for c in cases if c['desc']['sls'] is True)}
