"""C07 — latex2text is total: a string for every input and option set."""
import random, collections
import docgen, l2tharness as H

PID = 'C07'
PROJECTION = 'text (tolerant end-to-end, and tree-level on the real tree)'
RULE = ('every macro and environment name of the default latexwalker and latex2text databases x written-argument shapes '
        '(none, empty, one/two/five short arguments, optional, star, as the single-token argument of \\textbf / \\hat / '
        '\\frac / \\sqrt, inside math, unclosed) ; all strings up to 2 symbols over the significant alphabet ; token soups '
        'over names and structure tokens ; structured documents ; character-wise formatters (math alphabets, small caps, '
        'upper-casing titles) over characters whose str predicates disagree with ASCII intuition (the upper-casing ones on '
        'the real code only: the model\'s upper() table covers the default tables\' characters) ; each crossed with values of math_mode, '
        'strict_latex_spaces, keep_comments, keep_braced_groups (model and real code) and fill_text (real code only). '
        'Non-trivial: the input contains a macro, environment, math or specials.')
EXHAUSTIVE = {'quick': False, 'thorough': False}
ASSUMPTIONS = ['textwrap.fill is an oracle: fill_text is exercised on the real code only (totality, no model comparison)',
               'wall-clock bound: 10 s per case on the real code; termination of the model is by structural recursion on the tree',
               'model of latex2text validated only by this correspondence; the text-spec database is regenerated from /repo']
PARTIAL = ['C07_total_given_parse is relative to termination of the tolerant parser within its fuel; C07_total composes it with '
           'C06_total (every string, every context: the model\'s fuel is computed from the context) into an unconditional '
           'statement for every input string and option record; '
           'wall-clock time is not a theorem; fill_text (textwrap) is not modelled',
           'DESIGN C07_every_known_name is covered by the universally quantified C07_tree_no_error + C07_parser_results_wf '
           '(all names, all argument shapes) rather than stated per name']
REFUTED = []
CASE_TIMEOUT = 10.0
SHAPES = ['%s', '%s{}', '%s{a}', '%s{a}{b}', '%s[o]{a}', '%s*{a}', '%s a', '%s\n', '\\textbf%s', '\\hat%s', '\\frac%s%s', '$%s$',
          '%s{a}{b}{c}{d}{e}', '{%s}', '%s[', '%s{', '\\section{%s}', '%s%%c\n{a}', '%s}', '\\sqrt[%s]{a}', '%s[]', '\\\'%s',
          '%s\n\n', '%s \n \n ', '%s\n\n}', '%s%s', '%s{a} x %s{b}', '%s\r\n']     # blank line / end of input after the name; the same name twice
ENV_SHAPES = ['\\begin{%s}\\end{%s}', '\\begin{%s}a\\end{%s}', '\\begin{%s}', '\\begin{%s}{c}a&b\\\\c\\end{%s}',
              '\\begin{%s}[o]{a} x \\end{%s}', '\\textbf\\begin{%s}', '\\begin{%s}&\\\\\\end{%s}', '\\begin{%s}$\\end{%s}',
              '\\begin{%s} \\item a \\end{%s}', '$\\begin{%s}x\\end{%s}$']


def _names():
    from pylatexenc.latex2text import get_default_latex_context_db as l2tdb
    from pylatexenc.latexwalker import get_default_latex_context_db as lwdb
    names, envs = set(), set()
    for db in (l2tdb(), lwdb()):
        for m in db.iter_macro_specs():
            names.add(m.macroname)
        for e in db.iter_environment_specs():
            envs.add(e.environmentname)
    return sorted(names), sorted(envs)


def _opts(rnd, fill_ok=True):
    o = {}
    if rnd.random() < 0.7:
        o['math_mode'] = rnd.choice(H.MATH_VALUES)
    if rnd.random() < 0.7:
        o['strict_latex_spaces'] = rnd.choice(H.SLS_VALUES)
    if rnd.random() < 0.4:
        o['keep_comments'] = True
    if rnd.random() < 0.3:
        o['keep_braced_groups'] = True
        if rnd.random() < 0.6:
            o['keep_braced_groups_minlen'] = rnd.choice([0, 0, 1, 2, 3])
    if fill_ok and rnd.random() < 0.25:
        o['fill_text'] = rnd.choice([True, 20, 5, 80])
    return o


# 'formatter-corner-character:upper': the model's str.upper() table (regenerated, harness/gen_l2tctx.py) covers the characters the
# default tables and accent compositions can produce, not all of Unicode: those cases go to the real code and the oracle only
REAL_ONLY = ('nesting-beyond-interpreter-stack', 'definitions', 'formatter-corner-character:upper')


def _case(s, o, origin):
    # \today is a date string: it can only be masked when it reaches the output unchanged
    modelled = 'fill_text' not in o and '\\today' not in s and origin not in REAL_ONLY
    wire = H.w_e2e(o, s, True) if modelled else [399]
    return {'wire': wire, 'desc': {'s': s, 'opts': o, 'origin': origin, 'modelled': modelled},
            'nt': any(ch in s for ch in '\\$~&')}


# nested constructs: (opening, closing, constructs per level)
DEEP = [('{', '}', 1), ('\\textbf{', '}', 1), ('\\emph{\\textit{', '}}', 2), ('\\begin{itemize}\\item ', '\\end{itemize}', 1),
        ('\\sqrt{', '}', 1), ('\\frac{a}{', '}', 1), ('\\mbox{$', '$}', 2), ('\\textbf{{', '}}', 2), ('{\\it ', '}', 1),
        ('\\begin{center}{', '}\\end{center}', 2)]


def case_from_desc(d):
    return _case(d['s'], d['opts'], d.get('origin', 'replay'))


def gen_cases(seed, tier):
    quick = tier == 'quick'
    rnd = random.Random(seed)
    names, envs = _names()
    cases = []
    for n in names:
        m = '\\' + n
        shapes = SHAPES if not quick else rnd.sample(SHAPES[:-6], 6) + SHAPES[-6:]
        for sh in shapes:
            cases.append(_case(sh.replace('%s', m), _opts(rnd), 'name-shape'))
    # text with percent signs reaching the title block (the formatter must treat it as text, not as a template)
    for tt in ('Saving 100\\% of time', 'a\\%s b', '\\%', '\\%d \\%(x)s', '50\\%\\%'):
        for m in ('title', 'author', 'date'):
            others = ''.join('\\%s{X}' % x for x in ('title', 'author', 'date') if x != m and rnd.random() < 0.5)
            cases.append(_case('\\%s{%s}%s\\maketitle' % (m, tt, others), _opts(rnd), 'title-block'))
    cases.append(_case('\\title\\%\\maketitle x \\maketitle', _opts(rnd), 'title-block'))
    for e in envs:
        for sh in ENV_SHAPES:
            cases.append(_case(sh.replace('%s', e), _opts(rnd), 'env-shape'))
    for s in docgen.exhaustive(docgen.SYM_CORE + docgen.SYM_MULTI, 2):
        cases.append(_case(s, _opts(rnd), 'exhaustive'))
    toks = (docgen.SYM_CORE + docgen.SYM_MULTI + docgen.SYM_DEFAULT_EXTRA + ['\\' + n for n in rnd.sample(names, 80)]
            + ['\\begin{%s}' % e for e in envs] + ['\\end{%s}' % e for e in envs] + ['\\' + e for e in rnd.sample(envs, 6)])
    for _ in range(3000 if quick else 40000):
        cases.append(_case(docgen.soup(rnd, toks, 1, 10), _opts(rnd), 'soup'))
    for _ in range(1500 if quick else 20000):
        cases.append(_case(docgen.gen_doc(rnd, 'default'), _opts(rnd), 'doc'))
    # accents over characters without a Unicode name (private use, unassigned, noncharacters), over rare dotless
    # letters and over astral characters
    odd = ['\ue000', '\uf8ff', '\u0378', '\uffff', '\U000e0001', '\u0284', '\u0716', '\u1da1', '\U00010798',
           '\u0131', '\u0237', '\ud7ff', '\U0010ffff', '\U0001f600', '\u0300']
    for a in ["'", '`', '"', '^', '~', 'c', 'hat', 'vec', 'bar', 'tilde', 'dot', 'k', 'H', '=', 'v']:
        for ch in odd:
            cases.append(_case('\\' + a + '{' + ch + '}', _opts(rnd), 'accent-odd-character'))
            cases.append(_case('x\\' + a + (' ' if a[-1].isalpha() else '') + ch + 'y', _opts(rnd), 'accent-odd-character'))
    # formatters that work character by character (math alphabets, small caps, upper-casing titles) over characters
    # whose str predicates disagree with what one expects of ASCII: digits int() refuses, letters whose upper() /
    # lower() is two characters or none, numerals that are not digits, marks
    cornerch = ['\u00b2', '\u2460', '\u0663', '\u0e53', '\U0001d7d8', '\u00bd', '\u2167', '\u00df', '\u01c5', '\u017f',
                '\u0130', '\ufb01', '\u00b5', '\u00aa', '\u0301', '\u1e9e', '\u0149', '\u3007', '\uff11', '\u2074']
    r3 = random.Random(seed + 702)
    for fm in ['mathbf', 'mathbb', 'mathcal', 'mathfrak', 'mathsf', 'mathtt', 'mathit', 'mathrm', 'mathscr', 'textsc',
               'textbf', 'emph', 'section', 'chapter', 'part', 'textit', 'texttt', 'boldsymbol', 'bm']:
        for ch in cornerch:
            for sh in ('\\%s{%s}', '$\\%s{a%s1}$', '\\(\\%s %s\\)', 'x \\%s{%sZ} y'):
                cases.append(_case(sh % (fm, ch), _opts(r3), 'formatter-corner-character' + (':upper' if fm in ('section', 'chapter', 'part') else '')))
    # deep nesting (well inside the interpreter's stack): linear work, whatever the options
    r2 = random.Random(seed + 701)
    for op, cl, per in DEEP:
        for levels in (10, 18, 26, 32):
            n = levels // per
            for kbg in ({}, {'keep_braced_groups': True}, {'keep_braced_groups': True, 'keep_braced_groups_minlen': r2.choice([0, 1, 2, 5])}):
                o = _opts(r2, fill_ok=False)
                o.pop('keep_braced_groups', None)
                o.pop('keep_braced_groups_minlen', None)
                o.update(kbg)
                cases.append(_case(op * n + r2.choice(['a', '', 'a b', '$x$']) + cl * n, o, 'deep-nesting'))
    # nesting deeper than the interpreter's stack allows (real code only; known finding)
    for op, cl, per in DEEP[:4]:
        cases.append(_case(op * 400 + 'a' + cl * 400, {}, 'nesting-beyond-interpreter-stack'))
    # a parser database passed as parse flag whose macro \dm{name} defines \name while parsing (real code only)
    for _ in range(150 if quick else 2500):
        k = r2.randint(0, 6)
        s = ''.join(r2.choice(['\\dm{zq}', '\\dm{zr}', '\\dm{zs} ', '{\\dm{zt}}', '\\zq{a}']) for _ in range(k)) + docgen.soup(r2, toks, 1, 6)
        cases.append(_case(s, _opts(r2), 'definitions'))
    return cases


def impl(c):
    d = c['desc']
    if not d['modelled']:
        return 'BADIN'                      # entry 399 does not exist: both sides agree on "not modelled"
    return H.l2t_e2e(d['opts'], d['s'], True)


def oracle(c):
    d = c['desc']
    try:
        if d.get('origin') == 'definitions':
            from pylatexenc.latex2text import LatexNodes2Text
            r = H.outcome(lambda: LatexNodes2Text(**d['opts']).latex_to_text(d['s'], latex_context=docgen.make_db('defs')))
        else:
            r = H.l2t_e2e(d['opts'], d['s'], True)
    except RecursionError:
        if d.get('origin') == 'nesting-beyond-interpreter-stack':
            return ('latex_to_text-raised-RecursionError:nesting-beyond-interpreter-stack', {'length': len(d['s'])})
        return ('latex_to_text-raised-RecursionError', {})
    if r.startswith('ok '):
        return None
    if r.startswith('exn '):
        return ('latex_to_text-raised-%s' % r[4:], {})
    return ('latex_to_text-returned-non-string', {'result': r})


def distribution(cases, impl_out):
    return {'origins': dict(collections.Counter(c['desc']['origin'] for c in cases)),
            'with_fill_text(real code only)': sum(1 for c in cases if not c['desc']['modelled']),
            'math_mode': dict(collections.Counter(c['desc']['opts'].get('math_mode', 'text') for c in cases)),
            'strict_latex_spaces': dict(collections.Counter(str(c['desc']['opts'].get('strict_latex_spaces', False)) for c in cases))}
