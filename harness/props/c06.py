"""C06 — tolerant mode: total, equals strict on valid input, keeps pre-error content."""
import treedump
import parsecommon as PC

PID = 'C06'
PROJECTION = 'outcome + spans, strict and tolerant'
RULE = ('every input is parsed in strict and in tolerant mode: all strings up to 2 (3) symbols over the LaTeX-significant '
        'alphabet per context, token soups, structured documents, single-fault documents (stray closing tokens, garbage). '
        'Wall-time guard: 10 s per case. Non-trivial: the strict parse fails (recovery is exercised).')
EXHAUSTIVE = {'quick': True, 'thorough': True}
ASSUMPTIONS = ['model of the parser stack validated only by this correspondence',
               '"content before the first error is kept" is operationalised conservatively: with p the strict error position and '
               'm the largest m <= p such that s[:m] parses strictly, every top-level node of strict(s[:m]) that is followed by '
               'a later non-whitespace, non-comment node appears unchanged at the same index of the tolerant result, and a last '
               'text node is kept as a prefix; the exact tolerant result is compared with the model on every case',
               'C06_terminates / C06_total / C06_strict_outcome are proved for every string and EVERY context: the model\'s '
               'recursion budget depends on the context, parse_fuel s cx = len(s)*(8+max_args cx) + 40 + max_args cx, where '
               'max_args cx is the maximal number of argument slots of any specification of cx (C06_fuel_is; '
               'C06_many_slots_terminate: an 11-slot context on which the former constant budget 8*len+40 was exhausted, '
               'C06_constant_fuel_not_enough); fuel is only a recursion bound: more fuel never changes a result (C06_run_mono)',
               '"bounded time" is proved as termination of the model within an explicit recursion budget; wall-clock time '
               'of the real code is only guarded by the per-case timeout of the correspondence']
PARTIAL = ['C06_prefix (the nodes parsed before the first strict error are still returned) is proved in Coq for valid content '
           'that is a document of the CORE grammar of C02 (Doc/DocGrammar.v; all such documents, all contexts) written at top '
           'level: C06_prefix_closing_partial (document, then a stray } / \\) / \\] / \\end{x} - stray_wf excludes $ and $$ '
           '(k <> MDollar, k <> MDollars): they are not closing tokens, after a document they open a formula -, then ANY garbage: the tolerant '
           'result is EXACTLY the document\'s node list tree_of, trailing whitespace included, reader right after the token), '
           'C06_prefix_partial / C06_prefix_items_partial (document, then ANY continuation that does not start with a letter or '
           'whitespace when the document has no trailing whitespace; every context: the result is a node list that begins with '
           'the document\'s settled nodes = tree_of minus a text run still pending at the end, which the continuation may '
           'extend: C06_tree_settled_partial, example C06_prefix_trailing_run), C06_collector_keeps_nodes (every tolerant '
           'collector, any input: pushed nodes are never dropped). For valid content that is a document of the EXTENDED grammar '
           '(Doc/DocGrammar2.v: environments, specials, optional / star / single-token / verbatim arguments, verbatim) only the '
           'stray-closing-token theorem is lifted: C06_prefix_closing2_partial / C06_prefix_closing2_items_partial (document, '
           'then a stray } / \\) / \\] / \\end{x}, then ANY garbage: the tolerant result is EXACTLY the document\'s node list '
           'tree_of2, reader right after the token), under the hypothesis ok_doc2_before: the document is well formed IN FRONT '
           'OF what is appended (the side conditions of the extended grammar look at the follow string; ok_doc2 alone is not '
           'enough: C06_prefix2_follow_needed, a final comment without newline swallows the token; it IS enough for a document that '
           'ends with whitespace in a context whose specials sequences contain no backslash / closing brace: '
           'C06_prefix_closing2_ws_partial, C06_follow_extension_partial); it rests on two '
           'grammar-independent theorems about every string / context / state: C06_own_error_is_the_collectors and '
           'C06_collector_error_reproduced (a strict collector\'s own rejection of a token is reproduced verbatim by the '
           'tolerant collector). An unmatched OPENING delimiter at a top-level item boundary (the text of '
           'C05_fault_opening2_partial: items l1, whitespace, {, $, \\(, \\[ or $$, items l2, trailing whitespace, never closed): '
           'C06_prefix_opening2_partial ({) / C06_prefix_opening2_math_partial (math delimiters): the tolerant result is EXACTLY '
           'the nodes of l1 (and the whitespace), then ONE group / math node spanning to the end of the input whose body is the '
           'tree of l2 and the trailing whitespace - the valid prefix and what was collected inside the unclosed construct are '
           'kept; l2 ranges over the EXTENDED grammar, l1 over the CORE grammar only (the only tolerant-mode collector simulation '
           'that survives a recovered nested error is the core one of Proofs/PrefixSim.v; the lockstep argument needs a strict '
           'error that carries the collector\'s nodes), \\begin{name} as the inserted delimiter and nested insertion points are '
           'not covered. Arbitrary continuations of extended documents, and other valid content nested inside an unfinished '
           'construct, are covered by the correspondence of the exact tolerant trees and by the conservative oracle only']
REFUTED = []
CASE_TIMEOUT = 10.0
case_from_desc = PC.case_from_desc
distribution = PC.distribution


def gen_cases(seed, tier):
    cases = PC.stream(seed, tier, modes=(True,))
    # the model is asked for both modes of each input: strict twin cases
    twins = [PC.mk_case(c['desc']['ctx'], c['desc']['s'], False, c['desc']['origin']) for c in cases[::3]]
    cases += twins
    import random
    cases += PC.state_stream(random.Random(seed + 79), 400 if tier == 'quick' else 6000, modes=(True,))
    cases += PC.twin_cases(random.Random(seed + 81), 250 if tier == 'quick' else 4000, tolerant=(True,))
    cases += PC.deep_cases(True)
    # a context whose macros take comma-separated list arguments (real code only: that parser is outside the model)
    import docgen
    for s in docgen.exhaustive(docgen.SYM_COMMASEP, 3 if tier == 'quick' else 4):
        cases.append(PC.mk_case('commasep', s, True, 'commasep'))
    # the other standard parsers through LatexWalker.parse_content() as documented (the walker makes the token
    # reader itself), tolerant mode: real code only
    for pname in sorted(API_PARSERS):
        for s in docgen.exhaustive(['}', '{', '$', '\\)', '\\(', 'a', ' ', '\\textbf', '[', ']', '\\]', '%c\n'], 2):
            cases.append({'wire': [999], 'nt': True,
                          'desc': {'ctx': 'default', 's': s, 'tolerant': True, 'origin': 'parser-api', 'parser': pname}})
    return cases


def _mk_parsers():
    from pylatexenc.latexnodes import parsers as P
    return {
        'expression': lambda: P.LatexExpressionParser(),
        'expression-full': lambda: P.LatexExpressionParser(return_full_node_list=True),
        'group': lambda: P.LatexDelimitedGroupParser(delimiters=('{', '}')),
        'group-optional': lambda: P.LatexDelimitedGroupParser(delimiters=('[', ']'), optional=True),
        'math': lambda: P.LatexMathParser(math_mode_delimiters=('$', '$')),
        'star': lambda: P.LatexOptionalCharsMarkerParser('*'),
        'stdarg-m': lambda: P.LatexStandardArgumentParser('{'),
        'stdarg-o': lambda: P.LatexStandardArgumentParser('['),
        'single-node': lambda: P.LatexSingleNodeParser(),
    }


API_PARSERS = ['expression', 'expression-full', 'group', 'group-optional', 'math', 'star', 'stdarg-m', 'stdarg-o', 'single-node']


def _oracle_api(d):
    from pylatexenc.latexwalker import LatexWalker
    from pylatexenc.latexnodes import LatexWalkerError
    w = LatexWalker(d['s'], tolerant_parsing=True)
    try:
        w.parse_content(_mk_parsers()[d['parser']]())
    except LatexWalkerError:
        return None                 # a parse error / end of stream reported to the caller of a sub-parser
    except Exception as e:
        return ('tolerant-raised-%s' % type(e).__name__, {'parser': d['parser'], 'message': str(e)[:200]})
    return None


def impl(c):
    if c['desc'].get('origin') == 'parser-api':
        return 'BADIN'
    return PC.proj_spans(PC.impl_parse(c))


def same(m, i, c):
    return PC.proj_spans(m) == i


def oracle(c):
    d = c['desc']
    if d.get('origin') == 'parser-api':
        return _oracle_api(d)
    if d.get('origin') == 'chained-twin':
        bad = PC.oracle_twin(d)
        if bad:
            return bad
    if not d['tolerant']:
        return None
    s = d['s']
    rt = PC.real_parse(d)
    if rt[0] != 'ok':
        e = rt[1]
        if isinstance(e, RecursionError) and d.get('origin') == 'nesting-beyond-interpreter-stack':
            return ('tolerant-raised-RecursionError:nesting-beyond-interpreter-stack', {'length': len(s)})
        return ('tolerant-raised-%s' % type(e).__name__, {'message': str(e)[:200]})
    tnl = rt[1]
    if tnl is None:
        return ('tolerant-returned-None', {})
    rs = PC.real_parse(dict(d, tolerant=False))
    if rs[0] == 'exn':
        return None                                   # C05's business
    if rs[0] == 'ok':
        a, b = treedump.dump(rs[1]), treedump.dump(tnl)
        if a != b:
            return ('tolerant-differs-from-strict-on-valid-input', {'strict': a[:400], 'tolerant': b[:400]})
        return None
    p = rs[1].pos
    if p is None or len(s) > 60:
        return None
    T = list(tnl)
    for m in range(min(p, len(s)), -1, -1):
        r = PC.real_parse(dict(d, s=s[:m], tolerant=False))
        if r[0] == 'ok' and r[1] is not None:
            break
    else:
        return None
    W = list(r[1])

    def filler(n):
        k = treedump.kind(n)
        return k == '#' or (k == 'C' and not n.chars.strip())
    # a node is settled once a later non-filler node follows it in the valid prefix (it can no
    # longer take further optional arguments, merge with following characters, ...)
    last_solid = max([j for j, n in enumerate(W) if not filler(n)], default=-1)
    for i in range(max(last_solid, 0)):
        if i >= len(T) or treedump.dump(T[i]) != treedump.dump(W[i]):
            return ('content-before-error-lost', {'error_pos': p, 'valid_prefix_len': m, 'index': i,
                                                  'strict_of_prefix': treedump.dump(W[i])[:200],
                                                  'tolerant': treedump.dump(T[i])[:200] if i < len(T) else None})
    if m == p:
        # the valid prefix ends exactly where the error is: whatever follows the last solid node in the
        # prefix (whitespace that became a node of its own, comments) has been pushed before the error
        # is detected; a trailing whitespace node may only grow (never shrink or vanish)
        for i in range(max(last_solid, 0), len(W)):
            w = W[i]
            if i == last_solid and treedump.kind(w) == 'C':
                continue                               # the text rule below
            if i == last_solid and i == len(W) - 1:
                continue                               # a last solid node may still change (arguments, merging)
            if i == len(W) - 1 and treedump.kind(w) == 'C':
                if i >= len(T) or treedump.kind(T[i]) != 'C' or T[i].pos != w.pos or not T[i].chars.startswith(w.chars):
                    return ('whitespace-before-error-lost', {'error_pos': p, 'valid_prefix_len': m, 'index': i,
                                                             'strict_of_prefix': treedump.dump(w)[:200],
                                                             'tolerant': treedump.dump(T[i])[:200] if i < len(T) else None})
            elif i > last_solid and (i >= len(T) or treedump.dump(T[i]) != treedump.dump(w)):
                return ('content-before-error-lost', {'error_pos': p, 'valid_prefix_len': m, 'index': i,
                                                      'strict_of_prefix': treedump.dump(w)[:200],
                                                      'tolerant': treedump.dump(T[i])[:200] if i < len(T) else None})
    if m == p and last_solid >= 0 and treedump.kind(W[last_solid]) == 'C':
        i = last_solid
        w = W[i]
        if i >= len(T) or treedump.kind(T[i]) != 'C' or T[i].pos != w.pos or not T[i].chars.startswith(w.chars.rstrip()):
            return ('text-before-error-lost', {'error_pos': p, 'valid_prefix_len': m, 'index': i,
                                               'strict_of_prefix': treedump.dump(w)[:200],
                                               'tolerant': treedump.dump(T[i])[:200] if i < len(T) else None})
    return None
