"""C17 — a derived parsing state behaves exactly like a freshly built one."""
import itertools, random, collections
import tokharness as T

PID = 'C17'
PROJECTION = 'tokens+caches'
RULE = ('all chains of sub_context() calls up to length 2 (3 thorough) over 17 representative keyword sets '
        '(math mode / delimiter, the three delimiter lists, enable_* flags, escape, comment, forbidden, alpha, context), '
        'from 3 base states, x all strings up to 2 (3) symbols over an alphabet containing every configured delimiter, '
        'plus random chains to length 8 with random strings; model vs real: cached tables + full token read; '
        'oracle: derived vs ParsingState(**derived.get_fields()) and ancestors unchanged. Non-trivial: the chain '
        'changes at least one field that a cached table depends on. Stream `delta` (wire entry 1703): the public '
        'parsing-state delta objects - ParsingStateDelta(set_attributes=one of the 23 keyword sets or {}), '
        'ParsingStateDeltaEnterMathMode(delimiter None / $ / \\(), ParsingStateDeltaLeaveMathMode(), '
        'ParsingStateDeltaChained (length 0..4, None entries, nesting depth <= 3) - applied with '
        'get_updated_parsing_state(state, LatexWalker(s)) (default event handler) to each of the 3 base states: every '
        'new atomic delta x all strings up to 2 symbols, all 2-entry chains over 9 representative entries, and random '
        'trees with random strings; model (apply_delta) vs real: cached tables + full token read; oracle: result vs '
        'ParsingState(**result.get_fields()), the state the delta was applied to and every intermediate state of a '
        'chain unchanged, a chain acts as the step-by-step application of its entries, the delta object unchanged.')
EXHAUSTIVE = {'quick': True, 'thorough': True}
ASSUMPTIONS = ['parent immutability is by construction in the model; on the real objects it is checked by snapshotting '
               'get_fields() and the seven cached tables of every ancestor before/after',
               'delta objects: walker events (enter / leave math mode) are answered by the DEFAULT '
               'LatexWalkerParsingStateEventHandler of a plain LatexWalker; a user-supplied event handler and '
               'ParsingStateDeltaReplaceParsingState (which installs an arbitrary state object) are outside the model']
PARTIAL = []
REFUTED = []
CASE_TIMEOUT = 10.0

UPDATES = [
    {'in_math_mode': True},
    {'in_math_mode': False},
    {'in_math_mode': True, 'math_mode_delimiter': '$'},
    {'in_math_mode': True, 'math_mode_delimiter': '\\('},
    {'math_mode_delimiter': '$$'},
    {'math_mode_delimiter': None},
    # the same request with the keywords in the other order (a call's keyword order must not matter)
    {'math_mode_delimiter': '$', 'in_math_mode': True},
    {'math_mode_delimiter': '\\[', 'in_math_mode': True},
    {'latex_display_math_delimiters': [('$$', '$$')], 'latex_inline_math_delimiters': [('$', '$')], 'in_math_mode': False},
    {'latex_group_delimiters': [('{', '}'), ('[', ']')]},
    {'latex_inline_math_delimiters': [('$', '!')]},
    {'latex_inline_math_delimiters': [('$', '$'), ('\\(', '\\)')]},
    {'latex_display_math_delimiters': [('$', '?'), ('$$', '$$')]},
    {'latex_inline_math_delimiters': [('!', '$')], 'latex_display_math_delimiters': [('\\[', '\\]')]},
    # BOTH lists changed in one call so that a pair crosses the boundary (the concatenation of the lists stays what
    # it was), and the two lists exchanged
    {'latex_inline_math_delimiters': [('$', '$')],
     'latex_display_math_delimiters': [('\\(', '\\)'), ('$$', '$$'), ('\\[', '\\]')]},
    {'latex_inline_math_delimiters': [('$', '$'), ('\\(', '\\)'), ('$$', '$$')], 'latex_display_math_delimiters': [('\\[', '\\]')]},
    {'latex_inline_math_delimiters': [('$$', '$$'), ('\\[', '\\]')], 'latex_display_math_delimiters': [('$', '$'), ('\\(', '\\)')]},
    {'enable_math': False},
    {'enable_groups': False, 'enable_comments': False},
    {'macro_escape_char': '@', 'comment_start': '#'},
    {'forbidden_characters': '$'},
    {'ctx': ['~', '--']},
    {'enable_double_newline_paragraphs': False, 'macro_alpha_chars': 'ab'},
]
BASES = [
    ('default', dict(T.DEFAULT_FIELDS)),
    ('inmath', dict(T.DEFAULT_FIELDS, in_math_mode=True, math_mode_delimiter='$')),
    ('custom', dict(T.DEFAULT_FIELDS, latex_inline_math_delimiters=[('$', '!')], enable_environments=False, ctx=['~'])),
]
ALPHA = ['a', '$', '!', '?', '\\(', '\\)', '[', ']', '{', ' ', '\\[', '@', '#', '~', '\n']
CACHE_KEYS = {'in_math_mode', 'math_mode_delimiter', 'latex_group_delimiters', 'latex_inline_math_delimiters',
              'latex_display_math_delimiters'}


def _case(bname, base, chain, s, tol):
    return {'wire': T.w_case(base, chain, s, tol, True, [6], entry=1700),
            'desc': {'base': bname, 'chain': chain, 's': s, 'tolerant': tol},
            'nt': any(k in CACHE_KEYS for kw in chain for k in kw) and len(s) > 0}


# ---- stream `delta`: the public parsing-state delta objects -------------------------------------------------------
ENTER_DELIMS = [None, '$', '\\(']


def _d_set(kw):
    return {'t': 'set', 'kw': kw}


def _d_enter(d):
    return {'t': 'enter', 'd': d}


D_LEAVE = {'t': 'leave'}


def _d_chain(l):
    return {'t': 'chain', 'l': l}


def _delta_keys(d):
    if d is None:
        return set()
    if d['t'] == 'set':
        return set(d['kw'])
    if d['t'] == 'chain':
        return set().union(*[_delta_keys(x) for x in d['l']]) if d['l'] else set()
    return {'in_math_mode', 'math_mode_delimiter'}


def _delta_depth(d):
    if d is None or d['t'] != 'chain':
        return 0
    return 1 + max([_delta_depth(x) for x in d['l']] + [0])


def _delta_size(d):
    if d is None or d['t'] != 'chain':
        return 1
    return 1 + sum(_delta_size(x) for x in d['l'])


def _norm_delta(d):
    """a description read back from JSON (pairs have become lists)"""
    if d is None:
        return None
    if d['t'] == 'set':
        return _d_set({k: ([tuple(p) for p in v] if k.startswith('latex_') else v) for k, v in d['kw'].items()})
    if d['t'] == 'chain':
        return _d_chain([_norm_delta(x) for x in d['l']])
    return dict(d)


def _case_delta(bname, base, delta, s, tol):
    return {'wire': T.w_case_delta(base, delta, s, tol, True, [6], entry=1703),
            'desc': {'stream': 'delta', 'base': bname, 'delta': delta, 's': s, 'tolerant': tol},
            'nt': bool(_delta_keys(delta) & CACHE_KEYS) and len(s) > 0}


def _rand_delta(rnd, depth, top=False):
    if depth > 0 and rnd.random() < (0.75 if top else 0.3):
        return _d_chain([None if rnd.random() < 0.15 else _rand_delta(rnd, depth - 1)
                         for _ in range(rnd.randint(0, 4))])
    r = rnd.random()
    if r < 0.5:
        return _d_set({} if rnd.random() < 0.06 else rnd.choice(UPDATES))
    if r < 0.8:
        return _d_enter(rnd.choice(ENTER_DELIMS))
    return D_LEAVE


def _gen_delta_cases(rnd, tier, strings):
    cases = []
    # every atomic delta that is not a plain keyword set, on every string
    atoms = [_d_set({})] + [_d_enter(x) for x in ENTER_DELIMS] + [D_LEAVE, _d_chain([]), _d_chain([None])]
    for bname, base in BASES:
        for a in atoms:
            for s in strings:
                cases.append(_case_delta(bname, base, a, s, len(s) % 2 == 0))
        # every keyword set as a ParsingStateDelta, alone and between an enter / leave pair
        for kw in UPDATES:
            for s in rnd.sample(strings, 8):
                cases.append(_case_delta(bname, base, _d_set(kw), s, len(s) % 2 == 1))
                cases.append(_case_delta(bname, base, _d_chain([_d_enter('$'), _d_chain([None, _d_set(kw)]), D_LEAVE]),
                                         s, len(s) % 2 == 0))
    # all two-entry chains over representative entries
    reps = [_d_enter(None), _d_enter('$'), _d_enter('\\('), D_LEAVE, None, _d_set(UPDATES[18]), _d_set(UPDATES[10]),
            _d_set(UPDATES[4]), _d_chain([_d_enter('$'), _d_set(UPDATES[12])])]
    for bname, base in BASES:
        for a in reps:
            for b in reps:
                for s in rnd.sample(strings, 12 if tier == 'quick' else 40):
                    cases.append(_case_delta(bname, base, _d_chain([a, b]), s, rnd.random() < 0.5))
    for _ in range(3000 if tier == 'quick' else 30000):
        bname, base = rnd.choice(BASES)
        delta = _rand_delta(rnd, 3, top=True)
        s = ''.join(rnd.choice(ALPHA) for _ in range(rnd.randint(1, 12)))
        cases.append(_case_delta(bname, base, delta, s, rnd.random() < 0.5))
    return cases


def case_from_desc(d):
    base = dict(BASES)[d['base']]
    if d.get('stream') == 'delta':
        return _case_delta(d['base'], base, _norm_delta(d['delta']), d['s'], d['tolerant'])
    chain = [{k: ([tuple(p) for p in v] if k.startswith('latex_') else v) for k, v in kw.items()} for kw in d['chain']]
    return _case(d['base'], base, chain, d['s'], d['tolerant'])


def gen_cases(seed, tier):
    rnd = random.Random(seed)
    CL = 2 if tier == 'quick' else 3
    SL = 2 if tier == 'quick' else 2
    strings = [''.join(t) for n in range(SL + 1) for t in itertools.product(ALPHA, repeat=n)]
    cases = []
    for bname, base in BASES:
        for n in range(CL + 1):
            for ch in itertools.product(range(len(UPDATES)), repeat=n):
                chain = [UPDATES[i] for i in ch]
                if n <= 1 or bname == 'default':
                    ss = strings
                else:
                    ss = rnd.sample(strings, 12)
                if n == 3:
                    ss = rnd.sample(strings, 4)
                for s in ss:
                    cases.append(_case(bname, base, chain, s, (len(s) + n) % 2 == 0))
    for _ in range(500 if tier == 'quick' else 5000):
        bname, base = rnd.choice(BASES)
        chain = [rnd.choice(UPDATES) for _ in range(rnd.randint(1, 8))]
        s = ''.join(rnd.choice(ALPHA) for _ in range(rnd.randint(1, 12)))
        cases.append(_case(bname, base, chain, s, rnd.random() < 0.5))
    # environment calls under the escape character in force: one reader meets \\begin{e} under one state and
    # @begin{e} under a state derived from it (own generator)
    r5 = random.Random(seed * 7919 + 19)
    alpha2 = ['\\begin{e}', '@begin{e}', '\\end{e}', '@end{e}', '\\', '@', 'a', ' ', '\\begin', '@end', '{e}']
    esc = [u for u in UPDATES if 'macro_escape_char' in u]
    for _ in range(300 if tier == 'quick' else 3000):
        bname, base = r5.choice(BASES)
        chain = [r5.choice(UPDATES + esc * 6) for _ in range(r5.randint(1, 4))]
        s = ''.join(r5.choice(alpha2) for _ in range(r5.randint(1, 5)))
        cases.append(_case(bname, base, chain, s, r5.random() < 0.5))
    # the delta stream draws from its own generator: the streams above are what they were
    cases += _gen_delta_cases(random.Random(seed * 7919 + 17), tier, strings)
    return cases


def impl(c):
    d = c['desc']
    base = dict(BASES)[d['base']]
    if d.get('stream') == 'delta':
        ps, _, _, _ = T.apply_delta(base, d['delta'], d['s'])
        return T.run_script(ps, d['s'], d['tolerant'], [6], True)
    ps, _ = T.make_state(base, d['chain'], d['s'])
    return T.run_script(ps, d['s'], d['tolerant'], [6], True)


def _snapshot(ps):
    f = ps.get_fields()
    return (sorted((k, repr(v)) for k, v in f.items() if k not in ('s', 'latex_context')), id(f['latex_context']),
            T.dump_caches(ps))


def _fresh_mismatch(ps, s, PS):
    """None, or how ps differs from the state constructed directly with its field values"""
    fresh = PS(**ps.get_fields())
    ff, df = fresh.get_fields(), ps.get_fields()
    for k in df:
        if k not in ('s', 'latex_context') and ff.get(k) != df[k]:
            return ('derived-fields-differ-from-fresh', {'field': k, 'derived': repr(df[k]), 'fresh': repr(ff.get(k))})
    if ff.get('latex_context') is not df.get('latex_context'):
        return ('derived-fields-differ-from-fresh', {'field': 'latex_context'})
    if T.dump_caches(ps) != T.dump_caches(fresh):
        return ('derived-caches-differ-from-fresh', {'derived': T.dump_caches(ps), 'fresh': T.dump_caches(fresh)})
    for tol in (False, True):
        a = T.run_script(ps, s, tol, [6, 0, 1, 1], False)
        b = T.run_script(fresh, s, tol, [6, 0, 1, 1], False)
        if a != b:
            return ('derived-tokens-differ-from-fresh', {'derived': a, 'fresh': b, 'tolerant': tol})
    return None


def _oracle_delta(c):
    from pylatexenc.latexnodes import ParsingState as PS, ParsingStateDeltaChained
    d = c['desc']
    base_fields = dict(BASES)[d['base']]
    s = d['s']
    from pylatexenc.latexwalker import LatexWalker
    base = PS(s=s, **T._py_kwargs(base_fields, s))
    lw = LatexWalker(s)
    delta = T.make_delta(d['delta'], s)
    snap0 = _snapshot(base)          # BEFORE the delta sees the state
    rep0 = repr(delta)
    res = delta.get_updated_parsing_state(base, lw)
    if _snapshot(base) != snap0:
        return ('delta-parent-altered', {'delta': repr(delta), 'before': snap0[0], 'after': _snapshot(base)[0]})
    # the intermediate states of a top-level chain, obtained through the prefixes of the chain and kept alive
    held = [(base, snap0)]
    entries = delta.parsing_state_deltas if d['delta']['t'] == 'chain' else None
    if entries is not None:
        for k in range(1, len(entries) + 1):
            pk = ParsingStateDeltaChained(entries[:k]).get_updated_parsing_state(base, lw)
            held.append((pk, _snapshot(pk)))
    # apply the delta again, and once more to the result (the result becomes a parent itself)
    res2 = delta.get_updated_parsing_state(base, lw)
    again = delta.get_updated_parsing_state(res, lw)
    for a, snap in held:
        if _snapshot(a) != snap:
            return ('delta-parent-altered', {'delta': repr(delta)})
    if repr(delta) != rep0:
        return ('delta-object-altered', {'before': rep0, 'after': repr(delta)})
    if _snapshot(res2) != _snapshot(res):
        return ('delta-not-a-function-of-the-state', {'first': _snapshot(res)[0], 'second': _snapshot(res2)[0]})
    # the state obtained through the delta vs the state constructed directly with the same field values
    bad = _fresh_mismatch(res, s, PS)
    if bad:
        return bad
    bad = _fresh_mismatch(again, s, PS)
    if bad:
        return (bad[0], dict(bad[1], applied='twice'))
    # a chain acts as the step-by-step application of its entries (None entries skipped)
    if entries is not None:
        ps = base
        for e in entries:
            if e is not None:
                ps = e.get_updated_parsing_state(ps, lw)
        if _snapshot(ps) != _snapshot(res):
            return ('delta-chain-is-not-the-fold-of-its-entries', {'chain': _snapshot(res)[0], 'fold': _snapshot(ps)[0]})
        if held[-1][1] != _snapshot(res):
            return ('delta-chain-is-not-the-fold-of-its-entries', {'chain': _snapshot(res)[0], 'prefixes': held[-1][1][0]})
    # the requested values of a walker event are in effect
    t = d['delta']['t']
    f = res.get_fields()
    if t == 'enter' and (f['in_math_mode'] is not True or f['math_mode_delimiter'] != d['delta']['d']):
        return ('update-not-applied', {'event': 'enter_math_mode', 'in_math_mode': f['in_math_mode'],
                                       'math_mode_delimiter': repr(f['math_mode_delimiter'])})
    if t == 'leave' and (f['in_math_mode'] is not False or f['math_mode_delimiter'] is not None):
        return ('update-not-applied', {'event': 'leave_math_mode', 'in_math_mode': f['in_math_mode'],
                                       'math_mode_delimiter': repr(f['math_mode_delimiter'])})
    return None


def oracle(c):
    from pylatexenc.latexnodes import ParsingState
    d = c['desc']
    if d.get('stream') == 'delta':
        return _oracle_delta(c)
    base = dict(BASES)[d['base']]
    s = d['s']
    from pylatexenc.latexnodes import ParsingState as PS
    ps = PS(s=s, **T._py_kwargs(base, s))
    ancestors = [(ps, _snapshot(ps))]
    for kw in d['chain']:
        ps = ps.sub_context(**T._py_kwargs(kw, s))
        for a, snap in ancestors:
            if _snapshot(a) != snap:
                return ('parent-altered', {'after_update': kw})
        ancestors.append((ps, _snapshot(ps)))
    fresh = PS(**ps.get_fields())
    # a freshly built state with the same field values HAS the same field values (the constructor's own
    # normalisations - no math delimiter outside math mode - are already in effect in the derived state)
    ff, df = fresh.get_fields(), ps.get_fields()
    for k in df:
        if k not in ('s', 'latex_context') and ff.get(k) != df[k]:
            return ('derived-fields-differ-from-fresh', {'field': k, 'derived': repr(df[k]), 'fresh': repr(ff.get(k))})
    if T.dump_caches(ps) != T.dump_caches(fresh):
        return ('derived-caches-differ-from-fresh', {'derived': T.dump_caches(ps), 'fresh': T.dump_caches(fresh)})
    for tol in (False, True):
        a = T.run_script(ps, s, tol, [6, 0, 1, 1], False)
        b = T.run_script(fresh, s, tol, [6, 0, 1, 1], False)
        if a != b:
            return ('derived-tokens-differ-from-fresh', {'derived': a, 'fresh': b, 'tolerant': tol})
    # ONE token reader handed every state of the chain in turn, each built for the occasion and dropped afterwards
    # (what the parsers do when they probe for optional arguments): each reads like a reader of its own
    from pylatexenc.latexnodes import LatexTokenReader
    nst = len(d['chain']) + 1
    for tol in (False, True):
        tr = LatexTokenReader(s, tolerant_parsing=tol)
        for k in list(range(nst)) + list(range(nst - 1, -1, -1)) + list(range(nst)):
            pk, _ = T.make_state(base, d['chain'][:k], s)
            got = T.run_script_from(tr, pk, s)
            want = T.run_script(pk, s, tol, [6], False)
            del pk
            if got != want:
                return ('shared-reader-tokens-differ-from-own-reader', {'chain_prefix': k, 'shared_reader': got,
                                                                        'own_reader': want, 'tolerant': tol})
    # requested values are in effect (modulo the documented reset of a delimiter without math mode)
    if d['chain']:
        f = ps.get_fields()
        for k, v in d['chain'][-1].items():
            if k == 'ctx':
                continue
            if k == 'math_mode_delimiter':
                # documented reset: no delimiter outside math mode; inside math mode the requested one is in effect
                if f['in_math_mode'] and f[k] != v:
                    return ('update-not-applied', {'key': k, 'value': repr(f[k]), 'requested': repr(v)})
                continue
            pv = [tuple(p) for p in v] if k.startswith('latex_') else v
            if f[k] != pv:
                return ('update-not-applied', {'key': k, 'value': repr(f[k])})
    return None


def distribution(cases, impl_out):
    dl = [c for c in cases if c['desc'].get('stream') == 'delta']
    return {'chain_length': dict(collections.Counter(len(c['desc']['chain']) for c in cases if 'chain' in c['desc'])),
            'bases': dict(collections.Counter(c['desc']['base'] for c in cases)),
            'delta_cases': len(dl),
            'delta_kind': dict(collections.Counter(c['desc']['delta']['t'] for c in dl)),
            'delta_nesting_depth': dict(collections.Counter(_delta_depth(c['desc']['delta']) for c in dl)),
            'delta_tree_size': dict(collections.Counter(min(_delta_size(c['desc']['delta']), 20) for c in dl)),
            'cases_with_token_error': sum(1 for o in impl_out if isinstance(o, str) and ' ERR(' in o)}
