"""C17 — a derived parsing state behaves exactly like a freshly built one."""
import itertools, random, collections
import tokharness as T

PID = 'C17'
PROJECTION = 'tokens+caches'
RULE = ('all chains of sub_context() calls up to length 2 (3 thorough) over 17 representative keyword sets '
        '(math mode / delimiter, the three delimiter lists, enable_* flags, escape, comment, forbidden, alpha, context), '
        'from 3 base states, x all strings up to 2 (3) symbols over an alphabet containing every configured delimiter, '
        'plus random chains to length 8 with random strings; model vs real: cached tables + full token read; '
        'oracle: derived vs ParsingState(**derived.get_fields()) and ancestors unchanged. Non-trivial: the chain '
        'changes at least one field that a cached table depends on.')
EXHAUSTIVE = {'quick': True, 'thorough': True}
ASSUMPTIONS = ['parent immutability is by construction in the model; on the real objects it is checked by snapshotting '
               'get_fields() and the seven cached tables of every ancestor before/after']
PARTIAL = []
REFUTED = []
CASE_TIMEOUT = 10.0

UPDATES = [
    {'in_math_mode': True},
    {'in_math_mode': False},
    {'in_math_mode': True, 'math_mode_delimiter': '$'},
    {'in_math_mode': True, 'math_mode_delimiter': '\\('},
    {'math_mode_delimiter': '$$'},
    {'math_mode_delimiter': None},
    # the same request with the keywords in the other order (a call's keyword order must not matter)
    {'math_mode_delimiter': '$', 'in_math_mode': True},
    {'math_mode_delimiter': '\\[', 'in_math_mode': True},
    {'latex_display_math_delimiters': [('$$', '$$')], 'latex_inline_math_delimiters': [('$', '$')], 'in_math_mode': False},
    {'latex_group_delimiters': [('{', '}'), ('[', ']')]},
    {'latex_inline_math_delimiters': [('$', '!')]},
    {'latex_inline_math_delimiters': [('$', '$'), ('\\(', '\\)')]},
    {'latex_display_math_delimiters': [('$', '?'), ('$$', '$$')]},
    {'latex_inline_math_delimiters': [('!', '$')], 'latex_display_math_delimiters': [('\\[', '\\]')]},
    # BOTH lists changed in one call so that a pair crosses the boundary (the concatenation of the lists stays what
    # it was), and the two lists exchanged
    {'latex_inline_math_delimiters': [('$', '$')],
     'latex_display_math_delimiters': [('\\(', '\\)'), ('$$', '$$'), ('\\[', '\\]')]},
    {'latex_inline_math_delimiters': [('$', '$'), ('\\(', '\\)'), ('$$', '$$')], 'latex_display_math_delimiters': [('\\[', '\\]')]},
    {'latex_inline_math_delimiters': [('$$', '$$'), ('\\[', '\\]')], 'latex_display_math_delimiters': [('$', '$'), ('\\(', '\\)')]},
    {'enable_math': False},
    {'enable_groups': False, 'enable_comments': False},
    {'macro_escape_char': '@', 'comment_start': '#'},
    {'forbidden_characters': '$'},
    {'ctx': ['~', '--']},
    {'enable_double_newline_paragraphs': False, 'macro_alpha_chars': 'ab'},
]
BASES = [
    ('default', dict(T.DEFAULT_FIELDS)),
    ('inmath', dict(T.DEFAULT_FIELDS, in_math_mode=True, math_mode_delimiter='$')),
    ('custom', dict(T.DEFAULT_FIELDS, latex_inline_math_delimiters=[('$', '!')], enable_environments=False, ctx=['~'])),
]
ALPHA = ['a', '$', '!', '?', '\\(', '\\)', '[', ']', '{', ' ', '\\[', '@', '#', '~', '\n']
CACHE_KEYS = {'in_math_mode', 'math_mode_delimiter', 'latex_group_delimiters', 'latex_inline_math_delimiters',
              'latex_display_math_delimiters'}


def _case(bname, base, chain, s, tol):
    return {'wire': T.w_case(base, chain, s, tol, True, [6], entry=1700),
            'desc': {'base': bname, 'chain': chain, 's': s, 'tolerant': tol},
            'nt': any(k in CACHE_KEYS for kw in chain for k in kw) and len(s) > 0}


def case_from_desc(d):
    base = dict(BASES)[d['base']]
    chain = [{k: ([tuple(p) for p in v] if k.startswith('latex_') else v) for k, v in kw.items()} for kw in d['chain']]
    return _case(d['base'], base, chain, d['s'], d['tolerant'])


def gen_cases(seed, tier):
    rnd = random.Random(seed)
    CL = 2 if tier == 'quick' else 3
    SL = 2 if tier == 'quick' else 2
    strings = [''.join(t) for n in range(SL + 1) for t in itertools.product(ALPHA, repeat=n)]
    cases = []
    for bname, base in BASES:
        for n in range(CL + 1):
            for ch in itertools.product(range(len(UPDATES)), repeat=n):
                chain = [UPDATES[i] for i in ch]
                if n <= 1 or bname == 'default':
                    ss = strings
                else:
                    ss = rnd.sample(strings, 12)
                if n == 3:
                    ss = rnd.sample(strings, 4)
                for s in ss:
                    cases.append(_case(bname, base, chain, s, (len(s) + n) % 2 == 0))
    for _ in range(500 if tier == 'quick' else 5000):
        bname, base = rnd.choice(BASES)
        chain = [rnd.choice(UPDATES) for _ in range(rnd.randint(1, 8))]
        s = ''.join(rnd.choice(ALPHA) for _ in range(rnd.randint(1, 12)))
        cases.append(_case(bname, base, chain, s, rnd.random() < 0.5))
    return cases


def impl(c):
    d = c['desc']
    base = dict(BASES)[d['base']]
    ps, _ = T.make_state(base, d['chain'], d['s'])
    return T.run_script(ps, d['s'], d['tolerant'], [6], True)


def _snapshot(ps):
    f = ps.get_fields()
    return (sorted((k, repr(v)) for k, v in f.items() if k not in ('s', 'latex_context')), id(f['latex_context']),
            T.dump_caches(ps))


def oracle(c):
    from pylatexenc.latexnodes import ParsingState
    d = c['desc']
    base = dict(BASES)[d['base']]
    s = d['s']
    from pylatexenc.latexnodes import ParsingState as PS
    ps = PS(s=s, **T._py_kwargs(base, s))
    ancestors = [(ps, _snapshot(ps))]
    for kw in d['chain']:
        ps = ps.sub_context(**T._py_kwargs(kw, s))
        for a, snap in ancestors:
            if _snapshot(a) != snap:
                return ('parent-altered', {'after_update': kw})
        ancestors.append((ps, _snapshot(ps)))
    fresh = PS(**ps.get_fields())
    # a freshly built state with the same field values HAS the same field values (the constructor's own
    # normalisations - no math delimiter outside math mode - are already in effect in the derived state)
    ff, df = fresh.get_fields(), ps.get_fields()
    for k in df:
        if k not in ('s', 'latex_context') and ff.get(k) != df[k]:
            return ('derived-fields-differ-from-fresh', {'field': k, 'derived': repr(df[k]), 'fresh': repr(ff.get(k))})
    if T.dump_caches(ps) != T.dump_caches(fresh):
        return ('derived-caches-differ-from-fresh', {'derived': T.dump_caches(ps), 'fresh': T.dump_caches(fresh)})
    for tol in (False, True):
        a = T.run_script(ps, s, tol, [6, 0, 1, 1], False)
        b = T.run_script(fresh, s, tol, [6, 0, 1, 1], False)
        if a != b:
            return ('derived-tokens-differ-from-fresh', {'derived': a, 'fresh': b, 'tolerant': tol})
    # ONE token reader handed every state of the chain in turn, each built for the occasion and dropped afterwards
    # (what the parsers do when they probe for optional arguments): each reads like a reader of its own
    from pylatexenc.latexnodes import LatexTokenReader
    nst = len(d['chain']) + 1
    for tol in (False, True):
        tr = LatexTokenReader(s, tolerant_parsing=tol)
        for k in list(range(nst)) + list(range(nst - 1, -1, -1)) + list(range(nst)):
            pk, _ = T.make_state(base, d['chain'][:k], s)
            got = T.run_script_from(tr, pk, s)
            want = T.run_script(pk, s, tol, [6], False)
            del pk
            if got != want:
                return ('shared-reader-tokens-differ-from-own-reader', {'chain_prefix': k, 'shared_reader': got,
                                                                        'own_reader': want, 'tolerant': tol})
    # requested values are in effect (modulo the documented reset of a delimiter without math mode)
    if d['chain']:
        f = ps.get_fields()
        for k, v in d['chain'][-1].items():
            if k == 'ctx':
                continue
            if k == 'math_mode_delimiter':
                # documented reset: no delimiter outside math mode; inside math mode the requested one is in effect
                if f['in_math_mode'] and f[k] != v:
                    return ('update-not-applied', {'key': k, 'value': repr(f[k]), 'requested': repr(v)})
                continue
            pv = [tuple(p) for p in v] if k.startswith('latex_') else v
            if f[k] != pv:
                return ('update-not-applied', {'key': k, 'value': repr(f[k])})
    return None


def distribution(cases, impl_out):
    return {'chain_length': dict(collections.Counter(len(c['desc']['chain']) for c in cases)),
            'bases': dict(collections.Counter(c['desc']['base'] for c in cases)),
            'cases_with_token_error': sum(1 for o in impl_out if isinstance(o, str) and ' ERR(' in o)}
